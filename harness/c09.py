"""C09 — typed request-header accessors: correspondence of falcon.Request / falcon.asgi.Request
with the Coq model (coq/C09/Model.v) and evaluation of the RFC-level oracles
(coq/C09/Spec.v) on what the implementation returned or raised."""
import datetime as dtm
import email.utils
import http.cookies
import io
import itertools
import json
import sys

import common

REMOTE = '10.0.0.9'
SERVER = ('srv.example.org', 8080)


# --------------------------------------------------------------------------- request builders

def mk_wsgi(falcon, headers, scheme='http', path='/p', qs='', root='', remote=REMOTE, server=SERVER):
    env = {'REQUEST_METHOD': 'GET', 'PATH_INFO': path, 'QUERY_STRING': qs, 'SCRIPT_NAME': root,
           'SERVER_NAME': server[0], 'SERVER_PORT': str(server[1]), 'SERVER_PROTOCOL': 'HTTP/1.1',
           'wsgi.url_scheme': scheme, 'wsgi.input': io.BytesIO(b''), 'wsgi.errors': sys.stderr}
    if remote is not None:
        env['REMOTE_ADDR'] = remote
    for k, v in headers:
        key = k.upper().replace('-', '_')
        if key in ('CONTENT_TYPE', 'CONTENT_LENGTH'):
            env[key] = v
        else:
            env['HTTP_' + key] = v
    return falcon.Request(env)


ASGI_SCHEMES = [('http', 'http'), ('http', 'https'), ('http', None), ('websocket', 'ws'), ('websocket', 'wss'),
                ('websocket', None)]


def mk_asgi(falcon, headers, scheme='http', path='/p', qs='', root='', remote=REMOTE, server=SERVER, scope_type=None):
    """scheme 'ws'/'wss' (or scope_type='websocket') builds a websocket scope; scheme=None leaves the
    key out, so that the scope type's default (http / ws) applies"""
    import falcon.asgi
    if scope_type is None:
        scope_type = 'websocket' if scheme in ('ws', 'wss') else 'http'
    scope = {'type': scope_type, 'asgi': {'version': '3.0'}, 'http_version': '1.1',
             'path': path, 'raw_path': path.encode(), 'query_string': qs.encode(),
             'root_path': root, 'headers': [(k.lower().encode('latin-1'), v.encode('latin-1')) for k, v in headers],
             }
    if server is not None:
        scope['server'] = server
    if scope_type == 'http':
        scope['method'] = 'GET'
    if scheme is not None:
        scope['scheme'] = scheme
    if remote is not None:
        scope['client'] = (remote, 4711)

    async def receive():
        return {'type': 'http.request', 'body': b'', 'more_body': False}
    return falcon.asgi.Request(scope, receive)


def read(falcon, req, attr, conv=lambda v: v):
    """-> (0, value) | (1, status) for a 4xx HTTPError | (2, exception class name)"""
    try:
        v = getattr(req, attr)
        if callable(v) and not isinstance(v, (str, int)):
            v = v()
        return (0, conv(v))
    except falcon.HTTPError as e:
        code = int(str(e.status)[:3])
        return (1, code) if 400 <= code < 500 else (2, 'HTTPError %s' % code)
    except Exception as e:  # noqa: BLE001 - the class is the observation
        return (2, type(e).__name__)


def twice(falcon, req, attr, conv=lambda v: v):
    a = read(falcon, req, attr, conv)
    b = read(falcon, req, attr, conv)
    return a, b


# --------------------------------------------------------------------------- model output decoding

def m_res(v, f=lambda x: x):
    if v[0] == 0:
        return (0, f(v[1]))
    if v[0] == 1:
        return (1, 400)
    return (2, {0: 'ValueError', 1: 'IndexError', 2: 'KeyError'}[v[1]])


def m_optint(v):
    return common.wopt(v)


def m_optstr(v):
    return common.wopt(v, common.wstr)


def m_optpair(v):
    return tuple(v[0]) if v else None


def same(impl, mod):
    """impl (kind, payload) vs model (kind, payload): 4xx codes are all '400-class'."""
    if impl[0] != mod[0]:
        return False
    if impl[0] == 1:
        return True
    return impl[1] == mod[1]


# --------------------------------------------------------------------------- generators

def gen_digits(rng):
    r = rng.random()
    if r < 0.6:
        return str(rng.randint(0, 99999))
    if r < 0.8:
        return '0' * rng.randint(1, 3) + str(rng.randint(0, 999))
    return ''.join(rng.choice('0123456789') for _ in range(rng.randint(10, 30)))


MUT_CHARS = ' \t,;=-+_:[]"\\.*/aW1\xa0\x85\xe9\x00\x1f'


def mutate(rng, s):
    for _ in range(rng.randint(1, 2)):
        r = rng.random()
        i = rng.randint(0, len(s))
        if r < 0.4:
            s = s[:i] + rng.choice(MUT_CHARS) + s[i:]
        elif r < 0.6 and s:
            s = s[:max(i - 1, 0)] + s[i:]
        elif r < 0.75 and s:
            j = rng.randint(0, len(s) - 1)
            s = s[:j] + s[j] * 2 + s[j + 1:]
        elif r < 0.9:
            s = s[:i]
        else:
            s = s + s
    return s


def short_strings(alpha, maxlen):
    for n in range(0, maxlen + 1):
        for t in itertools.product(alpha, repeat=n):
            yield ''.join(t)


def gen_host(rng):
    name = rng.choice(['example.com', 'falcon.example.com', 'localhost', '173.203.44.122', 'a.b', 'x', 'EXAMPLE.org'])
    v6 = rng.choice(['::1', '2001:db8::7', '2001:4801:1221:101:1c10::f5:116', 'v1.x'])
    port = rng.choice(['', ':80', ':443', ':8080', ':0', ':65535', ':', ':007'])
    r = rng.random()
    if r < 0.55:
        return name + port
    if r < 0.85:
        return '[' + v6 + ']' + port
    return rng.choice([v6, name + ':abc', '[' + v6 + ']:x', name + ':8 0', '[' + v6, name + ':80:90', '[]', '[',
                       name + ':+80', name + ':-1', name + ': 80', '[' + v6 + ']80', name + ':8_0'])


def gen_node(rng):
    return rng.choice(['192.0.2.43', '"[2001:db8:cafe::17]"', '"[2001:db8:cafe::17]:4711"', '"192.0.2.43:47011"',
                       'unknown', '_hidden', '"_gazonk:_x"', '"192.0.2.43:_obf"', '"[::1]:_p"', 'a', '"a:b:c"',
                       '"x:"', '"[::1"', '"10.0.0.1:80"', '198.51.100.17'])


def gen_forwarded(rng):
    elems = []
    for _ in range(rng.randint(1, 3)):
        pairs = []
        for _ in range(rng.randint(1, 3)):
            k = rng.choice(['for', 'For', 'FOR', 'by', 'host', 'proto', 'Proto', 'ext', 'HOST'])
            if k.lower() in ('for', 'by'):
                v = gen_node(rng)
            elif k.lower() == 'host':
                v = rng.choice(['example.com', '"example.com:8080"', 'h', '"a b"', '"q\\"x"', '"b\\\\s"'])
            elif k.lower() == 'proto':
                v = rng.choice(['http', 'https', 'HTTPS', '"https"', 'ws'])
            else:
                v = rng.choice(['1', '"x y"', 'tok'])
            pairs.append(k + '=' + v)
        elems.append(rng.choice([';', '; ', ' ;']).join(pairs))
    return rng.choice([',', ', ', ' , ']).join(elems)


def gen_etag_list(rng):
    def one():
        v = ''.join(rng.choice('abcXYZ019-._~!#$%&()*+,/:;<=>?@[]^`{|}') for _ in range(rng.randint(0, 6)))
        return (rng.random() < 0.3, v)
    r = rng.random()
    if r < 0.1:
        return '*', [('*',)]
    tags = [one() for _ in range(rng.randint(1, 4))]
    sep = rng.choice([', ', ',', ' , ', ',  '])
    return sep.join(('W/' if w else '') + '"' + v + '"' for w, v in tags), tags


ETAGC = [chr(0x21)] + [chr(c) for c in range(0x23, 0x7F)] + ['\x80', '\xe9', '\xff']
TCHAR = "!#$%&'*+-.^_`|~" + '0123456789' + 'abcdefghijklmnopqrstuvwxyzABCDEFGHIJKLMNOPQRSTUVWXYZ'
COOKIE_OCTET = [chr(0x21)] + [chr(c) for c in list(range(0x23, 0x2C)) + list(range(0x2D, 0x3B)) + list(range(0x3C, 0x5C))
                              + list(range(0x5D, 0x7F))]
QDTEXT = ['\t', ' ', '!'] + [chr(c) for c in list(range(0x23, 0x5C)) + list(range(0x5D, 0x7F))]
QPCHAR = ['\t'] + [chr(c) for c in range(0x20, 0x7F)]


def rand_case(rng, name):
    return ''.join(c.upper() if rng.random() < 0.5 else c.lower() for c in name)


def ows(rng):
    return rng.choice(['', '', ' ', '\t', '  ', ' \t'])


def gen_etags_abnf(rng):
    """If-Match = "*" / 1#entity-tag (RFC 9110): OWS "," OWS separators, any etagc incl. obs-text"""
    if rng.random() < 0.08:
        return '*'
    tags = []
    for _ in range(rng.randint(1, 5)):
        v = ''.join(rng.choice(ETAGC) for _ in range(rng.choice([0, 1, 2, 3, 6, 12])))
        tags.append(('W/' if rng.random() < 0.35 else '') + '"' + v + '"')
    out = tags[0]
    for t in tags[1:]:
        out += ows(rng) + ',' + ows(rng) + t
    return out


def gen_cookie_abnf(rng):
    """cookie-string = cookie-pair *( ";" SP cookie-pair ) (RFC 6265 4.2.1)"""
    pairs = []
    names = ['a', 'b', 'SID', 'sid', 'x-y', "!#$%&'*+-.^_`|~", 'tok_1', 'A']
    for _ in range(rng.randint(1, 5)):
        n = rng.choice(names) if rng.random() < 0.7 else ''.join(rng.choice(TCHAR) for _ in range(rng.randint(1, 5)))
        v = ''.join(rng.choice(COOKIE_OCTET) for _ in range(rng.choice([0, 1, 2, 5, 9])))
        if rng.random() < 0.3:
            v = '"' + v + '"'
        pairs.append(n + '=' + v)
    return '; '.join(pairs)


def gen_quoted(rng):
    body = ''
    for _ in range(rng.choice([0, 1, 2, 4, 8])):
        if rng.random() < 0.25:
            body += '\\' + rng.choice(QPCHAR)
        else:
            body += rng.choice(QDTEXT)
    return '"' + body + '"'


def gen_node_abnf(rng):
    name = rng.choice(['192.0.2.43', '198.51.100.17', 'unknown', '_hidden', '_SEVKISEK', '_a.b-c_d', '[2001:db8:cafe::17]',
                       '[::1]', '[::ffff:192.0.2.1]'])
    port = rng.choice(['', '', ':4711', ':80', ':_obf', ':_x.y-z_1', ':0'])
    v = name + port
    return v if v[0] not in '[' and ':' not in v else '"' + v + '"'


def gen_forwarded_abnf(rng):
    """Forwarded = 1#forwarded-element (RFC 7239 4), parameters unique per element"""
    elems = []
    for _ in range(rng.randint(1, 4)):
        keys = rng.sample(['for', 'by', 'host', 'proto', 'ext', 'x-y'], rng.randint(1, 4))
        pairs = []
        for k in keys:
            if k in ('for', 'by'):
                v = gen_node_abnf(rng)
            elif k == 'host':
                v = rng.choice(['example.com', '"example.com:8080"', 'h', '"[::1]:81"']) if rng.random() < 0.7 else gen_quoted(rng)
            elif k == 'proto':
                v = rng.choice(['http', 'https', 'HTTPS', '"https"', 'ws', 'Wss'])
            else:
                v = ''.join(rng.choice(TCHAR) for _ in range(rng.randint(1, 4))) if rng.random() < 0.5 else gen_quoted(rng)
            pairs.append(rand_case(rng, k) + '=' + v)
        text = pairs[0]
        for p_ in pairs[1:]:
            text += rng.choice([';', ';', ';;']) + p_
        text = rng.choice(['', '', ';']) + text + rng.choice(['', '', ';'])
        elems.append(text)
    out = elems[0]
    for e in elems[1:]:
        out += ows(rng) + ',' + ows(rng) + e
    return out


def rfc_readings(model, op, values):
    """the RFC-level reading (coq/C09/SpecRfc.v) of every distinct header value: {} -> not valid"""
    uniq = sorted(set(values))
    outs = model.run_many([[op, v] for v in uniq]) if uniq else []
    return dict(zip(uniq, outs))


def rfc_violation(ctx, accessor, stack, header, value, impl, rfc, extra=None):
    d = {'what': 'valid %s header: req.%s differs from the RFC reading' % (header, accessor), 'accessor': accessor,
         'stack': stack, 'header': header, 'value': value, 'impl': repr(impl), 'rfc': repr(rfc)}
    d.update(extra or {})
    ctx.violation('accessor-differs-from-rfc-reading', d, key='rfc-%s-%s' % (accessor, stack))


def gen_cookie_header(rng):
    pairs = []
    for _ in range(rng.randint(1, 4)):
        n = rng.choice(['a', 'b', 'sid', 'A', 'x-y', 'tok_1', '!#$%&\'*+-.^_`|~', 'a b', 'a:b', '', 'é', '(x)'])
        v = rng.choice(['1', '', 'v=w', '"q"', '""', '"', '"a b"', '"x\\073y"', '"\\"in\\""', 'a"b', ' sp ', 'é', 'x,y',
                        '"unterminated', 'a\\b'])
        pairs.append(n + rng.choice(['=', '=', ' = ', '']) + v)
    return rng.choice(['; ', ';', ' ;  ']).join(pairs)


# --------------------------------------------------------------------------- sections

class Section:
    """Collects (meta, model case) pairs, runs the model in one batch, then judges."""

    def __init__(self, ctx, model):
        self.ctx, self.model = ctx, model
        self.cases, self.meta = [], []

    def add(self, case, meta):
        self.cases.append(case)
        self.meta.append(meta)

    def run(self):
        outs = self.model.run_many(self.cases) if self.cases else []
        return zip(self.meta, outs)


def crash_violation(ctx, accessor, stack, header, value, obs, extra=None):
    d = {'what': 'req.%s raised %s (neither a value nor a 400-class HTTP error)' % (accessor, obs[1]),
         'accessor': accessor, 'stack': stack, 'header': header, 'value': value, 'impl': repr(obs)}
    d.update(extra or {})
    ctx.violation('accessor-raised-non-http-exception', d, key='crash-%s-%s' % (accessor, stack))


def unstable_violation(ctx, accessor, stack, header, value, a, b):
    ctx.violation('accessor-not-stable',
                  {'what': 'second read of req.%s differs from the first' % accessor, 'accessor': accessor,
                   'stack': stack, 'header': header, 'value': value, 'first': repr(a), 'second': repr(b)},
                  key='unstable-%s-%s' % (accessor, stack))


disagreements = []


def disagree(accessor, stack, header, value, impl, mod, extra=None):
    d = {'what': 'req.%s differs from the model' % accessor, 'accessor': accessor, 'stack': stack,
         'header': header, 'value': value, 'impl': repr(impl), 'model': repr(mod)}
    d.update(extra or {})
    disagreements.append((accessor + '-' + stack, d))


def values_for(ctx, valid_gen, alpha, n_random, maxlen):
    rng = ctx.rng
    vals = []
    for _ in range(n_random):
        v = valid_gen(rng)
        vals.append(v)
        if rng.random() < 0.6:
            vals.append(mutate(rng, v))
    vals += list(short_strings(alpha, maxlen))
    return vals


def check_content_length(ctx, model, falcon, quick):
    sec = Section(ctx, model)
    vals = values_for(ctx, gen_digits, '01-+ _a\xa0', 400 if quick else 4000, 3 if quick else 5)
    vals += ['9' * 4300, '9' * 4301, ' ' + '1' * 30, '\x1f7', '٣'.encode('utf-8').decode('latin-1')]
    for v in vals:
        for stack, mk in (('wsgi', mk_wsgi), ('asgi', mk_asgi)):
            req = mk(falcon, [('Content-Length', v)])
            a, b = twice(falcon, req, 'content_length')
            sec.add([0, stack == 'asgi', [v]], (v, stack, a, b))
            sec.add([20, v, a[0], [a[1]] if a[0] == 0 and a[1] is not None else []], None)
    res = list(sec.run())
    for i in range(0, len(res), 2):
        (v, stack, a, b), out = res[i]
        ok = res[i + 1][1]
        mod = m_res(out, m_optint)
        ctx.count('content_length')
        ctx.note_case(('cl', stack, v), a[0] == 0 and a[1] is not None)
        if a[0] == 2:
            crash_violation(ctx, 'content_length', stack, 'Content-Length', v, a)
        elif not ok:
            ctx.violation('accessor-differs-from-rfc-reading',
                          {'accessor': 'content_length', 'stack': stack, 'header': 'Content-Length', 'value': v,
                           'impl': repr(a)}, key='rfc-cl-' + stack)
        elif a != b:
            unstable_violation(ctx, 'content_length', stack, 'Content-Length', v, a, b)
        elif not same(a, mod):
            disagree('content_length', stack, 'Content-Length', v, a, mod)


def gen_range(rng):
    unit = rng.choice(['bytes', 'bytes', 'items', 'x'])
    r = rng.random()
    if r < 0.4:
        return '%s=%s-%s' % (unit, gen_digits(rng), gen_digits(rng))
    if r < 0.6:
        return '%s=%s-' % (unit, gen_digits(rng))
    if r < 0.8:
        return '%s=-%s' % (unit, gen_digits(rng))
    return rng.choice(['bytes=0-0,-1', 'bytes=', 'bytes', '=1-2', 'bytes=-', 'bytes=-0', 'bytes=5-1', 'bytes=1-2-3',
                       'bytes= 1 - 2', 'bytes=+1-+2', 'bytes=1_0-2_0', 'bytes==1-2', 'bytes=--3', 'bytes=1--3'])


def check_range(ctx, model, falcon, quick):
    sec = Section(ctx, model)
    vals = values_for(ctx, gen_range, 'b=-10, +', 500 if quick else 5000, 4 if quick else 5)
    for v in vals:
        for stack, mk in (('wsgi', mk_wsgi), ('asgi', mk_asgi)):
            req = mk(falcon, [('Range', v)])
            a, b = twice(falcon, req, 'range')
            u, u2 = twice(falcon, req, 'range_unit')
            sec.add([1, [v]], (v, stack, a, b, u, u2))
            sec.add([2, [v]], None)
            val = [list(a[1])] if a[0] == 0 and a[1] is not None else []
            sec.add([21, v, a[0], val], None)
    res = list(sec.run())
    for i in range(0, len(res), 3):
        (v, stack, a, b, u, u2), out = res[i]
        mod = m_res(out, m_optpair)
        modu = m_res(res[i + 1][1], m_optstr)
        ok = res[i + 2][1]
        ctx.count('range')
        ctx.note_case(('range', stack, v), a[0] == 0)
        if a[0] == 2 or u[0] == 2:
            crash_violation(ctx, 'range' if a[0] == 2 else 'range_unit', stack, 'Range', v, a if a[0] == 2 else u)
        elif not ok:
            ctx.violation('accessor-differs-from-rfc-reading',
                          {'accessor': 'range', 'stack': stack, 'header': 'Range', 'value': v, 'impl': repr(a)},
                          key='rfc-range-' + stack)
        elif a != b or u != u2:
            unstable_violation(ctx, 'range', stack, 'Range', v, (a, u), (b, u2))
        elif not same(a, mod):
            disagree('range', stack, 'Range', v, a, mod)
        elif not same(u, modu):
            disagree('range_unit', stack, 'Range', v, u, modu)


def check_host(ctx, model, falcon, quick, fixed=True):
    sec = Section(ctx, model)
    vals = values_for(ctx, gen_host, 'a.:[]1x ', 500 if quick else 5000, 4 if quick else 5)
    for v in vals:
        for stack, mk in (('wsgi', mk_wsgi), ('asgi', mk_asgi)):
            if stack == 'asgi':
                stype, sch = ctx.rng.choice(ASGI_SCHEMES)
                https = sch in ('https', 'wss')          # the scheme's default port: ws = 80, wss = 443
                req = mk(falcon, [('Host', v)], scheme=sch, scope_type=stype)
                stack = 'asgi' if stype == 'http' and sch else 'asgi-%s-%s' % (stype, sch)
            else:
                https = ctx.rng.random() < 0.5
                req = mk(falcon, [('Host', v)], scheme='https' if https else 'http')
            h, h2 = twice(falcon, req, 'host')
            p, p2 = twice(falcon, req, 'port')
            s, s2 = twice(falcon, req, 'subdomain')
            n, n2 = twice(falcon, req, 'netloc')
            sec.add([3, fixed, [v], SERVER[0]], (v, stack, https, h, h2, p, p2, s, s2, n, n2))
            sec.add([4, fixed, [v], https, SERVER[1]], None)
            sec.add([5, fixed, [v], SERVER[0]], None)
            d = 443 if https else 80
            if h[0] == 0 and p[0] == 0:
                sec.add([22, v, [d], 0, h[1], [] if p[1] is None else [p[1]]], None)
            else:
                sec.add([22, v, [d], max(h[0], p[0]), '', []], None)
    res = list(sec.run())
    for i in range(0, len(res), 4):
        (v, stack, https, h, h2, p, p2, s, s2, n, n2), out = res[i]
        mh = m_res(out, common.wstr)
        mp = m_res(res[i + 1][1], m_optint)
        ms = m_res(res[i + 2][1], m_optstr)
        ok = res[i + 3][1]
        ctx.count('host')
        ctx.note_case(('host', stack, v, https), h[0] == 0 and h[1] != v)
        crashed = [(nm, o) for nm, o in (('host', h), ('port', p), ('subdomain', s), ('netloc', n)) if o[0] == 2]
        if crashed:
            crash_violation(ctx, crashed[0][0], stack, 'Host', v, crashed[0][1],
                            {'shape': 'host-port-not-a-number'})
        elif not ok:
            ctx.violation('accessor-differs-from-rfc-reading',
                          {'accessor': 'host/port', 'stack': stack, 'header': 'Host', 'value': v,
                           'impl': repr((h, p))}, key='rfc-host-' + stack)
        elif (h, p, s, n) != (h2, p2, s2, n2):
            unstable_violation(ctx, 'host/port/subdomain/netloc', stack, 'Host', v, (h, p, s, n), (h2, p2, s2, n2))
        elif n != (0, v):
            disagree('netloc', stack, 'Host', v, n, (0, v))
        elif not same(h, mh):
            disagree('host', stack, 'Host', v, h, mh)
        elif not same(p, mp):
            disagree('port', stack, 'Host', v, p, mp)
        elif not same(s, ms):
            disagree('subdomain', stack, 'Host', v, s, ms)
    # no Host header: server name / port fall-backs
    for stack, mk in (('wsgi', mk_wsgi), ('asgi', mk_asgi)):
        for scheme, server in (('http', ('srv', 80)), ('http', ('srv', 8080)), ('https', ('srv', 443)), ('https', ('srv', 80))):
            req = mk(falcon, [], scheme=scheme, server=server)
            exp_netloc = 'srv' if (scheme, server[1]) in (('http', 80), ('https', 443)) else 'srv:%d' % server[1]
            got = (read(falcon, req, 'host'), read(falcon, req, 'port'), read(falcon, req, 'netloc'))
            ctx.note_case(('host-fallback', stack, scheme, server[1]), True)
            if got != ((0, 'srv'), (0, server[1]), (0, exp_netloc)):
                disagree('host-fallback', stack, 'Host', None, got, exp_netloc)
    # ASGI websocket scopes and scopes without a scheme: the scheme's default port (ws = 80, wss = 443)
    for stype, sch in ASGI_SCHEMES:
        eff = sch or ('ws' if stype == 'websocket' else 'http')
        dflt = 443 if eff in ('https', 'wss') else 80
        for server in (('srv', 80), ('srv', 443), ('srv', 8080), None):
            req = mk_asgi(falcon, [], scheme=sch, scope_type=stype, server=server)
            name, port = server if server else ('localhost', dflt)
            exp_netloc = name if port == dflt else '%s:%d' % (name, port)
            got = (read(falcon, req, 'scheme'), read(falcon, req, 'host'), read(falcon, req, 'port'), read(falcon, req, 'netloc'),
                   read(falcon, req, 'prefix'))
            ctx.note_case(('host-fallback', 'asgi', stype, sch, server), True)
            if got != ((0, eff), (0, name), (0, port), (0, exp_netloc), (0, '%s://%s' % (eff, exp_netloc))):
                ctx.violation('accessor-differs-from-rfc-reading',
                              {'what': 'ASGI %s scope, scheme %r, server %r, no Host header' % (stype, sch, server),
                               'accessor': 'scheme/host/port/netloc/prefix', 'stack': 'asgi', 'impl': repr(got),
                               'expected': repr((eff, name, port, exp_netloc))}, key='rfc-asgi-fallback')


def etag_obs(v):
    if v is None:
        return None
    # ETag is a str subclass: ETag('*') == '*', so tell the wildcard apart by type
    return [(bool(t.is_weak), str(t)) if hasattr(t, 'is_weak') else ('*',) for t in v]


def m_etags(v):
    l = common.wopt(v)
    if l is None:
        return None
    return [('*',) if t[0] == 0 else (bool(t[1]), common.wstr(t[2])) for t in l]


def check_etags(ctx, model, falcon, quick):
    sec = Section(ctx, model)
    rng = ctx.rng
    vals = []
    for _ in range(500 if quick else 5000):
        text, tags = gen_etag_list(rng)
        vals.append((text, tags))
        if rng.random() < 0.6:
            vals.append((mutate(rng, text), None))
    for _ in range(800 if quick else 8000):
        text = gen_etags_abnf(rng)
        vals.append((text, None))
        if rng.random() < 0.4:
            vals.append((mutate(rng, text), None))
    vals += [(s, None) for s in short_strings('Ww/"a,* ', 4 if quick else 5)]
    rfc = rfc_readings(model, 30, [v for v, _ in vals])
    other_vals = ['"other"', 'W/"o1", "o2"', '*', '']
    for v, tags in vals:
        for stack, mk in (('wsgi', mk_wsgi), ('asgi', mk_asgi)):
            attr = rng.choice(['if_match', 'if_none_match'])
            other = 'if_none_match' if attr == 'if_match' else 'if_match'
            ov = rng.choice(other_vals)
            req = mk(falcon, [(rand_case(rng, attr.replace('_', '-')), v), (rand_case(rng, other.replace('_', '-')), ov)])
            if rng.random() < 0.5:      # the twin accessor is read first: its cache must not leak
                oa = read(falcon, req, other, etag_obs)
                a, b = twice(falcon, req, attr, etag_obs)
            else:
                a, b = twice(falcon, req, attr, etag_obs)
                oa = read(falcon, req, other, etag_obs)
            sec.add([6, [v]], (v, tags, stack, attr, a, b))
            sec.add([6, [ov]], (ov, None, stack, other, oa, oa))
    for (v, tags, stack, attr, a, b), out in sec.run():
        mod = (0, m_etags(out))
        ctx.count('etags')
        if rfc.get(v):
            ctx.count('etags-valid')
        ctx.note_case(('etag', stack, v), a[0] == 0 and a[1] is not None)
        if a[0] == 2:
            crash_violation(ctx, attr, stack, attr, v, a)
        elif tags is None and v in rfc and rfc[v] and a != (0, m_etags(rfc[v])):
            # the proved recogniser accepts the value: the accessor must return exactly its reading
            rfc_violation(ctx, attr, stack, attr, v, a, m_etags(rfc[v]))
        elif tags is not None and a != (0, [t if t == ('*',) else (t[0], t[1]) for t in tags]):
            # RFC reading of a generated valid list = the list it was rendered from
            ctx.violation('accessor-differs-from-rfc-reading',
                          {'accessor': attr, 'stack': stack, 'header': attr, 'value': v, 'impl': repr(a),
                           'rfc': repr(tags)}, key='rfc-etag-' + stack)
        elif a != b:
            unstable_violation(ctx, attr, stack, attr, v, a, b)
        elif a != mod:
            disagree(attr, stack, attr, v, a, mod)


def check_cookies(ctx, model, falcon, quick, fixed=True):
    sec = Section(ctx, model)
    rng = ctx.rng
    vals = []
    for _ in range(500 if quick else 5000):
        v = gen_cookie_header(rng)
        vals.append(v)
        if rng.random() < 0.5:
            vals.append(mutate(rng, v))
    for _ in range(800 if quick else 8000):
        v = gen_cookie_abnf(rng)
        vals.append(v)
        if rng.random() < 0.4:
            vals.append(mutate(rng, v))
    vals += list(short_strings('a=;" \\b', 4 if quick else 5))
    rfc = rfc_readings(model, 31, vals)
    for v in vals:
        for stack, mk in (('wsgi', mk_wsgi), ('asgi', mk_asgi)):
            req = mk(falcon, [(rand_case(rng, 'Cookie'), v)])
            a, b = twice(falcon, req, 'cookies', dict)
            sec.add([7, fixed, [v]], (v, stack, a, b, req))
    for (v, stack, a, b, req), out in sec.run():
        md = {}
        for name, vals_ in out:
            md[common.wstr(name)] = [common.wstr(x[1]) if x[0] == 0 else http.cookies._unquote(common.wstr(x[1]))
                                     for x in vals_]
        mod = (0, {k: l[0] for k, l in md.items()})
        ctx.count('cookies')
        ctx.note_case(('cookie', stack, v), a[0] == 0 and bool(a[1]))
        if a[0] == 2:
            crash_violation(ctx, 'cookies', stack, 'Cookie', v, a)
            continue
        if rfc.get(v):
            # valid cookie-string: pairs in order, grouped by name, quoted values through the _unquote oracle
            grouped = {common.wstr(n): [common.wstr(x[1]) if x[0] == 0 else http.cookies._unquote(common.wstr(x[1]))
                                        for x in vs] for n, vs in rfc[v][0][1]}
            ctx.count('cookies-valid')
            if a != (0, {k: l[0] for k, l in grouped.items()}):
                rfc_violation(ctx, 'cookies', stack, 'Cookie', v, a, grouped)
                continue
            bad = [(k, req.get_cookie_values(k)) for k, l in grouped.items() if req.get_cookie_values(k) != l]
            if bad or req.get_cookie_values('no-such-cookie') is not None:
                rfc_violation(ctx, 'get_cookie_values', stack, 'Cookie', v, bad, grouped)
                continue
        if a != b:
            unstable_violation(ctx, 'cookies', stack, 'Cookie', v, a, b)
        elif a != mod:
            disagree('cookies', stack, 'Cookie', v, a, mod)
        else:
            for name, l in md.items():
                got = read(falcon, req, 'get_cookie_values', lambda f: f)  # bound method
                try:
                    gv = req.get_cookie_values(name)
                except Exception as e:  # noqa: BLE001
                    crash_violation(ctx, 'get_cookie_values', stack, 'Cookie', v, (2, type(e).__name__))
                    break
                if gv != l:
                    disagree('get_cookie_values', stack, 'Cookie', v, gv, l)
                    break


def fwd_obs(v):
    if v is None:
        return None
    return [(f.src, f.dest, f.host, f.scheme) for f in v]


FWD_TOKENS = ['for=', 'by=', 'host=', 'proto=', 'a', '"', ';', ',', ' ', '\\', '1.2.3.4', ':80', ':_x', '[::1]',
              'x=', 'HTTPS']


def check_forwarded(ctx, model, falcon, quick, fixed=True):
    sec = Section(ctx, model)
    rng = ctx.rng
    vals = []
    for _ in range(600 if quick else 6000):
        v = gen_forwarded(rng)
        vals.append(v)
        if rng.random() < 0.5:
            vals.append(mutate(rng, v))
    for _ in range(900 if quick else 9000):
        v = gen_forwarded_abnf(rng)
        vals.append(v)
        if rng.random() < 0.4:
            vals.append(mutate(rng, v))
    for n in range(0, (3 if quick else 4) + 1):
        for t in itertools.product(FWD_TOKENS, repeat=n):
            vals.append(''.join(t))
    for v in vals:
        for stack, mk in (('wsgi', mk_wsgi), ('asgi', mk_asgi)):
            hdrs = [(rand_case(rng, 'Forwarded'), v)]
            xff = xreal = xproto = xhost = None
            if rng.random() < 0.2:
                hdrs = []
                v_used = None
                if rng.random() < 0.7:
                    xff = rng.choice(['1.1.1.1', ' 1.1.1.1 , 2.2.2.2', '', ',', REMOTE, 'a, ' + REMOTE, '1.1.1.1,2.2.2.2',
                                      '2001:db8::1 ,\t192.0.2.1', '1.1.1.1, ', 'a b, c'])
                    hdrs.append((rand_case(rng, 'X-Forwarded-For'), xff))
                if rng.random() < 0.5:
                    xreal = rng.choice(['3.3.3.3', '', REMOTE])
                    hdrs.append((rand_case(rng, 'X-Real-IP'), xreal))
                if rng.random() < 0.5:
                    xproto = rng.choice(['HTTPS', 'http', ''])
                    hdrs.append(('X-Forwarded-Proto', xproto))
                if rng.random() < 0.5:
                    xhost = rng.choice(['fw.example.com', 'fw:81', ''])
                    hdrs.append(('X-Forwarded-Host', xhost))
            else:
                v_used = v
                if rng.random() < 0.3:      # lower-priority headers next to Forwarded: they must be ignored
                    xff = rng.choice(['7.7.7.7', '7.7.7.7, 8.8.8.8'])
                    hdrs.append((rand_case(rng, 'X-Forwarded-For'), xff))
                    xreal = '6.6.6.6'
                    hdrs.append((rand_case(rng, 'X-Real-IP'), xreal))
                    xproto = rng.choice(['ftp', 'HTTPS'])
                    hdrs.append((rand_case(rng, 'X-Forwarded-Proto'), xproto))
                    xhost = 'xf.example.com'
                    hdrs.append((rand_case(rng, 'X-Forwarded-Host'), xhost))
            remote = rng.choice([REMOTE, REMOTE, None, '192.0.2.43'])
            req = mk(falcon, hdrs + [('Host', 'h.example.com:81')], remote=remote)
            f, f2 = twice(falcon, req, 'forwarded', fwd_obs)
            r, r2 = twice(falcon, req, 'access_route', list)
            fs, fs2 = twice(falcon, req, 'forwarded_scheme')
            fh, fh2 = twice(falcon, req, 'forwarded_host')
            # the model's remote: WSGI defaults a missing REMOTE_ADDR to 127.0.0.1, ASGI a missing client too
            mremote = remote if remote is not None else '127.0.0.1'
            sec.add([8, v_used or ''], (v_used, stack, hdrs, remote, f, f2, r, r2, fs, fs2, fh, fh2))
            sec.add([9, fixed, stack == 'asgi', common_opt(v_used), common_opt(xff), common_opt(xreal), mremote], None)
            sec.add([11, common_opt(v_used), common_opt(xproto), 'http'], None)
            sec.add([12, common_opt(v_used), common_opt(xhost), 'h.example.com:81'], None)
            # RFC-level readings (binding when the value is in the valid language)
            sec.add([32, v_used or ''], None)
            sec.add([33, stack == 'asgi', common_opt(v_used), common_opt(xff), common_opt(xreal), mremote], None)
            sec.add([34, common_opt(v_used), common_opt(xproto), 'http'], None)
            sec.add([35, common_opt(v_used), common_opt(xhost), 'h.example.com:81'], None)
    res = list(sec.run())
    for i in range(0, len(res), 8):
        (v, stack, hdrs, remote, f, f2, r, r2, fs, fs2, fh, fh2), out = res[i]
        mf = (0, [tuple(common.wopt(x, common.wstr) for x in e) for e in out] if v is not None else None)
        mr = m_res(res[i + 1][1], lambda l: [common.wstr(x) for x in l])
        mfs = (0, common.wstr(res[i + 2][1]))
        mfh = (0, common.wstr(res[i + 3][1]))
        ctx.count('forwarded')
        for j, nm in ((4, 'forwarded-valid'), (5, 'access_route-valid'), (6, 'forwarded_scheme-valid'),
                      (7, 'forwarded_host-valid')):
            if res[i + j][1] and (j != 4 or v is not None):
                ctx.count(nm)
        ctx.note_case(('fwd', stack, repr(hdrs), remote), f[0] == 0 and bool(f[1]))
        crashed = [(nm, o) for nm, o in (('forwarded', f), ('access_route', r), ('forwarded_scheme', fs),
                                         ('forwarded_host', fh)) if o[0] == 2]
        if crashed:
            crash_violation(ctx, crashed[0][0], stack, 'Forwarded', v, crashed[0][1],
                            {'headers': hdrs, 'shape': 'forwarded-node-port-not-a-number'})
        elif v is not None and res[i + 4][1] and f != (0, [tuple(common.wopt(x, common.wstr) for x in e)
                                                             for e in res[i + 4][1][0]]):
            rfc_violation(ctx, 'forwarded', stack, 'Forwarded', v, f,
                          [tuple(common.wopt(x, common.wstr) for x in e) for e in res[i + 4][1][0]], {'headers': hdrs})
        elif res[i + 5][1] and r != (0, [common.wstr(x) for x in res[i + 5][1][0]]):
            rfc_violation(ctx, 'access_route', stack, 'Forwarded', v, r, [common.wstr(x) for x in res[i + 5][1][0]],
                          {'headers': hdrs, 'remote': remote})
        elif res[i + 6][1] and fs != (0, common.wstr(res[i + 6][1][0])):
            rfc_violation(ctx, 'forwarded_scheme', stack, 'Forwarded', v, fs, common.wstr(res[i + 6][1][0]),
                          {'headers': hdrs})
        elif res[i + 7][1] and fh != (0, common.wstr(res[i + 7][1][0])):
            rfc_violation(ctx, 'forwarded_host', stack, 'Forwarded', v, fh, common.wstr(res[i + 7][1][0]),
                          {'headers': hdrs})
        elif (f, r, fs, fh) != (f2, r2, fs2, fh2):
            unstable_violation(ctx, 'forwarded/access_route', stack, 'Forwarded', v, (f, r, fs, fh), (f2, r2, fs2, fh2))
        elif f != mf:
            disagree('forwarded', stack, 'Forwarded', v, f, mf, {'headers': hdrs})
        elif not same(r, mr):
            disagree('access_route', stack, 'Forwarded', v, r, mr, {'headers': hdrs, 'remote': remote})
        elif fs != mfs:
            disagree('forwarded_scheme', stack, 'Forwarded', v, fs, mfs, {'headers': hdrs})
        elif fh != mfh:
            disagree('forwarded_host', stack, 'Forwarded', v, fh, mfh, {'headers': hdrs})


def common_opt(x):
    return [] if x is None else [x]


UACC = ['uri', 'prefix', 'relative_uri', 'forwarded_uri', 'forwarded_prefix']


def check_urls(ctx, model, falcon, quick):
    sec = Section(ctx, model)
    rng = ctx.rng
    for _ in range(300 if quick else 3000):
        for stack, mk in (('wsgi', mk_wsgi), ('asgi', mk_asgi)):
            hdrs = []
            if rng.random() < 0.8:
                hdrs.append(('Host', rng.choice(['example.com', 'example.com:8080', '[::1]:81', 'a.b:443'])))
            if rng.random() < 0.4:
                hdrs.append(('Forwarded', rng.choice(['for=1.2.3.4;proto=https;host=fw.example.com',
                                                      'host="x:1"', 'proto=HTTP', 'for=a', ''])))
            elif rng.random() < 0.5:
                hdrs.append(('X-Forwarded-Proto', rng.choice(['https', 'HTTP'])))
                if rng.random() < 0.5:
                    hdrs.append(('X-Forwarded-Host', 'xf.example.com'))
            scheme = rng.choice(['http', 'https'] if stack == 'wsgi' else ['http', 'https', 'ws', 'wss', None])
            path = rng.choice(['/', '/a/b', '/a/', '/x%20y', '/é'.encode().decode('latin-1') if stack == 'wsgi' else '/é'])
            qs = rng.choice(['', 'a=1', 'a=1&b=2', 'q=%20'])
            root = rng.choice(['', '/app', '/app/v1'])
            req = mk(falcon, hdrs, scheme=scheme, path=path, qs=qs, root=root,
                     server=rng.choice([('srv', 80), ('srv', 443), ('srv', 8000)]))
            order = [rng.randrange(5) for _ in range(rng.randint(1, 8))]
            try:
                e = [req.scheme, req.netloc, req.root_path, req.path, req.query_string, req.forwarded_scheme,
                     req.forwarded_host]
            except Exception as ex:  # noqa: BLE001
                crash_violation(ctx, 'scheme/netloc/...', stack, 'Host', repr(hdrs), (2, type(ex).__name__))
                continue
            got = [read(falcon, req, UACC[i]) for i in order]
            sec.add([10, e, order], (stack, hdrs, e, order, got))
    for (stack, hdrs, e, order, got), out in sec.run():
        mod = [(0, common.wstr(x)) for x in out]
        ctx.count('urls')
        ctx.note_case(('url', stack, repr(hdrs), repr(e), tuple(order)), len(set(order)) < len(order))
        if any(g[0] == 2 for g in got):
            crash_violation(ctx, 'uri/prefix/...', stack, 'Host', repr(hdrs), [g for g in got if g[0] == 2][0])
        elif got != mod:
            # stability is part of this comparison: the model proves reads = fresh values
            fresh_by_acc = {}
            unstable = False
            for i, g in zip(order, got):
                if i in fresh_by_acc and fresh_by_acc[i] != g:
                    unstable = True
                fresh_by_acc.setdefault(i, g)
            if unstable:
                unstable_violation(ctx, 'uri/prefix/relative_uri/forwarded_uri/forwarded_prefix', stack, 'Host',
                                   repr(hdrs), got, mod)
            else:
                disagree('url-composition', stack, 'Host', repr(hdrs), got, mod, {'env': e, 'order': order})


def check_lookup_and_dates(ctx, model, falcon, quick):
    """Header lookup in every casing; HTTP-date and entity-tag values written by the response API
    read back to the same values (differential; dates relative to the stdlib formatter/parser)."""
    rng = ctx.rng
    names = ['X-Custom-Header', 'Content-Type', 'Content-Length', 'If-Match', 'X_Under', 'Accept', 'cookie']
    sec = Section(ctx, model)
    for _ in range(300 if quick else 3000):
        name = rng.choice(names)
        value = rng.choice(['v', '12', 'text/plain', 'x, y'])
        casing = ''.join(c.upper() if rng.random() < 0.5 else c.lower() for c in name)
        for stack, mk in (('wsgi', mk_wsgi), ('asgi', mk_asgi)):
            req = mk(falcon, [(name, value)])
            got = req.get_header(casing)
            ctx.count('lookup')
            ctx.note_case(('lookup', stack, name, casing), True)
            if got != value:
                ctx.violation('header-lookup-not-case-insensitive',
                              {'stack': stack, 'stored_as': name, 'asked_as': casing, 'value': value, 'got': got},
                              key='lookup-' + stack)
        sec.add([23, casing], (name, casing))
    for (name, casing), out in sec.run():
        if common.wstr(out) != name.upper().replace('-', '_'):
            disagree('get_header-name-mangling', 'wsgi', name, casing, common.wstr(out), name.upper().replace('-', '_'))
    for _ in range(300 if quick else 3000):
        dt = dtm.datetime(rng.randint(1971, 2099), rng.randint(1, 12), rng.randint(1, 28), rng.randint(0, 23),
                          rng.randint(0, 59), rng.randint(0, 59), tzinfo=dtm.timezone.utc)
        resp = falcon.Response()
        resp.last_modified = dt
        text = resp.get_header('Last-Modified')
        etag_val = ''.join(rng.choice('abcXYZ019-._~!#$%&()*+,/:;<=>?@[]^`{|}') for _ in range(rng.randint(1, 6)))
        resp.etag = etag_val
        etext = resp.get_header('ETag')
        bad = mutate(rng, text)
        for stack, mk in (('wsgi', mk_wsgi), ('asgi', mk_asgi)):
            attr = rng.choice(['if_modified_since', 'if_unmodified_since', 'date'])
            hname = {'if_modified_since': 'If-Modified-Since', 'if_unmodified_since': 'If-Unmodified-Since', 'date': 'Date'}[attr]
            req = mk(falcon, [(hname, text), ('If-None-Match', etext)])
            a, b = twice(falcon, req, attr)
            e, e2 = twice(falcon, req, 'if_none_match', etag_obs)
            ctx.count('date-roundtrip')
            ctx.note_case(('date', stack, text), True)
            if a[0] == 2 or e[0] == 2:
                crash_violation(ctx, attr, stack, hname, text, a if a[0] == 2 else e)
            elif a != (0, dt) or a != b:
                ctx.violation('response-date-does-not-read-back',
                              {'stack': stack, 'accessor': attr, 'written': repr(dt), 'header_text': text,
                               'read': repr(a), 'second': repr(b)}, key='date-rt-' + stack)
            elif e != (0, [(False, etag_val)]) or e != e2:
                ctx.violation('response-etag-does-not-read-back',
                              {'stack': stack, 'written': etag_val, 'header_text': etext, 'read': repr(e)},
                              key='etag-rt-' + stack)
            req = mk(falcon, [(hname, bad)])
            a, b = twice(falcon, req, attr)
            ctx.note_case(('date-bad', stack, bad), a[0] == 1)
            if a[0] == 2:
                crash_violation(ctx, attr, stack, hname, bad, a)
            elif a != b:
                unstable_violation(ctx, attr, stack, hname, bad, a, b)
            elif a[0] == 0 and a[1] is not None and bad != text:
                # a lenient reading must at least agree with the stdlib's RFC 5322 reader when that accepts
                try:
                    ref = email.utils.parsedate_to_datetime(bad)
                except (TypeError, ValueError):
                    ref = None
                if ref is not None and ref.tzinfo is not None and ref != a[1]:
                    ctx.advisory.append({'date': bad, 'falcon': repr(a[1]), 'email.utils': repr(ref)})


# --------------------------------------------------------------------------- HTTP dates

IMF = '%a, %d %b %Y %H:%M:%S GMT'
DATE_ACCESSORS = [('date', 'Date'), ('if_modified_since', 'If-Modified-Since'),
                  ('if_unmodified_since', 'If-Unmodified-Since')]


def dt_fields(d):
    return [d.year, d.month, d.day, d.hour, d.minute, d.second]


def m_date(v):
    """wire option date -> tuple | None"""
    return tuple(v[0]) if v else None


def impl_parse(falcon, text, obs):
    try:
        d = falcon.http_date_to_dt(text, obs_date=obs)
    except ValueError:
        return None
    except Exception as e:  # noqa: BLE001
        return ('exc', type(e).__name__)
    if d.tzinfo is None or d.utcoffset() != dtm.timedelta(0) or d.microsecond:
        return ('not-utc', repr(d))
    return tuple(dt_fields(d))


def date_texts(ctx, quick):
    """texts for strptime: valid ones in all accepted shapes, and every kind of near miss"""
    rng = ctx.rng
    out = []
    base = 'Tue, 15 Nov 1994 12:45:26 GMT'
    # every numeric field on its own: all strings of 1..3 characters over digits and blank
    alpha = '0123456789 '
    fld = [''.join(t) for n in (1, 2, 3) for t in itertools.product(alpha, repeat=n)]
    two = [''.join(t) for n in (1, 2) for t in itertools.product('0123456789', repeat=n)] + ['100', '007', ' 5', '5 ', '٣']
    for f in fld:
        out.append('Tue, %s Nov 1994 12:45:26 GMT' % f)
    for f in two:
        out += ['Tue, 15 Nov 1994 %s:45:26 GMT' % f, 'Tue, 15 Nov 1994 12:%s:26 GMT' % f,
                'Tue, 15 Nov 1994 12:45:%s GMT' % f]
    for y in ['0000', '0001', '0999', '1000', '9999', '199', '19945', ' 199', '1 99', '19 4', '+199', '1_94', '１９９４']:
        out.append('Tue, 15 Nov %s 12:45:26 GMT' % y)
    # names: every casing, near misses, full names
    days = ['Mon', 'Tue', 'Wed', 'Thu', 'Fri', 'Sat', 'Sun']
    months = ['Jan', 'Feb', 'Mar', 'Apr', 'May', 'Jun', 'Jul', 'Aug', 'Sep', 'Oct', 'Nov', 'Dec']

    def casings(w):
        for bits in itertools.product((0, 1), repeat=len(w)):
            yield ''.join(c.upper() if b else c.lower() for c, b in zip(w, bits))
    for d in days:
        for c in casings(d):
            out.append('%s, 15 Nov 1994 12:45:26 GMT' % c)
    for m_ in months:
        for c in casings(m_):
            out.append('Tue, 15 %s 1994 12:45:26 GMT' % c)
    for w in ['Tues', 'Tu', 'Tuesday', 'Xyz', '', 'Mon,', 'Sunday', 'Thurs', 'T\xfce']:
        out.append('%s, 15 Nov 1994 12:45:26 GMT' % w)
    for w in ['November', 'No', 'Nov.', 'Nvo', '11', 'M\xe4r', 'Sept']:
        out.append('Tue, 15 %s 1994 12:45:26 GMT' % w)
    for g in casings('GMT'):
        out.append('Tue, 15 Nov 1994 12:45:26 ' + g)
    for g in ['UTC', 'utc', 'Z', '+0000', 'EST', 'GM', 'GMTT', 'GMT ', 'GMT\n', '']:
        out.append('Tue, 15 Nov 1994 12:45:26 ' + g)
    # separators
    seps = ['', ' ', '  ', '\t', '\xa0', '\x85', '\x1f', '\n', ' \t ', '-', ',']
    parts = ['Tue,', '15', 'Nov', '1994', '12:45:26', 'GMT']
    for i in range(5):
        for sp_ in seps:
            out.append(' '.join(parts[:i + 1]) + sp_ + ' '.join(parts[i + 1:]))
    for pre in [' ', '\t', 'x']:
        out += [pre + base, base + pre]
    for c in [':', '.', ' ', '']:
        out += ['Tue, 15 Nov 1994 12%s45%s26 GMT' % (c, c), 'Tue%s 15 Nov 1994 12:45:26 GMT' % c]
    # the calendar: month lengths and leap years
    for y in (1, 4, 100, 400, 1900, 2000, 2023, 2024, 2100, 9999):
        for mi_, m_ in enumerate(months):
            for d in (1, 28, 29, 30, 31, 32):
                out.append('Tue, %02d %s %04d 00:00:00 GMT' % (d, m_, y))
    # obsolete forms (obs_date=True) and near misses
    out += ['Sunday, 06-Nov-94 08:49:37 GMT', 'Sun Nov  6 08:49:37 1994', 'Sun Nov 6 08:49:37 1994', 'Sun, 06-Nov-1994 08:49:37 GMT',
            'Sun, 06 Nov 1994 08:49:37 UTC', 'sunday, 6-nov-94 8:49:37 gmt', 'Sunday, 06-Nov-68 08:49:37 GMT',
            'Sunday, 06-Nov-69 08:49:37 GMT', 'Sunday, 06-Nov-00 08:49:37 GMT', 'Sunday, 06-Nov-1994 08:49:37 GMT',
            'Sun, 06-Nov-94 08:49:37 GMT', 'Sun Nov 06 08:49:37 1994 GMT', 'Sun Nov  6 08:49:37 94', 'Sunday, 06-Nov-94 08:49:37 EST',
            'Sunday, 06-Nov-94 08:49:37', 'Wednesday, 29-Feb-23 00:00:00 GMT', 'Thursday, 29-Feb-24 00:00:00 UTC',
            'Sun Feb 29 08:49:37 1900', 'Sun Feb 29 08:49:37 2000', 'SUN NOV\t6 08:49:37 1994']
    # valid IMF-fixdates of many days, and mutations of them
    for _ in range(300 if quick else 3000):
        d = rand_dt(rng)
        t = '%s, %02d %s %04d %02d:%02d:%02d GMT' % (days[d.weekday()], d.day, months[d.month - 1], d.year, d.hour,
                                                     d.minute, d.second)
        out.append(t)
        out.append(mutate(rng, t))
        if rng.random() < 0.3:      # a wrong day name is ignored by the reader
            out.append(rng.choice(days) + t[3:])
    return out


def rand_dt(rng):
    r = rng.random()
    if r < 0.25:
        y = rng.choice([1, 2, 4, 99, 100, 400, 999, 1000, 1582, 1899, 1900, 1970, 1999, 2000, 2038, 2100, 9998, 9999])
    else:
        y = rng.randint(1, 9999)
    m = rng.randint(1, 12)
    last = (dtm.date(y + (m == 12), m % 12 + 1, 1) - dtm.timedelta(days=1)).day if y < 9999 or m < 12 else 31
    d = rng.choice([1, last, rng.randint(1, last)])
    return dtm.datetime(y, m, d, rng.choice([0, 23, rng.randint(0, 23)]), rng.choice([0, 59, rng.randint(0, 59)]),
                        rng.choice([0, 59, rng.randint(0, 59)]))


def check_dates(ctx, model, falcon, quick):
    rng = ctx.rng
    utc = dtm.timezone.utc
    padded = dtm.datetime(1, 1, 1).strftime('%Y') == '0001'
    ctx.assumptions.append('strftime/strptime are modelled for the C locale names emitted into ConstsC09 '
                           '(platform %%Y padding: %s); datetimes at second resolution' % padded)
    # ---- (a) strftime and weekday against CPython: every day of the boundary years
    days = []
    for y in (1, 4, 100, 400, 999, 1000, 1900, 2000, 2024, 2100, 9999) if quick else \
            (1, 2, 4, 99, 100, 400, 999, 1000, 1582, 1600, 1899, 1900, 1970, 1999, 2000, 2023, 2024, 2038, 2100, 2400, 9998, 9999):
        d = dtm.date(y, 1, 1)
        while d.year == y:
            days.append(dtm.datetime(d.year, d.month, d.day, rng.choice([0, 9, 10, 23]), rng.choice([0, 5, 59]), rng.choice([0, 7, 59])))
            if d == dtm.date.max:
                break
            d += dtm.timedelta(days=1)
    outs = model.run_many([[40, padded, dt_fields(d)] for d in days])
    wds = model.run_many([[43, dt_fields(d)] for d in days])
    for d, o, w in zip(days, outs, wds):
        ctx.count('strftime')
        ctx.note_case(('strftime', d.isoformat()), True)
        if common.wstr(o) != d.strftime(IMF) or w != d.weekday():
            ctx.violation('lib-correspondence', {'broken': 'C09.DateModel.strftime_http/weekday', 'date': d.isoformat(),
                                                 'cpython': d.strftime(IMF), 'model': common.wstr(o), 'weekday': [w, d.weekday()]},
                          found_input=False, key='date-strftime')
            break
    # ---- (b) the reader on every kind of text: model, RFC reading, never another exception
    texts = date_texts(ctx, quick)
    latin = [t for t in texts if all(ord(c) < 256 for c in t)]
    cases = []
    for t in latin:
        cases += [[41, t, False], [41, t, True], [45, t]]
    outs = model.run_many(cases)
    corr = None
    for i, t in enumerate(latin):
        for k, obs in ((0, False), (1, True)):
            a = impl_parse(falcon, t, obs)
            mo_ = m_date(outs[3 * i + k])
            ctx.count('http_date_to_dt')
            ctx.note_case(('strptime', t, obs), a is not None)
            if isinstance(a, tuple) and a and a[0] in ('exc', 'not-utc'):
                ctx.violation('accessor-raised-non-http-exception',
                              {'what': 'http_date_to_dt: %r' % (a,), 'accessor': 'http_date_to_dt', 'value': t, 'obs_date': obs},
                              key='date-exc')
            elif a != mo_ and corr is None:
                corr = {'what': 'http_date_to_dt differs from the strptime model', 'value': t, 'obs_date': obs,
                        'impl': repr(a), 'model': repr(mo_)}
        rfc = m_date(outs[3 * i + 2])
        if rfc is not None:
            ctx.count('imf-fixdate-valid')
            for stack, mk in (('wsgi', mk_wsgi), ('asgi', mk_asgi)):
                acc, hname = rng.choice(DATE_ACCESSORS)
                req = mk(falcon, [(rand_case(rng, hname), t)])
                a, b = twice(falcon, req, acc)
                exp = dtm.datetime(*rfc, tzinfo=utc)
                if a[0] == 2:
                    crash_violation(ctx, acc, stack, hname, t, a)
                elif a != (0, exp) or a[1].utcoffset() != dtm.timedelta(0):
                    rfc_violation(ctx, acc, stack, hname, t, a, exp)
                elif a != b:
                    unstable_violation(ctx, acc, stack, hname, t, a, b)
    # invalid text -> 400-class only, on the accessors themselves
    for t in rng.sample(latin, min(len(latin), 1500 if quick else 8000)):
        for stack, mk in (('wsgi', mk_wsgi), ('asgi', mk_asgi)):
            acc, hname = rng.choice(DATE_ACCESSORS)
            if not t or (stack == 'asgi' and t != t.strip()):
                pass
            req = mk(falcon, [(hname, t)])
            a = read(falcon, req, acc)
            g = read(falcon, req, 'get_header_as_datetime', lambda f: f)
            try:
                g = (0, req.get_header_as_datetime(hname, obs_date=True))
            except falcon.HTTPError as e:
                g = (1, int(str(e.status)[:3]))
            except Exception as e:  # noqa: BLE001
                g = (2, type(e).__name__)
            ctx.count('date-accessor')
            ctx.note_case(('date-acc', stack, acc, t), a[0] == 0 and a[1] is not None)
            want = impl_parse(falcon, t, False) if t else None
            wantg = impl_parse(falcon, t, True) if t else None
            for nm, o, w in ((acc, a, want), ('get_header_as_datetime(obs_date=True)', g, wantg)):
                if o[0] == 2:
                    crash_violation(ctx, nm, stack, hname, t, o)
                elif t and (o[0] == 0) != (w is not None) or (o[0] == 0 and w is not None and o[1] is not None
                                                             and tuple(dt_fields(o[1])) != w):
                    if corr is None:
                        corr = {'what': 'req.%s differs from http_date_to_dt + 400 mapping' % nm, 'stack': stack,
                                'value': t, 'impl': repr(o), 'expected': repr(w)}
    if corr:
        ctx.violation('correspondence-broken', dict(corr, broken='C09.date_corr'),
                      found_input=any(v['found_input'] for v in ctx.violations), key='corr-date')
    # ---- (c) response setter -> header text -> request accessor, for naive and aware datetimes
    dts = []
    for _ in range(600 if quick else 6000):
        d = rand_dt(rng)
        r = rng.random()
        if r < 0.35:
            dts.append(d)
        elif r < 0.55:
            dts.append(d.replace(tzinfo=utc))
        else:
            off = rng.choice([3600, -3600, 19800, -34200, 50400, -43200, 1, -1, 86399, -86399, 7200, rng.randint(-86399, 86399)])
            dts.append(d.replace(tzinfo=dtm.timezone(dtm.timedelta(seconds=off))))
    dts += [dtm.datetime(2020, 1, 1, 12, 0, 0, tzinfo=dtm.timezone(dtm.timedelta(hours=2))), dtm.datetime(999, 12, 31, 23, 59, 59),
            dtm.datetime(1, 1, 1, 0, 0, 0, tzinfo=dtm.timezone(dtm.timedelta(hours=2))),
            dtm.datetime(9999, 12, 31, 23, 59, 59, tzinfo=dtm.timezone(dtm.timedelta(hours=-2))),
            dtm.datetime(999, 12, 31, 23, 0, 0, tzinfo=dtm.timezone(dtm.timedelta(hours=-1))),
            dtm.datetime(2024, 2, 29, 23, 59, 59, 999999), dtm.datetime(2000, 1, 1, 0, 0, 0, 1, tzinfo=utc)]
    mcases = []
    for d in dts:
        off = [] if d.tzinfo is None else [int(d.utcoffset().total_seconds())]
        mcases += [[42, True, dt_fields(d), off], [44, dt_fields(d), off]]
    mouts = model.run_many(mcases)
    corr = None
    written = []
    for i, d in enumerate(dts):
        mtext, mutc = mouts[2 * i], m_date(mouts[2 * i + 1])
        attr = rng.choice(['last_modified', 'expires'])
        hname = {'last_modified': 'Last-Modified', 'expires': 'Expires'}[attr]
        resp = falcon.Response()
        ctx.count('date-setter')
        ctx.note_case(('setter', repr(d), attr), True)
        try:
            setattr(resp, attr, d)
            text = resp.get_header(hname)
        except OverflowError:
            text = None
        except Exception as e:  # noqa: BLE001
            ctx.violation('accessor-raised-non-http-exception',
                          {'what': 'resp.%s = %r raised %s' % (attr, d, type(e).__name__), 'accessor': attr}, key='setter-exc')
            continue
        mt = common.wstr(mtext[1]) if mtext[0] == 0 else None
        if text != mt and corr is None:
            corr = {'what': 'resp.%s setter differs from the dt_to_http model' % attr, 'datetime': repr(d), 'impl': text, 'model': mt}
        if text is None:
            continue
        # the value written must read back: same instant, at second resolution (binding)
        try:
            want = (d if d.tzinfo is not None else d.replace(tzinfo=utc)).astimezone(utc).replace(microsecond=0)
        except OverflowError:
            continue        # the instant is outside datetime's range: nothing to read back
        shape = ('aware-non-utc' if d.tzinfo is not None and d.utcoffset() else
                 'year-below-1000' if want.year < 1000 else 'other')
        if mutc is not None and tuple(dt_fields(want)) != mutc and corr is None:
            corr = {'what': 'to_utc model differs from datetime.astimezone', 'datetime': repr(d), 'model': mutc}
        written.append((d, attr, text, want))
        for stack, mk in (('wsgi', mk_wsgi), ('asgi', mk_asgi)):
            acc, rname = rng.choice(DATE_ACCESSORS)
            req = mk(falcon, [(rand_case(rng, rname), text)])
            a, b = twice(falcon, req, acc)
            if a[0] == 2:
                crash_violation(ctx, acc, stack, rname, text, a)
            elif a != (0, want) or a != b:
                ctx.violation('response-date-does-not-read-back',
                              {'what': 'resp.%s = dt; req.%s of the header text is not dt' % (attr, acc), 'stack': stack,
                               'accessor': acc, 'setter': attr, 'written': repr(d), 'header_text': text,
                               'read': repr(a), 'expected': repr(want), 'shape': shape}, key='date-rt2-%s-%s' % (shape, stack))
    # what the setters wrote must be a strict RFC 9110 IMF-fixdate of that instant (proved for the model:
    # C09_date_written_is_imf_fixdate)
    for (d, attr, text, want), o in zip(written, model.run_many([[45, w[2]] for w in written])):
        if m_date(o) != tuple(dt_fields(want)):
            ctx.violation('response-date-not-imf-fixdate',
                          {'what': 'resp.%s = dt wrote a header that is not the IMF-fixdate of dt' % attr, 'setter': attr,
                           'written': repr(d), 'header_text': text, 'rfc_reading': repr(m_date(o)),
                           'expected': repr(want)}, key='date-not-imf')
    if corr:
        ctx.violation('correspondence-broken', dict(corr, broken='C09.date_setter_corr'),
                      found_input=any(v['found_input'] for v in ctx.violations), key='corr-date-setter')


# --------------------------------------------------------------------------- main

def main(ctx):
    import falcon
    import falcon.asgi
    model = common.Model(ctx)
    quick = ctx.tier == 'quick'
    ctx.assumptions += [
        'header values are latin-1 strings (PEP 3333 / ASGI bytes decoded as latin-1)',
        'http.cookies._unquote is an oracle (the model marks which values pass through it)',
        'HTTP-date parsing (datetime.strptime) is an oracle: only the 400 mapping and the round trip with the '
        'response API are checked (differentially)',
    ]
    ctx.cov['rule'] = ('per accessor: generated RFC-valid values, mutations of them, and all strings up to length '
                       '%d over a per-header alphabet, on Request objects built from a hand-made environ and ASGI '
                       'scope; every accessor read twice; exception class recorded. Binding: (a) any exception that '
                       'is not a 4xx HTTPError, (b) the RFC-level reader of Spec.v (cl_ok / range_ok / host_ok, '
                       'generated entity-tag lists) on the implementation value, (c) second read = first. '
                       'Model vs implementation differences are correspondence breaks. non-trivial = a value '
                       '(not None / not the raw header) came back' % (4 if quick else 5))
    for o in common.corpus('C09'):
        replay(ctx, o, quiet=True)
    check_content_length(ctx, model, falcon, quick)
    check_range(ctx, model, falcon, quick)
    check_host(ctx, model, falcon, quick)
    check_etags(ctx, model, falcon, quick)
    check_cookies(ctx, model, falcon, quick)
    check_forwarded(ctx, model, falcon, quick)
    check_urls(ctx, model, falcon, quick)
    check_lookup_and_dates(ctx, model, falcon, quick)
    check_dates(ctx, model, falcon, quick)
    seen = set()
    for key, detail in disagreements:
        if key in seen:
            continue
        seen.add(key)
        ctx.violation('correspondence-broken', dict(detail, broken='C09.%s_corr' % key),
                      found_input=any(v['found_input'] for v in ctx.violations), key='corr-' + key)
    ctx.sample({'host': 'example.com:8080', 'model': 'parse_host -> (example.com, 8080)'})


def replay(ctx, obj, quiet=False):
    """Re-run one recorded (accessor, header, value) on the current implementation."""
    import falcon
    import falcon.asgi
    if (obj.get('kind') != 'accessor-raised-non-http-exception' or 'accessor' not in obj
            or 'header' not in obj or obj.get('value') is None):
        # RFC-reading / stability / correspondence failures: re-run the (seeded, deterministic) check
        if not quiet:
            ctx.rng.seed(obj.get('seed', ctx.seed))
            main(ctx)
        return
    mk = mk_asgi if obj.get('stack') == 'asgi' else mk_wsgi
    hdrs = obj.get('headers') or [(obj['header'], obj['value'])]
    req = mk(falcon, [tuple(h) for h in hdrs])
    ctx.note_case('replay-' + str(obj.get('_file', obj.get('kind'))), True)
    accs = obj['accessor'].split('/') if obj['accessor'] in ('host/port',) else [obj['accessor']]
    for acc in accs:
        if not hasattr(type(req), acc):
            continue
        a = read(falcon, req, acc, lambda v: v if isinstance(v, (str, int, type(None))) else repr(v))
        ctx.sample({'replayed': obj.get('_file', obj.get('kind')), 'accessor': acc, 'impl': repr(a)})
        if a[0] == 2:
            crash_violation(ctx, acc, obj.get('stack', 'wsgi'), obj['header'], obj['value'], a,
                            {'shape': obj.get('shape')})
