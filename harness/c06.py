"""C06 — WSGI, ASGI and the test client are observationally equivalent.

One generated responder (a digest of ~45 request attributes, then a generated response) is
mounted on falcon.App and falcon.asgi.App; each abstract request is delivered four ways: own
PEP 3333 driver, own ASGI driver, falcon.testing on WSGI, falcon.testing on ASGI.  The four
(digest, status, headers, body) results must be equal.  The Coq model (coq/C06/Model.v) gives the
two encodings of the abstract request and the accessor views proved to agree; its predictions
are compared with the digests."""
import asyncio
import io
import json
import sys
import urllib.parse

import common

HDR_POOL = ['X-Custom', 'Accept', 'If-Match', 'If-None-Match', 'Range', 'X-Forwarded-For', 'X-Forwarded-Proto',
            'X-Forwarded-Host', 'Forwarded', 'Cookie', 'If-Modified-Since', 'Expect', 'X-Real-Ip', 'Referer',
            'Cache-Control', 'Accept-Language', 'Via']
SINGLETONS = {'content-length', 'content-type', 'cookie', 'expect', 'from', 'host', 'max-forwards', 'referer',
              'user-agent'}
READ_NAMES = ['x-custom', 'ACCEPT', 'Via', 'cache-control', 'Content-Type', 'content-length', 'Host', 'missing',
              'Accept-Language', 'COOKIE']


def etag_obs(v):
    if v is None:
        return None
    return [[bool(t.is_weak), str(t)] if hasattr(t, 'is_weak') else ['*'] for t in v]


def attr(req, name, conv=lambda v: v):
    try:
        return conv(getattr(req, name))
    except Exception as e:  # noqa: BLE001
        import falcon
        if isinstance(e, falcon.HTTPError):
            return 'HTTP %s' % str(e.status)[:3]
        return 'EXC ' + type(e).__name__


def digest(req, body):
    d = {}
    for n in ('method', 'path', 'query_string', 'content_type', 'content_length', 'host', 'port', 'scheme',
              'netloc', 'uri', 'url', 'relative_uri', 'prefix', 'forwarded_scheme', 'forwarded_host',
              'forwarded_uri', 'forwarded_prefix', 'remote_addr', 'range', 'range_unit', 'accept',
              'client_accepts_json', 'client_accepts_xml', 'user_agent', 'root_path', 'subdomain', 'expect',
              'referer', 'auth', 'if_range'):
        d[n] = attr(req, n, lambda v: list(v) if isinstance(v, tuple) else v)
    d['access_route'] = attr(req, 'access_route', list)
    d['params'] = attr(req, 'params', lambda p: sorted((k, v) for k, v in p.items()))
    d['cookies'] = attr(req, 'cookies', lambda c: sorted(c.items()))
    d['if_match'] = attr(req, 'if_match', etag_obs)
    d['if_none_match'] = attr(req, 'if_none_match', etag_obs)
    d['if_modified_since'] = attr(req, 'if_modified_since', lambda v: None if v is None else v.isoformat())
    d['date'] = attr(req, 'date', lambda v: None if v is None else v.isoformat())
    d['headers'] = attr(req, 'headers', lambda h: sorted((k.lower(), v) for k, v in h.items()))
    d['headers_lower'] = attr(req, 'headers_lower', lambda h: sorted(h.items()))
    for n in READ_NAMES:
        try:
            d['get_header:' + n] = req.get_header(n)
        except Exception as e:  # noqa: BLE001
            d['get_header:' + n] = 'EXC ' + type(e).__name__
    try:
        d['cookie_values:a'] = req.get_cookie_values('a')
    except Exception as e:  # noqa: BLE001
        d['cookie_values:a'] = 'EXC ' + type(e).__name__
    for n in ('q', 'a', 'n'):
        try:
            d['get_param:' + n] = req.get_param(n)
        except Exception as e:  # noqa: BLE001
            d['get_param:' + n] = 'EXC ' + type(e).__name__
    try:
        d['get_param_as_int:n'] = req.get_param_as_int('n')
    except Exception as e:  # noqa: BLE001
        import falcon
        d['get_param_as_int:n'] = 'HTTP 400' if isinstance(e, falcon.HTTPError) else 'EXC ' + type(e).__name__
    d['body'] = body.decode('latin-1')
    return d


def respond(falcon, resp, plan, dg):
    """Apply the generated response plan (identical code on both stacks)."""
    kind = plan['kind']
    for k, v in plan['set']:
        resp.set_header(k, v)
    for k, v in plan['append']:
        resp.append_header(k, v)
    for c in plan['cookies']:
        resp.set_cookie(c[0], c[1], **c[2])
    if kind == 'notfound':
        raise falcon.HTTPNotFound(title='nf', description=json.dumps(dg, sort_keys=True, default=repr))
    if kind == 'redirect':
        raise falcon.HTTPFound('/elsewhere?d=' + urllib.parse.quote(dg['path']))
    if kind == 'badrequest':
        raise falcon.HTTPBadRequest(title='bad', description='x')
    resp.status = plan['status']
    if kind == 'media':
        resp.media = {'digest': dg}
    elif kind == 'text':
        resp.text = json.dumps(dg, sort_keys=True, default=repr)
    elif kind == 'data':
        resp.data = json.dumps(dg, sort_keys=True, default=repr).encode()
        resp.content_type = 'application/octet-stream'
    elif kind == 'empty':
        resp.set_header('X-Digest-Path', urllib.parse.quote(dg['path']))
    elif kind == 'statusclass':
        # status classes x body sources x explicit/implicit content type x raised vs assigned
        resp.set_header('X-Digest-Path', urllib.parse.quote(dg['path']))
        if plan['ctype'] is not None:
            resp.content_type = plan['ctype']
        for attr_name, tag, value in plan['sources']:
            setattr(resp, attr_name, body_value(tag, value))
        st = status_value(plan['status_form'])
        if plan['via'] == 'raise-status':
            text = None
            for attr_name, tag, value in plan['sources']:
                if attr_name == 'text' and tag == 'str':
                    text = value
            raise falcon.HTTPStatus(st, headers={'X-Raised': '1'}, text=text)
        if plan['via'] == 'raise-error':
            raise falcon.HTTPError(st, title='t', description='d')
        resp.status = st
    elif kind == 'renderfail':
        # rendering the responder's answer fails AFTER the responder returned: the app hands the
        # exception to the error handlers and must send what THEY composed
        resp.set_header('X-Digest-Path', urllib.parse.quote(dg['path']))
        resp.media = unrenderable(plan['how'])
        if plan['how'] == 'no-handler':
            resp.content_type = plan['content_type']
    elif kind == 'bodies':
        # every subset of the three body sources, falsy-but-not-None values included, in any order
        resp.set_header('X-Digest-Path', urllib.parse.quote(dg['path']))
        for attr_name, tag, value in plan['sources']:
            setattr(resp, attr_name, body_value(tag, value))


STATUS_FORMS = [['int', 100], ['int', 101], ['int', 200], ['int', 201], ['int', 204], ['int', 301], ['int', 304],
                ['int', 400], ['int', 404], ['int', 500], ['int', 599], ['str', '299 Odd'], ['str', '204 No Content'],
                ['str', '101 Switching Protocols'], ['str', '304 Not Modified'], ['enum', 100], ['enum', 204],
                ['enum', 404], ['str', '100 Continue'], ['str', '204 Nothing here']]


def status_value(form):
    import http
    kind, v = form
    if kind == 'enum':
        return http.HTTPStatus(v)
    return v


def status_code_of(form):
    return int(str(form[1])[:3])


class Opaque:
    """not serializable by any media handler"""


def unrenderable(how):
    if how == 'unserializable':
        return Opaque()
    if how == 'unserializable-nested':
        return {'k': [1, Opaque()]}
    if how == 'unserializable-set':
        return {1, 2}
    return {'a': 1}          # 'no-handler': fine as JSON, but the content type has no handler


def custom_error(falcon, resp, ex, mode):
    """The generated custom error handler (same code on both stacks)."""
    resp.status = falcon.HTTP_500 if not isinstance(ex, falcon.HTTPError) else ex.status
    resp.set_header('X-Handled', type(ex).__name__)
    how, reset_ct = mode
    if reset_ct:
        resp.content_type = falcon.MEDIA_JSON
    if how == 'media':
        resp.media = {'error': type(ex).__name__, 'list': [1, 2]}
    elif how == 'media-falsy':
        resp.media = {}
    elif how == 'text':
        resp.text = 'custom error text \xe9'
    elif how == 'data':
        resp.data = b'custom error data'
    elif how == 'bad-media':
        resp.media = Opaque()          # second failure: the response must be bodiless
    elif how == 'nothing':
        pass
    elif how == 'raise-http':
        raise falcon.HTTPBadRequest(title='from handler', description='d')


def body_value(tag, value):
    if tag == 'bytes':
        return value.encode('latin-1')
    return value          # 'str', 'json' (any JSON value) or 'none'


# --------------------------------------------------------------------------- abstract requests

ADDRS = ['10.0.0.1', '10.0.0.2', '192.0.2.43', '::1', '198.51.100.7']


def gen_path(rng):
    if rng.random() < 0.45:
        # request-target grammar: no raw '?' in the path, but its percent-encoded form and friends
        toks = ['/', 'a', 'b', '%3F', '%2F', '+', '%20', '#', '%3f', '=', '&', '%23']
        return '/' + ''.join(rng.choice(toks) for _ in range(rng.randint(0, 5)))
    segs = []
    for _ in range(rng.randint(0, 3)):
        segs.append(rng.choice(['a', 'b1', 'x-y', '%C3%A9', '%E6%97%A5', '%FF', '%20', 'a%2Fb', '%E2%82', '~u', '%41',
                                'caf%C3%A9', '%F0%9F%98%80', '%C0%AF', '.', '+']))
    p = '/' + '/'.join(segs)
    if rng.random() < 0.25 and len(p) > 1:
        p += '/'
    return p


def gen_query(rng):
    r = rng.random()
    if r < 0.4:
        # the query may itself contain '?', '/', '#', encoded delimiters, '+' and encoded spaces
        toks = ['a', 'q', '?', '&', '=', '%3F', '%2F', '+', '%20', '/', '#', 'n=1', 'next=/items?page=2', '1']
        return ''.join(rng.choice(toks) for _ in range(rng.randint(0, 6)))
    parts = []
    for _ in range(rng.randint(0, 3)):
        parts.append(rng.choice(['q=1', 'a=b', 'a=c', 'n=42', 'n=x', 'e=', 'k', 'l=1,2', 'l=,', 's=%20%C3%A9', 'p=a+b',
                                 'q=%FF', '=v', 'a=%26']))
    return '&'.join(parts)


def gen_headers(rng):
    hs = []
    for _ in range(rng.randint(0, 5)):
        n = rng.choice(HDR_POOL)
        nl = n.lower()
        if nl == 'accept':
            v = rng.choice(['application/json', 'text/html, application/xml;q=0.9', '*/*', ''])
        elif nl in ('if-match', 'if-none-match'):
            v = rng.choice(['"abc"', 'W/"x", "y"', '*', ''])
        elif nl == 'range':
            v = rng.choice(['bytes=0-9', 'bytes=-5', 'items=1-', 'bytes=9-1', 'junk'])
        elif nl == 'x-forwarded-for':
            v = rng.choice([', ', ',', ' , ']).join(rng.choice(ADDRS) for _ in range(rng.randint(1, 3)))
        elif nl == 'x-forwarded-proto':
            v = rng.choice(['https', 'HTTP'])
        elif nl == 'x-forwarded-host':
            v = 'fw.example.com'
        elif nl == 'forwarded':
            def node():
                a = rng.choice(ADDRS)
                if ':' in a:
                    return rng.choice(['"[%s]"' % a, '"[%s]:4711"' % a])
                return rng.choice([a, '"%s:4711"' % a, '"%s:_o"' % a])
            v = rng.choice([', ', ',']).join(
                'for=' + node() + rng.choice(['', ';proto=https', ';host=f.example.com', ';by=' + rng.choice(ADDRS[:3])])
                for _ in range(rng.randint(1, 3)))
            if rng.random() < 0.15:
                v = rng.choice(['host="q\\"x"', '', 'proto=https'])
        elif nl == 'cookie':
            v = rng.choice(['a=1', 'a=1; b=2; a=3', 'a="q\\073z"', 'sid=""', 'junk'])
        elif nl == 'if-modified-since':
            v = rng.choice(['Tue, 15 Nov 1994 12:45:26 GMT', 'yesterday'])
        elif nl == 'x-real-ip':
            v = rng.choice(ADDRS)
        else:
            v = rng.choice(['v', 'a, b', 'caf\xe9', 'x y', '0'])
        hs.append((''.join(c.upper() if rng.random() < 0.5 else c.lower() for c in n), v))
    # no duplicated singleton header (valid_areq); the other duplicates are welcome
    out, seen = [], set()
    for n, v in hs:
        if n.lower() in SINGLETONS and n.lower() in seen:
            continue
        seen.add(n.lower())
        out.append((n, v))
    return out


def gen_req(rng):
    method = rng.choice(['GET', 'GET', 'POST', 'PUT', 'HEAD', 'DELETE', 'PATCH'])
    body = b''
    hs = gen_headers(rng)
    if method in ('POST', 'PUT', 'PATCH') and rng.random() < 0.8:
        body = rng.choice([b'{"k": [1, 2]}', b'hello', b'\xff\x00bin', b'{"bad json', b'x' * 70000, b''])
        hs.append(('Content-Type', rng.choice(['application/json', 'text/plain', 'application/json; charset=utf-8'])))
    scheme = rng.choice(['http', 'https'])
    host = rng.choice(['example.com', 'api.example.org', '127.0.0.1', '[::1]', 'localhost'])
    port = rng.choice([80, 443, 8080])
    # the documented spellings of the protocol version; '1' and '1.0' denote HTTP/1.0 (no Host header),
    # '2' and '2.0' HTTP/2
    http_version = rng.choice(['1.1', '1.1', '1.1', '1.1', '2', '2.0', '1.0', '1'])
    no_host = http_version in ('1', '1.0')
    if no_host and host.startswith('['):
        # falcon.testing uses `host` verbatim as SERVER_NAME; a server would drop the brackets
        host = 'localhost'
    return {'method': method, 'path': gen_path(rng), 'query': gen_query(rng), 'headers': hs, 'body': body,
            'scheme': scheme, 'host': host, 'port': port, 'root_path': rng.choice(['', '', '/app']),
            'remote': rng.choice(ADDRS),        # the peer is drawn from the same pool as the hops
            'style': rng.choice(['qs', 'inline', 'inline', 'params']),
            'no_host': no_host, 'http_version': http_version,
            # how the same request is spelled for falcon.testing
            'spell': {'port_none': rng.random() < 0.5, 'headers_dict': rng.random() < 0.5,
                      'body_str': rng.random() < 0.5, 'json_kw': rng.random() < 0.5,
                      'ct_kw': rng.random() < 0.5, 'cookies_kw': rng.random() < 0.5,
                      'root_none': rng.random() < 0.5, 'remote_default': False},
            'chunks': rng.randint(1, 3)}


def host_header(r):
    default = 443 if r['scheme'] == 'https' else 80
    return r['host'] if r['port'] == default else '%s:%d' % (r['host'], r['port'])


UA = 'verif-driver/1'


def full_headers(r):
    """What a client puts on the wire: generated headers + Host + User-Agent (+ Content-Length)."""
    hs = list(r['headers']) + [('User-Agent', UA)]
    if not r.get('no_host'):
        hs.append(('Host', host_header(r)))     # an HTTP/1.0 request may come without one
    if r['body']:
        hs.append(('Content-Length', str(len(r['body']))))
    return hs


# --------------------------------------------------------------------------- the four deliveries

def norm_result(status, headers, body, cookies=None):
    """Set-Cookie lines are compared as a name -> value map (falcon.testing.Result only exposes
    parsed cookies, not the raw lines)."""
    import http.cookies
    code = int(str(status)[:3])
    hl = sorted((k.lower(), v) for k, v in headers if k.lower() != 'set-cookie')
    if cookies is None:
        cookies = {}
        for k, v in headers:
            if k.lower() == 'set-cookie':
                name, _, rest = v.partition('=')
                cookies[name] = http.cookies._unquote(rest.split(';', 1)[0])
    return {'status': code, 'headers': [list(x) for x in hl], 'cookies': sorted(cookies.items()),
            'body': body.decode('latin-1')}


def drive_wsgi(app, r):
    raw = urllib.parse.unquote_to_bytes(r['path'])
    env = {'REQUEST_METHOD': r['method'], 'PATH_INFO': raw.decode('latin-1'), 'QUERY_STRING': r['query'],
           'SCRIPT_NAME': r['root_path'], 'SERVER_NAME': r['host'].strip('[]'), 'SERVER_PORT': str(r['port']),
           'SERVER_PROTOCOL': 'HTTP/' + canon_version(r), 'wsgi.url_scheme': r['scheme'], 'wsgi.input': io.BytesIO(r['body']),
           'wsgi.errors': io.StringIO(), 'REMOTE_ADDR': r['remote'], 'wsgi.version': (1, 0),
           'wsgi.multithread': False, 'wsgi.multiprocess': False, 'wsgi.run_once': False}
    for n, v in full_headers(r):
        key = n.upper().replace('-', '_')
        if key not in ('CONTENT_TYPE', 'CONTENT_LENGTH'):
            key = 'HTTP_' + key
        env[key] = (env[key] + ',' + v) if key in env else v      # PEP 3333 servers join duplicates
    got = {}

    def start_response(status, headers, exc_info=None):
        got['status'], got['headers'] = status, list(headers)
    it = app(env, start_response)
    body = b''.join(it)
    if hasattr(it, 'close'):
        it.close()
    return norm_result(got['status'], got['headers'], body)


def drive_asgi(app, r):
    raw = urllib.parse.unquote_to_bytes(r['path'])
    scope = {'type': 'http', 'asgi': {'version': '3.0', 'spec_version': '2.1'},
             'http_version': canon_version(r),
             'method': r['method'], 'scheme': r['scheme'], 'path': raw.decode('utf-8', 'replace'),
             'raw_path': r['path'].encode('ascii'), 'query_string': r['query'].encode('latin-1'),
             'root_path': r['root_path'],
             'headers': [(n.lower().encode('latin-1'), v.encode('latin-1')) for n, v in full_headers(r)],
             'server': (r['host'].strip('[]'), r['port']), 'client': (r['remote'], 4711)}
    body = r['body']
    n = r['chunks']
    size = max(1, (len(body) + n - 1) // n)
    chunks = [body[i:i + size] for i in range(0, len(body), size)] or [b'']
    events = []

    async def receive():
        if chunks:
            c = chunks.pop(0)
            return {'type': 'http.request', 'body': c, 'more_body': bool(chunks)}
        await asyncio.sleep(3600)

    async def send(ev):
        events.append(ev)

    async def go():
        task = asyncio.ensure_future(app(scope, receive, send))
        await asyncio.wait_for(task, 20)
    asyncio.run(go())
    start = [e for e in events if e['type'] == 'http.response.start'][0]
    out = b''.join(e.get('body', b'') for e in events if e['type'] == 'http.response.body')
    return norm_result(start['status'], [(k.decode('latin-1'), v.decode('latin-1')) for k, v in start['headers']], out)


def simple_params(query):
    """query strings that `params=` can express verbatim (k=v pairs of unreserved characters)"""
    if not query:
        return None
    out = {}
    for part in query.split('&'):
        k, eq, v = part.partition('=')
        if not eq or not k.isalnum() or not v.isalnum() or k in out:
            return None
        out[k] = v
    return out


def testing_target(r):
    """How the same request line is handed to falcon.testing: the query inline in `path`
    (also a bare trailing '?'), via query_string=, or via params=."""
    style = r.get('style', 'qs')
    if style == 'params':
        p = simple_params(r['query'])
        if p is not None:
            return dict(path=r['path'], params=p)
        style = 'inline'
    if style == 'inline' and (r['query'] or r.get('chunks', 1) == 2):
        return dict(path=r['path'] + '?' + r['query'])
    if r['query'].startswith('?'):
        # query_string= refuses a leading '?': only the inline form can express this request line
        return dict(path=r['path'] + '?' + r['query'])
    return dict(path=r['path'], query_string=r['query'])


def canon_version(r):
    v = r.get('http_version', '1.1')
    return {'1': '1.0', '2.0': '2'}.get(v, v)


def simple_cookies(value):
    """a Cookie header that `cookies=` can express verbatim"""
    out = {}
    for part in value.split('; '):
        k, eq, v = part.partition('=')
        if not eq or not k.isalnum() or not v.isalnum() or k in out:
            return None
        out[k] = v
    return out


def testing_kwargs(r):
    """The same request, spelled with the documented alternatives of the simulate_* options."""
    import json as json_mod
    sp = r.get('spell', {})
    default_port = 443 if r['scheme'] == 'https' else 80
    hs = list(r['headers']) + [('User-Agent', UA)]
    kw = dict(host=r['host'], protocol=r['scheme'], remote_addr=r['remote'], wsgierrors=io.StringIO(),
              http_version=r.get('http_version', '1.1'))
    kw['port'] = None if (sp.get('port_none') and r['port'] == default_port) else r['port']
    if r['root_path'] or not sp.get('root_none'):
        kw['root_path'] = r['root_path']            # '' and None both denote no root path
    body = r['body'] or None
    names = [n.lower() for n, _ in hs]
    unique = len(set(names)) == len(names)
    cts = [(n, v) for n, v in hs if n.lower() == 'content-type']
    # json= : the body is the serialization of the object, Content-Type is application/json
    if body and sp.get('json_kw') and unique and len(cts) == 1 and cts[0][1] == 'application/json':
        try:
            obj = json_mod.loads(body.decode('utf-8'))
            if json_mod.dumps(obj, ensure_ascii=False).encode() == body:
                hs = [h for h in hs if h[0].lower() != 'content-type']
                kw['json'] = obj
                body = None
        except ValueError:
            pass
    # content_type= instead of a Content-Type header (it is added last, like the header we remove)
    if 'json' not in kw and sp.get('ct_kw') and unique and len(cts) == 1:
        hs = [h for h in hs if h[0].lower() != 'content-type']
        kw['content_type'] = cts[0][1]
    # cookies= instead of a Cookie header (only when no explicit Cookie header remains)
    cks = [(n, v) for n, v in hs if n.lower() == 'cookie']
    if sp.get('cookies_kw') and len(cks) == 1 and r['method'] != 'OPTIONS':
        c = simple_cookies(cks[0][1])
        if c is not None:
            hs = [h for h in hs if h[0].lower() != 'cookie']
            kw['cookies'] = c
    if body is not None and sp.get('body_str'):
        try:
            body = body.decode('utf-8')            # a str body denotes its UTF-8 bytes
        except UnicodeDecodeError:
            pass
    if body is not None:
        kw['body'] = body
    kw['headers'] = dict(hs) if (sp.get('headers_dict') and len({n.lower() for n, _ in hs}) == len(hs)) else hs
    kw.update(testing_target(r))
    for k in ('json', 'content_type', 'cookies'):
        if k in kw:
            SPELL_COUNTS[k] = SPELL_COUNTS.get(k, 0) + 1
    SPELL_COUNTS['http_version=' + kw['http_version']] = SPELL_COUNTS.get('http_version=' + kw['http_version'], 0) + 1
    if kw['port'] is None:
        SPELL_COUNTS['port=None'] = SPELL_COUNTS.get('port=None', 0) + 1
    if isinstance(kw['headers'], dict):
        SPELL_COUNTS['headers=dict'] = SPELL_COUNTS.get('headers=dict', 0) + 1
    if isinstance(kw.get('body'), str):
        SPELL_COUNTS['body=str'] = SPELL_COUNTS.get('body=str', 0) + 1
    return kw


SPELL_COUNTS = {}


def drive_testing(testing, app, r):
    cl = testing.TestClient(app)
    res = cl.simulate_request(r['method'], **testing_kwargs(r))
    return norm_result(res.status, list(res.headers.items()), res.content,
                       {k: c.value for k, c in res.cookies.items()})


# --------------------------------------------------------------------------- main

def build_apps(falcon, opts, state, custom=False):
    import falcon.asgi

    class Res:
        def _h(self, req, resp):
            body = req.bounded_stream.read()
            dg = digest(req, body)
            state['digest'] = dg
            respond(falcon, resp, state['plan'], dg)
        on_get = on_post = on_put = on_head = on_delete = on_patch = _h

    class ARes:
        async def _h(self, req, resp):
            body = await req.stream.read()
            dg = digest(req, body)
            state['digest'] = dg
            respond(falcon, resp, state['plan'], dg)
        on_get = on_post = on_put = on_head = on_delete = on_patch = _h

    def sink(req, resp, **kw):
        Res()._h(req, resp)

    async def asink(req, resp, **kw):
        await ARes()._h(req, resp)

    from falcon import media as falcon_media

    def on_error(req, resp, ex, params):
        custom_error(falcon, resp, ex, state['plan']['err_mode'])

    async def a_on_error(req, resp, ex, params):
        custom_error(falcon, resp, ex, state['plan']['err_mode'])

    wapp, aapp = falcon.App(), falcon.asgi.App()
    for app in (wapp, aapp):
        app.req_options.strip_url_path_trailing_slash = opts[0]
        app.req_options.keep_blank_qs_values = opts[1]
        app.req_options.auto_parse_qs_csv = opts[2]
        # a registered non-JSON response handler, so that Accept can select it for error bodies
        app.resp_options.media_handlers[falcon.MEDIA_URLENCODED] = falcon_media.URLEncodedFormHandler()
    if custom:
        for cls in (Exception, falcon.HTTPUnsupportedMediaType):
            wapp.add_error_handler(cls, on_error)
            aapp.add_error_handler(cls, a_on_error)
    wapp.add_sink(sink, '/')
    aapp.add_sink(asink, '/')
    return wapp, aapp


TEXTS = [('none', None), ('str', ''), ('str', 'tx'), ('str', 'caf\xe9'), ('bytes', ''), ('bytes', 'raw')]
DATAS = [('none', None), ('bytes', ''), ('bytes', 'dt'), ('bytes', '\xff\x00')]
MEDIAS = [('none', None), ('json', {}), ('json', []), ('json', 0), ('json', False), ('json', ''), ('json', {'k': 1}),
          ('json', 'm'), ('json', [1, 2]), ('json', 0.5)]


def gen_sources(rng):
    srcs = []
    if rng.random() < 0.6:
        srcs.append(('text',) + rng.choice(TEXTS))
    if rng.random() < 0.6:
        srcs.append(('data',) + rng.choice(DATAS))
    if rng.random() < 0.6:
        srcs.append(('media',) + rng.choice(MEDIAS))
    rng.shuffle(srcs)
    return [list(x) for x in srcs]


def gen_plan(rng):
    kind = rng.choice(['media', 'text', 'data', 'empty', 'notfound', 'redirect', 'badrequest', 'text', 'media',
                       'bodies', 'bodies', 'bodies', 'bodies', 'renderfail', 'renderfail', 'renderfail',
                       'statusclass', 'statusclass', 'statusclass', 'statusclass', 'statusclass'])
    extra = {}
    if kind == 'statusclass':
        form = rng.choice(STATUS_FORMS)
        code = status_code_of(form)
        via = rng.choice(['assign', 'assign', 'raise-status'] + (['raise-error'] if code >= 400 else []))
        extra = {'status_form': form, 'via': via, 'method': rng.choice(['GET', 'HEAD', 'POST']),
                 'ctype': rng.choice([None, None, 'text/plain', 'application/json', 'application/x-custom']),
                 'sources': gen_sources(rng) if rng.random() < 0.7 else []}
        return dict(extra, kind=kind, **plan_common(rng, kind))
    if kind == 'renderfail':
        extra = {'how': rng.choice(['unserializable', 'unserializable-nested', 'unserializable-set', 'no-handler',
                                    'no-handler']),
                 'content_type': rng.choice(['application/x-unknown', 'text/plain', 'image/png; q=1', 'nonsense']),
                 'custom': rng.random() < 0.6,
                 'err_mode': [rng.choice(['media', 'media', 'media-falsy', 'text', 'data', 'bad-media', 'nothing',
                                          'raise-http']), rng.random() < 0.6],
                 'accept': rng.choice([None, '', '*/*', 'application/json', 'application/xml', 'text/xml', 'text/html',
                                       'application/x-www-form-urlencoded',
                                       'application/x-www-form-urlencoded;q=0.9, text/plain',
                                       'application/vnd.api+json', 'application/atom+xml', 'text/plain',
                                       'application/x-www-form-urlencoded, application/json;q=0.5', 'junk'])}
    return dict(extra, kind=kind, sources=gen_sources(rng) if kind == 'bodies' else [],
                **plan_common(rng, kind))


def plan_common(rng, kind):
    return {'status': rng.choice([200, 200, 201, 202]) if kind != 'empty' else rng.choice([200, 204]),
            'set': [(rng.choice(['X-A', 'Cache-Control', 'Vary']), rng.choice(['1', 'no-cache', 'Accept']))
                    for _ in range(rng.randint(0, 2))],
            'append': [rng.choice([('X-A', 'z'), ('X-A', 'raw=1'), ('Link', '</x>; rel=next'), ('Set-Cookie', 'raw=1'),
                                   ('Set-Cookie', 'raw2="q z"; Path=/')])
                       for _ in range(rng.randint(0, 2))],
            'cookies': [(rng.choice(['sid', 'tok']), rng.choice(['v', 'a b']),
                         {'max_age': rng.choice([None, 60]), 'secure': rng.choice([None, False]),
                          'same_site': rng.choice([None, 'Lax'])}) for _ in range(rng.randint(0, 2))]}


def joined_header(r, name):
    vals = [v for n, v in full_headers(r) if n.lower() == name]
    return [','.join(vals)] if vals else []


def route_case(r):
    return [1, True, joined_header(r, 'forwarded'), joined_header(r, 'x-forwarded-for'),
            joined_header(r, 'x-real-ip'), [r['remote']]]


def body_case(falcon, plan):
    """text / data / media as the model sees them: Some(bytes) iff the attribute ends up not None;
    media serialization (default JSON handler) is the oracle."""
    from falcon import media as falcon_media
    cur = {'text': None, 'data': None, 'media': None}
    for attr_name, tag, value in plan.get('sources', []):
        cur[attr_name] = body_value(tag, value)
    text = cur['text']
    if isinstance(text, str):
        text = text.encode('utf-8')
    rendered = None
    if cur['media'] is not None:
        rendered = falcon_media.JSONHandler().serialize(cur['media'], 'application/json')
    opt = lambda b: [] if b is None else [b]   # noqa: E731
    return [2, opt(text), opt(cur['data']), opt(rendered)]


def judge_extra(ctx, r, opts, dw, da, results, plan, tt, o_route, o_body, o_split):
    """Model predictions for the parts with a Coq theorem: access_route / remote_addr on both
    stacks, the response body of a `bodies` plan, and the test client's target split."""
    def route(v):
        return [common.wstr(x) for x in v[1]] if v[0] == 0 else 'EXC ValueError' if v[0] == 2 else 'HTTP 400'
    if dw is not None and da is not None:
        pw, pa = route(o_route[0]), route(o_route[1])
        ra = common.wstr(o_route[2][1]) if o_route[2][0] == 0 else None
        rw = common.wstr(o_route[3])
        got = {'access_route_w': dw['access_route'], 'access_route_a': da['access_route'],
               'remote_addr_w': dw['remote_addr'], 'remote_addr_a': da['remote_addr']}
        pred = {'access_route_w': pw, 'access_route_a': pa, 'remote_addr_w': rw,
                'remote_addr_a': ra if ra is not None else da['remote_addr']}
        if got != pred:
            disagreements.append({'what': 'access_route / remote_addr differ from the model of the two classes',
                                  'request': req_json(r), 'impl': got, 'model': pred})
    if plan['kind'] == 'bodies' and r['method'] != 'HEAD':
        exp = common.wopt(o_body[0], lambda b: bytes(b))
        exp_a = common.wopt(o_body[1], lambda b: bytes(b))
        for name, e in (('wsgi-driver', exp), ('asgi-driver', exp_a)):
            res = results.get(name)
            if not res or 'raised' in res or res['status'] >= 400:
                continue
            sent = res['body'].encode('latin-1')
            cl = dict(res['headers']).get('content-length')
            want = e or b''
            if sent != want or (cl is not None and cl != str(len(want))):
                ctx.violation('response-body-source',
                              {'what': '%s sent a body other than the one render_body designates (text, else data, else '
                                       'serialized media; empty values count as set)' % name,
                               'request': req_json(r), 'plan': plan, 'sent': res['body'][:200],
                               'content_length': cl, 'expected': want.decode('latin-1')[:200]},
                              key='body-' + name)
    # falcon.testing's view of the request line = the server's split at the first '?'
    sim = common.wopt(o_split[0])
    target = tt['path'] + ('?' + tt['query_string'] if tt.get('query_string') else '')
    if 'params' not in tt:
        want = (r['path'], r['query'])
        if sim is None or (common.wstr(sim[0]), common.wstr(sim[1])) != want:
            disagreements.append({'what': 'the model of the test client\'s target split does not give the request line',
                                  'target': target, 'model': repr(sim), 'request_line': list(want)})


VIEW_FIELDS = ['method', 'path', 'query_string', 'params', 'content_type', 'content_length', 'scheme', 'host', 'port',
               'netloc', 'subdomain', 'root_path', 'relative_uri', 'uri', 'prefix', 'forwarded_scheme',
               'forwarded_host', 'forwarded_uri', 'forwarded_prefix', 'access_route', 'remote_addr', 'cookies',
               'range', 'range_unit', 'if_match', 'if_none_match', 'accept', 'user_agent', 'referer', 'expect',
               'if_range', 'auth']


def view_case(r, opts):
    """The abstract request as the Coq record `areq` (oracles: utf-8/replace decoding of the path,
    strict decoding of the query, str(port))."""
    raw = urllib.parse.unquote_to_bytes(r['path'])
    q = r['query']
    try:
        qdec = [q.encode('latin-1').decode('utf-8')]
    except UnicodeDecodeError:
        qdec = []
    areq = [r['method'], list(raw), [ord(c) for c in raw.decode('utf-8', 'replace')], q, qdec,
            [[n, v] for n, v in full_headers(r)], r['scheme'], r['host'].strip('[]'), r['port'], str(r['port']),
            r['root_path'], r['remote']]
    return [4, areq, opts[0], opts[1], opts[2]]


def view_to_digest(v):
    """Wire view -> the vocabulary of `digest`."""
    import http.cookies
    ws, wo = common.wstr, common.wopt

    def res(x, f):
        return f(x[1]) if x[0] == 0 else ('HTTP 400' if x[0] == 1 else 'EXC ValueError')

    def params(x):
        if not x:
            return 'EXC UnicodeDecodeError'
        x = x[0]
        if x[0] != 0:
            return 'EXC crash'
        return sorted([ws(k), ws(pv[1]) if pv[0] == 0 else [ws(i) for i in pv[1]]] for k, pv in x[1])

    def etags(x):
        l = wo(x)
        return None if l is None else [['*'] if t[0] == 0 else [bool(t[1]), ws(t[2])] for t in l]

    d = {}
    it = iter(v)
    d['method'] = ws(next(it))
    d['path'] = ws(next(it))
    d['query_string'] = wo(next(it), ws)
    d['params'] = params(next(it))
    d['content_type'] = wo(next(it), ws)
    d['content_length'] = res(next(it), lambda o: wo(o))
    d['scheme'] = ws(next(it))
    d['host'] = res(next(it), ws)
    d['port'] = res(next(it), lambda o: wo(o))
    d['netloc'] = ws(next(it))
    d['subdomain'] = res(next(it), lambda o: wo(o, ws))
    for k in ('root_path', 'relative_uri', 'uri', 'prefix', 'forwarded_scheme', 'forwarded_host', 'forwarded_uri',
              'forwarded_prefix'):
        d[k] = ws(next(it))
    d['access_route'] = res(next(it), lambda l: [ws(x) for x in l])
    d['remote_addr'] = res(next(it), ws)
    d['cookies'] = sorted([ws(k), ws(c[1]) if c[0] == 0 else http.cookies._unquote(ws(c[1]))] for k, c in next(it))
    d['range'] = res(next(it), lambda o: wo(o, list))
    d['range_unit'] = res(next(it), lambda o: wo(o, ws))
    d['if_match'] = etags(next(it))
    d['if_none_match'] = etags(next(it))
    d['accept'] = ws(next(it))
    for k in ('user_agent', 'referer', 'expect', 'if_range', 'auth'):
        d[k] = wo(next(it), ws)
    return d


def norm_digest(dg):
    """The digest fields of the view record, JSON-normalised (tuples -> lists)."""
    return json.loads(json.dumps({k: dg[k] for k in VIEW_FIELDS}, default=repr))


def judge_view(ctx, r, opts, dw, da, out):
    vw, va, valid = view_to_digest(out[0]), view_to_digest(out[1]), bool(out[2])
    vw, va = json.loads(json.dumps(vw)), json.loads(json.dumps(va))
    if valid and vw != va:
        # the record theorem C06_views_agree says this cannot happen for a valid request
        diff = [k for k in VIEW_FIELDS if vw[k] != va[k]]
        ctx.violation('model-views-disagree',
                      {'what': 'the modelled WSGI and ASGI views differ on an HTTP-valid request',
                       'request': req_json(r), 'fields': diff, 'wsgi': {k: vw[k] for k in diff},
                       'asgi': {k: va[k] for k in diff}, 'broken': 'C06.views_agree'}, key='model-views')
    for stack, dg, pred in (('wsgi', dw, vw), ('asgi', da, va)):
        if dg is None:
            continue
        got = norm_digest(dg)
        diff = [k for k in VIEW_FIELDS if got[k] != pred[k]]
        if diff:
            disagreements.append({'what': 'falcon.%sRequest differs from the modelled view in %s'
                                          % ('asgi.' if stack == 'asgi' else '', ', '.join(diff)),
                                  'request': req_json(r), 'options': list(opts),
                                  'impl': {k: got[k] for k in diff}, 'model': {k: pred[k] for k in diff}})


def model_view(r, opts):
    """Wire case for the Coq model: the abstract request and the request options."""
    raw = urllib.parse.unquote_to_bytes(r['path'])
    dec = raw.decode('utf-8', 'replace')
    return [0, list(raw), [ord(c) for c in dec], r['query'], [[n, v] for n, v in full_headers(r)],
            opts[0], READ_NAMES]


def main(ctx):
    import falcon
    import falcon.asgi
    from falcon import testing
    import logging
    logging.getLogger('falcon').setLevel(logging.CRITICAL + 1)   # unhandled-error tracebacks of the plans
    model = common.Model(ctx)
    rng = ctx.rng
    quick = ctx.tier == 'quick'
    ctx.assumptions += [
        'own drivers follow PEP 3333 (latin-1 tunnelling of the decoded path, HTTP_* keys, duplicates comma-joined) '
        'and the ASGI HTTP spec (utf-8/replace path, byte header list); abstract requests are HTTP-valid '
        '(ASCII query string, no duplicated singleton header, header names without underscore)',
        'bytes.decode("utf-8", "replace") is an oracle of the model (its result is passed as data)',
    ]
    ctx.cov['rule'] = ('abstract requests (method, raw path incl. percent-encoded UTF-8 and invalid sequences, ASCII '
                       'query, header lists with repeated and differently-cased names, cookies, bodies in 1-3 chunks, '
                       'scheme/host/port/root_path/remote) x request options x generated response plans; four '
                       'deliveries compared on (digest of ~50 request attributes, status, sorted headers, body); '
                       'model predictions (path, query_string, header lookups, content_length) compared with the '
                       'digests. non-trivial = the request carried a header beyond Host/User-Agent or a body')
    n = 5000 if quick else 40000
    state = {}
    apps = {}
    cases, meta = [], []
    for i in range(n):
        opts = (rng.random() < 0.3, rng.random() < 0.7, rng.random() < 0.3)
        r = gen_req(rng)
        state['plan'] = plan = gen_plan(rng)
        custom = bool(plan.get('custom'))
        if plan['kind'] == 'statusclass':
            r['method'] = plan['method']
            if r['method'] != 'POST':
                r['body'] = b''
            ctx.count('status-%d-%s-%s' % (status_code_of(plan['status_form']), plan['method'], plan['via']))
        if plan['kind'] == 'renderfail':
            # the Accept header decides which handler serializes a default error response
            r['headers'] = [h for h in r['headers'] if h[0].lower() != 'accept']
            if plan['accept'] is not None:
                r['headers'].append(('Accept', plan['accept']))
            if r['method'] == 'HEAD':
                r['method'] = 'GET'
            ctx.count('renderfail-' + plan['how'] + ('-custom-' + plan['err_mode'][0] if custom else '-default'))
        if (opts, custom) not in apps:
            apps[(opts, custom)] = build_apps(falcon, opts, state, custom)
        wapp, aapp = apps[(opts, custom)]
        results, digests = {}, {}
        for name, fn in (('wsgi-driver', lambda: drive_wsgi(wapp, r)), ('asgi-driver', lambda: drive_asgi(aapp, r)),
                         ('wsgi-testing', lambda: drive_testing(testing, wapp, r)),
                         ('asgi-testing', lambda: drive_testing(testing, aapp, r))):
            state['digest'] = None
            try:
                results[name] = fn()
            except Exception as e:  # noqa: BLE001
                results[name] = {'raised': type(e).__name__ + ': ' + str(e)[:200]}
            digests[name] = state['digest']
        ctx.count(r['method'])
        ctx.count('plan-' + state['plan']['kind'])
        ctx.note_case(('req', i, ctx.seed), bool(r['headers']) or bool(r['body']))
        base = 'wsgi-driver'
        for other in ('asgi-driver', 'wsgi-testing', 'asgi-testing'):
            diffs = compare(digests[base], digests[other], results[base], results[other])
            if diffs:
                key = other + ':' + diffs[0][0]
                ctx.violation('stacks-or-drivers-disagree',
                              {'what': '%s and %s observe/produce different things for the same request' % (base, other),
                               'request': req_json(r), 'options': list(opts), 'plan': state['plan'],
                               'pair': [base, other], 'differences': diffs[:6]}, key=key)
        cases.append(model_view(r, opts))
        cases.append(route_case(r))
        cases.append(body_case(falcon, state['plan']))
        tt = testing_target(r)
        cases.append([3, tt['path'], [tt['query_string']] if 'query_string' in tt else []])
        cases.append(view_case(r, opts))
        meta.append((r, opts, digests[base], digests['asgi-driver'], dict(results), state['plan'], tt))
    outs_all = model.run_many(cases)
    for mi, (r, opts, dw, da, results, plan, tt) in enumerate(meta):
        out, o_route, o_body, o_split, o_view = outs_all[5 * mi:5 * mi + 5]
        judge_extra(ctx, r, opts, dw, da, results, plan, tt, o_route, o_body, o_split)
        judge_view(ctx, r, opts, dw, da, o_view)
        if dw is None or da is None:
            continue
        pred = {'path_w': common.wstr(out[0]), 'path_a': common.wstr(out[1]), 'agree': bool(out[2]),
                'hdr_w': [common.wopt(x, common.wstr) for x in out[3]],
                'hdr_a': [common.wopt(x, common.wstr) for x in out[4]]}
        if not pred['agree']:
            # the header-store agreement is a conjecture of the model (not proved in Coq): a generated
            # HTTP-valid header list on which the two modelled views differ refutes it
            ctx.violation('model-views-disagree',
                          {'what': 'the modelled WSGI and ASGI header views differ on an HTTP-valid header list',
                           'request': req_json(r), 'model': pred, 'broken': 'C06.headers_agree (conjecture)'},
                          found_input=True, key='model-agree')
        got_w = [dw['get_header:' + nme] for nme in READ_NAMES]
        got_a = [da['get_header:' + nme] for nme in READ_NAMES]
        if pred['path_w'] != dw['path'] or pred['path_a'] != da['path'] or pred['hdr_w'] != got_w \
                or pred['hdr_a'] != got_a:
            disagreements.append({'what': 'request view differs from the model of the two encodings',
                                  'request': req_json(r), 'options': list(opts),
                                  'impl': {'path_w': dw['path'], 'path_a': da['path'], 'hdr_w': got_w, 'hdr_a': got_a},
                                  'model': pred})
    if disagreements:
        ctx.violation('correspondence-broken', dict(disagreements[0], broken='C06.views_corr'),
                      found_input=any(v['found_input'] for v in ctx.violations), key='corr')
    for k, v in SPELL_COUNTS.items():
        ctx.count('testing-' + k, v)
    probe_invalid_versions(ctx, falcon, testing, apps)
    probe_non_ascii_query(ctx, falcon)
    ctx.sample({'request': req_json(meta[0][0]), 'digest_path': meta[0][2] and meta[0][2]['path']})


disagreements = []


def req_json(r):
    d = dict(r)
    d['body'] = d['body'][:60].decode('latin-1') + ('...(%d bytes)' % len(r['body']) if len(r['body']) > 60 else '')
    d['headers'] = [list(h) for h in r['headers']]
    return d


def compare(dw, do, rw, ro):
    diffs = []
    if 'raised' in rw or 'raised' in ro:
        if 'Content-Type header found in a' in str(ro.get('raised')) + str(rw.get('raised')):
            # wsgiref.validate (used by falcon.testing on WSGI) rejects an explicit Content-Type that the
            # RESPONDER put on a 204/304: the lint's opinion about the application, not an asymmetry
            return diffs
        if rw != ro:
            diffs.append(('raised', rw.get('raised'), ro.get('raised')))
        return diffs
    if (dw is None) != (do is None):
        diffs.append(('responder-ran', dw is not None, do is not None))
    elif dw is not None:
        for k in dw:
            if dw[k] != do.get(k):
                diffs.append(('req.' + k, dw[k], do.get(k)))
    for k in ('status', 'headers', 'cookies'):
        if rw[k] != ro[k]:
            diffs.append(('resp.' + k, rw[k], ro[k]))
    if rw['body'] != ro['body'] and not diffs:
        diffs.append(('resp.body', rw['body'][:200], ro['body'][:200]))
    return diffs


def probe_invalid_versions(ctx, falcon, testing, apps):
    """Undocumented protocol versions are refused by both simulators alike."""
    wapp, aapp = next(iter(apps.values()))
    for v in ('3', '0.9', 'HTTP/1.1', ''):
        got = []
        for app in (wapp, aapp):
            try:
                testing.simulate_get(app, '/', http_version=v)
                got.append('ok')
            except ValueError:
                got.append('ValueError')
            except Exception as e:  # noqa: BLE001
                got.append(type(e).__name__)
        if got[0] != got[1]:
            ctx.violation('stacks-or-drivers-disagree',
                          {'what': 'falcon.testing treats http_version=%r differently on WSGI and ASGI' % v,
                           'pair': ['wsgi-testing', 'asgi-testing'], 'differences': got}, key='version-' + v)


def probe_non_ascii_query(ctx, falcon):
    """Outside HTTP-valid input (raw non-ASCII bytes in the query string): ASGI decodes strictly as
    UTF-8 (before its try block), WSGI reads latin-1.  Recorded as an observation (advisory)."""
    import falcon.asgi
    scope = {'type': 'http', 'asgi': {'version': '3.0'}, 'http_version': '1.1', 'method': 'GET', 'scheme': 'http',
             'path': '/', 'raw_path': b'/', 'query_string': b'q=\xff', 'root_path': '', 'headers': [],
             'server': ('x', 80), 'client': ('1.1.1.1', 1)}

    async def receive():
        return {'type': 'http.request', 'body': b'', 'more_body': False}
    try:
        falcon.asgi.Request(scope, receive)
        obs = 'constructed'
    except UnicodeDecodeError:
        obs = 'UnicodeDecodeError'
    ctx.advisory.append({'observation': 'ASGI Request with query_string b"q=\\xff" -> %s; WSGI reads latin-1' % obs})


def replay(ctx, obj):
    ctx.rng.seed(obj.get('seed', ctx.seed))
    main(ctx)
