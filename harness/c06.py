"""C06 — WSGI, ASGI and the test client are observationally equivalent.

One generated responder (a digest of ~45 request attributes, then a generated response) is
mounted on falcon.App and falcon.asgi.App; each abstract request is delivered four ways: own
PEP 3333 driver, own ASGI driver, falcon.testing on WSGI, falcon.testing on ASGI.  The four
(digest, status, headers, body) results must be equal.  The Coq model (coq/C06/Model.v) gives the
two encodings of the abstract request and the accessor views proved to agree; its predictions
are compared with the digests."""
import asyncio
import io
import json
import sys
import urllib.parse

import common

HDR_POOL = ['X-Custom', 'Accept', 'If-Match', 'If-None-Match', 'Range', 'X-Forwarded-For', 'X-Forwarded-Proto',
            'X-Forwarded-Host', 'Forwarded', 'Cookie', 'If-Modified-Since', 'Expect', 'X-Real-Ip', 'Referer',
            'Cache-Control', 'Accept-Language', 'Via']
SINGLETONS = {'content-length', 'content-type', 'cookie', 'expect', 'from', 'host', 'max-forwards', 'referer',
              'user-agent'}
READ_NAMES = ['x-custom', 'ACCEPT', 'Via', 'cache-control', 'Content-Type', 'content-length', 'Host', 'missing',
              'Accept-Language', 'COOKIE']


def etag_obs(v):
    if v is None:
        return None
    return [[bool(t.is_weak), str(t)] if hasattr(t, 'is_weak') else ['*'] for t in v]


def attr(req, name, conv=lambda v: v):
    try:
        return conv(getattr(req, name))
    except Exception as e:  # noqa: BLE001
        import falcon
        if isinstance(e, falcon.HTTPError):
            return 'HTTP %s' % str(e.status)[:3]
        return 'EXC ' + type(e).__name__


def digest(req, body):
    d = {}
    for n in ('method', 'path', 'query_string', 'content_type', 'content_length', 'host', 'port', 'scheme',
              'netloc', 'uri', 'url', 'relative_uri', 'prefix', 'forwarded_scheme', 'forwarded_host',
              'forwarded_uri', 'forwarded_prefix', 'remote_addr', 'range', 'range_unit', 'accept',
              'client_accepts_json', 'client_accepts_xml', 'user_agent', 'root_path', 'subdomain', 'expect',
              'referer', 'auth', 'if_range'):
        d[n] = attr(req, n, lambda v: list(v) if isinstance(v, tuple) else v)
    d['access_route'] = attr(req, 'access_route', list)
    d['params'] = attr(req, 'params', lambda p: sorted((k, v) for k, v in p.items()))
    d['cookies'] = attr(req, 'cookies', lambda c: sorted(c.items()))
    d['if_match'] = attr(req, 'if_match', etag_obs)
    d['if_none_match'] = attr(req, 'if_none_match', etag_obs)
    d['if_modified_since'] = attr(req, 'if_modified_since', lambda v: None if v is None else v.isoformat())
    d['date'] = attr(req, 'date', lambda v: None if v is None else v.isoformat())
    d['headers'] = attr(req, 'headers', lambda h: sorted((k.lower(), v) for k, v in h.items()))
    d['headers_lower'] = attr(req, 'headers_lower', lambda h: sorted(h.items()))
    for n in READ_NAMES:
        try:
            d['get_header:' + n] = req.get_header(n)
        except Exception as e:  # noqa: BLE001
            d['get_header:' + n] = 'EXC ' + type(e).__name__
    try:
        d['cookie_values:a'] = req.get_cookie_values('a')
    except Exception as e:  # noqa: BLE001
        d['cookie_values:a'] = 'EXC ' + type(e).__name__
    for n in ('q', 'a', 'n'):
        try:
            d['get_param:' + n] = req.get_param(n)
        except Exception as e:  # noqa: BLE001
            d['get_param:' + n] = 'EXC ' + type(e).__name__
    try:
        d['get_param_as_int:n'] = req.get_param_as_int('n')
    except Exception as e:  # noqa: BLE001
        import falcon
        d['get_param_as_int:n'] = 'HTTP 400' if isinstance(e, falcon.HTTPError) else 'EXC ' + type(e).__name__
    d['body'] = body.decode('latin-1')
    return d


def respond(falcon, resp, plan, dg):
    """Apply the generated response plan (identical code on both stacks)."""
    kind = plan['kind']
    for k, v in plan['set']:
        resp.set_header(k, v)
    for k, v in plan['append']:
        resp.append_header(k, v)
    for c in plan['cookies']:
        resp.set_cookie(c[0], c[1], **c[2])
    if kind == 'notfound':
        raise falcon.HTTPNotFound(title='nf', description=json.dumps(dg, sort_keys=True, default=repr))
    if kind == 'redirect':
        raise falcon.HTTPFound('/elsewhere?d=' + urllib.parse.quote(dg['path']))
    if kind == 'badrequest':
        raise falcon.HTTPBadRequest(title='bad', description='x')
    resp.status = plan['status']
    if kind == 'media':
        resp.media = {'digest': dg}
    elif kind == 'text':
        resp.text = json.dumps(dg, sort_keys=True, default=repr)
    elif kind == 'data':
        resp.data = json.dumps(dg, sort_keys=True, default=repr).encode()
        resp.content_type = 'application/octet-stream'
    elif kind == 'empty':
        resp.set_header('X-Digest-Path', urllib.parse.quote(dg['path']))


# --------------------------------------------------------------------------- abstract requests

def gen_path(rng):
    segs = []
    for _ in range(rng.randint(0, 3)):
        segs.append(rng.choice(['a', 'b1', 'x-y', '%C3%A9', '%E6%97%A5', '%FF', '%20', 'a%2Fb', '%E2%82', '~u', '%41',
                                'caf%C3%A9', '%F0%9F%98%80', '%C0%AF', '.', '+']))
    p = '/' + '/'.join(segs)
    if rng.random() < 0.25 and len(p) > 1:
        p += '/'
    return p


def gen_query(rng):
    parts = []
    for _ in range(rng.randint(0, 3)):
        parts.append(rng.choice(['q=1', 'a=b', 'a=c', 'n=42', 'n=x', 'e=', 'k', 'l=1,2', 'l=,', 's=%20%C3%A9', 'p=a+b',
                                 'q=%FF', '=v', 'a=%26']))
    return '&'.join(parts)


def gen_headers(rng):
    hs = []
    for _ in range(rng.randint(0, 5)):
        n = rng.choice(HDR_POOL)
        nl = n.lower()
        if nl == 'accept':
            v = rng.choice(['application/json', 'text/html, application/xml;q=0.9', '*/*', ''])
        elif nl in ('if-match', 'if-none-match'):
            v = rng.choice(['"abc"', 'W/"x", "y"', '*', ''])
        elif nl == 'range':
            v = rng.choice(['bytes=0-9', 'bytes=-5', 'items=1-', 'bytes=9-1', 'junk'])
        elif nl == 'x-forwarded-for':
            v = rng.choice(['1.1.1.1', '1.1.1.1, 2.2.2.2'])
        elif nl == 'x-forwarded-proto':
            v = rng.choice(['https', 'HTTP'])
        elif nl == 'x-forwarded-host':
            v = 'fw.example.com'
        elif nl == 'forwarded':
            v = rng.choice(['for=192.0.2.43;proto=https;host=f.example.com', 'for="[2001:db8::1]:80", for=10.1.1.1',
                            'host="q\\"x"', 'for="1.2.3.4:_o"', ''])
        elif nl == 'cookie':
            v = rng.choice(['a=1', 'a=1; b=2; a=3', 'a="q\\073z"', 'sid=""', 'junk'])
        elif nl == 'if-modified-since':
            v = rng.choice(['Tue, 15 Nov 1994 12:45:26 GMT', 'yesterday'])
        elif nl == 'x-real-ip':
            v = '3.3.3.3'
        else:
            v = rng.choice(['v', 'a, b', 'caf\xe9', 'x y', '0'])
        hs.append((''.join(c.upper() if rng.random() < 0.5 else c.lower() for c in n), v))
    # no duplicated singleton header (valid_areq); the other duplicates are welcome
    out, seen = [], set()
    for n, v in hs:
        if n.lower() in SINGLETONS and n.lower() in seen:
            continue
        seen.add(n.lower())
        out.append((n, v))
    return out


def gen_req(rng):
    method = rng.choice(['GET', 'GET', 'POST', 'PUT', 'HEAD', 'DELETE', 'PATCH'])
    body = b''
    hs = gen_headers(rng)
    if method in ('POST', 'PUT', 'PATCH') and rng.random() < 0.8:
        body = rng.choice([b'{"k": [1, 2]}', b'hello', b'\xff\x00bin', b'{"bad json', b'x' * 70000, b''])
        hs.append(('Content-Type', rng.choice(['application/json', 'text/plain', 'application/json; charset=utf-8'])))
    scheme = rng.choice(['http', 'https'])
    host = rng.choice(['example.com', 'api.example.org', '127.0.0.1', '[::1]', 'localhost'])
    port = rng.choice([80, 443, 8080])
    return {'method': method, 'path': gen_path(rng), 'query': gen_query(rng), 'headers': hs, 'body': body,
            'scheme': scheme, 'host': host, 'port': port, 'root_path': rng.choice(['', '', '/app']),
            'remote': rng.choice(['10.0.0.9', '192.0.2.43', '::1']),
            'chunks': rng.randint(1, 3)}


def host_header(r):
    default = 443 if r['scheme'] == 'https' else 80
    return r['host'] if r['port'] == default else '%s:%d' % (r['host'], r['port'])


UA = 'verif-driver/1'


def full_headers(r):
    """What a client puts on the wire: generated headers + Host + User-Agent (+ Content-Length)."""
    hs = list(r['headers']) + [('Host', host_header(r)), ('User-Agent', UA)]
    if r['body']:
        hs.append(('Content-Length', str(len(r['body']))))
    return hs


# --------------------------------------------------------------------------- the four deliveries

def norm_result(status, headers, body, cookies=None):
    """Set-Cookie lines are compared as a name -> value map (falcon.testing.Result only exposes
    parsed cookies, not the raw lines)."""
    import http.cookies
    code = int(str(status)[:3])
    hl = sorted((k.lower(), v) for k, v in headers if k.lower() != 'set-cookie')
    if cookies is None:
        cookies = {}
        for k, v in headers:
            if k.lower() == 'set-cookie':
                name, _, rest = v.partition('=')
                cookies[name] = http.cookies._unquote(rest.split(';', 1)[0])
    return {'status': code, 'headers': [list(x) for x in hl], 'cookies': sorted(cookies.items()),
            'body': body.decode('latin-1')}


def drive_wsgi(app, r):
    raw = urllib.parse.unquote_to_bytes(r['path'])
    env = {'REQUEST_METHOD': r['method'], 'PATH_INFO': raw.decode('latin-1'), 'QUERY_STRING': r['query'],
           'SCRIPT_NAME': r['root_path'], 'SERVER_NAME': r['host'].strip('[]'), 'SERVER_PORT': str(r['port']),
           'SERVER_PROTOCOL': 'HTTP/1.1', 'wsgi.url_scheme': r['scheme'], 'wsgi.input': io.BytesIO(r['body']),
           'wsgi.errors': sys.stderr, 'REMOTE_ADDR': r['remote'], 'wsgi.version': (1, 0),
           'wsgi.multithread': False, 'wsgi.multiprocess': False, 'wsgi.run_once': False}
    for n, v in full_headers(r):
        key = n.upper().replace('-', '_')
        if key not in ('CONTENT_TYPE', 'CONTENT_LENGTH'):
            key = 'HTTP_' + key
        env[key] = (env[key] + ',' + v) if key in env else v      # PEP 3333 servers join duplicates
    got = {}

    def start_response(status, headers, exc_info=None):
        got['status'], got['headers'] = status, list(headers)
    it = app(env, start_response)
    body = b''.join(it)
    if hasattr(it, 'close'):
        it.close()
    return norm_result(got['status'], got['headers'], body)


def drive_asgi(app, r):
    raw = urllib.parse.unquote_to_bytes(r['path'])
    scope = {'type': 'http', 'asgi': {'version': '3.0', 'spec_version': '2.1'}, 'http_version': '1.1',
             'method': r['method'], 'scheme': r['scheme'], 'path': raw.decode('utf-8', 'replace'),
             'raw_path': r['path'].encode('ascii'), 'query_string': r['query'].encode('latin-1'),
             'root_path': r['root_path'],
             'headers': [(n.lower().encode('latin-1'), v.encode('latin-1')) for n, v in full_headers(r)],
             'server': (r['host'].strip('[]'), r['port']), 'client': (r['remote'], 4711)}
    body = r['body']
    n = r['chunks']
    size = max(1, (len(body) + n - 1) // n)
    chunks = [body[i:i + size] for i in range(0, len(body), size)] or [b'']
    events = []

    async def receive():
        if chunks:
            c = chunks.pop(0)
            return {'type': 'http.request', 'body': c, 'more_body': bool(chunks)}
        await asyncio.sleep(3600)

    async def send(ev):
        events.append(ev)

    async def go():
        task = asyncio.ensure_future(app(scope, receive, send))
        await asyncio.wait_for(task, 20)
    asyncio.run(go())
    start = [e for e in events if e['type'] == 'http.response.start'][0]
    out = b''.join(e.get('body', b'') for e in events if e['type'] == 'http.response.body')
    return norm_result(start['status'], [(k.decode('latin-1'), v.decode('latin-1')) for k, v in start['headers']], out)


def drive_testing(testing, app, r):
    cl = testing.TestClient(app)
    hs = list(r['headers']) + [('User-Agent', UA)]
    kw = dict(path=r['path'], query_string=r['query'], headers=hs, body=r['body'] or None,
              host=r['host'], port=r['port'], protocol=r['scheme'], remote_addr=r['remote'],
              root_path=r['root_path'] or None)
    res = cl.simulate_request(r['method'], **kw)
    return norm_result(res.status, list(res.headers.items()), res.content,
                       {k: c.value for k, c in res.cookies.items()})


# --------------------------------------------------------------------------- main

def build_apps(falcon, opts, state):
    import falcon.asgi

    class Res:
        def _h(self, req, resp):
            body = req.bounded_stream.read()
            dg = digest(req, body)
            state['digest'] = dg
            respond(falcon, resp, state['plan'], dg)
        on_get = on_post = on_put = on_head = on_delete = on_patch = _h

    class ARes:
        async def _h(self, req, resp):
            body = await req.stream.read()
            dg = digest(req, body)
            state['digest'] = dg
            respond(falcon, resp, state['plan'], dg)
        on_get = on_post = on_put = on_head = on_delete = on_patch = _h

    def sink(req, resp, **kw):
        Res()._h(req, resp)

    async def asink(req, resp, **kw):
        await ARes()._h(req, resp)

    wapp, aapp = falcon.App(), falcon.asgi.App()
    for app in (wapp, aapp):
        app.req_options.strip_url_path_trailing_slash = opts[0]
        app.req_options.keep_blank_qs_values = opts[1]
        app.req_options.auto_parse_qs_csv = opts[2]
    wapp.add_sink(sink, '/')
    aapp.add_sink(asink, '/')
    return wapp, aapp


def gen_plan(rng):
    kind = rng.choice(['media', 'text', 'data', 'empty', 'notfound', 'redirect', 'badrequest', 'text', 'media'])
    return {'kind': kind, 'status': rng.choice([200, 200, 201, 202]) if kind != 'empty' else rng.choice([200, 204]),
            'set': [(rng.choice(['X-A', 'Cache-Control', 'Vary']), rng.choice(['1', 'no-cache', 'Accept']))
                    for _ in range(rng.randint(0, 2))],
            'append': [rng.choice([('X-A', 'z'), ('X-A', 'raw=1'), ('Link', '</x>; rel=next'), ('Set-Cookie', 'raw=1'),
                                   ('Set-Cookie', 'raw2="q z"; Path=/')])
                       for _ in range(rng.randint(0, 2))],
            'cookies': [(rng.choice(['sid', 'tok']), rng.choice(['v', 'a b']),
                         {'max_age': rng.choice([None, 60]), 'secure': rng.choice([None, False]),
                          'same_site': rng.choice([None, 'Lax'])}) for _ in range(rng.randint(0, 2))]}


def model_view(r, opts):
    """Wire case for the Coq model: the abstract request and the request options."""
    raw = urllib.parse.unquote_to_bytes(r['path'])
    dec = raw.decode('utf-8', 'replace')
    return [0, list(raw), [ord(c) for c in dec], r['query'], [[n, v] for n, v in full_headers(r)],
            opts[0], READ_NAMES]


def main(ctx):
    import falcon
    import falcon.asgi
    from falcon import testing
    model = common.Model(ctx)
    rng = ctx.rng
    quick = ctx.tier == 'quick'
    ctx.assumptions += [
        'own drivers follow PEP 3333 (latin-1 tunnelling of the decoded path, HTTP_* keys, duplicates comma-joined) '
        'and the ASGI HTTP spec (utf-8/replace path, byte header list); abstract requests are HTTP-valid '
        '(ASCII query string, no duplicated singleton header, header names without underscore)',
        'bytes.decode("utf-8", "replace") is an oracle of the model (its result is passed as data)',
    ]
    ctx.cov['rule'] = ('abstract requests (method, raw path incl. percent-encoded UTF-8 and invalid sequences, ASCII '
                       'query, header lists with repeated and differently-cased names, cookies, bodies in 1-3 chunks, '
                       'scheme/host/port/root_path/remote) x request options x generated response plans; four '
                       'deliveries compared on (digest of ~50 request attributes, status, sorted headers, body); '
                       'model predictions (path, query_string, header lookups, content_length) compared with the '
                       'digests. non-trivial = the request carried a header beyond Host/User-Agent or a body')
    n = 5000 if quick else 40000
    state = {}
    apps = {}
    cases, meta = [], []
    for i in range(n):
        opts = (rng.random() < 0.3, rng.random() < 0.7, rng.random() < 0.3)
        if opts not in apps:
            apps[opts] = build_apps(falcon, opts, state)
        wapp, aapp = apps[opts]
        r = gen_req(rng)
        state['plan'] = gen_plan(rng)
        results, digests = {}, {}
        for name, fn in (('wsgi-driver', lambda: drive_wsgi(wapp, r)), ('asgi-driver', lambda: drive_asgi(aapp, r)),
                         ('wsgi-testing', lambda: drive_testing(testing, wapp, r)),
                         ('asgi-testing', lambda: drive_testing(testing, aapp, r))):
            state['digest'] = None
            try:
                results[name] = fn()
            except Exception as e:  # noqa: BLE001
                results[name] = {'raised': type(e).__name__ + ': ' + str(e)[:200]}
            digests[name] = state['digest']
        ctx.count(r['method'])
        ctx.count('plan-' + state['plan']['kind'])
        ctx.note_case(('req', i, ctx.seed), bool(r['headers']) or bool(r['body']))
        base = 'wsgi-driver'
        for other in ('asgi-driver', 'wsgi-testing', 'asgi-testing'):
            diffs = compare(digests[base], digests[other], results[base], results[other])
            if diffs:
                key = other + ':' + diffs[0][0]
                ctx.violation('stacks-or-drivers-disagree',
                              {'what': '%s and %s observe/produce different things for the same request' % (base, other),
                               'request': req_json(r), 'options': list(opts), 'plan': state['plan'],
                               'pair': [base, other], 'differences': diffs[:6]}, key=key)
        cases.append(model_view(r, opts))
        meta.append((r, opts, digests[base], digests['asgi-driver']))
    outs = model.run_many(cases)
    for (r, opts, dw, da), out in zip(meta, outs):
        if dw is None or da is None:
            continue
        pred = {'path_w': common.wstr(out[0]), 'path_a': common.wstr(out[1]), 'agree': bool(out[2]),
                'hdr_w': [common.wopt(x, common.wstr) for x in out[3]],
                'hdr_a': [common.wopt(x, common.wstr) for x in out[4]]}
        if not pred['agree']:
            # the header-store agreement is a conjecture of the model (not proved in Coq): a generated
            # HTTP-valid header list on which the two modelled views differ refutes it
            ctx.violation('model-views-disagree',
                          {'what': 'the modelled WSGI and ASGI header views differ on an HTTP-valid header list',
                           'request': req_json(r), 'model': pred, 'broken': 'C06.headers_agree (conjecture)'},
                          found_input=True, key='model-agree')
        got_w = [dw['get_header:' + nme] for nme in READ_NAMES]
        got_a = [da['get_header:' + nme] for nme in READ_NAMES]
        if pred['path_w'] != dw['path'] or pred['path_a'] != da['path'] or pred['hdr_w'] != got_w \
                or pred['hdr_a'] != got_a:
            disagreements.append({'what': 'request view differs from the model of the two encodings',
                                  'request': req_json(r), 'options': list(opts),
                                  'impl': {'path_w': dw['path'], 'path_a': da['path'], 'hdr_w': got_w, 'hdr_a': got_a},
                                  'model': pred})
    if disagreements:
        ctx.violation('correspondence-broken', dict(disagreements[0], broken='C06.views_corr'),
                      found_input=any(v['found_input'] for v in ctx.violations), key='corr')
    probe_non_ascii_query(ctx, falcon)
    ctx.sample({'request': req_json(meta[0][0]), 'digest_path': meta[0][2] and meta[0][2]['path']})


disagreements = []


def req_json(r):
    d = dict(r)
    d['body'] = d['body'][:60].decode('latin-1') + ('...(%d bytes)' % len(r['body']) if len(r['body']) > 60 else '')
    d['headers'] = [list(h) for h in r['headers']]
    return d


def compare(dw, do, rw, ro):
    diffs = []
    if 'raised' in rw or 'raised' in ro:
        if rw != ro:
            diffs.append(('raised', rw.get('raised'), ro.get('raised')))
        return diffs
    if (dw is None) != (do is None):
        diffs.append(('responder-ran', dw is not None, do is not None))
    elif dw is not None:
        for k in dw:
            if dw[k] != do.get(k):
                diffs.append(('req.' + k, dw[k], do.get(k)))
    for k in ('status', 'headers', 'cookies'):
        if rw[k] != ro[k]:
            diffs.append(('resp.' + k, rw[k], ro[k]))
    if rw['body'] != ro['body'] and not diffs:
        diffs.append(('resp.body', rw['body'][:200], ro['body'][:200]))
    return diffs


def probe_non_ascii_query(ctx, falcon):
    """Outside HTTP-valid input (raw non-ASCII bytes in the query string): ASGI decodes strictly as
    UTF-8 (before its try block), WSGI reads latin-1.  Recorded as an observation (advisory)."""
    import falcon.asgi
    scope = {'type': 'http', 'asgi': {'version': '3.0'}, 'http_version': '1.1', 'method': 'GET', 'scheme': 'http',
             'path': '/', 'raw_path': b'/', 'query_string': b'q=\xff', 'root_path': '', 'headers': [],
             'server': ('x', 80), 'client': ('1.1.1.1', 1)}

    async def receive():
        return {'type': 'http.request', 'body': b'', 'more_body': False}
    try:
        falcon.asgi.Request(scope, receive)
        obs = 'constructed'
    except UnicodeDecodeError:
        obs = 'UnicodeDecodeError'
    ctx.advisory.append({'observation': 'ASGI Request with query_string b"q=\\xff" -> %s; WSGI reads latin-1' % obs})


def replay(ctx, obj):
    ctx.rng.seed(obj.get('seed', ctx.seed))
    main(ctx)
