(* Generic driver: one wire value per input line -> Model.run -> one wire value per line.
   Wire syntax: INT | '(' value* ')', whitespace separated.  Integers are arbitrary
   precision (Zarith is used ONLY here, to convert decimal text <-> Coq's binary Z). *)
module BZ = Z   (* Zarith, before the extracted module's own Z shadows it *)
open Model

let rec pos_of_z (n : BZ.t) : positive =
  if BZ.equal n BZ.one then XH
  else if BZ.testbit n 0 then XI (pos_of_z (BZ.shift_right n 1))
  else XO (pos_of_z (BZ.shift_right n 1))

let coqz_of_z (n : BZ.t) : z =
  if BZ.sign n = 0 then Z0
  else if BZ.sign n > 0 then Zpos (pos_of_z n)
  else Zneg (pos_of_z (BZ.neg n))

let rec z_of_pos (p : positive) : BZ.t =
  match p with
  | XH -> BZ.one
  | XO q -> BZ.shift_left (z_of_pos q) 1
  | XI q -> BZ.succ (BZ.shift_left (z_of_pos q) 1)

let z_of_coqz (x : z) : BZ.t =
  match x with Z0 -> BZ.zero | Zpos p -> z_of_pos p | Zneg p -> BZ.neg (z_of_pos p)

(* iterative parser: explicit stack, so deeply nested / long inputs do not overflow *)
let parse (s : string) : val0 =
  let n = String.length s in
  let stack : val0 list list ref = ref [ [] ] in
  let push v =
    match !stack with
    | top :: rest -> stack := (v :: top) :: rest
    | [] -> failwith "parse: empty stack"
  in
  let i = ref 0 in
  while !i < n do
    let c = s.[!i] in
    if c = '(' then (stack := [] :: !stack; incr i)
    else if c = ')' then begin
      (match !stack with
       | top :: rest -> stack := rest; push (L (List.rev top))
       | [] -> failwith "parse: unbalanced");
      incr i
    end
    else if c = ' ' || c = '\t' || c = '\r' then incr i
    else begin
      let j = ref !i in
      while !j < n && (let d = s.[!j] in d = '-' || (d >= '0' && d <= '9')) do incr j done;
      if !j = !i then failwith ("parse: bad char " ^ String.make 1 c);
      push (I (coqz_of_z (BZ.of_string (String.sub s !i (!j - !i)))));
      i := !j
    end
  done;
  match !stack with
  | [ [ v ] ] -> v
  | _ -> failwith "parse: expected exactly one value"

let rec print (b : Buffer.t) (v : val0) : unit =
  match v with
  | I x -> Buffer.add_string b (BZ.to_string (z_of_coqz x))
  | L l ->
    Buffer.add_char b '(';
    List.iteri (fun k e -> if k > 0 then Buffer.add_char b ' '; print b e) l;
    Buffer.add_char b ')'

let () =
  let b = Buffer.create 65536 in
  (try
     while true do
       let line = input_line stdin in
       Buffer.clear b;
       (try print b (run (parse line))
        with Stack_overflow -> Buffer.clear b; Buffer.add_string b "(-999 0)"
           | Failure m -> Buffer.clear b; Buffer.add_string b ("(-998 0)"); prerr_endline m);
       Buffer.add_char b '\n';
       print_string (Buffer.contents b)
     done
   with End_of_file -> ());
  flush stdout
