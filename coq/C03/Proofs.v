From Coq Require Import List Bool Arith.
From Falcon.C03 Require Import Model Spec.
