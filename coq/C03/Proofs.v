From Coq Require Import List Bool Arith Lia.
From Falcon.C03 Require Import Model Spec.
Import ListNotations.

(* ------------------------------------------------------------------ prepare_middleware *)

(* the (process_request, process_response) pairs of dependent mode *)
Fixpoint pairs (i : nat) (cs : list comp) : list (nat * option action * option action) :=
  match cs with
  | [] => []
  | c :: tl => if isSome (c_req c) || isSome (c_resp c)
               then (i, c_req c, c_resp c) :: pairs (S i) tl else pairs (S i) tl
  end.

Lemma prepare_loop_spec asgi indep : forall cs i rq_i rq_d rs rp st,
  prepare_loop asgi indep i cs rq_i rq_d rs rp = Some st ->
  forallb (comp_ok asgi) cs = true /\
  st_req st = (if indep then ReqIndep (rev rq_i ++ methods c_req i cs)
               else ReqDep (rev rq_d ++ pairs i cs)) /\
  st_rsrc st = rev rs ++ methods c_rsrc i cs /\
  st_resp st = (if indep then rev (methods c_resp i cs) ++ rp else rp).
Proof.
  induction cs as [|c tl IH]; intros i rq_i rq_d rs rp st H; simpl in H.
  - injection H as <-. simpl. rewrite !app_nil_r. destruct indep; auto.
  - unfold comp_ok. simpl.
    destruct (isSome (c_req c) || isSome (c_rsrc c) || isSome (c_resp c)) eqn:Hany; simpl in H.
    + apply IH in H. destruct H as (Hok & Hreq & Hrs & Hrp).
      split; [exact Hok|].
      destruct indep; simpl in *.
      * destruct (c_req c) as [a|], (c_rsrc c) as [b|], (c_resp c) as [d|]; simpl in *;
          rewrite ?Hreq, ?Hrs, ?Hrp; repeat split;
          repeat (rewrite <- app_assoc; simpl); try reflexivity; discriminate.
      * destruct (c_req c) as [a|], (c_rsrc c) as [b|], (c_resp c) as [d|]; simpl in *;
          rewrite ?Hreq, ?Hrs, ?Hrp; repeat split;
          repeat (rewrite <- app_assoc; simpl); try reflexivity; discriminate.
    + destruct (asgi && (isSome (c_startup c) || isSome (c_shutdown c))) eqn:Hl; [|discriminate].
      apply IH in H. destruct H as (Hok & Hreq & Hrs & Hrp).
      destruct (c_req c), (c_rsrc c), (c_resp c); try discriminate. simpl.
      split; [exact Hok|]. rewrite Hreq, Hrs, Hrp. auto.
Qed.

Lemma prepare_spec asgi indep cs st :
  prepare asgi indep cs = Some st ->
  st_req st = (if indep then ReqIndep (methods c_req 0 cs) else ReqDep (pairs 0 cs)) /\
  st_rsrc st = methods c_rsrc 0 cs /\
  st_resp st = (if indep then rev (methods c_resp 0 cs) else []).
Proof.
  intro H. apply prepare_loop_spec in H. destruct H as (_ & Hreq & Hrs & Hrp).
  simpl in *. rewrite app_nil_r in Hrp. auto.
Qed.

Lemma prepare_accepts asgi indep : forall cs i rq_i rq_d rs rp,
  forallb (comp_ok asgi) cs = true ->
  exists st, prepare_loop asgi indep i cs rq_i rq_d rs rp = Some st.
Proof.
  induction cs as [|c tl IH]; intros i rq_i rq_d rs rp H; simpl in *.
  - eexists; reflexivity.
  - apply andb_true_iff in H as [Hc Htl]. unfold comp_ok in Hc.
    destruct (isSome (c_req c) || isSome (c_rsrc c) || isSome (c_resp c)); simpl in *.
    + apply IH; exact Htl.
    + rewrite Hc. apply IH; exact Htl.
Qed.

(* prepare_middleware rejects exactly the lists with a method-less component *)
Theorem prepare_defined_iff asgi indep cs :
  (exists st, prepare asgi indep cs = Some st) <-> forallb (comp_ok asgi) cs = true.
Proof.
  split.
  - intros [st H]. apply prepare_loop_spec in H. tauto.
  - intro H. apply prepare_accepts. exact H.
Qed.

(* ------------------------------------------------------------------ the loops *)

Lemma req_indep_seq : forall l cpl,
  req_indep l cpl = seq_calls true (at_site SReq l) cpl.
Proof.
  induction l as [|[i a] tl IH]; intro cpl; simpl; [reflexivity|].
  destruct (call a); simpl; try reflexivity.
  - destruct cpl; simpl; [reflexivity|]. rewrite IH. reflexivity.
  - rewrite orb_true_r. reflexivity.
Qed.

Lemma rsrc_loop_seq : forall l cpl,
  rsrc_loop l cpl = seq_calls true (at_site SRsrc l) cpl.
Proof.
  induction l as [|[i a] tl IH]; intro cpl; simpl; [reflexivity|].
  destruct (call a); simpl; try reflexivity.
  - destruct cpl; simpl; [reflexivity|]. rewrite IH. reflexivity.
  - rewrite orb_true_r. reflexivity.
Qed.

(* once complete, the dependent loop calls nothing more but still queues everything *)
Lemma req_dep_complete : forall cs i dep,
  req_dep (pairs i cs) true dep = ([], true, rev (methods c_resp i cs) ++ dep, None).
Proof.
  induction cs as [|c tl IH]; intros i dep; simpl; [reflexivity|].
  destruct (c_req c) as [a|], (c_resp c) as [b|]; simpl; rewrite ?IH;
    repeat (rewrite <- app_assoc; simpl); reflexivity.
Qed.

Lemma seq_req_index : forall cs i cpl ev c s x,
  seq_calls true (at_site SReq (methods c_req i cs)) cpl = (ev, c, Some (s, x)) ->
  i <= site_index s.
Proof.
  induction cs as [|c0 tl IH]; intros i cpl ev c s x H; simpl in H; [discriminate|].
  destruct (c_req c0) as [a|]; simpl in H.
  - destruct (call a) eqn:Ca; simpl in H.
    + destruct cpl; simpl in H; [discriminate|].
      destruct (seq_calls true (at_site SReq (methods c_req (S i) tl)) false) as [[ev' c'] e'] eqn:E.
      injection H as _ _ ->. apply IH in E. lia.
    + rewrite orb_true_r in H. discriminate.
    + injection H as _ _ <- _. simpl. lia.
  - apply IH in H. lia.
Qed.

Lemma req_dep_seq : forall cs i dep,
  req_dep (pairs i cs) false dep =
  let '(ev, c, e) := seq_calls true (at_site SReq (methods c_req i cs)) false in
  (ev, c,
   match e with
   | Some (s, _) => rev (methods c_resp i (firstn (site_index s - i) cs)) ++ dep
   | None => rev (methods c_resp i cs) ++ dep
   end, e).
Proof.
  induction cs as [|c tl IH]; intros i dep; simpl; [reflexivity|].
  destruct (c_req c) as [a|] eqn:Hrq; simpl.
  - destruct (call a) eqn:Ca; simpl.
    + rewrite IH.
      destruct (seq_calls true (at_site SReq (methods c_req (S i) tl)) false) as [[ev' c'] e'] eqn:E.
      destruct e' as [[s x]|].
      * pose proof (seq_req_index _ _ _ _ _ _ _ E) as Hle.
        replace (site_index s - i) with (S (site_index s - S i)) by lia. simpl.
        destruct (c_resp c); simpl; repeat (rewrite <- app_assoc; simpl); reflexivity.
      * destruct (c_resp c); simpl; repeat (rewrite <- app_assoc; simpl); reflexivity.
    + rewrite req_dep_complete.
      destruct (c_resp c); simpl; repeat (rewrite <- app_assoc; simpl); reflexivity.
    + rewrite Nat.sub_diag. reflexivity.
  - destruct (c_resp c) as [b|] eqn:Hrp; simpl.
    + rewrite IH.
      destruct (seq_calls true (at_site SReq (methods c_req (S i) tl)) false) as [[ev' c'] e'] eqn:E.
      destruct e' as [[s x]|].
      * pose proof (seq_req_index _ _ _ _ _ _ _ E) as Hle.
        replace (site_index s - i) with (S (site_index s - S i)) by lia. simpl. rewrite Hrp.
        simpl. repeat (rewrite <- app_assoc; simpl). reflexivity.
      * repeat (rewrite <- app_assoc; simpl). reflexivity.
    + rewrite IH.
      destruct (seq_calls true (at_site SReq (methods c_req (S i) tl)) false) as [[ev' c'] e'] eqn:E.
      destruct e' as [[s x]|]; [|reflexivity].
      pose proof (seq_req_index _ _ _ _ _ _ _ E) as Hle.
      replace (site_index s - i) with (S (site_index s - S i)) by lia. simpl. rewrite Hrp.
      reflexivity.
Qed.

(* ------------------------------------------------------------------ hooks *)

Lemma seq_calls_snoc : forall l s a cpl,
  seq_calls false (l ++ [(s, a)]) cpl =
  let '(ev, c, e) := seq_calls false l cpl in
  match e with
  | Some _ => (ev, c, e)
  | None =>
    match call a with
    | CRaise x => (ev ++ [ECall s a], c, Some (s, x))
    | r => (ev ++ [ECall s a], c || is_compl r, None)
    end
  end.
Proof.
  induction l as [|[s0 a0] tl IH]; intros s a cpl; simpl.
  - destruct (call a); reflexivity.
  - destruct (call a0) eqn:C0; simpl; try reflexivity.
    + rewrite IH. destruct (seq_calls false tl (cpl || false)) as [[ev c] e].
      destruct e; [reflexivity|]. destruct (call a); reflexivity.
    + rewrite IH. destruct (seq_calls false tl (cpl || true)) as [[ev c] e].
      destruct e; [reflexivity|]. destruct (call a); reflexivity.
Qed.

Lemma seq_calls_cons_false s a tl cpl :
  seq_calls false ((s, a) :: tl) cpl =
  match call a with
  | CRaise x => ([ECall s a], cpl, Some (s, x))
  | r => let '(ev, c, e) := seq_calls false tl (cpl || is_compl r) in (ECall s a :: ev, c, e)
  end.
Proof. simpl. destruct (call a); reflexivity. Qed.

(* The tower of before/after wrappers runs: before-hooks outermost first, the responder,
   after-hooks innermost first; the first raise ends it; complete stops nothing. *)
Theorem hooked_flat : forall hs j r cpl,
  hooked j hs r cpl = seq_calls false (befores j hs ++ [(SResponder, r)] ++ afters j hs) cpl.
Proof.
  induction hs as [|[b a] tl IH]; intros j r cpl.
  - simpl. destruct (call r); simpl; rewrite ?orb_false_r; reflexivity.
  - destruct b.
    + cbn [hooked befores afters app]. rewrite seq_calls_cons_false.
      destruct (call a); try reflexivity; rewrite IH; reflexivity.
    + cbn [hooked befores afters]. rewrite IH.
      replace (befores (S j) tl ++ [(SResponder, r)] ++ afters (S j) tl ++ [(SHook j, a)])
        with ((befores (S j) tl ++ [(SResponder, r)] ++ afters (S j) tl) ++ [(SHook j, a)])
        by (repeat (rewrite <- app_assoc; simpl); reflexivity).
      rewrite seq_calls_snoc.
      destruct (seq_calls false (befores (S j) tl ++ [(SResponder, r)] ++ afters (S j) tl) cpl)
        as [[ev c] e].
      destruct e; [reflexivity|]. destruct (call a); reflexivity.
Qed.

Lemma responder_call_spec q cpl :
  responder_call (q_route q) (q_hooks q) (q_responder q) cpl = spec_responder q cpl.
Proof.
  unfold responder_call, spec_responder. destruct (q_route q); try reflexivity.
  rewrite hooked_flat. reflexivity.
Qed.

(* ------------------------------------------------------------------ the main theorem *)

Lemma is_nil_rev_methods_resp (l : list (nat * action)) (d : list (nat * action)) :
  (if is_nil l then [] else l) = l.
Proof. destruct l; reflexivity. Qed.

Theorem order_spec asgi indep cs st q :
  prepare asgi indep cs = Some st ->
  run_request indep st q = spec_trace indep cs q.
Proof.
  intro Hp. apply prepare_spec in Hp. destruct Hp as (Hreq & Hrs & Hrp).
  unfold run_request, spec_trace. rewrite Hreq, Hrs, Hrp.
  destruct (q_meta q) eqn:Hm.
  - (* META method *)
    unfold after_raise, spec_resp_phase. simpl.
    destruct indep; simpl.
    + rewrite is_nil_rev_methods_resp by exact [].
      destruct (resp_loop (rev (methods c_resp 0 cs)) false false); reflexivity.
    + reflexivity.
  - destruct indep.
    + (* independent *)
      rewrite req_indep_seq.
      destruct (seq_calls true (at_site SReq (methods c_req 0 cs)) false) as [[ev1 cpl1] e1].
      rewrite is_nil_rev_methods_resp by exact [].
      destruct e1 as [[s x]|].
      * unfold after_raise, spec_resp_phase.
        destruct (handle_exception s x) as [hev [|]]; simpl; reflexivity.
      * destruct cpl1; simpl.
        { unfold spec_resp_phase. rewrite app_nil_r. reflexivity. }
        rewrite rsrc_loop_seq.
        destruct (has_resource (q_route q)).
        -- destruct (seq_calls true (at_site SRsrc (methods c_rsrc 0 cs)) false) as [[ev2 cpl2] e2].
           destruct e2 as [[s x]|].
           ++ unfold after_raise, spec_resp_phase.
              destruct (handle_exception s x) as [hev [|]]; simpl;
                repeat (rewrite <- app_assoc; simpl); reflexivity.
           ++ destruct cpl2; simpl; [reflexivity|].
              rewrite responder_call_spec.
              destruct (spec_responder q false) as [[ev3 c3] e3].
              destruct e3 as [[s x]|].
              ** unfold after_raise, spec_resp_phase.
                 destruct (handle_exception s x) as [hev [|]]; simpl;
                   repeat (rewrite <- app_assoc; simpl); reflexivity.
              ** unfold spec_resp_phase. repeat (rewrite <- app_assoc; simpl). reflexivity.
        -- simpl. rewrite responder_call_spec.
           destruct (spec_responder q false) as [[ev3 c3] e3].
           destruct e3 as [[s x]|].
           ++ unfold after_raise, spec_resp_phase.
              destruct (handle_exception s x) as [hev [|]]; simpl;
                repeat (rewrite <- app_assoc; simpl); reflexivity.
           ++ unfold spec_resp_phase. reflexivity.
    + (* dependent *)
      rewrite req_dep_seq.
      destruct (seq_calls true (at_site SReq (methods c_req 0 cs)) false) as [[ev1 cpl1] e1].
      cbn [is_nil].
      destruct e1 as [[s x]|].
      * rewrite Nat.sub_0_r, app_nil_r. unfold after_raise, spec_resp_phase.
        destruct (handle_exception s x) as [hev [|]]; simpl; reflexivity.
      * rewrite app_nil_r.
        destruct cpl1; simpl.
        { unfold spec_resp_phase. rewrite app_nil_r. reflexivity. }
        rewrite rsrc_loop_seq.
        destruct (has_resource (q_route q)).
        -- destruct (seq_calls true (at_site SRsrc (methods c_rsrc 0 cs)) false) as [[ev2 cpl2] e2].
           destruct e2 as [[s x]|].
           ++ unfold after_raise, spec_resp_phase.
              destruct (handle_exception s x) as [hev [|]]; simpl;
                repeat (rewrite <- app_assoc; simpl); reflexivity.
           ++ destruct cpl2; simpl; [reflexivity|].
              rewrite responder_call_spec.
              destruct (spec_responder q false) as [[ev3 c3] e3].
              destruct e3 as [[s x]|].
              ** unfold after_raise, spec_resp_phase.
                 destruct (handle_exception s x) as [hev [|]]; simpl;
                   repeat (rewrite <- app_assoc; simpl); reflexivity.
              ** unfold spec_resp_phase. repeat (rewrite <- app_assoc; simpl). reflexivity.
        -- simpl. rewrite responder_call_spec.
           destruct (spec_responder q false) as [[ev3 c3] e3].
           destruct e3 as [[s x]|].
           ++ unfold after_raise, spec_resp_phase.
              destruct (handle_exception s x) as [hev [|]]; simpl;
                repeat (rewrite <- app_assoc; simpl); reflexivity.
           ++ unfold spec_resp_phase. reflexivity.
Qed.

(* ------------------------------------------------------------------ facts about pieces *)

Lemma succ_flags_app : forall a b r,
  succ_flags_ok r (a ++ b) = succ_flags_ok r a && succ_flags_ok (r || existsb raising a) b.
Proof.
  induction a as [|e tl IH]; intros b r; simpl.
  - rewrite orb_false_r. reflexivity.
  - rewrite IH. rewrite <- !andb_assoc, orb_assoc. reflexivity.
Qed.

Lemma resp_indices_app : forall a b, resp_indices (a ++ b) = resp_indices a ++ resp_indices b.
Proof.
  induction a as [|e tl IH]; intro b; simpl; [reflexivity|].
  destruct e; simpl; rewrite IH; reflexivity.
Qed.

Lemma no_resp_flags_ok : forall t r, resp_indices t = [] -> succ_flags_ok r t = true.
Proof.
  induction t as [|e tl IH]; intros r H; simpl; [reflexivity|].
  destruct e; simpl in *; try discriminate; apply IH; exact H.
Qed.

Lemma req_raised_app a b :
  req_raised_at (a ++ b) = match req_raised_at a with Some k => Some k | None => req_raised_at b end.
Proof.
  induction a as [|e tl IH]; simpl; [reflexivity|].
  destruct e as [s x| |]; try exact IH.
  destruct s; try exact IH. destruct (is_raise x); [reflexivity|exact IH].
Qed.

Lemma req_raised_none t : existsb raising t = false -> req_raised_at t = None.
Proof.
  induction t as [|e tl IH]; simpl; intro H; [reflexivity|].
  apply orb_false_iff in H as [H1 H2].
  destruct e as [s x| |]; try (apply IH; exact H2).
  destruct s; try (apply IH; exact H2). simpl in H1. rewrite H1. apply IH; exact H2.
Qed.

Lemma fatal_raising e : fatal e = true -> raising e = true.
Proof.
  destruct e as [s a|i a r s|s h]; simpl; try reflexivity; destruct a; try discriminate;
    reflexivity.
Qed.

Lemma no_raise_no_fatal t : existsb raising t = false -> existsb fatal t = false.
Proof.
  induction t as [|e tl IH]; simpl; intro H; [reflexivity|].
  apply orb_false_iff in H as [H1 H2]. rewrite IH by exact H2.
  destruct (fatal e) eqn:F; [apply fatal_raising in F; congruence | reflexivity].
Qed.

Definition not_req_site (s : site) : bool := match s with SReq _ => false | _ => true end.

(* what a sequential run of scripted calls looks like *)
Lemma seq_calls_facts stop : forall l cpl ev c e,
  seq_calls stop l cpl = (ev, c, e) ->
  resp_indices ev = [] /\ existsb is_meta_ev ev = false /\
  match e with
  | None => existsb raising ev = false
  | Some (s, x) => exists f0 a, ev = f0 ++ [ECall s a] /\ call a = CRaise x /\
                               existsb raising f0 = false /\ In (s, a) l
  end.
Proof.
  induction l as [|[s a] tl IH]; intros cpl ev c e H; simpl in H.
  - injection H as <- _ <-. auto.
  - destruct (call a) eqn:Ca.
    + simpl in H. destruct (stop && (cpl || false)).
      * injection H as <- _ <-. simpl. unfold is_raise. rewrite Ca. auto.
      * destruct (seq_calls stop tl (cpl || false)) as [[ev' c'] e'] eqn:E.
        injection H as <- _ <-. apply IH in E. destruct E as (R & M & E).
        simpl. split; [exact R|]. split; [exact M|].
        destruct e' as [[s' x']|].
        -- destruct E as (f0 & a' & -> & Ca' & Nf & Hin).
           exists (ECall s a :: f0), a'. simpl. unfold is_raise at 1. rewrite Ca. simpl. auto.
        -- unfold is_raise. rewrite Ca. exact E.
    + simpl in H. destruct (stop && (cpl || true)).
      * injection H as <- _ <-. simpl. unfold is_raise. rewrite Ca. auto.
      * destruct (seq_calls stop tl (cpl || true)) as [[ev' c'] e'] eqn:E.
        injection H as <- _ <-. apply IH in E. destruct E as (R & M & E).
        simpl. split; [exact R|]. split; [exact M|].
        destruct e' as [[s' x']|].
        -- destruct E as (f0 & a' & -> & Ca' & Nf & Hin).
           exists (ECall s a :: f0), a'. simpl. unfold is_raise at 1. rewrite Ca. simpl. auto.
        -- unfold is_raise. rewrite Ca. exact E.
    + injection H as <- _ <-. simpl. repeat split; try reflexivity.
      exists [], a. simpl. auto.
Qed.

Lemma seq_req_raised : forall cs i cpl ev c e,
  seq_calls true (at_site SReq (methods c_req i cs)) cpl = (ev, c, e) ->
  req_raised_at ev = match e with Some (s, _) => Some (site_index s) | None => None end.
Proof.
  intros cs i cpl ev c e H. apply seq_calls_facts in H. destruct H as (_ & _ & H).
  destruct e as [[s x]|].
  - destruct H as (f0 & a & -> & Ca & Nf & Hin).
    rewrite req_raised_app, (req_raised_none _ Nf).
    unfold at_site in Hin. apply in_map_iff in Hin. destruct Hin as [[k b] [Heq _]].
    simpl in Heq. injection Heq as <- <-. simpl. unfold is_raise. rewrite Ca. reflexivity.
  - apply req_raised_none. exact H.
Qed.

Lemma raise_not_req_site f0 s a :
  existsb raising f0 = false -> not_req_site s = true ->
  req_raised_at (f0 ++ [ECall s a]) = None.
Proof.
  intros Nf Hs. rewrite req_raised_app, (req_raised_none _ Nf). destruct s; try reflexivity.
  discriminate.
Qed.

(* the four except-sites *)
Lemma handle_facts s x hev h :
  handle_exception s x = (hev, h) ->
  resp_indices hev = [] /\ req_raised_at hev = None /\
  existsb is_meta_ev hev = match s, x with SMeta, XApp _ => true | _, _ => false end /\
  match h with
  | HTrue => existsb fatal hev = false /\ x <> XBase
  | HProp => (x = XBase /\ hev = []) \/ (x = XApp HRaiseOther /\ hev = [EHandler s HRaiseOther])
  end.
Proof.
  destruct x as [|[| |]|]; simpl; intro H; injection H as <- <-; simpl;
    repeat split; auto; try discriminate; destruct s; reflexivity.
Qed.

(* the response loop *)
Lemma resp_loop_facts : forall l rsrc succ ev e,
  resp_loop l rsrc succ = (ev, e) ->
  succ_flags_ok (negb succ) ev = true /\
  req_raised_at ev = None /\ existsb is_meta_ev ev = false /\
  match e with
  | Finished s => existsb fatal ev = false /\ s = succ && negb (existsb raising ev) /\
                  resp_indices ev = map fst l
  | Propagated => exists f0 last, ev = f0 ++ [last] /\ existsb fatal f0 = false /\
                                  fatal last = true /\
                                  is_prefix (resp_indices ev) (map fst l) = true
  end.
Proof.
  induction l as [|[i a] tl IH]; intros rsrc succ ev e H; simpl in H.
  - injection H as <- <-. simpl. rewrite andb_true_r. repeat split; reflexivity.
  - destruct (call a) eqn:Ca.
    + destruct (resp_loop tl rsrc succ) as [ev' e'] eqn:E. injection H as <- <-.
      apply IH in E. destruct E as (F & R & M & E). simpl.
      unfold is_raise. rewrite Ca, orb_false_r, negb_involutive, eqb_reflx. simpl.
      repeat split; try assumption.
      destruct e'.
      * destruct E as (E1 & E2 & E3). rewrite E1, E3. destruct a; try discriminate; auto.
      * destruct E as (f0 & last & -> & E1 & E2 & E3).
        exists (EResp i a rsrc succ :: f0), last. simpl. rewrite Nat.eqb_refl.
        destruct a; try discriminate; auto.
    + destruct (resp_loop tl rsrc succ) as [ev' e'] eqn:E. injection H as <- <-.
      apply IH in E. destruct E as (F & R & M & E). simpl.
      unfold is_raise. rewrite Ca, orb_false_r, negb_involutive, eqb_reflx. simpl.
      repeat split; try assumption.
      destruct e'.
      * destruct E as (E1 & E2 & E3). rewrite E1, E3. destruct a; try discriminate; auto.
      * destruct E as (f0 & last & -> & E1 & E2 & E3).
        exists (EResp i a rsrc succ :: f0), last. simpl. rewrite Nat.eqb_refl.
        destruct a; try discriminate; auto.
    + destruct (handle_exception (SResp i) x) as [hev [|]] eqn:Hh.
      * destruct (resp_loop tl rsrc false) as [ev' e'] eqn:E. injection H as <- <-.
        apply IH in E. destruct E as (F & R & M & E).
        apply handle_facts in Hh. destruct Hh as (H1 & H2 & H3 & H4 & H5).
        simpl. unfold is_raise. rewrite Ca, orb_true_r, negb_involutive, eqb_reflx. simpl.
        rewrite succ_flags_app, (no_resp_flags_ok _ _ H1), orb_true_l.
        rewrite req_raised_app, H2, existsb_app, H3, resp_indices_app, H1. simpl in *.
        repeat split; try assumption.
        destruct e'.
        -- destruct E as (E1 & E2 & E3). rewrite existsb_app, H4, E1, E3, andb_false_r.
           destruct a; try discriminate; simpl in Ca; try (injection Ca as <-); auto.
           exfalso. apply H5. reflexivity.
        -- destruct E as (f0 & last & -> & E1 & E2 & E3).
           exists (EResp i a rsrc succ :: hev ++ f0), last.
           rewrite Nat.eqb_refl. simpl. rewrite existsb_app, H4, E1.
           repeat split; auto.
           ++ rewrite app_assoc. reflexivity.
           ++ destruct a; try discriminate; simpl in Ca; try (injection Ca as <-); auto.
              exfalso. apply H5. reflexivity.
      * injection H as <- <-.
        apply handle_facts in Hh. destruct Hh as (H1 & H2 & H3 & H4).
        simpl. unfold is_raise. rewrite Ca, negb_involutive, eqb_reflx. simpl.
        rewrite (no_resp_flags_ok _ _ H1), H2, H3, H1, Nat.eqb_refl. simpl.
        repeat split; auto.
        destruct H4 as [[-> ->] | [-> ->]].
        -- exists [], (EResp i a rsrc succ). destruct a as [| | |h0|]; try discriminate.
           simpl. auto.
        -- exists [EResp i a rsrc succ], (EHandler (SResp i) HRaiseOther). simpl.
           destruct a as [| | |h0|]; try discriminate; simpl; auto.
Qed.

(* ------------------------------------------------------------------ shape of a run *)

Lemma raise_call_not_fatal s a x : call a = CRaise x -> x <> XBase -> fatal (ECall s a) = false.
Proof. destruct a; simpl; intros H N; try reflexivity. injection H as <-. congruence. Qed.

Lemma raise_call_raising s a x : call a = CRaise x -> raising (ECall s a) = true.
Proof. simpl. unfold is_raise. intros ->. reflexivity. Qed.

Lemma raise_base_fatal s a : call a = CRaise XBase -> fatal (ECall s a) = true.
Proof. destruct a; simpl; try discriminate; auto. Qed.

Definition raised_front (ev : list event) (s : site) (x : exn) : Prop :=
  (exists f0 a, ev = f0 ++ [ECall s a] /\ call a = CRaise x /\ existsb raising f0 = false) \/
  (existsb raising ev = false /\ x = XApp HReturn).

Lemma after_raise_cases ev s x l rsrc :
  resp_indices ev = [] -> raised_front ev s x ->
  (exists f0 last, after_raise ev s x l rsrc = (f0 ++ [last], Propagated) /\
                   resp_indices (f0 ++ [last]) = [] /\ existsb fatal f0 = false /\
                   fatal last = true)
  \/
  (exists hev, handle_exception s x = (hev, HTrue) /\
               after_raise ev s x l rsrc = spec_resp_phase (ev ++ hev) l rsrc false /\
               resp_indices (ev ++ hev) = [] /\ existsb raising (ev ++ hev) = true /\
               existsb fatal (ev ++ hev) = false).
Proof.
  intros Hr Hf. unfold after_raise.
  destruct (handle_exception s x) as [hev h] eqn:Hh.
  pose proof (handle_facts _ _ _ _ Hh) as (H1 & H2 & H3 & H4).
  destruct h.
  - right. exists hev. destruct H4 as [H4 H5].
    repeat split; try reflexivity.
    + rewrite resp_indices_app, Hr, H1. reflexivity.
    + destruct Hf as [(f0 & a & -> & Ca & Nf) | [Nr ->]].
      * rewrite !existsb_app. simpl. unfold is_raise. rewrite Ca. simpl.
        rewrite orb_true_r. reflexivity.
      * simpl in Hh. injection Hh as <-. rewrite existsb_app. simpl. apply orb_true_r.
    + rewrite existsb_app, H4, orb_false_r.
      destruct Hf as [(f0 & a & -> & Ca & Nf) | [Nr ->]].
      * rewrite existsb_app. cbn [existsb]. rewrite (no_raise_no_fatal _ Nf).
        rewrite (raise_call_not_fatal s _ _ Ca H5). reflexivity.
      * apply no_raise_no_fatal. exact Nr.
  - left. destruct H4 as [[-> ->] | [-> ->]].
    + destruct Hf as [(f0 & a & -> & Ca & Nf) | [Nr Hx]]; [|discriminate].
      exists f0, (ECall s a). rewrite app_nil_r.
      repeat split; auto.
      * apply no_raise_no_fatal; exact Nf.
      * apply raise_base_fatal; exact Ca.
    + exists ev, (EHandler s HRaiseOther). repeat split; auto.
      * rewrite resp_indices_app, Hr. reflexivity.
      * destruct Hf as [(f0 & a & -> & Ca & Nf) | [Nr Hx]]; [|discriminate].
        rewrite existsb_app. cbn [existsb]. rewrite (no_raise_no_fatal _ Nf).
        rewrite (raise_call_not_fatal s _ _ Ca); [reflexivity | discriminate].
Qed.

Definition due_list (indep : bool) (cs : list comp) (t : list event) : list (nat * action) :=
  rev (methods c_resp 0
         (if indep then cs
          else if meta_rejected t then []
          else match req_raised_at t with Some k => firstn k cs | None => cs end)).

Lemma due_resp_list indep cs t : due_resp indep cs t = map fst (due_list indep cs t).
Proof. reflexivity. Qed.

Definition shape (indep : bool) (cs : list comp) (r : list event * ending) : Prop :=
  (exists f0 last, r = (f0 ++ [last], Propagated) /\ resp_indices (f0 ++ [last]) = [] /\
                   existsb fatal f0 = false /\ fatal last = true)
  \/
  (exists front succ rsrc,
      r = spec_resp_phase front (due_list indep cs front) rsrc succ /\
      resp_indices front = [] /\ existsb raising front = negb succ /\
      existsb fatal front = false).

Lemma at_site_not_req (f : nat -> site) l s a :
  (forall i, not_req_site (f i) = true) -> In (s, a) (at_site f l) -> not_req_site s = true.
Proof.
  intros Hf Hin. unfold at_site in Hin. apply in_map_iff in Hin.
  destruct Hin as [[k b] [Heq _]]. injection Heq as <- _. apply Hf.
Qed.

Lemma in_befores s a : forall hs j, In (s, a) (befores j hs) -> not_req_site s = true.
Proof.
  induction hs as [|[b x] tl IH]; intros j H; simpl in H; [contradiction|].
  destruct b; [destruct H as [H|H]; [injection H as <- _; reflexivity|]|]; eapply IH; eauto.
Qed.

Lemma in_afters s a : forall hs j, In (s, a) (afters j hs) -> not_req_site s = true.
Proof.
  induction hs as [|[b x] tl IH]; intros j H; simpl in H; [contradiction|].
  destruct b; [eapply IH; eauto|].
  apply in_app_or in H. destruct H as [H|[H|[]]]; [eapply IH; eauto|].
  injection H as <- _. reflexivity.
Qed.

(* the responder phase: no process_request site, and either clean or ends with the raise *)
Lemma spec_responder_facts q ev c e :
  spec_responder q false = (ev, c, e) ->
  resp_indices ev = [] /\ existsb is_meta_ev ev = false /\
  match e with
  | None => existsb raising ev = false
  | Some (s, x) => raised_front ev s x /\ not_req_site s = true /\ s <> SMeta
  end.
Proof.
  unfold spec_responder. destruct (q_route q).
  - intro H. pose proof (seq_calls_facts _ _ _ _ _ _ H) as (R & M & E).
    repeat split; auto. destruct e as [[s x]|]; [|exact E].
    destruct E as (f0 & a & -> & Ca & Nf & Hin). split; [left; eauto|].
    unfold flat_responder in Hin. apply in_app_or in Hin. destruct Hin as [Hin|Hin].
    + pose proof (in_befores _ _ _ _ Hin). split; [assumption|]. intros ->.
      clear -Hin. revert Hin. generalize 0. induction (q_hooks q) as [|[[] y] tl IH]; simpl; intros n H.
      * contradiction.
      * destruct H as [H|H]; [discriminate|]. eapply IH; eauto.
      * eapply IH; eauto.
    + destruct Hin as [Hin|Hin]; [injection Hin as <- _; split; [reflexivity|discriminate]|].
      pose proof (in_afters _ _ _ _ Hin). split; [assumption|]. intros ->.
      clear -Hin. revert Hin. generalize 0. induction (q_hooks q) as [|[[] y] tl IH]; simpl; intros n H.
      * contradiction.
      * eapply IH; eauto.
      * apply in_app_or in H. destruct H as [H|[H|[]]]; [eapply IH; eauto|discriminate].
  - intro H. injection H as <- _ <-. simpl. repeat split; auto; try discriminate. right. auto.
  - intro H. pose proof (seq_calls_facts _ _ _ _ _ _ H) as (R & M & E).
    repeat split; auto. destruct e as [[s x]|]; [|exact E].
    destruct E as (f0 & a & -> & Ca & Nf & Hin). split; [left; eauto|].
    destruct Hin as [Hin|[]]. injection Hin as <- _. split; [reflexivity|discriminate].
  - intro H. injection H as <- _ <-. simpl. repeat split; auto; try discriminate. right. auto.
Qed.

Lemma due_list_all indep cs t :
  meta_rejected t = false -> req_raised_at t = None ->
  due_list indep cs t = rev (methods c_resp 0 cs).
Proof. unfold due_list. intros -> ->. destruct indep; reflexivity. Qed.

Lemma raised_front_req_none ev s x :
  raised_front ev s x -> not_req_site s = true -> req_raised_at ev = None.
Proof.
  intros [(f0 & a & -> & Ca & Nf) | [Nr _]] Hs.
  - apply raise_not_req_site; assumption.
  - apply req_raised_none; exact Nr.
Qed.

Lemma later_ok indep cs front rsrc :
  resp_indices front = [] -> existsb raising front = false -> existsb is_meta_ev front = false ->
  shape indep cs (spec_resp_phase front (rev (methods c_resp 0 cs)) rsrc true).
Proof.
  intros R N M. right. exists front, true, rsrc.
  rewrite due_list_all by auto using req_raised_none.
  repeat split; auto using no_raise_no_fatal.
Qed.

Lemma later_raise indep cs pre ev s x rsrc :
  resp_indices pre = [] -> existsb raising pre = false -> existsb is_meta_ev pre = false ->
  resp_indices ev = [] -> existsb is_meta_ev ev = false ->
  raised_front ev s x -> not_req_site s = true -> s <> SMeta ->
  shape indep cs (after_raise (pre ++ ev) s x (rev (methods c_resp 0 cs)) rsrc).
Proof.
  intros Rp Np Mp Re Me Hf Hs Hm.
  assert (Hf' : raised_front (pre ++ ev) s x).
  { destruct Hf as [(f0 & a & -> & Ca & Nf) | [Nr ->]].
    - left. exists (pre ++ f0), a. rewrite app_assoc, existsb_app, Np, Nf. auto.
    - right. rewrite existsb_app, Np, Nr. auto. }
  assert (Rpe : resp_indices (pre ++ ev) = []) by (rewrite resp_indices_app, Rp, Re; reflexivity).
  destruct (after_raise_cases (pre ++ ev) s x (rev (methods c_resp 0 cs)) rsrc Rpe Hf')
    as [(f0 & last & E & R & F & L) | (hev & Hh & E & R & N & F)].
  - left. exists f0, last. auto.
  - right. exists ((pre ++ ev) ++ hev), false, rsrc. rewrite E.
    pose proof (handle_facts _ _ _ _ Hh) as (H1 & H2 & H3 & _).
    rewrite due_list_all.
    + repeat split; auto.
    + unfold meta_rejected. rewrite !existsb_app, Mp, Me, H3. destruct s; try reflexivity.
      congruence.
    + rewrite req_raised_app, (raised_front_req_none _ _ _ Hf' Hs). exact H2.
Qed.

Theorem spec_trace_shape indep cs q : shape indep cs (spec_trace indep cs q).
Proof.
  unfold spec_trace. destruct (q_meta q).
  - (* META method: only the handler, then the response phase *)
    right. exists [EHandler SMeta HReturn], false, false.
    unfold after_raise, due_list. simpl. destruct indep; simpl; repeat split; reflexivity.
  - destruct (seq_calls true (at_site SReq (methods c_req 0 cs)) false) as [[ev1 cpl1] e1] eqn:E1.
    pose proof (seq_calls_facts _ _ _ _ _ _ E1) as (R1 & M1 & F1).
    pose proof (seq_req_raised _ _ _ _ _ _ E1) as Q1.
    destruct e1 as [[s x]|].
    + (* a process_request raised *)
      destruct F1 as (f0 & a & Hev & Ca & Nf & Hin).
      assert (Hs : exists k, s = SReq k).
      { unfold at_site in Hin. apply in_map_iff in Hin. destruct Hin as [[k b] [Heq _]].
        injection Heq as <- _. eauto. }
      destruct Hs as [k ->].
      assert (Hf : raised_front ev1 (SReq k) x) by (left; eauto).
      match goal with |- shape _ _ (after_raise _ _ _ ?l _) => set (L := l) end.
      destruct (after_raise_cases ev1 (SReq k) x L false R1 Hf)
        as [(g0 & last & E & R & F & La) | (hev & Hh & E & R & N & F)].
      * left. exists g0, last. auto.
      * right. exists (ev1 ++ hev), false, false. rewrite E.
        pose proof (handle_facts _ _ _ _ Hh) as (H1 & H2 & H3 & _).
        replace (due_list indep cs (ev1 ++ hev)) with L.
        { repeat split; auto. }
        unfold L, due_list, meta_rejected.
        rewrite existsb_app, M1, H3, req_raised_app, Q1. destruct indep; reflexivity.
    + destruct cpl1.
      * (* a process_request completed the response *)
        apply later_ok; auto.
      * destruct (has_resource (q_route q)).
        -- destruct (seq_calls true (at_site SRsrc (methods c_rsrc 0 cs)) false)
             as [[ev2 cpl2] e2] eqn:E2.
           pose proof (seq_calls_facts _ _ _ _ _ _ E2) as (R2 & M2 & F2).
           destruct e2 as [[s x]|].
           ++ destruct F2 as (f0 & a & Hev & Ca & Nf & Hin).
              assert (Hs : not_req_site s = true) by (eapply at_site_not_req; eauto; reflexivity).
              apply later_raise; auto.
              ** left; eauto.
              ** intros ->. unfold at_site in Hin. apply in_map_iff in Hin.
                 destruct Hin as [[k b] [Heq _]]. discriminate.
           ++ destruct cpl2.
              ** apply later_ok.
                 --- rewrite resp_indices_app, R1, R2. reflexivity.
                 --- rewrite existsb_app, F1, F2. reflexivity.
                 --- rewrite existsb_app, M1, M2. reflexivity.
              ** destruct (spec_responder q false) as [[ev3 c3] e3] eqn:E3.
                 pose proof (spec_responder_facts _ _ _ _ E3) as (R3 & M3 & F3).
                 destruct e3 as [[s x]|].
                 --- destruct F3 as (Hf & Hs & Hm).
                     rewrite app_assoc. apply later_raise; auto.
                     +++ rewrite resp_indices_app, R1, R2. reflexivity.
                     +++ rewrite existsb_app, F1, F2. reflexivity.
                     +++ rewrite existsb_app, M1, M2. reflexivity.
                 --- apply later_ok.
                     +++ rewrite !resp_indices_app, R1, R2, R3. reflexivity.
                     +++ rewrite !existsb_app, F1, F2, F3. reflexivity.
                     +++ rewrite !existsb_app, M1, M2, M3. reflexivity.
        -- cbn [app].
           destruct (spec_responder q false) as [[ev3 c3] e3] eqn:E3.
           pose proof (spec_responder_facts _ _ _ _ E3) as (R3 & M3 & F3).
           destruct e3 as [[s x]|].
           ++ destruct F3 as (Hf & Hs & Hm).
              replace (ev1 ++ [] ++ ev3) with (ev1 ++ ev3) by reflexivity.
              apply later_raise; auto.
           ++ replace (ev1 ++ [] ++ ev3) with (ev1 ++ ev3) by reflexivity.
              apply later_ok.
              ** rewrite !resp_indices_app, R1, R3. reflexivity.
              ** rewrite !existsb_app, F1, F3. reflexivity.
              ** rewrite !existsb_app, M1, M3. reflexivity.
Qed.

(* ------------------------------------------------------------------ oracle clauses *)

Lemma ncaf_app_nofatal : forall a b,
  existsb fatal a = false -> no_call_after_fatal (a ++ b) = no_call_after_fatal b.
Proof.
  induction a as [|e tl IH]; intros b H; simpl in *; [reflexivity|].
  apply orb_false_iff in H as [H1 H2]. rewrite H1. apply IH; exact H2.
Qed.

Lemma ncaf_nofatal t : existsb fatal t = false -> no_call_after_fatal t = true.
Proof. intro H. rewrite <- (app_nil_r t), ncaf_app_nofatal by exact H. reflexivity. Qed.

Lemma ncaf_last f0 last : existsb fatal f0 = false -> no_call_after_fatal (f0 ++ [last]) = true.
Proof. intro H. rewrite ncaf_app_nofatal by exact H. simpl. destruct (fatal last); reflexivity. Qed.

Lemma last_fatal_snoc f0 last : last_fatal (f0 ++ [last]) = fatal last.
Proof. unfold last_fatal. rewrite rev_app_distr. reflexivity. Qed.

Lemma last_fatal_nofatal t : existsb fatal t = false -> last_fatal t = false.
Proof.
  intro H. destruct t as [|e tl] using rev_ind; [reflexivity|].
  rewrite last_fatal_snoc. rewrite existsb_app in H. apply orb_false_iff in H as [_ H].
  simpl in H. rewrite orb_false_r in H. exact H.
Qed.

Lemma nat_list_eqb_refl l : nat_list_eqb l l = true.
Proof. induction l; simpl; [reflexivity|]. rewrite Nat.eqb_refl. exact IHl. Qed.

Lemma nat_list_eqb_eq : forall a b, nat_list_eqb a b = true -> a = b.
Proof.
  induction a as [|x a IH]; intros [|y b] H; simpl in H; try discriminate; [reflexivity|].
  apply andb_true_iff in H as [H1 H2]. apply Nat.eqb_eq in H1. apply IH in H2. congruence.
Qed.

Lemma due_list_ext indep cs front ev :
  req_raised_at ev = None -> existsb is_meta_ev ev = false ->
  due_list indep cs (front ++ ev) = due_list indep cs front.
Proof.
  intros R M. unfold due_list, meta_rejected. rewrite existsb_app, M, orb_false_r, req_raised_app, R.
  destruct (req_raised_at front); reflexivity.
Qed.

Section Clauses.
  Variables (indep : bool) (cs : list comp) (q : request).
  Let t := fst (spec_trace indep cs q).
  Let e := snd (spec_trace indep cs q).

  Lemma clause2 : succ_flags_ok false t = true.
  Proof.
    unfold t. destruct (spec_trace_shape indep cs q)
      as [(f0 & last & -> & R & F & L) | (front & succ & rsrc & -> & R & N & F)].
    - apply no_resp_flags_ok. exact R.
    - unfold spec_resp_phase.
      destruct (resp_loop (due_list indep cs front) rsrc succ) as [ev' e'] eqn:E. simpl.
      apply resp_loop_facts in E. destruct E as (Fl & _).
      rewrite succ_flags_app, (no_resp_flags_ok _ _ R), N. exact Fl.
  Qed.

  Lemma clause3 :
    no_call_after_fatal t = true /\
    match e with Propagated => last_fatal t = true | Finished _ => existsb fatal t = false end.
  Proof.
    unfold t, e. destruct (spec_trace_shape indep cs q)
      as [(f0 & last & -> & R & F & L) | (front & succ & rsrc & -> & R & N & F)].
    - simpl. rewrite last_fatal_snoc. split; [apply ncaf_last; exact F | exact L].
    - unfold spec_resp_phase.
      destruct (resp_loop (due_list indep cs front) rsrc succ) as [ev' e'] eqn:E. simpl.
      apply resp_loop_facts in E. destruct E as (_ & _ & _ & E).
      destruct e'.
      + destruct E as (E1 & _). assert (Hn : existsb fatal (front ++ ev') = false)
          by (rewrite existsb_app, F, E1; reflexivity).
        split; [apply ncaf_nofatal; exact Hn | exact Hn].
      + destruct E as (g0 & last & -> & E1 & E2 & _). rewrite app_assoc.
        rewrite last_fatal_snoc. split; [|exact E2].
        apply ncaf_last. rewrite existsb_app, F, E1. reflexivity.
  Qed.

  Lemma clause4 : resp_once_ok indep cs t e = true.
  Proof.
    unfold t, e. destruct (spec_trace_shape indep cs q)
      as [(f0 & last & -> & R & F & L) | (front & succ & rsrc & -> & R & N & F)].
    - simpl. rewrite R. reflexivity.
    - unfold spec_resp_phase.
      destruct (resp_loop (due_list indep cs front) rsrc succ) as [ev' e'] eqn:E. simpl.
      apply resp_loop_facts in E. destruct E as (_ & Q & M & E).
      unfold resp_once_ok. rewrite due_resp_list, (due_list_ext _ _ _ _ Q M), resp_indices_app, R.
      simpl. destruct e'.
      + destruct E as (_ & _ & ->). apply nat_list_eqb_refl.
      + destruct E as (g0 & last & _ & _ & _ & P). exact P.
  Qed.

  Lemma finished_flag s : e = Finished s -> s = negb (existsb raising t).
  Proof.
    unfold t, e. destruct (spec_trace_shape indep cs q)
      as [(f0 & last & -> & R & F & L) | (front & succ & rsrc & -> & R & N & F)].
    - discriminate.
    - unfold spec_resp_phase.
      destruct (resp_loop (due_list indep cs front) rsrc succ) as [ev' e'] eqn:E. simpl.
      apply resp_loop_facts in E. destruct E as (_ & _ & _ & E).
      intros ->. destruct E as (_ & -> & _). rewrite existsb_app, N.
      destruct succ, (existsb raising ev'); reflexivity.
  Qed.
End Clauses.

Lemma hact_eqb_refl h : hact_eqb h h = true. Proof. destruct h; reflexivity. Qed.
Lemma action_eqb_refl a : action_eqb a a = true.
Proof. destruct a; simpl; auto using hact_eqb_refl. Qed.
Lemma site_eqb_refl s : site_eqb s s = true.
Proof. destruct s; simpl; auto using Nat.eqb_refl. Qed.
Lemma event_eqb_refl e : event_eqb e e = true.
Proof.
  destruct e; simpl; rewrite ?site_eqb_refl, ?action_eqb_refl, ?hact_eqb_refl, ?Nat.eqb_refl,
    ?eqb_reflx; reflexivity.
Qed.
Lemma trace_eqb_refl t : trace_eqb t t = true.
Proof. induction t; simpl; [reflexivity|]. rewrite event_eqb_refl. exact IHt. Qed.

Theorem oracle_spec_sound indep cs q :
  oracle indep cs q (fst (spec_trace indep cs q)) (snd (spec_trace indep cs q)) = [].
Proof.
  unfold oracle. pose proof (clause2 indep cs q) as C2. pose proof (clause3 indep cs q) as [C3 C3'].
  pose proof (clause4 indep cs q) as C4.
  destruct (spec_trace indep cs q) as [t e]. simpl in *.
  rewrite trace_eqb_refl, C2, C3, C4. simpl.
  destruct e; simpl.
  - rewrite (last_fatal_nofatal _ C3'). reflexivity.
  - rewrite C3'. reflexivity.
Qed.

Theorem oracle_sound asgi indep cs st q :
  prepare asgi indep cs = Some st ->
  oracle indep cs q (fst (run_request indep st q)) (snd (run_request indep st q)) = [].
Proof. intro H. rewrite (order_spec _ _ _ _ q H). apply oracle_spec_sound. Qed.

(* ------------------------------------------------------------------ readable corollaries *)

Lemma succ_flags_split : forall pre r0 i a r s post,
  succ_flags_ok r0 (pre ++ EResp i a r s :: post) = true -> s = negb (r0 || existsb raising pre).
Proof.
  intros pre r0 i a r s post H. rewrite succ_flags_app in H. apply andb_true_iff in H as [_ H].
  simpl in H. apply andb_true_iff in H as [H _]. apply eqb_prop in H. exact H.
Qed.

Lemma ncaf_split : forall pre e0 post,
  no_call_after_fatal (pre ++ e0 :: post) = true -> fatal e0 = true -> post = [].
Proof.
  induction pre as [|x tl IH]; intros e0 post H F; simpl in H.
  - rewrite F in H. destruct post; [reflexivity|discriminate].
  - destruct (fatal x).
    + destruct tl; discriminate.
    + eapply IH; eauto.
Qed.

Section Corollaries.
  Variables (asgi indep : bool) (cs : list comp) (st : stacks) (q : request).
  Hypothesis Hprep : prepare asgi indep cs = Some st.
  Let t := fst (run_request indep st q).
  Let e := snd (run_request indep st q).

  (* every process_response sees req_succeeded = "nothing has raised so far" *)
  Theorem succeeded_iff_no_raise pre i a r s post :
    t = pre ++ EResp i a r s :: post -> s = negb (existsb raising pre).
  Proof.
    unfold t. rewrite (order_spec _ _ _ _ q Hprep). intro H.
    pose proof (clause2 indep cs q) as C. rewrite H in C.
    apply succ_flags_split in C. exact C.
  Qed.

  (* ... and so does the final value of the flag *)
  Theorem final_flag s : e = Finished s -> s = negb (existsb raising t).
  Proof. unfold e, t. rewrite (order_spec _ _ _ _ q Hprep). apply finished_flag. Qed.

  (* an unhandled raise (BaseException, or an error handler raising a non-HTTP error) is
     the last thing that happens, and the exception leaves the app *)
  Theorem no_call_after_unhandled pre e0 post :
    t = pre ++ e0 :: post -> fatal e0 = true -> post = [] /\ e = Propagated.
  Proof.
    unfold t, e. rewrite (order_spec _ _ _ _ q Hprep). intros H F.
    pose proof (clause3 indep cs q) as [C C']. rewrite H in C.
    pose proof (ncaf_split _ _ _ C F) as ->. split; [reflexivity|].
    destruct (snd (spec_trace indep cs q)); [|reflexivity].
    rewrite H, existsb_app in C'. simpl in C'. rewrite F, orb_true_r in C'. discriminate.
  Qed.

  Theorem propagated_iff_last_fatal : e = Propagated <-> last_fatal t = true.
  Proof.
    unfold t, e. rewrite (order_spec _ _ _ _ q Hprep).
    pose proof (clause3 indep cs q) as [_ C]. destruct (snd (spec_trace indep cs q)).
    - rewrite (last_fatal_nofatal _ C). split; discriminate.
    - tauto.
  Qed.

  (* response methods bottom-up, exactly the due ones, once each *)
  Theorem response_order s :
    e = Finished s -> resp_indices t = due_resp indep cs t.
  Proof.
    unfold t, e. rewrite (order_spec _ _ _ _ q Hprep). intro H.
    pose proof (clause4 indep cs q) as C. rewrite H in C. apply nat_list_eqb_eq. exact C.
  Qed.

  Theorem response_order_prefix : is_prefix (resp_indices t) (due_resp indep cs t) = true.
  Proof.
    unfold t. rewrite (order_spec _ _ _ _ q Hprep).
    pose proof (clause4 indep cs q) as C. destruct (snd (spec_trace indep cs q)); [|exact C].
    simpl in C. apply nat_list_eqb_eq in C. rewrite C. clear.
    induction (due_resp indep cs (fst (spec_trace indep cs q))); simpl; [reflexivity|].
    rewrite Nat.eqb_refl. assumption.
  Qed.
End Corollaries.

(* indices of methods: increasing, and exactly the components that define the method *)
Lemma methods_in {A} (sel : comp -> option A) : forall cs i k a,
  In (k, a) (methods sel i cs) <->
  i <= k /\ exists c, nth_error cs (k - i) = Some c /\ sel c = Some a.
Proof.
  induction cs as [|c tl IH]; intros i k a; simpl.
  - split; [contradiction|]. intros [_ [c [H _]]]. destruct (k - i); discriminate.
  - assert (Htl : In (k, a) (methods sel (S i) tl) <->
                  i <= k /\ k <> i /\ exists c', nth_error tl (k - S i) = Some c' /\ sel c' = Some a).
    { rewrite IH. split.
      - intros [H1 H2]. repeat split; try lia. exact H2.
      - intros [H1 [H2 H3]]. split; [lia|exact H3]. }
    destruct (sel c) as [b|] eqn:Hs; simpl; rewrite Htl; split.
    + intros [H | (H1 & H2 & c' & H3 & H4)].
      * injection H as <- <-. split; [lia|]. exists c. rewrite Nat.sub_diag. auto.
      * split; [exact H1|]. exists c'. replace (k - i) with (S (k - S i)) by lia. auto.
    + intros (H1 & c' & H2 & H3). destruct (Nat.eq_dec k i) as [->|Hne].
      * left. rewrite Nat.sub_diag in H2. injection H2 as <-. congruence.
      * right. replace (k - i) with (S (k - S i)) in H2 by lia. eauto.
    + intros (H1 & H2 & c' & H3 & H4). split; [exact H1|]. exists c'.
      replace (k - i) with (S (k - S i)) by lia. auto.
    + intros (H1 & c' & H2 & H3). destruct (Nat.eq_dec k i) as [->|Hne].
      * rewrite Nat.sub_diag in H2. injection H2 as <-. congruence.
      * replace (k - i) with (S (k - S i)) in H2 by lia. eauto.
Qed.

Lemma methods_lb {A} (sel : comp -> option A) cs i k :
  In k (map fst (methods sel i cs)) -> i <= k.
Proof.
  intro H. apply in_map_iff in H. destruct H as [[k' a] [<- H]]. apply methods_in in H. tauto.
Qed.

Lemma methods_nodup {A} (sel : comp -> option A) : forall cs i, NoDup (map fst (methods sel i cs)).
Proof.
  induction cs as [|c tl IH]; intro i; simpl; [constructor|].
  destruct (sel c); [|apply IH]. simpl. constructor; [|apply IH].
  intro H. apply methods_lb in H. lia.
Qed.

(* independent mode, no escape: every process_response method runs exactly once *)
Theorem response_once_each asgi cs st q s i c a :
  prepare asgi true cs = Some st ->
  snd (run_request true st q) = Finished s ->
  nth_error cs i = Some c -> c_resp c = Some a ->
  count_occ Nat.eq_dec (resp_indices (fst (run_request true st q))) i = 1.
Proof.
  intros Hp He Hn Hr. rewrite (response_order _ _ _ _ q Hp s He).
  unfold due_resp.
  apply NoDup_count_occ'.
  - rewrite map_rev. apply NoDup_rev. apply methods_nodup.
  - rewrite map_rev. apply -> in_rev. apply in_map_iff. exists (i, a). split; [reflexivity|].
    apply methods_in. split; [lia|]. exists c. rewrite Nat.sub_0_r. auto.
Qed.

(* never more than once, in either mode, whatever happens *)
Lemma is_prefix_in : forall a b x, is_prefix a b = true -> In x a -> In x b.
Proof.
  induction a as [|z a IH]; intros b x H Hin; [contradiction|].
  destruct b as [|y b]; simpl in H; [discriminate|].
  apply andb_true_iff in H as [E H]. apply Nat.eqb_eq in E. subst y.
  destruct Hin as [->|Hin]; [left; reflexivity | right; eapply IH; eauto].
Qed.

Lemma is_prefix_nodup : forall a b, is_prefix a b = true -> NoDup b -> NoDup a.
Proof.
  induction a as [|x a IH]; intros b H Hb; [constructor|].
  destruct b as [|y b]; simpl in H; [discriminate|].
  apply andb_true_iff in H as [H1 H2]. apply Nat.eqb_eq in H1. subst y.
  inversion Hb as [|? ? Hnin Hnd]; subst. constructor; [|eapply IH; eauto].
  intro Hin. apply Hnin. eapply is_prefix_in; eauto.
Qed.

Theorem response_at_most_once asgi indep cs st q :
  prepare asgi indep cs = Some st ->
  NoDup (resp_indices (fst (run_request indep st q))).
Proof.
  intro Hp. eapply is_prefix_nodup; [apply (response_order_prefix _ _ _ _ q Hp)|].
  unfold due_resp. rewrite map_rev. apply NoDup_rev. apply methods_nodup.
Qed.

(* dependent mode: a process_response runs only for components above the one whose
   process_request raised, and for none when the request was rejected up front *)
Theorem dependent_prefix asgi cs st q i :
  prepare asgi false cs = Some st ->
  In i (resp_indices (fst (run_request false st q))) ->
  meta_rejected (fst (run_request false st q)) = false /\
  forall k, req_raised_at (fst (run_request false st q)) = Some k -> i < k.
Proof.
  intros Hp Hin. pose proof (response_order_prefix _ _ _ _ q Hp) as P.
  apply (is_prefix_in _ _ _ P) in Hin. unfold due_resp in Hin.
  destruct (meta_rejected (fst (run_request false st q))); [contradiction|].
  split; [reflexivity|]. intros k Hk. rewrite Hk in Hin.
  apply in_map_iff in Hin. destruct Hin as [[i' a] [<- Hin]]. apply in_rev in Hin.
  apply methods_in in Hin. destruct Hin as (_ & c & Hn & _). simpl.
  rewrite Nat.sub_0_r in Hn.
  assert (i' < length (firstn k cs)) by (apply nth_error_Some; congruence).
  rewrite firstn_length in H. lia.
Qed.

(* ------------------------------------------------------------------ lifespan *)

Fixpoint lsel (startup : bool) (l : list (nat * comp)) : list (nat * laction) :=
  match l with
  | [] => []
  | (i, c) :: tl =>
    match (if startup then c_startup c else c_shutdown c) with
    | Some a => (i, a) :: lsel startup tl
    | None => lsel startup tl
    end
  end.

Lemma lsel_app st : forall a b, lsel st (a ++ b) = lsel st a ++ lsel st b.
Proof.
  induction a as [|[i c] tl IH]; intro b; simpl; [reflexivity|].
  destruct (if st then c_startup c else c_shutdown c); simpl; rewrite IH; reflexivity.
Qed.

Lemma lsel_rev st l : lsel st (rev l) = rev (lsel st l).
Proof.
  induction l as [|[i c] tl IH]; simpl; [reflexivity|].
  rewrite lsel_app, IH. simpl.
  destruct (if st then c_startup c else c_shutdown c); simpl; rewrite ?app_nil_r; reflexivity.
Qed.

Lemma lsel_enumerate st : forall cs i,
  lsel st (enumerate i cs) = methods (if st then c_startup else c_shutdown) i cs.
Proof.
  induction cs as [|c tl IH]; intro i; simpl; [reflexivity|].
  rewrite IH. destruct st; reflexivity.
Qed.

Lemma lifespan_handlers_lsel st : forall l,
  lifespan_handlers st l = spec_lrun st (lsel st l).
Proof.
  induction l as [|[i c] tl IH]; simpl; [reflexivity|].
  destruct (if st then c_startup c else c_shutdown c) as [[| |]|]; simpl; rewrite ?IH; reflexivity.
Qed.

Theorem lifespan_spec cs : forall msgs, lifespan cs msgs = spec_lifespan cs msgs.
Proof.
  induction msgs as [|m tl IH]; simpl; [reflexivity|].
  destruct m.
  - rewrite lifespan_handlers_lsel, lsel_enumerate, IH. reflexivity.
  - rewrite lifespan_handlers_lsel, lsel_rev, lsel_enumerate. reflexivity.
  - exact IH.
Qed.

Definition lcall_events (st : bool) (l : list (nat * laction)) : list levent :=
  map (fun p => LCall st (fst p) (snd p)) l.

Definition all_ok (l : list (nat * laction)) : Prop := forall i a, In (i, a) l -> a = LOk.

Lemma spec_lrun_ok st : forall l, all_ok l -> spec_lrun st l = (lcall_events st l, None).
Proof.
  induction l as [|[i a] tl IH]; intro H; simpl; [reflexivity|].
  assert (a = LOk) by (apply (H i); left; reflexivity). subst a.
  rewrite IH; [reflexivity|]. intros j b Hin. apply (H j). right. exact Hin.
Qed.

Lemma spec_lrun_fail st : forall oks k rest, all_ok oks ->
  spec_lrun st (oks ++ (k, LFail) :: rest) =
  (lcall_events st oks ++ [LCall st k LFail;
                           if st then LSendStartupFailed else LSendShutdownFailed], Some LReturned).
Proof.
  induction oks as [|[i a] tl IH]; intros k rest H; simpl; [reflexivity|].
  assert (a = LOk) by (apply (H i); left; reflexivity). subst a.
  rewrite IH; [reflexivity|]. intros j b Hin. apply (H j). right. exact Hin.
Qed.

(* all handlers succeed: startup handlers in order, "complete", then shutdown handlers in
   reverse order, "complete" *)
Theorem lifespan_order cs :
  all_ok (methods c_startup 0 cs) -> all_ok (methods c_shutdown 0 cs) ->
  lifespan cs [LStartup; LShutdown] =
  (lcall_events true (methods c_startup 0 cs) ++ LSendStartupComplete ::
   lcall_events false (rev (methods c_shutdown 0 cs)) ++ [LSendShutdownComplete], LReturned).
Proof.
  intros Hs Hd. rewrite lifespan_spec. simpl.
  rewrite (spec_lrun_ok true _ Hs), (spec_lrun_ok false).
  - reflexivity.
  - intros i a Hin. apply in_rev in Hin. eapply Hd; eauto.
Qed.

(* the first failing startup handler is reported; nothing else runs, whatever the server
   sends afterwards *)
Theorem lifespan_startup_failure_stops cs oks k rest msgs :
  methods c_startup 0 cs = oks ++ (k, LFail) :: rest -> all_ok oks ->
  lifespan cs (LStartup :: msgs) =
  (lcall_events true oks ++ [LCall true k LFail; LSendStartupFailed], LReturned).
Proof.
  intros Hm Hok. rewrite lifespan_spec. simpl. rewrite Hm, (spec_lrun_fail true _ _ _ Hok).
  reflexivity.
Qed.

Theorem lifespan_shutdown_failure_stops cs oks k rest msgs :
  rev (methods c_shutdown 0 cs) = oks ++ (k, LFail) :: rest -> all_ok oks ->
  lifespan cs (LShutdown :: msgs) =
  (lcall_events false oks ++ [LCall false k LFail; LSendShutdownFailed], LReturned).
Proof.
  intros Hm Hok. rewrite lifespan_spec. simpl. rewrite Hm, (spec_lrun_fail false _ _ _ Hok).
  reflexivity.
Qed.

(* ------------------------------------------------------------------ phases *)

Lemma seq_calls_sites stop : forall l cpl ev c e s a,
  seq_calls stop l cpl = (ev, c, e) -> In (ECall s a) ev -> In (s, a) l.
Proof.
  induction l as [|[s0 a0] tl IH]; intros cpl ev c e s a H Hin; simpl in H.
  - injection H as <- _ _. contradiction.
  - destruct (call a0) eqn:Ca.
    + simpl in H. destruct (stop && (cpl || false)).
      * injection H as <- _ _. destruct Hin as [Hin|[]]. injection Hin as <- <-. left; reflexivity.
      * destruct (seq_calls stop tl (cpl || false)) as [[ev' c'] e'] eqn:E.
        injection H as <- _ _. destruct Hin as [Hin|Hin].
        -- injection Hin as <- <-. left; reflexivity.
        -- right. eapply IH; eauto.
    + simpl in H. destruct (stop && (cpl || true)).
      * injection H as <- _ _. destruct Hin as [Hin|[]]. injection Hin as <- <-. left; reflexivity.
      * destruct (seq_calls stop tl (cpl || true)) as [[ev' c'] e'] eqn:E.
        injection H as <- _ _. destruct Hin as [Hin|Hin].
        -- injection Hin as <- <-. left; reflexivity.
        -- right. eapply IH; eauto.
    + injection H as <- _ _. destruct Hin as [Hin|[]]. injection Hin as <- <-. left; reflexivity.
Qed.

(* a stop-on-complete run that neither completed nor raised made only plain returns *)
Lemma seq_calls_clean : forall l ev s a,
  seq_calls true l false = (ev, false, None) -> In (ECall s a) ev -> a = Return.
Proof.
  induction l as [|[s0 a0] tl IH]; intros ev s a H Hin; simpl in H.
  - injection H as <-. contradiction.
  - destruct (call a0) eqn:Ca; simpl in H; try discriminate.
    destruct (seq_calls true tl false) as [[ev' c'] e'] eqn:E.
    injection H as <- -> ->. destruct Hin as [Hin|Hin].
    + injection Hin as _ <-. destruct a0; try discriminate. reflexivity.
    + eapply IH; eauto.
Qed.

Lemma resp_loop_no_call : forall l rsrc succ s a,
  ~ In (ECall s a) (fst (resp_loop l rsrc succ)).
Proof.
  induction l as [|[i b] tl IH]; intros rsrc succ s a; simpl; [tauto|].
  destruct (call b).
  - specialize (IH rsrc succ s a). destruct (resp_loop tl rsrc succ). simpl in *.
    intros [H|H]; [discriminate|tauto].
  - specialize (IH rsrc succ s a). destruct (resp_loop tl rsrc succ). simpl in *.
    intros [H|H]; [discriminate|tauto].
  - destruct x as [|[| |]|]; simpl.
    + specialize (IH rsrc false s a). destruct (resp_loop tl rsrc false). simpl in *.
      intros [H|H]; [discriminate|tauto].
    + specialize (IH rsrc false s a). destruct (resp_loop tl rsrc false). simpl in *.
      intros [H|[H|H]]; [discriminate|discriminate|tauto].
    + specialize (IH rsrc false s a). destruct (resp_loop tl rsrc false). simpl in *.
      intros [H|[H|H]]; [discriminate|discriminate|tauto].
    + intros [H|[H|[]]]; discriminate.
    + intros [H|[]]; discriminate.
Qed.

Lemma in_spec_resp_phase ev l rsrc succ s a :
  In (ECall s a) (fst (spec_resp_phase ev l rsrc succ)) -> In (ECall s a) ev.
Proof.
  unfold spec_resp_phase. pose proof (resp_loop_no_call l rsrc succ s a) as N.
  destruct (resp_loop l rsrc succ). simpl in *. intro H. apply in_app_or in H. tauto.
Qed.

Lemma in_after_raise ev s0 x l rsrc s a :
  In (ECall s a) (fst (after_raise ev s0 x l rsrc)) -> In (ECall s a) ev.
Proof.
  unfold after_raise. destruct x as [|[| |]|]; simpl; intro H;
    try (apply in_spec_resp_phase in H); try apply in_app_or in H;
    try (destruct H as [H|H]; [exact H|]); try exact H;
    repeat (destruct H as [H|H]; try discriminate); try contradiction.
Qed.

Lemma in_at_site f l s a : In (s, a) (at_site f l) -> exists k, s = f k.
Proof.
  unfold at_site. intro H. apply in_map_iff in H. destruct H as [[k b] [H _]].
  injection H as <- _. eauto.
Qed.

Lemma befores_hook s a : forall hs j, In (s, a) (befores j hs) -> exists k, s = SHook k.
Proof.
  induction hs as [|[[] y] tl IH]; simpl; intros n Hin.
  - contradiction.
  - destruct Hin as [Hin|Hin]; [injection Hin as <- _; eauto | eapply IH; eauto].
  - eapply IH; eauto.
Qed.

Lemma afters_hook s a : forall hs j, In (s, a) (afters j hs) -> exists k, s = SHook k.
Proof.
  induction hs as [|[[] y] tl IH]; simpl; intros n Hin.
  - contradiction.
  - eapply IH; eauto.
  - apply in_app_or in Hin. destruct Hin as [Hin|[Hin|[]]];
      [eapply IH; eauto | injection Hin as <- _; eauto].
Qed.

Lemma in_responder_sites q ev c e s a :
  spec_responder q false = (ev, c, e) -> In (ECall s a) ev ->
  s = SResponder \/ exists j, s = SHook j.
Proof.
  unfold spec_responder. destruct (q_route q); intros H Hin.
  - apply (seq_calls_sites _ _ _ _ _ _ _ _ H) in Hin. unfold flat_responder in Hin.
    apply in_app_or in Hin. destruct Hin as [Hin|[Hin|Hin]].
    + right. eapply befores_hook; eauto.
    + injection Hin as <- _. auto.
    + right. eapply afters_hook; eauto.
  - injection H as <- _ _. contradiction.
  - apply (seq_calls_sites _ _ _ _ _ _ _ _ H) in Hin. destruct Hin as [Hin|[]].
    injection Hin as <- _. auto.
  - injection H as <- _ _. contradiction.
Qed.

Section Phases.
  Variables (indep : bool) (cs : list comp) (q : request).
  Let t := fst (spec_trace indep cs q).

  (* resource methods only after a successful route match *)
  Lemma spec_rsrc_requires_route i a :
    In (ECall (SRsrc i) a) t -> has_resource (q_route q) = true /\ q_meta q = false.
  Proof.
    unfold t, spec_trace. destruct (q_meta q).
    { intro H. apply in_after_raise in H. contradiction. }
    destruct (seq_calls true (at_site SReq (methods c_req 0 cs)) false) as [[ev1 cpl1] e1] eqn:E1.
    assert (N1 : ~ In (ECall (SRsrc i) a) ev1).
    { intro H. apply (seq_calls_sites _ _ _ _ _ _ _ _ E1) in H. apply in_at_site in H.
      destruct H as [k H]. discriminate. }
    destruct e1 as [[s x]|].
    { intro H. apply in_after_raise in H. contradiction. }
    destruct cpl1.
    { intro H. apply in_spec_resp_phase in H. contradiction. }
    destruct (has_resource (q_route q)); [auto|].
    destruct (spec_responder q false) as [[ev3 c3] e3] eqn:E3.
    assert (N3 : ~ In (ECall (SRsrc i) a) ev3).
    { intro H. apply (in_responder_sites _ _ _ _ _ _ E3) in H. destruct H as [H|[j H]]; discriminate. }
    destruct e3 as [[s x]|]; intro H;
      [apply in_after_raise in H | apply in_spec_resp_phase in H];
      simpl in H; apply in_app_or in H; tauto.
  Qed.

  (* the responder only if no middleware method completed the response or raised *)
  Lemma spec_responder_requires_clean a :
    In (ECall SResponder a) t ->
    forall s b, In (ECall s b) t -> not_req_site s = false \/ (exists k, s = SRsrc k) -> b = Return.
  Proof.
    unfold t, spec_trace. destruct (q_meta q).
    { intro H. apply in_after_raise in H. contradiction. }
    destruct (seq_calls true (at_site SReq (methods c_req 0 cs)) false) as [[ev1 cpl1] e1] eqn:E1.
    assert (N1 : ~ In (ECall SResponder a) ev1).
    { intro H. apply (seq_calls_sites _ _ _ _ _ _ _ _ E1) in H. apply in_at_site in H.
      destruct H as [k H]. discriminate. }
    destruct e1 as [[s x]|].
    { intro H. apply in_after_raise in H. contradiction. }
    destruct cpl1.
    { intro H. apply in_spec_resp_phase in H. contradiction. }
    set (P2 := if has_resource (q_route q)
               then seq_calls true (at_site SRsrc (methods c_rsrc 0 cs)) false
               else ([], false, None)).
    destruct P2 as [[ev2 cpl2] e2] eqn:E2.
    assert (S2 : forall s b, In (ECall s b) ev2 -> exists k, s = SRsrc k).
    { unfold P2 in E2. destruct (has_resource (q_route q)).
      - intros s b H. apply (seq_calls_sites _ _ _ _ _ _ _ _ E2) in H. eapply in_at_site; eauto.
      - injection E2 as <- _ _. contradiction. }
    assert (N2 : ~ In (ECall SResponder a) ev2).
    { intro H. apply S2 in H. destruct H as [k H]. discriminate. }
    destruct e2 as [[s x]|].
    { intro H. apply in_after_raise in H. apply in_app_or in H. tauto. }
    destruct cpl2.
    { intro H. apply in_spec_resp_phase in H. apply in_app_or in H. tauto. }
    assert (C2 : forall s b, In (ECall s b) ev2 -> b = Return).
    { unfold P2 in E2. destruct (has_resource (q_route q)).
      - intros s b H. eapply seq_calls_clean; eauto.
      - injection E2 as <-. contradiction. }
    destruct (spec_responder q false) as [[ev3 c3] e3] eqn:E3.
    assert (Hall : forall s b, In (ECall s b) (ev1 ++ ev2 ++ ev3) ->
                   not_req_site s = false \/ (exists k, s = SRsrc k) -> b = Return).
    { intros s b H Hs. apply in_app_or in H. destruct H as [H|H].
      - eapply seq_calls_clean; eauto.
      - apply in_app_or in H. destruct H as [H|H]; [eapply C2; eauto|].
        apply (in_responder_sites _ _ _ _ _ _ E3) in H.
        destruct H as [->|[j ->]]; destruct Hs as [Hs|[k Hs]]; discriminate. }
    destruct e3 as [[s x]|]; intros _ s' b H Hs;
      [apply in_after_raise in H | apply in_spec_resp_phase in H]; eapply Hall; eauto.
  Qed.
End Phases.

Theorem rsrc_requires_route asgi indep cs st q i a :
  prepare asgi indep cs = Some st ->
  In (ECall (SRsrc i) a) (fst (run_request indep st q)) ->
  has_resource (q_route q) = true /\ q_meta q = false.
Proof. intro H. rewrite (order_spec _ _ _ _ q H). apply spec_rsrc_requires_route. Qed.

Theorem responder_requires_clean asgi indep cs st q a :
  prepare asgi indep cs = Some st ->
  In (ECall SResponder a) (fst (run_request indep st q)) ->
  forall s b, In (ECall s b) (fst (run_request indep st q)) ->
              not_req_site s = false \/ (exists k, s = SRsrc k) -> b = Return.
Proof. intro H. rewrite (order_spec _ _ _ _ q H). apply spec_responder_requires_clean. Qed.

(* ------------------------------------------------------------------ stacks built in several steps *)

Definition flatten (bs : list batch) : list comp := concat (map batch_list bs).

Lemma flatten_snoc bs b : flatten (bs ++ [b]) = flatten bs ++ batch_list b.
Proof. unfold flatten. rewrite map_app, concat_app. simpl. rewrite app_nil_r. reflexivity. Qed.

Lemma add_middleware_unprepared asgi indep a b :
  a_unprepared (fst (add_middleware asgi indep a b)) = a_unprepared a ++ batch_list b.
Proof. unfold add_middleware. destruct (prepare asgi indep _); reflexivity. Qed.

Lemma add_middleware_ok asgi indep a b a' :
  add_middleware asgi indep a b = (a', true) ->
  a_stacks a' = prepare asgi indep (a_unprepared a ++ batch_list b).
Proof.
  unfold add_middleware. destruct (prepare asgi indep _) eqn:E; intro H; [|discriminate].
  injection H as <-. simpl. reflexivity.
Qed.

Lemma add_all_snoc asgi indep : forall bs a b,
  add_all asgi indep a (bs ++ [b]) =
  let '(a1, oks) := add_all asgi indep a bs in
  let '(a2, ok) := add_middleware asgi indep a1 b in (a2, oks ++ [ok]).
Proof.
  induction bs as [|b0 tl IH]; intros a b; simpl.
  - destruct (add_middleware asgi indep a b). reflexivity.
  - destruct (add_middleware asgi indep a b0) as [a1 ok0]. rewrite IH.
    destruct (add_all asgi indep a1 tl) as [a2 oks].
    destruct (add_middleware asgi indep a2 b). reflexivity.
Qed.

(* every call extends the accumulated list, whether or not it raised *)
Theorem add_all_unprepared asgi indep : forall bs a,
  a_unprepared (fst (add_all asgi indep a bs)) = a_unprepared a ++ flatten bs.
Proof.
  induction bs as [|b tl IH] using rev_ind; intro a.
  - simpl. unfold flatten. simpl. rewrite app_nil_r. reflexivity.
  - rewrite add_all_snoc, flatten_snoc, app_assoc, <- IH.
    destruct (add_all asgi indep a tl) as [a1 oks]. simpl.
    pose proof (add_middleware_unprepared asgi indep a1 b) as H.
    destruct (add_middleware asgi indep a1 b). exact H.
Qed.

(* whatever the split into constructor argument and add_middleware calls: if the last call
   returned normally, the prepared stacks are those of the whole concatenated list *)
Theorem add_all_stacks asgi indep a bs b a' :
  add_middleware asgi indep (fst (add_all asgi indep a bs)) b = (a', true) ->
  fst (add_all asgi indep a (bs ++ [b])) = a' /\
  a_stacks a' = prepare asgi indep (a_unprepared a ++ flatten (bs ++ [b])).
Proof.
  intro H. rewrite add_all_snoc. pose proof (add_all_unprepared asgi indep bs a) as U.
  destruct (add_all asgi indep a bs) as [a1 oks]. simpl in *. rewrite H. simpl.
  split; [reflexivity|]. rewrite (add_middleware_ok _ _ _ _ _ H), U, flatten_snoc, app_assoc.
  reflexivity.
Qed.

Theorem new_app_stacks asgi indep b a :
  new_app asgi indep b = Some a ->
  a_unprepared a = batch_list b /\ a_stacks a = prepare asgi indep (batch_list b).
Proof.
  unfold new_app, add_middleware. simpl.
  destruct (prepare asgi indep (batch_list b)) as [st|] eqn:Hp; [|discriminate].
  intro H. injection H as <-. simpl. auto.
Qed.

(* so the documented discipline applies to the concatenation, for every batch split *)
Theorem order_spec_batches asgi indep b0 bs b a0 a' q st :
  new_app asgi indep b0 = Some a0 ->
  add_middleware asgi indep (fst (add_all asgi indep a0 bs)) b = (a', true) ->
  a_stacks a' = Some st ->
  run_request indep st q = spec_trace indep (flatten (b0 :: bs ++ [b])) q.
Proof.
  intros Hn Ha Hs. apply new_app_stacks in Hn. destruct Hn as [Hu _].
  apply (order_spec asgi). apply add_all_stacks in Ha. destruct Ha as [_ Ha].
  rewrite Hs, Hu in Ha. unfold flatten in *. simpl. congruence.
Qed.

Theorem order_spec_constructor asgi indep b0 a0 q st :
  new_app asgi indep b0 = Some a0 -> a_stacks a0 = Some st ->
  run_request indep st q = spec_trace indep (batch_list b0) q.
Proof.
  intros Hn Hs. apply new_app_stacks in Hn. destruct Hn as [_ Hp].
  apply (order_spec asgi). congruence.
Qed.

(* ------------------------------------------------------------------ nothing escapes a benign script *)

(* an action after which no exception can leave the app: anything except raising a
   BaseException or raising an error whose handler raises a non-HTTP error *)
Definition benign_action (a : action) : bool :=
  match a with RaiseUnhandled | RaiseApp HRaiseOther => false | _ => true end.

Definition benign_opt (o : option action) : bool :=
  match o with Some a => benign_action a | None => true end.

Definition benign_comp (c : comp) : bool :=
  benign_opt (c_req c) && benign_opt (c_rsrc c) && benign_opt (c_resp c).

Definition benign_request (q : request) : bool :=
  forallb (fun h => benign_action (snd h)) (q_hooks q) && benign_action (q_responder q).

Definition benign_exn (x : exn) : bool :=
  match x with XBase | XApp HRaiseOther => false | _ => true end.

Lemma call_benign a x : benign_action a = true -> call a = CRaise x -> benign_exn x = true.
Proof. destruct a as [| | |[| |]|]; simpl; intros B H; try discriminate; injection H as <-; reflexivity. Qed.

Lemma seq_calls_exn_benign stop l cpl ev c s x :
  forallb (fun p => benign_action (snd p)) l = true ->
  seq_calls stop l cpl = (ev, c, Some (s, x)) -> benign_exn x = true.
Proof.
  intros B H. apply seq_calls_facts in H. destruct H as (_ & _ & f0 & a & _ & Ca & _ & Hin).
  rewrite forallb_forall in B. specialize (B _ Hin). eapply call_benign; eauto.
Qed.

Lemma resp_loop_benign : forall l rsrc succ,
  forallb (fun p => benign_action (snd p)) l = true ->
  exists s, snd (resp_loop l rsrc succ) = Finished s.
Proof.
  induction l as [|[i a] tl IH]; intros rsrc succ B; simpl.
  - eauto.
  - simpl in B. apply andb_true_iff in B as [Ba Btl].
    destruct a as [| | |[| |]|]; simpl in *; try discriminate.
    + destruct (IH rsrc succ Btl) as [s Hs]. destruct (resp_loop tl rsrc succ). simpl in *. eauto.
    + destruct (IH rsrc succ Btl) as [s Hs]. destruct (resp_loop tl rsrc succ). simpl in *. eauto.
    + destruct (IH rsrc false Btl) as [s Hs]. destruct (resp_loop tl rsrc false). simpl in *. eauto.
    + destruct (IH rsrc false Btl) as [s Hs]. destruct (resp_loop tl rsrc false). simpl in *. eauto.
    + destruct (IH rsrc false Btl) as [s Hs]. destruct (resp_loop tl rsrc false). simpl in *. eauto.
Qed.

Lemma spec_resp_phase_benign ev l rsrc succ :
  forallb (fun p => benign_action (snd p)) l = true ->
  exists s, snd (spec_resp_phase ev l rsrc succ) = Finished s.
Proof.
  intro B. unfold spec_resp_phase. destruct (resp_loop_benign l rsrc succ B) as [s Hs].
  destruct (resp_loop l rsrc succ). simpl in *. eauto.
Qed.

Lemma after_raise_benign ev s x l rsrc :
  benign_exn x = true -> forallb (fun p => benign_action (snd p)) l = true ->
  exists s', snd (after_raise ev s x l rsrc) = Finished s'.
Proof.
  intros Bx B. unfold after_raise.
  destruct x as [|[| |]|]; simpl in *; try discriminate; apply spec_resp_phase_benign; exact B.
Qed.

Lemma methods_benign sel (Hsel : forall c, benign_comp c = true -> benign_opt (sel c) = true) :
  forall cs i, forallb benign_comp cs = true ->
  forallb (fun p : nat * action => benign_action (snd p)) (methods sel i cs) = true.
Proof.
  induction cs as [|c tl IH]; intros i B; simpl; [reflexivity|].
  simpl in B. apply andb_true_iff in B as [Bc Btl]. specialize (Hsel c Bc).
  destruct (sel c) as [a|]; simpl in *.
  - rewrite Hsel. apply IH. exact Btl.
  - apply IH. exact Btl.
Qed.

Lemma forallb_rev {A} (f : A -> bool) l : forallb f (rev l) = forallb f l.
Proof.
  induction l; simpl; [reflexivity|]. rewrite forallb_app, IHl. simpl. rewrite andb_true_r.
  apply andb_comm.
Qed.

Lemma forallb_firstn {A} (f : A -> bool) : forall n l, forallb f l = true -> forallb f (firstn n l) = true.
Proof.
  induction n as [|n IH]; intros [|x l] H; simpl in *; auto.
  apply andb_true_iff in H as [H1 H2]. rewrite H1. simpl. apply IH. exact H2.
Qed.

Lemma at_site_benign f l :
  forallb (fun p : nat * action => benign_action (snd p)) l = true ->
  forallb (fun p : site * action => benign_action (snd p)) (at_site f l) = true.
Proof.
  induction l as [|p tl IH]; simpl; intro H; [reflexivity|].
  apply andb_true_iff in H as [H1 H2]. rewrite H1. simpl. apply IH. exact H2.
Qed.

Lemma befores_benign : forall hs j, forallb (fun h : bool * action => benign_action (snd h)) hs = true ->
  forallb (fun p : site * action => benign_action (snd p)) (befores j hs) = true.
Proof.
  induction hs as [|[b a] tl IH]; intros j B; [reflexivity|].
  simpl in B. apply andb_true_iff in B as [B1 B2]. destruct b; simpl.
  - rewrite B1. simpl. apply IH. exact B2.
  - apply IH. exact B2.
Qed.

Lemma afters_benign : forall hs j, forallb (fun h : bool * action => benign_action (snd h)) hs = true ->
  forallb (fun p : site * action => benign_action (snd p)) (afters j hs) = true.
Proof.
  induction hs as [|[b a] tl IH]; intros j B; [reflexivity|].
  simpl in B. apply andb_true_iff in B as [B1 B2]. destruct b; simpl.
  - apply IH. exact B2.
  - rewrite forallb_app, IH by exact B2. simpl. rewrite B1. reflexivity.
Qed.

Lemma spec_responder_benign q ev c s x :
  benign_request q = true -> spec_responder q false = (ev, c, Some (s, x)) -> benign_exn x = true.
Proof.
  unfold benign_request, spec_responder. intros B H. apply andb_true_iff in B as [Bh Br].
  destruct (q_route q).
  - eapply seq_calls_exn_benign; [|exact H]. unfold flat_responder.
    rewrite !forallb_app, befores_benign, afters_benign by exact Bh. simpl. rewrite Br. reflexivity.
  - injection H as _ _ _ <-. reflexivity.
  - eapply seq_calls_exn_benign; [|exact H]. simpl. rewrite Br. reflexivity.
  - injection H as _ _ _ <-. reflexivity.
Qed.

Theorem spec_benign_finished indep cs q :
  forallb benign_comp cs = true -> benign_request q = true ->
  exists s, snd (spec_trace indep cs q) = Finished s.
Proof.
  intros Bc Bq.
  assert (Breq : forallb (fun p : nat * action => benign_action (snd p)) (methods c_req 0 cs) = true).
  { apply methods_benign; [|exact Bc]. unfold benign_comp. intros c H.
    apply andb_true_iff in H as [H _]. apply andb_true_iff in H as [H _]. exact H. }
  assert (Brs : forallb (fun p : nat * action => benign_action (snd p)) (methods c_rsrc 0 cs) = true).
  { apply methods_benign; [|exact Bc]. unfold benign_comp. intros c H.
    apply andb_true_iff in H as [H _]. apply andb_true_iff in H as [_ H]. exact H. }
  assert (Brp : forall cs', forallb benign_comp cs' = true ->
          forallb (fun p : nat * action => benign_action (snd p)) (rev (methods c_resp 0 cs')) = true).
  { intros cs' B'. rewrite forallb_rev. apply methods_benign; [|exact B']. unfold benign_comp.
    intros c H. apply andb_true_iff in H as [_ H]. exact H. }
  unfold spec_trace. destruct (q_meta q).
  - apply after_raise_benign; [reflexivity|]. destruct indep; [apply Brp; exact Bc|reflexivity].
  - destruct (seq_calls true (at_site SReq (methods c_req 0 cs)) false) as [[ev1 cpl1] e1] eqn:E1.
    destruct e1 as [[s x]|].
    + apply after_raise_benign.
      * eapply seq_calls_exn_benign; [|exact E1]. apply at_site_benign. exact Breq.
      * destruct indep; apply Brp; [exact Bc|]. apply forallb_firstn. exact Bc.
    + destruct cpl1; [apply spec_resp_phase_benign, Brp, Bc|].
      set (P2 := if has_resource (q_route q)
                 then seq_calls true (at_site SRsrc (methods c_rsrc 0 cs)) false
                 else ([], false, None)).
      destruct P2 as [[ev2 cpl2] e2] eqn:E2.
      destruct e2 as [[s x]|].
      * apply after_raise_benign; [|apply Brp, Bc]. unfold P2 in E2.
        destruct (has_resource (q_route q)); [|discriminate].
        eapply seq_calls_exn_benign; [|exact E2]. apply at_site_benign. exact Brs.
      * destruct cpl2; [apply spec_resp_phase_benign, Brp, Bc|].
        destruct (spec_responder q false) as [[ev3 c3] e3] eqn:E3.
        destruct e3 as [[s x]|].
        -- apply after_raise_benign; [|apply Brp, Bc]. eapply spec_responder_benign; eauto.
        -- apply spec_resp_phase_benign, Brp, Bc.
Qed.

(* if no scripted action raises a BaseException or has an error handler that raises a
   non-HTTP error, then for every stack, mode, route and fault placement the request ends
   with a response: no exception leaves the app *)
Theorem benign_finished asgi indep cs st q :
  prepare asgi indep cs = Some st ->
  forallb benign_comp cs = true -> benign_request q = true ->
  exists s, snd (run_request indep st q) = Finished s.
Proof. intros H Bc Bq. rewrite (order_spec _ _ _ _ q H). apply spec_benign_finished; assumption. Qed.

(* ------------------------------------------------------------------ definition styles *)
From Falcon.C03 Require Import Styles.

Lemma prepare_check_none asgi : forall cs,
  prepare_check asgi cs = None ->
  forallb (comp_ok asgi) (map sc_comp cs) = true /\ forallb (fun c => negb (comp_unbound c)) cs = true.
Proof.
  induction cs as [|c tl IH]; simpl; intro H; [auto|].
  destruct (comp_unbound c); [discriminate|]. destruct (comp_ok asgi (sc_comp c)); [|discriminate].
  simpl in *. apply IH. exact H.
Qed.

(* construction succeeds exactly when every present request-cycle method is bound and every
   component is acceptable; otherwise it RAISES (AttributeError for an unbound definition,
   TypeError for a method-less component) - nothing is silently skipped *)
Theorem prepare_styled_ok asgi indep cs st :
  prepare_styled asgi indep cs = inl st <->
  prepare_check asgi cs = None /\ prepare asgi indep (map sc_comp cs) = Some st.
Proof.
  unfold prepare_styled. split.
  - destruct (prepare_check asgi cs) eqn:E; [discriminate|].
    destruct (prepare asgi indep (map sc_comp cs)) eqn:P; [|discriminate].
    intro H. injection H as <-. auto.
  - intros [-> ->]. reflexivity.
Qed.

Theorem prepare_check_complete asgi indep cs :
  prepare_check asgi cs = None -> exists st, prepare asgi indep (map sc_comp cs) = Some st.
Proof.
  intro H. apply prepare_defined_iff. apply prepare_check_none in H. tauto.
Qed.

Theorem unbound_is_attribute_error asgi : forall cs,
  prepare_check asgi cs = Some PEAttributeError <->
  exists pre c post, cs = pre ++ c :: post /\ comp_unbound c = true /\ prepare_check asgi pre = None.
Proof.
  induction cs as [|c tl IH]; simpl.
  - split; [discriminate|]. intros (pre & c & post & H & _). destruct pre; discriminate.
  - destruct (comp_unbound c) eqn:U.
    { split; [intros _; exists [], c, tl; auto|reflexivity]. }
    destruct (comp_ok asgi (sc_comp c)) eqn:K; simpl.
    + rewrite IH. split.
      * intros (pre & c' & post & -> & Hu & Hp). exists (c :: pre), c', post. simpl. rewrite U, K. auto.
      * intros (pre & c' & post & H & Hu & Hp). destruct pre as [|p pre'].
        { simpl in H. injection H as -> ->. congruence. }
        simpl in H. injection H as -> ->. simpl in Hp. rewrite U, K in Hp. simpl in Hp.
        exists pre', c', post. auto.
    + split; [discriminate|]. intros (pre & c' & post & H & Hu & Hp). destruct pre as [|p pre'].
      { simpl in H. injection H as -> ->. congruence. }
      simpl in H. injection H as -> ->. simpl in Hp. rewrite U, K in Hp. discriminate.
Qed.

(* the discipline for styled stacks: whatever way the methods are defined (among the bound
   ways), the call order is that of the plain component list *)
Theorem order_spec_styled asgi indep cs st q :
  prepare_styled asgi indep cs = inl st ->
  run_request indep st q = spec_trace indep (map sc_comp cs) q.
Proof. intro H. apply prepare_styled_ok in H. destruct H as [_ H]. exact (order_spec _ _ _ _ q H). Qed.

(* lifespan handlers of every style take part, in order *)
Theorem lifespan_styled_spec cs msgs :
  lifespan_styled cs msgs = spec_lifespan (map sc_comp cs) msgs.
Proof. apply lifespan_spec. Qed.
