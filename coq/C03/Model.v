(* C03 — executable model of the request-processing control flow of falcon.App.__call__
   (falcon/app.py) and falcon.asgi.App.__call__ (falcon/asgi/app.py; the same control flow
   with `await`), of app_helpers.prepare_middleware, of the before/after hook wrappers of
   falcon/hooks.py and of asgi.App._call_lifespan_handlers.

   Application code (middleware methods, hooks, responders, error handlers, lifespan
   handlers) is a finite *script*: every callable carries the action it performs when (and
   if) the framework calls it.  The model produces the sequence of calls the framework makes
   and how the request ends. *)
From Coq Require Import List Bool Arith.
Import ListNotations.

(* ---- what an error handler registered by the application does when it is invoked *)
Inductive hact :=
| HReturn        (* returns normally *)
| HRaiseHTTP     (* raises HTTPError / HTTPStatus: rendered by _handle_exception *)
| HRaiseOther.   (* raises anything else: leaves _handle_exception and the app callable *)

(* ---- what an application callable does when invoked *)
Inductive action :=
| Return
| Complete                 (* resp.complete = True; return *)
| RaiseHTTP                (* raise falcon.HTTPError subclass -> default handler *)
| RaiseApp (h : hact)      (* raise an Exception subclass with a registered handler doing h *)
| RaiseUnhandled.          (* raise a BaseException that `except Exception` does not catch *)

Inductive exn := XHTTP | XApp (h : hact) | XBase.

Inductive cres := CRet | CCompl | CRaise (x : exn).

Definition call (a : action) : cres :=
  match a with
  | Return => CRet
  | Complete => CCompl
  | RaiseHTTP => CRaise XHTTP
  | RaiseApp h => CRaise (XApp h)
  | RaiseUnhandled => CRaise XBase
  end.

(* ---- a middleware component: which methods it defines, each with its scripted action *)
Inductive laction := LOk | LFail (* raises Exception *) | LAbort (* raises BaseException *).

Record comp := {
  c_req : option action;       (* process_request  *)
  c_rsrc : option action;      (* process_resource *)
  c_resp : option action;      (* process_response *)
  c_startup : option laction;  (* process_startup  (ASGI lifespan) *)
  c_shutdown : option laction  (* process_shutdown *)
}.

(* ---- call sites and the recorded trace *)
Inductive site :=
| SReq (i : nat) | SRsrc (i : nat) | SResp (i : nat)   (* component index in the middleware list *)
| SHook (j : nat)                                      (* hook layer, 0 = outermost decorator *)
| SResponder
| SDefault     (* the framework's own responder: path_not_found / bad_request (404 / 405) *)
| SMeta.       (* the META-method rejection at the top of __call__ *)
(* The framework's own raises (SDefault, SMeta) are HTTPError subclasses; the harness
   registers a recording handler that returns normally for exactly these classes, so they
   appear in the trace as [EHandler s HReturn] without a preceding ECall. *)

Inductive event :=
| ECall (s : site) (a : action)                 (* application callable at s invoked; it did a *)
| EResp (i : nat) (a : action) (rsrc succ : bool) (* process_response of component i, with
                                                     `resource is not None` and req_succeeded *)
| EHandler (s : site) (h : hact).               (* application error handler invoked for the
                                                     exception raised at s; it did h *)

(* ---- prepare_middleware *)
Inductive req_stack :=
| ReqIndep (l : list (nat * action))
| ReqDep (l : list (nat * option action * option action)).

Record stacks := {
  st_req : req_stack;
  st_rsrc : list (nat * action);
  st_resp : list (nat * action)
}.

Definition isSome {A} (o : option A) : bool := match o with Some _ => true | None => false end.

(* `for component in middleware:` with the three result lists as accumulators.  The lists
   are kept in *final* order except that appends are accumulated reversed (rq, rs) and
   reversed once at the end; response_mw.insert(0, m) is a cons.  None = TypeError
   ("must implement at least one middleware method"). *)
Fixpoint prepare_loop (asgi indep : bool) (i : nat) (cs : list comp)
         (rq_i : list (nat * action)) (rq_d : list (nat * option action * option action))
         (rs rp : list (nat * action)) : option stacks :=
  match cs with
  | [] => Some {| st_req := if indep then ReqIndep (rev rq_i) else ReqDep (rev rq_d);
                  st_rsrc := rev rs; st_resp := rp |}
  | c :: tl =>
    if negb (isSome (c_req c) || isSome (c_rsrc c) || isSome (c_resp c)) then
      if asgi && (isSome (c_startup c) || isSome (c_shutdown c))
      then prepare_loop asgi indep (S i) tl rq_i rq_d rs rp       (* continue *)
      else None                                                   (* raise TypeError *)
    else
      let rq_i' := if indep then match c_req c with Some a => (i, a) :: rq_i | None => rq_i end
                   else rq_i in
      let rp' := if indep then match c_resp c with Some a => (i, a) :: rp | None => rp end
                 else rp in
      let rq_d' := if indep then rq_d
                   else if isSome (c_req c) || isSome (c_resp c)
                        then (i, c_req c, c_resp c) :: rq_d else rq_d in
      let rs' := match c_rsrc c with Some a => (i, a) :: rs | None => rs end in
      prepare_loop asgi indep (S i) tl rq_i' rq_d' rs' rp'
  end.

Definition prepare (asgi indep : bool) (cs : list comp) : option stacks :=
  prepare_loop asgi indep 0 cs [] [] [] [].

(* ---- _handle_exception as reached from `except Exception as ex:` *)
Inductive hres :=
| HTrue    (* a handler ran (and what it raised, if anything, was rendered): returns True *)
| HProp.   (* an exception leaves the app callable *)

Definition handle_exception (s : site) (x : exn) : list event * hres :=
  match x with
  | XHTTP => ([], HTrue)                       (* App._http_error_handler (not instrumented) *)
  | XApp HReturn => ([EHandler s HReturn], HTrue)
  | XApp HRaiseHTTP => ([EHandler s HRaiseHTTP], HTrue)   (* except HTTPStatus / HTTPError *)
  | XApp HRaiseOther => ([EHandler s HRaiseOther], HProp)
  | XBase => ([], HProp)                       (* not an Exception: the except clause does not match *)
  end.

Definition is_compl (r : cres) : bool := match r with CCompl => true | _ => false end.

(* `for process_request in mw_req_stack: process_request(req, resp); if resp.complete: break` *)
Fixpoint req_indep (l : list (nat * action)) (cpl : bool)
  : list event * bool * option (site * exn) :=
  match l with
  | [] => ([], cpl, None)
  | (i, a) :: tl =>
    match call a with
    | CRaise x => ([ECall (SReq i) a], cpl, Some (SReq i, x))
    | r =>
      let cpl' := cpl || is_compl r in
      if cpl' then ([ECall (SReq i) a], cpl', None)
      else let '(ev, c, e) := req_indep tl cpl' in (ECall (SReq i) a :: ev, c, e)
    end
  end.

(* `for process_request, process_response in mw_req_stack:
       if process_request and not resp.complete: process_request(req, resp)
       if process_response: dependent_mw_resp_stack.insert(0, process_response)` *)
Fixpoint req_dep (l : list (nat * option action * option action)) (cpl : bool)
         (dep : list (nat * action))
  : list event * bool * list (nat * action) * option (site * exn) :=
  match l with
  | [] => ([], cpl, dep, None)
  | (i, rq, rs) :: tl =>
    let queue d := match rs with Some a => (i, a) :: d | None => d end in
    match rq with
    | Some a =>
      if negb cpl then
        match call a with
        | CRaise x => ([ECall (SReq i) a], cpl, dep, Some (SReq i, x))
        | r => let '(ev, c, d, e) := req_dep tl (cpl || is_compl r) (queue dep) in
               (ECall (SReq i) a :: ev, c, d, e)
        end
      else req_dep tl cpl (queue dep)
    | None => req_dep tl cpl (queue dep)
    end
  end.

(* `for process_resource in mw_rsrc_stack: process_resource(...); if resp.complete: break` *)
Fixpoint rsrc_loop (l : list (nat * action)) (cpl : bool)
  : list event * bool * option (site * exn) :=
  match l with
  | [] => ([], cpl, None)
  | (i, a) :: tl =>
    match call a with
    | CRaise x => ([ECall (SRsrc i) a], cpl, Some (SRsrc i, x))
    | r =>
      let cpl' := cpl || is_compl r in
      if cpl' then ([ECall (SRsrc i) a], cpl', None)
      else let '(ev, c, e) := rsrc_loop tl cpl' in (ECall (SRsrc i) a :: ev, c, e)
    end
  end.

(* ---- hooks.py: a decorated responder is a tower of wrappers.
   (true, a) = falcon.before layer: action; then the wrapped responder
   (false, a) = falcon.after layer: the wrapped responder; then action
   Neither wrapper looks at resp.complete. *)
Fixpoint hooked (j : nat) (hs : list (bool * action)) (responder : action) (cpl : bool)
  : list event * bool * option (site * exn) :=
  match hs with
  | [] =>
    match call responder with
    | CRaise x => ([ECall SResponder responder], cpl, Some (SResponder, x))
    | r => ([ECall SResponder responder], cpl || is_compl r, None)
    end
  | (true, a) :: tl =>
    match call a with
    | CRaise x => ([ECall (SHook j) a], cpl, Some (SHook j, x))
    | r => let '(ev, c, e) := hooked (S j) tl responder (cpl || is_compl r) in
           (ECall (SHook j) a :: ev, c, e)
    end
  | (false, a) :: tl =>
    let '(ev, c, e) := hooked (S j) tl responder cpl in
    match e with
    | Some _ => (ev, c, e)
    | None =>
      match call a with
      | CRaise x => (ev ++ [ECall (SHook j) a], c, Some (SHook j, x))
      | r => (ev ++ [ECall (SHook j) a], c || is_compl r, None)
      end
    end
  end.

(* what _get_responder found *)
Inductive route :=
| Routed      (* a resource with a responder for the method (possibly decorated with hooks) *)
| NoMethod    (* a resource without that method: responder = bad_request (405) *)
| Sink        (* no resource; a sink function is the responder *)
| NotFound.   (* no resource; responder = path_not_found (404) *)

Definition has_resource (r : route) : bool :=
  match r with Routed | NoMethod => true | Sink | NotFound => false end.

Definition responder_call (r : route) (hooks : list (bool * action)) (responder : action)
           (cpl : bool) : list event * bool * option (site * exn) :=
  match r with
  | Routed => hooked 0 hooks responder cpl
  | Sink => hooked 0 [] responder cpl
  | NoMethod | NotFound => ([], cpl, Some (SDefault, XApp HReturn))
  end.

(* how the request ended *)
Inductive ending :=
| Finished (succ : bool)   (* reached body rendering with this req_succeeded *)
| Propagated.              (* an exception left the app callable *)

(* `for process_response in mw_resp_stack or dependent_mw_resp_stack:` *)
Fixpoint resp_loop (l : list (nat * action)) (rsrc succ : bool) : list event * ending :=
  match l with
  | [] => ([], Finished succ)
  | (i, a) :: tl =>
    match call a with
    | CRaise x =>
      match handle_exception (SResp i) x with
      | (hev, HProp) => (EResp i a rsrc succ :: hev, Propagated)
      | (hev, HTrue) =>
        let '(ev, e) := resp_loop tl rsrc false in (EResp i a rsrc succ :: hev ++ ev, e)
      end
    | _ => let '(ev, e) := resp_loop tl rsrc succ in (EResp i a rsrc succ :: ev, e)
    end
  end.

Record request := {
  q_meta : bool;                   (* req.method in _META_METHODS *)
  q_route : route;
  q_hooks : list (bool * action);  (* outermost first *)
  q_responder : action             (* the responder / sink itself *)
}.

Definition is_nil {A} (l : list A) : bool := match l with [] => true | _ => false end.

(* App.__call__ up to (excluding) body rendering *)
Definition run_request (indep : bool) (st : stacks) (q : request) : list event * ending :=
  (* first try block *)
  let '(ev1, cpl1, dep, exc1) :=
    if q_meta q then ([], false, [], Some (SMeta, XApp HReturn))   (* raise HTTPBadRequest() *)
    else if indep then
      match st_req st with
      | ReqIndep l => let '(ev, c, e) := req_indep l false in (ev, c, [], e)
      | ReqDep _ => ([], false, [], None)    (* unreachable: prepare builds the matching shape *)
      end
    else
      match st_req st with
      | ReqDep l => req_dep l false []
      | ReqIndep _ => ([], false, [], None)  (* unreachable *)
      end in
  (* `if not resp.complete: responder, params, resource, ... = self._get_responder(req)` *)
  let routed := match exc1 with None => negb cpl1 | Some _ => false end in
  let resource := routed && has_resource (q_route q) in
  let resp_stack := if is_nil (st_resp st) then dep else st_resp st in
  let finish ev succ :=
    let '(ev3, e) := resp_loop resp_stack resource succ in (ev ++ ev3, e) in
  match exc1 with
  | Some (s, x) =>
    (* except Exception as ex: if not self._handle_exception(...): raise *)
    match handle_exception s x with
    | (hev, HProp) => (ev1 ++ hev, Propagated)
    | (hev, HTrue) => finish (ev1 ++ hev) false
    end
  | None =>
    (* else: second try block *)
    let '(ev2a, cpl2, exc2a) :=
      if resource then rsrc_loop (st_rsrc st) cpl1 else ([], cpl1, None) in
    let '(ev2, exc2) :=
      match exc2a with
      | Some _ => (ev2a, exc2a)
      | None =>
        if negb cpl2 then
          let '(evr, _, e) := responder_call (q_route q) (q_hooks q) (q_responder q) cpl2 in
          (ev2a ++ evr, e)
        else (ev2a, None)
      end in
    match exc2 with
    | None => finish (ev1 ++ ev2) true              (* req_succeeded = True *)
    | Some (s, x) =>
      match handle_exception s x with
      | (hev, HProp) => (ev1 ++ ev2 ++ hev, Propagated)
      | (hev, HTrue) => finish (ev1 ++ ev2 ++ hev) false
      end
    end
  end.

(* ---- ASGI lifespan: _call_lifespan_handlers *)
Inductive lmsg := LStartup | LShutdown | LOther.   (* what receive() returns *)

Inductive levent :=
| LCall (startup : bool) (i : nat) (a : laction)
| LSendStartupComplete | LSendStartupFailed
| LSendShutdownComplete | LSendShutdownFailed.

Inductive lending :=
| LReturned      (* the coroutine returned *)
| LWaiting       (* blocked in receive(): the scripted server events are exhausted *)
| LPropagated.   (* an exception left the coroutine *)

(* `for handler in handlers: if hasattr(handler, name): try: await ... except Exception: send(failed); return` *)
Fixpoint lifespan_handlers (startup : bool) (l : list (nat * comp)) : list levent * option lending :=
  match l with
  | [] => ([], None)
  | (i, c) :: tl =>
    match (if startup then c_startup c else c_shutdown c) with
    | None => lifespan_handlers startup tl
    | Some LOk => let '(ev, e) := lifespan_handlers startup tl in (LCall startup i LOk :: ev, e)
    | Some LFail => ([LCall startup i LFail;
                      if startup then LSendStartupFailed else LSendShutdownFailed], Some LReturned)
    | Some LAbort => ([LCall startup i LAbort], Some LPropagated)
    end
  end.

Fixpoint enumerate {A} (i : nat) (l : list A) : list (nat * A) :=
  match l with [] => [] | x :: tl => (i, x) :: enumerate (S i) tl end.

(* `while True: event = await receive() ...` over the scripted server events *)
Fixpoint lifespan (cs : list comp) (msgs : list lmsg) : list levent * lending :=
  match msgs with
  | [] => ([], LWaiting)
  | LStartup :: tl =>
    match lifespan_handlers true (enumerate 0 cs) with
    | (ev, Some e) => (ev, e)
    | (ev, None) => let '(ev', e) := lifespan cs tl in (ev ++ LSendStartupComplete :: ev', e)
    end
  | LShutdown :: tl =>
    match lifespan_handlers false (rev (enumerate 0 cs)) with
    | (ev, Some e) => (ev, e)
    | (ev, None) => (ev ++ [LSendShutdownComplete], LReturned)
    end
  | LOther :: tl => lifespan cs tl
  end.

(* ---- App.__init__(middleware=...) and App.add_middleware(...): the stack is built in
   several steps.  Every call extends `_unprepared_middleware` and then re-prepares the WHOLE
   accumulated list; if prepare_middleware raises TypeError the list has already been
   extended while `_middleware` keeps its previous value. *)
Inductive batch :=
| BNone                     (* None *)
| BOne (c : comp)           (* a single, non-iterable component *)
| BMany (l : list comp).    (* an iterable of components *)

Definition batch_list (b : batch) : list comp :=
  match b with BNone => [] | BOne c => [c] | BMany l => l end.

Record fapp := {
  a_unprepared : list comp;        (* self._unprepared_middleware *)
  a_stacks : option stacks         (* self._middleware (None: never successfully prepared) *)
}.

(* returns the new state and whether the call returned normally (false = TypeError) *)
Definition add_middleware (asgi indep : bool) (a : fapp) (b : batch) : fapp * bool :=
  let un := a_unprepared a ++ batch_list b in   (* self._unprepared_middleware += middleware *)
  match prepare asgi indep un with
  | Some st => ({| a_unprepared := un; a_stacks := Some st |}, true)
  | None => ({| a_unprepared := un; a_stacks := a_stacks a |}, false)
  end.

(* the constructor: a TypeError leaves no fapp at all *)
Definition new_app (asgi indep : bool) (b : batch) : option fapp :=
  match add_middleware asgi indep {| a_unprepared := []; a_stacks := None |} b with
  | (a, true) => Some a
  | (_, false) => None
  end.

(* later add_middleware calls; the application may catch a TypeError and go on *)
Fixpoint add_all (asgi indep : bool) (a : fapp) (bs : list batch) : fapp * list bool :=
  match bs with
  | [] => (a, [])
  | b :: tl =>
    let '(a1, ok) := add_middleware asgi indep a b in
    let '(a2, oks) := add_all asgi indep a1 tl in (a2, ok :: oks)
  end.
