(* C03 — the documented stack discipline, written directly over the component list (no
   prepared stacks, no accumulators), and the boolean oracles the harness evaluates on the
   call trace recorded from the real framework. *)
From Coq Require Import List Bool Arith.
From Falcon.C03 Require Import Model.
Import ListNotations.

(* methods of one kind, top-down, with the index of their component *)
Fixpoint methods {A} (sel : comp -> option A) (i : nat) (cs : list comp) : list (nat * A) :=
  match cs with
  | [] => []
  | c :: tl => match sel c with
               | Some a => (i, a) :: methods sel (S i) tl
               | None => methods sel (S i) tl
               end
  end.

(* "call these in order; stop after the first one that raises or (if [stop]) completes" *)
Fixpoint seq_calls (stop : bool) (l : list (site * action)) (cpl : bool)
  : list event * bool * option (site * exn) :=
  match l with
  | [] => ([], cpl, None)
  | (s, a) :: tl =>
    match call a with
    | CRaise x => ([ECall s a], cpl, Some (s, x))
    | r => let cpl' := cpl || is_compl r in
           if stop && cpl' then ([ECall s a], cpl', None)
           else let '(ev, c, e) := seq_calls stop tl cpl' in (ECall s a :: ev, c, e)
    end
  end.

Definition at_site (f : nat -> site) (l : list (nat * action)) : list (site * action) :=
  map (fun p => (f (fst p), snd p)) l.

(* a hooked responder, flattened: before-hooks outermost first, the responder, after-hooks
   innermost first *)
Fixpoint befores (j : nat) (hs : list (bool * action)) : list (site * action) :=
  match hs with
  | [] => []
  | (true, a) :: tl => (SHook j, a) :: befores (S j) tl
  | (false, _) :: tl => befores (S j) tl
  end.

Fixpoint afters (j : nat) (hs : list (bool * action)) : list (site * action) :=
  match hs with
  | [] => []
  | (true, _) :: tl => afters (S j) tl
  | (false, a) :: tl => afters (S j) tl ++ [(SHook j, a)]
  end.

Definition flat_responder (hs : list (bool * action)) (responder : action) : list (site * action) :=
  befores 0 hs ++ [(SResponder, responder)] ++ afters 0 hs.

Definition spec_responder (q : request) (cpl : bool) : list event * bool * option (site * exn) :=
  match q_route q with
  | Routed => seq_calls false (flat_responder (q_hooks q) (q_responder q)) cpl
  | Sink => seq_calls false [(SResponder, q_responder q)] cpl
  | NoMethod | NotFound => ([], cpl, Some (SDefault, XApp HReturn))
  end.

(* response methods bottom-up: each sees req_succeeded = "nothing has raised so far" *)
Definition spec_resp_phase (ev : list event) (l : list (nat * action)) (rsrc succ : bool)
  : list event * ending :=
  let '(ev', e) := resp_loop l rsrc succ in (ev ++ ev', e).

Definition after_raise (ev : list event) (s : site) (x : exn) (l : list (nat * action)) (rsrc : bool)
  : list event * ending :=
  match handle_exception s x with
  | (hev, HProp) => (ev ++ hev, Propagated)
  | (hev, HTrue) => spec_resp_phase (ev ++ hev) l rsrc false
  end.

Definition site_index (s : site) : nat :=
  match s with SReq i | SRsrc i | SResp i | SHook i => i | _ => 0 end.

Definition spec_trace (indep : bool) (cs : list comp) (q : request) : list event * ending :=
  let all_resp := rev (methods c_resp 0 cs) in
  if q_meta q then after_raise [] SMeta (XApp HReturn) (if indep then all_resp else []) false
  else
    let '(ev1, cpl1, e1) := seq_calls true (at_site SReq (methods c_req 0 cs)) false in
    match e1 with
    | Some (s, x) =>
      (* dependent mode: only the components above the one whose request method raised *)
      after_raise ev1 s x
        (if indep then all_resp else rev (methods c_resp 0 (firstn (site_index s) cs))) false
    | None =>
      if cpl1 then spec_resp_phase ev1 all_resp false true
      else
        let rsrc := has_resource (q_route q) in
        let '(ev2, cpl2, e2) :=
          if rsrc then seq_calls true (at_site SRsrc (methods c_rsrc 0 cs)) false
          else ([], false, None) in
        match e2 with
        | Some (s, x) => after_raise (ev1 ++ ev2) s x all_resp rsrc
        | None =>
          if cpl2 then spec_resp_phase (ev1 ++ ev2) all_resp rsrc true
          else
            let '(ev3, _, e3) := spec_responder q false in
            match e3 with
            | Some (s, x) => after_raise (ev1 ++ ev2 ++ ev3) s x all_resp rsrc
            | None => spec_resp_phase (ev1 ++ ev2 ++ ev3) all_resp rsrc true
            end
        end
    end.

(* a component list is accepted by prepare_middleware iff every component has a request
   method, or (ASGI) is a lifespan-only component *)
Definition comp_ok (asgi : bool) (c : comp) : bool :=
  isSome (c_req c) || isSome (c_rsrc c) || isSome (c_resp c)
  || (asgi && (isSome (c_startup c) || isSome (c_shutdown c))).

(* ---- lifespan *)
Fixpoint spec_lrun (startup : bool) (l : list (nat * laction)) : list levent * option lending :=
  match l with
  | [] => ([], None)
  | (i, LOk) :: tl => let '(ev, e) := spec_lrun startup tl in (LCall startup i LOk :: ev, e)
  | (i, LFail) :: _ => ([LCall startup i LFail;
                         if startup then LSendStartupFailed else LSendShutdownFailed], Some LReturned)
  | (i, LAbort) :: _ => ([LCall startup i LAbort], Some LPropagated)
  end.

(* startup handlers top-down, shutdown handlers bottom-up; the first failure is reported
   and ends the protocol *)
Fixpoint spec_lifespan (cs : list comp) (msgs : list lmsg) : list levent * lending :=
  match msgs with
  | [] => ([], LWaiting)
  | LStartup :: tl =>
    match spec_lrun true (methods c_startup 0 cs) with
    | (ev, Some e) => (ev, e)
    | (ev, None) => let '(ev', e) := spec_lifespan cs tl in (ev ++ LSendStartupComplete :: ev', e)
    end
  | LShutdown :: tl =>
    match spec_lrun false (rev (methods c_shutdown 0 cs)) with
    | (ev, Some e) => (ev, e)
    | (ev, None) => (ev ++ [LSendShutdownComplete], LReturned)
    end
  | LOther :: tl => spec_lifespan cs tl
  end.

(* ---- boolean oracles on an arbitrary (observed) trace *)
Definition is_raise (a : action) : bool :=
  match call a with CRaise _ => true | _ => false end.

Definition raising (e : event) : bool :=
  match e with
  | ECall _ a => is_raise a
  | EResp _ a _ _ => is_raise a
  | EHandler _ _ => true
  end.

(* every process_response saw req_succeeded = "no raise so far" *)
Fixpoint succ_flags_ok (raised : bool) (t : list event) : bool :=
  match t with
  | [] => true
  | e :: tl =>
    match e with
    | EResp _ _ _ s => Bool.eqb s (negb raised)
    | _ => true
    end && succ_flags_ok (raised || raising e) tl
  end.

(* an event after which nothing more may happen *)
Definition fatal (e : event) : bool :=
  match e with
  | ECall _ RaiseUnhandled => true
  | EResp _ RaiseUnhandled _ _ => true
  | EHandler _ HRaiseOther => true
  | _ => false
  end.

(* a raise with a handler that the application registered is followed by that handler *)
Definition wants_handler (e : event) : option hact :=
  match e with
  | ECall _ (RaiseApp h) => Some h
  | EResp _ (RaiseApp h) _ _ => Some h
  | _ => None
  end.

Fixpoint no_call_after_fatal (t : list event) : bool :=
  match t with
  | [] => true
  | e :: tl => if fatal e then is_nil tl else no_call_after_fatal tl
  end.

Definition last_fatal (t : list event) : bool :=
  match rev t with e :: _ => fatal e | [] => false end.

Definition ending_ok (t : list event) (e : ending) : bool :=
  match e with
  | Propagated => last_fatal t
  | Finished s => negb (last_fatal t) && Bool.eqb s (negb (existsb raising t))
  end.

Fixpoint resp_indices (t : list event) : list nat :=
  match t with
  | [] => []
  | EResp i _ _ _ :: tl => i :: resp_indices tl
  | _ :: tl => resp_indices tl
  end.

Fixpoint nat_list_eqb (a b : list nat) : bool :=
  match a, b with
  | [], [] => true
  | x :: a', y :: b' => Nat.eqb x y && nat_list_eqb a' b'
  | _, _ => false
  end.

Fixpoint is_prefix (a b : list nat) : bool :=
  match a, b with
  | [], _ => true
  | x :: a', y :: b' => Nat.eqb x y && is_prefix a' b'
  | _, _ => false
  end.

(* index of the component whose process_request raised, if any *)
Fixpoint req_raised_at (t : list event) : option nat :=
  match t with
  | [] => None
  | ECall (SReq i) a :: tl => if is_raise a then Some i else req_raised_at tl
  | _ :: tl => req_raised_at tl
  end.

Definition is_meta_ev (e : event) : bool :=
  match e with EHandler SMeta _ => true | _ => false end.

Definition meta_rejected (t : list event) : bool := existsb is_meta_ev t.

(* which response methods are due, bottom-up, judged from the observed trace itself *)
Definition due_resp (indep : bool) (cs : list comp) (t : list event) : list nat :=
  map fst (rev (methods c_resp 0
    (if indep then cs
     else if meta_rejected t then []
     else match req_raised_at t with Some k => firstn k cs | None => cs end))).

(* response methods bottom-up exactly once each (all of them unless an exception escaped) *)
Definition resp_once_ok (indep : bool) (cs : list comp) (t : list event) (e : ending) : bool :=
  match e with
  | Finished _ => nat_list_eqb (resp_indices t) (due_resp indep cs t)
  | Propagated => is_prefix (resp_indices t) (due_resp indep cs t)
  end.

(* structural equality of traces, for the full-order clause *)
Definition hact_eqb (a b : hact) : bool :=
  match a, b with
  | HReturn, HReturn | HRaiseHTTP, HRaiseHTTP | HRaiseOther, HRaiseOther => true
  | _, _ => false
  end.

Definition action_eqb (a b : action) : bool :=
  match a, b with
  | Return, Return | Complete, Complete | RaiseHTTP, RaiseHTTP
  | RaiseUnhandled, RaiseUnhandled => true
  | RaiseApp h, RaiseApp h' => hact_eqb h h'
  | _, _ => false
  end.

Definition site_eqb (a b : site) : bool :=
  match a, b with
  | SReq i, SReq j | SRsrc i, SRsrc j | SResp i, SResp j | SHook i, SHook j => Nat.eqb i j
  | SResponder, SResponder | SDefault, SDefault | SMeta, SMeta => true
  | _, _ => false
  end.

Definition event_eqb (a b : event) : bool :=
  match a, b with
  | ECall s x, ECall s' x' => site_eqb s s' && action_eqb x x'
  | EResp i x r s, EResp i' x' r' s' =>
    Nat.eqb i i' && action_eqb x x' && Bool.eqb r r' && Bool.eqb s s'
  | EHandler s h, EHandler s' h' => site_eqb s s' && hact_eqb h h'
  | _, _ => false
  end.

Fixpoint trace_eqb (a b : list event) : bool :=
  match a, b with
  | [], [] => true
  | x :: a', y :: b' => event_eqb x y && trace_eqb a' b'
  | _, _ => false
  end.

Definition ending_eqb (a b : ending) : bool :=
  match a, b with
  | Finished x, Finished y => Bool.eqb x y
  | Propagated, Propagated => true
  | _, _ => false
  end.

(* The oracle: which clauses of the property fail on an observed (trace, ending)?
   1 = the call sequence is not the documented discipline (spec_trace)
   2 = a process_response saw a wrong req_succeeded
   3 = something was called after an unhandled raise / the ending does not match
   4 = response methods not bottom-up once each (dependent: not exactly the due prefix) *)
Definition oracle (indep : bool) (cs : list comp) (q : request)
           (t : list event) (e : ending) : list nat :=
  let '(st, se) := spec_trace indep cs q in
  (if trace_eqb t st && match e, se with
                        | Finished _, Finished _ | Propagated, Propagated => true
                        | _, _ => false end then [] else [1])
  ++ (if succ_flags_ok false t then [] else [2])
  ++ (if no_call_after_fatal t && match e with
                                  | Propagated => last_fatal t
                                  | Finished _ => negb (last_fatal t) end then [] else [3])
  ++ (if resp_once_ok indep cs t e then [] else [4]).

(* ---- lifespan oracle: startup handlers in order, shutdown reversed, first failure is
   reported and stops *)
Fixpoint lcalls (t : list levent) : list (bool * nat) :=
  match t with
  | [] => []
  | LCall st i _ :: tl => (st, i) :: lcalls tl
  | _ :: tl => lcalls tl
  end.
