(* C03 — HOW a middleware method is defined on the component, and what the framework's two
   discovery mechanisms make of it.
   prepare_middleware looks the request-cycle methods up with util.get_bound_method(): the
   attribute must exist AND have __self__ (bound method): ordinary methods, classmethods and
   inherited methods qualify; a @staticmethod, a plain function stored on the instance and a
   callable object stored on the instance raise AttributeError - at construction, never a
   silent skip.  asgi.App._call_lifespan_handlers discovers process_startup / process_shutdown
   with hasattr() and simply awaits handler.process_startup(scope, event): every style works. *)
From Coq Require Import List Bool.
From Falcon.C03 Require Import Model Spec.
Import ListNotations.

Inductive style :=
| YMethod        (* def process_x(self, ...) in the class *)
| YStatic        (* @staticmethod *)
| YClass         (* @classmethod *)
| YAttr          (* a plain (coroutine) function assigned to the instance *)
| YCallObj       (* an object with __call__ assigned to the instance *)
| YInherited.    (* an ordinary method defined in a base class *)

(* util.get_bound_method succeeds *)
Definition bound (y : style) : bool :=
  match y with YMethod | YClass | YInherited => true | YStatic | YAttr | YCallObj => false end.

Record scomp := {
  sc_comp : comp;
  sc_req_y : style; sc_rsrc_y : style; sc_resp_y : style;   (* request-cycle methods *)
  sc_su_y : style; sc_sd_y : style                          (* lifespan handlers *)
}.

Inductive perr := PETypeError | PEAttributeError.

(* the three get_bound_method calls of one loop iteration *)
Definition comp_unbound (c : scomp) : bool :=
  (isSome (c_req (sc_comp c)) && negb (bound (sc_req_y c)))
  || (isSome (c_rsrc (sc_comp c)) && negb (bound (sc_rsrc_y c)))
  || (isSome (c_resp (sc_comp c)) && negb (bound (sc_resp_y c))).

(* the first error prepare_middleware raises, component by component *)
Fixpoint prepare_check (asgi : bool) (cs : list scomp) : option perr :=
  match cs with
  | [] => None
  | c :: tl =>
    if comp_unbound c then Some PEAttributeError
    else if negb (comp_ok asgi (sc_comp c)) then Some PETypeError
    else prepare_check asgi tl
  end.

Definition prepare_styled (asgi indep : bool) (cs : list scomp) : stacks + perr :=
  match prepare_check asgi cs with
  | Some e => inr e
  | None =>
    match prepare asgi indep (map sc_comp cs) with
    | Some st => inl st
    | None => inr PETypeError          (* unreachable: prepare_check_complete *)
    end
  end.

(* lifespan discovery: hasattr() - the style plays no role *)
Definition lifespan_styled (cs : list scomp) (msgs : list lmsg) : list levent * lending :=
  lifespan (map sc_comp cs) msgs.
