From Coq Require Import ZArith List Bool.
From Coq Require Import ExtrOcamlBasic.
From Falcon.lib Require Import Wire.
From Falcon.C03 Require Import Model Spec Styles.
Import ListNotations.
Open Scope Z_scope.

Definition d_hact (z : Z) : hact :=
  if z =? 0 then HReturn else if z =? 1 then HRaiseHTTP else HRaiseOther.
Definition v_hact (h : hact) : val :=
  I (match h with HReturn => 0 | HRaiseHTTP => 1 | HRaiseOther => 2 end).

Definition d_action (z : Z) : action :=
  if z =? 0 then Return else if z =? 1 then Complete else if z =? 2 then RaiseHTTP
  else if z =? 3 then RaiseApp HReturn else if z =? 4 then RaiseApp HRaiseHTTP
  else if z =? 5 then RaiseApp HRaiseOther else RaiseUnhandled.
Definition v_action (a : action) : val :=
  I (match a with
     | Return => 0 | Complete => 1 | RaiseHTTP => 2 | RaiseApp HReturn => 3
     | RaiseApp HRaiseHTTP => 4 | RaiseApp HRaiseOther => 5 | RaiseUnhandled => 6 end).

Definition d_oaction (v : val) : option action :=
  let z := dZ v in if z <? 0 then None else Some (d_action z).

Definition d_laction (v : val) : option laction :=
  let z := dZ v in
  if z <? 0 then None else Some (if z =? 0 then LOk else if z =? 1 then LFail else LAbort).
Definition v_laction (a : laction) : val :=
  I (match a with LOk => 0 | LFail => 1 | LAbort => 2 end).

Definition d_comp (v : val) : comp :=
  {| c_req := d_oaction (nth_val 0 v); c_rsrc := d_oaction (nth_val 1 v);
     c_resp := d_oaction (nth_val 2 v);
     c_startup := d_laction (nth_val 3 v); c_shutdown := d_laction (nth_val 4 v) |}.

Definition d_style (z : Z) : style :=
  if z =? 0 then YMethod else if z =? 1 then YStatic else if z =? 2 then YClass
  else if z =? 3 then YAttr else if z =? 4 then YCallObj else YInherited.

(* optional 6th element of a component: the five definition styles (default: methods) *)
Definition d_scomp (v : val) : scomp :=
  let y := nth_val 5 v in
  {| sc_comp := d_comp v;
     sc_req_y := d_style (dZ (nth_val 0 y)); sc_rsrc_y := d_style (dZ (nth_val 1 y));
     sc_resp_y := d_style (dZ (nth_val 2 y)); sc_su_y := d_style (dZ (nth_val 3 y));
     sc_sd_y := d_style (dZ (nth_val 4 y)) |}.

Definition v_perr (e : perr) : val :=
  L [I 0; I (match e with PETypeError => 1 | PEAttributeError => 2 end)].

Definition d_route (z : Z) : route :=
  if z =? 0 then Routed else if z =? 1 then NoMethod else if z =? 2 then Sink else NotFound.

Definition d_request (v : val) : request :=
  {| q_meta := dbool (nth_val 0 v); q_route := d_route (dZ (nth_val 1 v));
     q_hooks := dlist (fun h => (dbool (nth_val 0 h), d_action (dZ (nth_val 1 h)))) (nth_val 2 v);
     q_responder := d_action (dZ (nth_val 3 v)) |}.

Definition d_site (v : val) : site :=
  let t := dZ (nth_val 0 v) in let i := dnat (nth_val 1 v) in
  if t =? 0 then SReq i else if t =? 1 then SRsrc i else if t =? 2 then SResp i
  else if t =? 3 then SHook i else if t =? 4 then SResponder
  else if t =? 5 then SDefault else SMeta.
Definition v_site (s : site) : val :=
  match s with
  | SReq i => L [I 0; vnat i] | SRsrc i => L [I 1; vnat i] | SResp i => L [I 2; vnat i]
  | SHook i => L [I 3; vnat i] | SResponder => L [I 4; I 0] | SDefault => L [I 5; I 0]
  | SMeta => L [I 6; I 0]
  end.

Definition d_event (v : val) : event :=
  let t := dZ (nth_val 0 v) in
  if t =? 0 then ECall (d_site (nth_val 1 v)) (d_action (dZ (nth_val 2 v)))
  else if t =? 1 then EResp (dnat (nth_val 1 v)) (d_action (dZ (nth_val 2 v)))
                            (dbool (nth_val 3 v)) (dbool (nth_val 4 v))
  else EHandler (d_site (nth_val 1 v)) (d_hact (dZ (nth_val 2 v))).
Definition v_event (e : event) : val :=
  match e with
  | ECall s a => L [I 0; v_site s; v_action a]
  | EResp i a r s => L [I 1; vnat i; v_action a; vbool r; vbool s]
  | EHandler s h => L [I 2; v_site s; v_hact h]
  end.

Definition d_ending (z : Z) : ending :=
  if z =? 0 then Finished false else if z =? 1 then Finished true else Propagated.
Definition v_ending (e : ending) : val :=
  I (match e with Finished false => 0 | Finished true => 1 | Propagated => 2 end).

Definition d_lmsg (v : val) : lmsg :=
  let z := dZ v in if z =? 0 then LStartup else if z =? 1 then LShutdown else LOther.
Definition v_levent (e : levent) : val :=
  match e with
  | LCall st i a => L [I 0; vbool st; vnat i; v_laction a]
  | LSendStartupComplete => L [I 1] | LSendStartupFailed => L [I 2]
  | LSendShutdownComplete => L [I 3] | LSendShutdownFailed => L [I 4]
  end.
Definition v_lending (e : lending) : val :=
  I (match e with LReturned => 0 | LWaiting => 1 | LPropagated => 2 end).

(* ops: 0 prepare + run_request (+ the spec trace and the oracle on the model's own trace)
        1 oracle on an observed (trace, ending)
        2 lifespan (model and spec) *)
Definition run (v : val) : val :=
  match v with
  | L [I 0; asgi; indep; cs; q] =>
    let cs' := dlist d_comp cs in
    match prepare_styled (dbool asgi) (dbool indep) (dlist d_scomp cs) with
    | inr e => v_perr e
    | inl st =>
      let '(t, e) := run_request (dbool indep) st (d_request q) in
      let '(t', e') := spec_trace (dbool indep) cs' (d_request q) in
      L [I 1; vlist v_event t; v_ending e; vlist v_event t'; v_ending e';
         vlist vnat (oracle (dbool indep) cs' (d_request q) t e)]
    end
  | L [I 1; indep; cs; q; t; e] =>
    L [I 1; vlist vnat (oracle (dbool indep) (dlist d_comp cs) (d_request q)
                               (dlist d_event t) (d_ending (dZ e)))]
  | L [I 2; cs; msgs] =>
    let '(t, e) := lifespan (dlist d_comp cs) (dlist d_lmsg msgs) in
    let '(t', e') := spec_lifespan (dlist d_comp cs) (dlist d_lmsg msgs) in
    L [I 1; vlist v_levent t; v_lending e; vlist v_levent t'; v_lending e']
  | L [I 3; asgi; indep; b0; bs; q] =>
    (* constructor batch b0, then add_middleware calls bs (TypeErrors caught by the caller) *)
    let d_batch (v : val) : batch :=
      let k := dZ (nth_val 0 v) in
      if k =? 0 then BNone
      else if k =? 1 then BOne (d_comp (nth_val 1 v))
      else BMany (dlist d_comp (nth_val 1 v)) in
    let sb0 := match b0 with
               | L [I k; c] => if k =? 1 then [d_scomp c] else dlist d_scomp c
               | _ => []
               end in
    match prepare_check (dbool asgi) sb0 with
    | Some e => v_perr e
    | None =>
    match new_app (dbool asgi) (dbool indep) (d_batch b0) with
    | None => L [I 0; I 1]
    | Some a0 =>
      let '(a, oks) := add_all (dbool asgi) (dbool indep) a0 (dlist d_batch bs) in
      match a_stacks a with
      | None => L [I 0]
      | Some st =>
        let '(t, e) := run_request (dbool indep) st (d_request q) in
        L [I 1; vlist v_event t; v_ending e; vlist vbool oks; vnat (length (a_unprepared a))]
      end
    end
    end
  | L [I 4; b0; bs; msgs] =>
    (* lifespan over the accumulated _unprepared_middleware *)
    let d_batch (v : val) : batch :=
      let k := dZ (nth_val 0 v) in
      if k =? 0 then BNone
      else if k =? 1 then BOne (d_comp (nth_val 1 v))
      else BMany (dlist d_comp (nth_val 1 v)) in
    match new_app true true (d_batch b0) with
    | None => L [I 0]
    | Some a0 =>
      let '(a, oks) := add_all true true a0 (dlist d_batch bs) in
      let '(t, e) := lifespan (a_unprepared a) (dlist d_lmsg msgs) in
      L [I 1; vlist v_levent t; v_lending e; vlist vbool oks]
    end
  | _ => L [I (-1)]
  end.

Extraction "C03/model.ml" run.
