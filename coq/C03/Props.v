(* C03 — property theorems only.  Each is closed by [exact] of a lemma from Proofs.v and
   followed by Print Assumptions. *)
From Coq Require Import List Bool Arith.
From Falcon.C03 Require Import Model Spec Styles Proofs.
Import ListNotations.

(* prepare_middleware accepts exactly the component lists in which every component defines a
   request-cycle method (or, on ASGI, only lifespan handlers). *)
Theorem C03_prepare_defined_iff : forall asgi indep cs,
  (exists st, prepare asgi indep cs = Some st) <-> forallb (comp_ok asgi) cs = true.
Proof. exact prepare_defined_iff. Qed.
Print Assumptions C03_prepare_defined_iff.

(* MAIN: for stacks of any height, any subset of methods per component, any action at any
   call site, both modes, any route kind and hook tower, the calls the framework makes
   (prepared stacks + the loops of __call__) are exactly the documented discipline. *)
Theorem C03_order_spec : forall asgi indep cs st q,
  prepare asgi indep cs = Some st ->
  run_request indep st q = spec_trace indep cs q.
Proof. exact order_spec. Qed.
Print Assumptions C03_order_spec.

(* Stacks built in several steps (constructor argument, then add_middleware calls, each a
   bare component or an iterable): every call re-prepares the whole accumulated list, so
   after a call that returned normally the prepared stacks are those of the concatenation,
   and the discipline holds for the concatenated component list for EVERY batch split. *)
Theorem C03_add_all_unprepared : forall asgi indep bs a,
  a_unprepared (fst (add_all asgi indep a bs)) = a_unprepared a ++ flatten bs.
Proof. exact add_all_unprepared. Qed.
Print Assumptions C03_add_all_unprepared.

Theorem C03_add_all_stacks : forall asgi indep a bs b a',
  add_middleware asgi indep (fst (add_all asgi indep a bs)) b = (a', true) ->
  fst (add_all asgi indep a (bs ++ [b])) = a' /\
  a_stacks a' = prepare asgi indep (a_unprepared a ++ flatten (bs ++ [b])).
Proof. exact add_all_stacks. Qed.
Print Assumptions C03_add_all_stacks.

Theorem C03_order_spec_batches : forall asgi indep b0 bs b a0 a' q st,
  new_app asgi indep b0 = Some a0 ->
  add_middleware asgi indep (fst (add_all asgi indep a0 bs)) b = (a', true) ->
  a_stacks a' = Some st ->
  run_request indep st q = spec_trace indep (flatten (b0 :: bs ++ [b])) q.
Proof. exact order_spec_batches. Qed.
Print Assumptions C03_order_spec_batches.

Theorem C03_order_spec_constructor : forall asgi indep b0 a0 q st,
  new_app asgi indep b0 = Some a0 -> a_stacks a0 = Some st ->
  run_request indep st q = spec_trace indep (batch_list b0) q.
Proof. exact order_spec_constructor. Qed.
Print Assumptions C03_order_spec_constructor.

(* HOW the methods are defined on the component: util.get_bound_method (request-cycle methods)
   accepts ordinary, class and inherited methods and RAISES AttributeError at construction for
   a staticmethod / a function or callable object stored on the instance - never a silent skip;
   lifespan handlers are found with hasattr() and take part whatever their style. *)
Theorem C03_prepare_styled_ok : forall asgi indep cs st,
  prepare_styled asgi indep cs = inl st <->
  prepare_check asgi cs = None /\ prepare asgi indep (map sc_comp cs) = Some st.
Proof. exact prepare_styled_ok. Qed.
Print Assumptions C03_prepare_styled_ok.

Theorem C03_prepare_check_complete : forall asgi indep cs,
  prepare_check asgi cs = None -> exists st, prepare asgi indep (map sc_comp cs) = Some st.
Proof. exact prepare_check_complete. Qed.
Print Assumptions C03_prepare_check_complete.

Theorem C03_unbound_is_attribute_error : forall asgi cs,
  prepare_check asgi cs = Some PEAttributeError <->
  exists pre c post, cs = pre ++ c :: post /\ comp_unbound c = true /\ prepare_check asgi pre = None.
Proof. exact unbound_is_attribute_error. Qed.
Print Assumptions C03_unbound_is_attribute_error.

Theorem C03_order_spec_styled : forall asgi indep cs st q,
  prepare_styled asgi indep cs = inl st ->
  run_request indep st q = spec_trace indep (map sc_comp cs) q.
Proof. exact order_spec_styled. Qed.
Print Assumptions C03_order_spec_styled.

Theorem C03_lifespan_styled_spec : forall cs msgs,
  lifespan_styled cs msgs = spec_lifespan (map sc_comp cs) msgs.
Proof. exact lifespan_styled_spec. Qed.
Print Assumptions C03_lifespan_styled_spec.

(* A tower of before/after decorators runs the before-hooks outermost first, the responder,
   then the after-hooks innermost first, stopping at the first raise. *)
Theorem C03_hooks_flat : forall hs j r cpl,
  hooked j hs r cpl = seq_calls false (befores j hs ++ [(SResponder, r)] ++ afters j hs) cpl.
Proof. exact hooked_flat. Qed.
Print Assumptions C03_hooks_flat.

(* req_succeeded passed to a process_response is true exactly when nothing raised before. *)
Theorem C03_succeeded_iff_no_raise : forall asgi indep cs st q,
  prepare asgi indep cs = Some st ->
  forall pre i a r s post,
  fst (run_request indep st q) = pre ++ EResp i a r s :: post ->
  s = negb (existsb raising pre).
Proof. exact succeeded_iff_no_raise. Qed.
Print Assumptions C03_succeeded_iff_no_raise.

Theorem C03_final_flag : forall asgi indep cs st q,
  prepare asgi indep cs = Some st ->
  forall s, snd (run_request indep st q) = Finished s ->
  s = negb (existsb raising (fst (run_request indep st q))).
Proof. exact final_flag. Qed.
Print Assumptions C03_final_flag.

(* Nothing is called after an unhandled raise, and the exception leaves the app. *)
Theorem C03_no_call_after_unhandled : forall asgi indep cs st q,
  prepare asgi indep cs = Some st ->
  forall pre e0 post,
  fst (run_request indep st q) = pre ++ e0 :: post -> fatal e0 = true ->
  post = [] /\ snd (run_request indep st q) = Propagated.
Proof. exact no_call_after_unhandled. Qed.
Print Assumptions C03_no_call_after_unhandled.

(* ... and an exception leaves the app only in that case. *)
Theorem C03_propagated_iff_last_fatal : forall asgi indep cs st q,
  prepare asgi indep cs = Some st ->
  (snd (run_request indep st q) = Propagated <-> last_fatal (fst (run_request indep st q)) = true).
Proof. exact propagated_iff_last_fatal. Qed.
Print Assumptions C03_propagated_iff_last_fatal.

(* Response methods run bottom-up, exactly those that are due (independent mode: all;
   dependent mode: those of the components above the one whose process_request raised; none
   after the up-front META rejection). *)
Theorem C03_response_order : forall asgi indep cs st q,
  prepare asgi indep cs = Some st ->
  forall s, snd (run_request indep st q) = Finished s ->
  resp_indices (fst (run_request indep st q)) = due_resp indep cs (fst (run_request indep st q)).
Proof. exact response_order. Qed.
Print Assumptions C03_response_order.

Theorem C03_response_once_each : forall asgi cs st q s i c a,
  prepare asgi true cs = Some st ->
  snd (run_request true st q) = Finished s ->
  nth_error cs i = Some c -> c_resp c = Some a ->
  count_occ Nat.eq_dec (resp_indices (fst (run_request true st q))) i = 1.
Proof. exact response_once_each. Qed.
Print Assumptions C03_response_once_each.

Theorem C03_response_at_most_once : forall asgi indep cs st q,
  prepare asgi indep cs = Some st ->
  NoDup (resp_indices (fst (run_request indep st q))).
Proof. exact response_at_most_once. Qed.
Print Assumptions C03_response_at_most_once.

Theorem C03_dependent_prefix : forall asgi cs st q i,
  prepare asgi false cs = Some st ->
  In i (resp_indices (fst (run_request false st q))) ->
  meta_rejected (fst (run_request false st q)) = false /\
  forall k, req_raised_at (fst (run_request false st q)) = Some k -> i < k.
Proof. exact dependent_prefix. Qed.
Print Assumptions C03_dependent_prefix.

(* Resource methods only after a successful route match. *)
Theorem C03_rsrc_requires_route : forall asgi indep cs st q i a,
  prepare asgi indep cs = Some st ->
  In (ECall (SRsrc i) a) (fst (run_request indep st q)) ->
  has_resource (q_route q) = true /\ q_meta q = false.
Proof. exact rsrc_requires_route. Qed.
Print Assumptions C03_rsrc_requires_route.

(* The responder only if no middleware method completed the response or raised. *)
Theorem C03_responder_requires_clean : forall asgi indep cs st q a,
  prepare asgi indep cs = Some st ->
  In (ECall SResponder a) (fst (run_request indep st q)) ->
  forall s b, In (ECall s b) (fst (run_request indep st q)) ->
              not_req_site s = false \/ (exists k, s = SRsrc k) -> b = Return.
Proof. exact responder_requires_clean. Qed.
Print Assumptions C03_responder_requires_clean.

(* If no scripted action raises a BaseException or has an error handler that raises a non-HTTP
   error, no exception leaves the app, for every stack, mode, route and fault placement. *)
Theorem C03_benign_finished : forall asgi indep cs st q,
  prepare asgi indep cs = Some st ->
  forallb benign_comp cs = true -> benign_request q = true ->
  exists s, snd (run_request indep st q) = Finished s.
Proof. exact benign_finished. Qed.
Print Assumptions C03_benign_finished.

(* The executable oracle the harness applies to the recorded trace accepts the model. *)
Theorem C03_oracle_sound : forall asgi indep cs st q,
  prepare asgi indep cs = Some st ->
  oracle indep cs q (fst (run_request indep st q)) (snd (run_request indep st q)) = [].
Proof. exact oracle_sound. Qed.
Print Assumptions C03_oracle_sound.

(* ASGI lifespan *)
Theorem C03_lifespan_spec : forall cs msgs, lifespan cs msgs = spec_lifespan cs msgs.
Proof. exact lifespan_spec. Qed.
Print Assumptions C03_lifespan_spec.

Theorem C03_lifespan_order : forall cs,
  all_ok (methods c_startup 0 cs) -> all_ok (methods c_shutdown 0 cs) ->
  lifespan cs [LStartup; LShutdown] =
  (lcall_events true (methods c_startup 0 cs) ++ LSendStartupComplete ::
   lcall_events false (rev (methods c_shutdown 0 cs)) ++ [LSendShutdownComplete], LReturned).
Proof. exact lifespan_order. Qed.
Print Assumptions C03_lifespan_order.

Theorem C03_lifespan_startup_failure_stops : forall cs oks k rest msgs,
  methods c_startup 0 cs = oks ++ (k, LFail) :: rest -> all_ok oks ->
  lifespan cs (LStartup :: msgs) =
  (lcall_events true oks ++ [LCall true k LFail; LSendStartupFailed], LReturned).
Proof. exact lifespan_startup_failure_stops. Qed.
Print Assumptions C03_lifespan_startup_failure_stops.

Theorem C03_lifespan_shutdown_failure_stops : forall cs oks k rest msgs,
  rev (methods c_shutdown 0 cs) = oks ++ (k, LFail) :: rest -> all_ok oks ->
  lifespan cs (LShutdown :: msgs) =
  (lcall_events false oks ++ [LCall false k LFail; LSendShutdownFailed], LReturned).
Proof. exact lifespan_shutdown_failure_stops. Qed.
Print Assumptions C03_lifespan_shutdown_failure_stops.

(* ---- non-vacuity: a three-component dependent stack whose 2nd process_request raises a
   handled error, behind a before/after-hooked responder *)
Definition ex_cs : list comp :=
  [ {| c_req := Some Return; c_rsrc := Some Return; c_resp := Some Return;
       c_startup := Some LOk; c_shutdown := Some LOk |};
    {| c_req := Some (RaiseApp HReturn); c_rsrc := None; c_resp := Some Return;
       c_startup := Some LFail; c_shutdown := None |};
    {| c_req := Some Return; c_rsrc := None; c_resp := Some (RaiseApp HRaiseHTTP);
       c_startup := Some LOk; c_shutdown := Some LOk |} ].
Definition mk_dummy : comp :=
  {| c_req := None; c_rsrc := None; c_resp := None; c_startup := None; c_shutdown := None |}.
Definition ex_q : request :=
  {| q_meta := false; q_route := Routed; q_hooks := [(true, Return); (false, Complete)];
     q_responder := Return |}.

Example C03_dependent_example :
  exists st, prepare false false ex_cs = Some st /\
  run_request false st ex_q =
    ([ECall (SReq 0) Return; ECall (SReq 1) (RaiseApp HReturn); EHandler (SReq 1) HReturn;
      EResp 0 Return false false], Finished false).
Proof. eexists. split; [reflexivity|]. vm_compute. reflexivity. Qed.

Example C03_independent_example :
  exists st, prepare true true ex_cs = Some st /\
  run_request true st ex_q =
    ([ECall (SReq 0) Return; ECall (SReq 1) (RaiseApp HReturn); EHandler (SReq 1) HReturn;
      EResp 2 (RaiseApp HRaiseHTTP) false false; EHandler (SResp 2) HRaiseHTTP;
      EResp 1 Return false false; EResp 0 Return false false], Finished false).
Proof. eexists. split; [reflexivity|]. vm_compute. reflexivity. Qed.

Example C03_full_cycle_example :
  exists st, prepare false true (firstn 1 ex_cs) = Some st /\
  run_request true st ex_q =
    ([ECall (SReq 0) Return; ECall (SRsrc 0) Return; ECall (SHook 0) Return;
      ECall SResponder Return; ECall (SHook 1) Complete; EResp 0 Return true true],
     Finished true).
Proof. eexists. split; [reflexivity|]. vm_compute. reflexivity. Qed.

Example C03_batches_example :
  exists a0 a1 st, new_app false true (BOne (nth 0 ex_cs (mk_dummy))) = Some a0 /\
  add_middleware false true a0 (BMany (skipn 1 ex_cs)) = (a1, true) /\
  a_stacks a1 = Some st /\ prepare false true ex_cs = Some st.
Proof. do 3 eexists. repeat split; reflexivity. Qed.

Example C03_lifespan_example :
  lifespan ex_cs [LStartup; LShutdown] =
  ([LCall true 0 LOk; LCall true 1 LFail; LSendStartupFailed], LReturned).
Proof. reflexivity. Qed.
