(* C12 — the body offered to the media handler as a function of Content-Length, the round trip
   "for every chunking", and the relation to C07's request-stream model (declared body). *)
From Coq Require Import ZArith NArith List Bool Arith Lia ZifyBool ZifyNat.
From Falcon.C12 Require Import Model Json JsonProofs ProofsUtf8.
Require Falcon.C07.Model Falcon.C07.Spec.
Import ListNotations.

Module M07 := Falcon.C07.Model.
Module S07 := Falcon.C07.Spec.

(* ---- independence of the chunking; the declared length only matters when it is too small *)
Theorem asgi_offered_any_chunking cl chunks1 chunks2 :
  concat chunks1 = concat chunks2 -> offered_asgi cl chunks1 = offered_asgi cl chunks2.
Proof. intro H. unfold offered_asgi. rewrite H. reflexivity. Qed.

Theorem asgi_offered_all cl chunks :
  (forall n, cl = Some n -> length (concat chunks) <= n) ->
  offered_asgi cl chunks = concat chunks.
Proof.
  intro H. unfold offered_asgi. destruct cl as [n|]; [| reflexivity].
  apply firstn_all2. apply H. reflexivity.
Qed.

Theorem wsgi_offered_all n data : length data <= n -> offered_wsgi (Some n) data = data.
Proof. intro H. unfold offered_wsgi. apply firstn_all2, H. Qed.

(* falcon's WSGI contract: no Content-Length = no body *)
Theorem wsgi_no_content_length_empty data : offered_wsgi None data = [].
Proof. reflexivity. Qed.

Theorem content_length_zero_empty data chunks :
  offered_wsgi (Some 0) data = [] /\ offered_asgi (Some 0) chunks = [].
Proof. split; reflexivity. Qed.

(* ---- the JSON round trip for every chunking, with the body's length declared, over-declared,
   or (ASGI) not declared at all *)
Theorem json_roundtrip_any_chunking d body cl chunks :
  wf d -> json_serialize d = SBytes body -> concat chunks = body ->
  (forall n, cl = Some n -> length body <= n) ->
  json_deserialize_body (offered_asgi cl chunks) = DOk d.
Proof.
  intros Hwf Hs Hc Hcl. rewrite asgi_offered_all by (rewrite Hc; exact Hcl). rewrite Hc.
  exact (json_body_roundtrip d body Hwf Hs).
Qed.

Theorem json_roundtrip_wsgi d body n :
  wf d -> json_serialize d = SBytes body -> length body <= n ->
  json_deserialize_body (offered_wsgi (Some n) body) = DOk d.
Proof. intros Hwf Hs Hn. rewrite wsgi_offered_all by exact Hn. exact (json_body_roundtrip d body Hwf Hs). Qed.

(* a WSGI request without Content-Length, or any request with Content-Length: 0, has no media *)
Theorem json_no_body_notfound data chunks :
  json_deserialize_body (offered_wsgi None data) = DNotFound /\
  json_deserialize_body (offered_wsgi (Some 0) data) = DNotFound /\
  json_deserialize_body (offered_asgi (Some 0) chunks) = DNotFound.
Proof. repeat split; reflexivity. Qed.

(* ---- relation to C07: [offered_*] is C07's declared body *)
Lemma takeZ_firstn {A} (l : list A) : forall n, M07.takeZ (Z.of_nat n) l = firstn n l.
Proof.
  induction l as [|x l IH]; intro n; [destruct n; reflexivity |].
  destruct n as [|n]; [reflexivity |]. cbn [M07.takeZ firstn].
  replace (Z.of_nat (S n) <=? 0)%Z with false by lia.
  replace (Z.of_nat (S n) - 1)%Z with (Z.of_nat n) by lia. rewrite IH. reflexivity.
Qed.

Theorem offered_wsgi_is_C07_declared cl data :
  offered_wsgi cl data = S07.w_declared (Z.of_nat (match cl with Some n => n | None => 0 end)) data.
Proof. unfold offered_wsgi, S07.w_declared. rewrite takeZ_firstn. reflexivity. Qed.

(* the receive() script of a body arriving in the given chunks *)
Fixpoint events_of (chunks : list (list N)) : list M07.event :=
  match chunks with
  | [] => []
  | [c] => [M07.Req (Some c) false]
  | c :: tl => M07.Req (Some c) true :: events_of tl
  end.

Lemma sbody_events chunks : S07.sbody (events_of chunks) = concat chunks.
Proof.
  induction chunks as [|c tl IH]; [reflexivity |].
  destruct tl as [|c2 tl].
  - cbn. rewrite app_nil_r. reflexivity.
  - change (events_of (c :: c2 :: tl)) with (M07.Req (Some c) true :: events_of (c2 :: tl)).
    cbn [S07.sbody M07.obody concat]. rewrite IH. reflexivity.
Qed.

Lemma takeZ_all {A} (l : list A) : forall n, (M07.len l <= n)%Z -> M07.takeZ n l = l.
Proof.
  induction l as [|x l IH]; intros n H; [reflexivity |].
  unfold M07.len in *. cbn [length] in H. cbn [M07.takeZ].
  replace (n <=? 0)%Z with false by lia. rewrite IH by lia. reflexivity.
Qed.

Theorem offered_asgi_is_C07_declared cl chunks :
  (M07.len (concat chunks) <= M07.two63)%Z ->      (* the stream's budget without Content-Length *)
  offered_asgi cl chunks = S07.a_declared None (option_map Z.of_nat cl) (events_of chunks).
Proof.
  intro H. unfold offered_asgi, S07.a_declared. cbn [S07.first_events app].
  rewrite sbody_events. destruct cl as [n|]; cbn [option_map].
  - rewrite takeZ_firstn. reflexivity.
  - rewrite takeZ_all; [reflexivity |]. change (M07.len (M07.first_chunk None)) with 0%Z. lia.
Qed.
