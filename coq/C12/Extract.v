From Coq Require Import ZArith List Bool Arith.
From Coq Require Import ExtrOcamlBasic.
From Falcon.lib Require Import Wire.
From Falcon.C12 Require Import Model Spec Json Form.
Import ListNotations.
Open Scope Z_scope.

Definition d_herr (z : Z) : herr :=
  if Z.eqb z 1 then ENotFound else if Z.eqb z 2 then EMalformed else EOther.
Definition d_hres (v : val) : hres :=
  match v with I 0 => HOk | I z => HErr (d_herr z) | _ => HErr EOther end.
Definition v_herr (e : herr) : val :=
  I match e with ENotFound => 1 | EMalformed => 2 | EOther => 3 end.
Definition v_hres (r : hres) : val := match r with HOk => I 0 | HErr e => v_herr e end.

(* rout wire: (0 k) Ret | (1) RetDefault | (2 k e) Raise *)
Definition v_rout (o : rout) : val :=
  match o with
  | Ret k => L [I 0; vnat k]
  | RetDefault => L [I 1]
  | Raise k e => L [I 2; vnat k; v_herr e]
  end.
Definition d_rout (v : val) : rout :=
  match v with
  | L [I 0; k] => Ret (dnat k)
  | L [I 1] => RetDefault
  | L [I 2; k; I e] => Raise (dnat k) (d_herr e)
  | _ => Raise 999 EOther
  end.

(* handler behaviour per invocation as a list; beyond the list: EOther *)
Definition h_of (l : list hres) (k : nat) : hres := nth k l (HErr EOther).

Definition d_rop (v : val) : rop :=
  match v with
  | L [I 0; x] => SetMedia (dopt dnat x)
  | L [I 1; x] => SetText (dopt dnat x)
  | L [I 2; x] => SetData (dopt dnat x)
  | L [I 4; x] => Mutate (dnat x)
  | _ => Render
  end.
Definition v_body (b : option body) : val :=
  match b with
  | None => L []
  | Some BNone => L [I 0]
  | Some (BText t) => L [I 1; vnat t]
  | Some (BData d) => L [I 2; vnat d]
  | Some (BMedia m v) => L [I 3; vnat m; vnat v]
  end.
Definition d_body (v : val) : option body :=
  match v with
  | L [I 0] => Some BNone
  | L [I 1; t] => Some (BText (dnat t))
  | L [I 2; d] => Some (BData (dnat d))
  | L [I 3; m; v] => Some (BMedia (dnat m) (dnat v))
  | _ => None
  end.
Definition d_loads (v : val) : loads_res :=
  match v with I 0 => LOk | I 1 => LValueError | _ => LOtherError end.

(* ---- JSON documents on the wire: (0) null | (1 b) | (2 z) | (3 str) | (4 (v...)) | (5 ((k v)...)) *)
Fixpoint v_jv (d : jv) : val :=
  match d with
  | JNull => L [I 0]
  | JBool b => L [I 1; vbool b]
  | JInt z => L [I 2; I z]
  | JStr s => L [I 3; vstr s]
  | JArr l => L [I 4; L (map v_jv l)]
  | JObj l => L [I 5; L (map (fun kv => L [vstr (fst kv); v_jv (snd kv)]) l)]
  end.

Fixpoint d_jv (v : val) : jv :=
  match v with
  | L (I t :: rest) =>
    if Z.eqb t 1 then JBool (dbool (nth 0 rest (I 0)))
    else if Z.eqb t 2 then JInt (dZ (nth 0 rest (I 0)))
    else if Z.eqb t 3 then JStr (dstr (nth 0 rest (I 0)))
    else if Z.eqb t 4 then
      match rest with
      | L l :: _ => JArr (map d_jv l)
      | _ => JArr []
      end
    else if Z.eqb t 5 then
      match rest with
      | L l :: _ => JObj (map (fun kv => match kv with
                                         | L [k; x] => (dstr k, d_jv x)
                                         | _ => ([], JNull)
                                         end) l)
      | _ => JObj []
      end
    else JNull
  | _ => JNull
  end.

Definition v_ser (r : ser_res) : val :=
  match r with
  | SBytes b => L [I 0; vstr b]
  | SStr s => L [I 1; vstr s]
  | SEncodeError => L [I 2]
  | SAttrError => L [I 3]
  end.

Definition d_dumped (v : val) : dumped :=
  match v with
  | L [I 0; s] => DStr (dstr s)
  | L [I _; b] => DBytes (dstr b)
  | _ => DStr []
  end.

Definition v_deser (r : deser_res) : val :=
  match r with
  | DOk v => L [I 0; v_jv v]
  | DNotFound => L [I 1]
  | DMalformed => L [I 2]
  end.

Definition d_fval (v : val) : fval :=
  match v with
  | L [I 0; s] => FStr (dstr s)
  | L [I _; l] => FSeq (dlist dstr l)
  | _ => FStr []
  end.

Definition v_fval (f : fval) : val :=
  match f with FStr s => L [I 0; vstr s] | FSeq l => L [I 1; vlist vstr l] end.
Definition v_mapping (m : list (list N * fval)) : val := vlist (vpair vstr v_fval) m.
Definition v_form_res (r : form_res) : val :=
  match r with FOk m => L [I 0; v_mapping m] | FMalformed => L [I 2] | FNotModelled => L [I 9] end.

Definition run_codec (v : val) : val :=
  match v with
  | L [I 10; d] => vstr (print (d_jv d))
  | L [I 11; s] => vopt v_jv (parse (dstr s))
  | L [I 12; p; r] => v_ser (json_serialize_glue (dbool p) (d_dumped r))
  | L [I 13; d] => v_ser (json_serialize (d_jv d))
  | L [I 14; b] => v_deser (json_deserialize_body (dstr b))
  | L [I 15; s] => vopt vstr (utf8_encode (dstr s))
  | L [I 16; b] => vopt vstr (utf8_decode (dstr b))
  | L [I 18; s] => vopt vstr (decode (dstr s))
  | L [I 19; kb; s] => vopt v_mapping (parse_qs (dbool kb) (dstr s))
  | L [I 20; kb; b] => v_form_res (form_deserialize_body (dbool kb) (dstr b))
  | L [I 21; w; cl; chunks] =>       (* offered body: w = 1 WSGI (single chunk), 0 ASGI *)
    vstr (if dbool w then offered_wsgi (dopt dnat cl) (concat (dlist dstr chunks))
          else offered_asgi (dopt dnat cl) (dlist dstr chunks))
  | L [I 22; w; cl; chunks] =>       (* get_media with the JSON handler over that body *)
    v_deser (json_deserialize_body
               (if dbool w then offered_wsgi (dopt dnat cl) (concat (dlist dstr chunks))
                else offered_asgi (dopt dnat cl) (dlist dstr chunks)))
  | L [I 23; w; cl; chunks] =>       (* ... with the URL-encoded form handler *)
    v_form_res (form_deserialize_body true
               (if dbool w then offered_wsgi (dopt dnat cl) (concat (dlist dstr chunks))
                else offered_asgi (dopt dnat cl) (dlist dstr chunks)))
  | L [I 17; m] => vopt vstr (form_print (dlist (fun kv => (dstr (nth_val 0 kv), d_fval (nth_val 1 kv))) m))
  | _ => L [I (-1)]
  end.

Definition run (v : val) : val :=
  match v with
  | L [I 0; hs; ex; ds] =>          (* model: get_media session *)
    let r := run_gets (h_of (dlist d_hres hs)) (dbool ex) rinit (dlist dbool ds) in
    L [vlist v_rout (snd r); vnat (calls (fst r)); vnat (reads (fst r)); vnat (exhausts (fst r))]
  | L [I 1; r0; ex; ds; obs; nc; nr; nx] =>   (* oracle on an observed session *)
    vlist vN (oracle_req (d_hres r0) (dbool ex) (dlist dbool ds) (dlist d_rout obs)
                         (dnat nc) (dnat nr) (dnat nx))
  | L [I 2; e; u; l] => v_hres (json_deserialize (dbool e) (dbool u) (d_loads l))
  | L [I 3; e; u; l; obs] => vlist vN (oracle_json (dbool e) (dbool u) (d_loads l) (d_hres obs))
  | L [I 4; a; p] => v_hres (form_deserialize (dbool a) (dbool p))
  | L [I 5; ops] =>                 (* model: response session *)
    let r := prun pinit (dlist d_rop ops) in
    L [vlist v_body (snd r); vnat (length (p_serializations (fst r)))]
  | L [I 6; ops; obs; ns] =>        (* oracle on an observed response session *)
    vlist vN (oracle_resp (dlist d_rop ops) (dlist d_body obs) (dnat ns))
  | _ => run_codec v
  end.

Extraction "C12/model.ml" run.
