From Coq Require Import ZArith List Bool Arith.
From Coq Require Import ExtrOcamlBasic.
From Falcon.lib Require Import Wire.
From Falcon.C12 Require Import Model Spec.
Import ListNotations.
Open Scope Z_scope.

Definition d_herr (z : Z) : herr :=
  if Z.eqb z 1 then ENotFound else if Z.eqb z 2 then EMalformed else EOther.
Definition d_hres (v : val) : hres :=
  match v with I 0 => HOk | I z => HErr (d_herr z) | _ => HErr EOther end.
Definition v_herr (e : herr) : val :=
  I match e with ENotFound => 1 | EMalformed => 2 | EOther => 3 end.
Definition v_hres (r : hres) : val := match r with HOk => I 0 | HErr e => v_herr e end.

(* rout wire: (0 k) Ret | (1) RetDefault | (2 k e) Raise *)
Definition v_rout (o : rout) : val :=
  match o with
  | Ret k => L [I 0; vnat k]
  | RetDefault => L [I 1]
  | Raise k e => L [I 2; vnat k; v_herr e]
  end.
Definition d_rout (v : val) : rout :=
  match v with
  | L [I 0; k] => Ret (dnat k)
  | L [I 1] => RetDefault
  | L [I 2; k; I e] => Raise (dnat k) (d_herr e)
  | _ => Raise 999 EOther
  end.

(* handler behaviour per invocation as a list; beyond the list: EOther *)
Definition h_of (l : list hres) (k : nat) : hres := nth k l (HErr EOther).

Definition d_rop (v : val) : rop :=
  match v with
  | L [I 0; x] => SetMedia (dopt dnat x)
  | L [I 1; x] => SetText (dopt dnat x)
  | L [I 2; x] => SetData (dopt dnat x)
  | _ => Render
  end.
Definition v_body (b : option body) : val :=
  match b with
  | None => L []
  | Some BNone => L [I 0]
  | Some (BText t) => L [I 1; vnat t]
  | Some (BData d) => L [I 2; vnat d]
  | Some (BMedia m) => L [I 3; vnat m]
  end.
Definition d_body (v : val) : option body :=
  match v with
  | L [I 0] => Some BNone
  | L [I 1; t] => Some (BText (dnat t))
  | L [I 2; d] => Some (BData (dnat d))
  | L [I 3; m] => Some (BMedia (dnat m))
  | _ => None
  end.
Definition d_loads (v : val) : loads_res :=
  match v with I 0 => LOk | I 1 => LValueError | _ => LOtherError end.

Definition run (v : val) : val :=
  match v with
  | L [I 0; hs; ex; ds] =>          (* model: get_media session *)
    let r := run_gets (h_of (dlist d_hres hs)) (dbool ex) rinit (dlist dbool ds) in
    L [vlist v_rout (snd r); vnat (calls (fst r)); vnat (reads (fst r)); vnat (exhausts (fst r))]
  | L [I 1; r0; ex; ds; obs; nc; nr; nx] =>   (* oracle on an observed session *)
    vlist vN (oracle_req (d_hres r0) (dbool ex) (dlist dbool ds) (dlist d_rout obs)
                         (dnat nc) (dnat nr) (dnat nx))
  | L [I 2; e; u; l] => v_hres (json_deserialize (dbool e) (dbool u) (d_loads l))
  | L [I 3; e; u; l; obs] => vlist vN (oracle_json (dbool e) (dbool u) (d_loads l) (d_hres obs))
  | L [I 4; a; p] => v_hres (form_deserialize (dbool a) (dbool p))
  | L [I 5; ops] =>                 (* model: response session *)
    let r := prun pinit (dlist d_rop ops) in
    L [vlist v_body (snd r); vnat (length (p_serializations (fst r)))]
  | L [I 6; ops; obs; ns] =>        (* oracle on an observed response session *)
    vlist vN (oracle_resp (dlist d_rop ops) (dlist d_body obs) (dnat ns))
  | _ => L [I (-1)]
  end.

Extraction "C12/model.ml" run.
