(* C12 — executable model of the JSON codec falcon's JSONHandler delegates to:
   [print] mirrors CPython's json.dumps(v, ensure_ascii=False) (as falcon/media/json.py calls
   it: default separators ', ' and ': ', escapes \QUOTE \\ \n \r \t \b \f and \u00xx for the other
   control characters below 0x20, everything else literal, incl. DEL and non-ASCII), and
   [parse] mirrors json.loads (json/decoder.py JSONObject / JSONArray / scanstring and the
   scanner's dispatch) on the float-free fragment: whitespace, all escapes incl. \/ and
   \uXXXX with surrogate pairing, lone surrogates kept, literal control characters rejected,
   duplicate keys resolved as dict() does (last value wins, first position kept).  Number
   literals with a fraction / exponent and NaN / Infinity (Python floats) are rejected.
   Strings are lists of code points (N); integers are Z of any size.
   Also here: the UTF-8 codec of str.encode() / bytes.decode() (strict), the
   JSONHandler.serialize / _deserialize glue over these codecs, and
   URLEncodedFormHandler.serialize = urllib.parse.urlencode(media, doseq=True).encode(). *)
From Coq Require Import ZArith NArith List Bool Arith.
From Falcon.lib Require Import PyStr.
Import ListNotations.
Local Open Scope N_scope.

Inductive jv : Type :=
| JNull
| JBool (b : bool)
| JInt (z : Z)
| JStr (s : list N)
| JArr (l : list jv)
| JObj (l : list (list N * jv)).     (* insertion-ordered dict *)

(* ------------------------------------------------------------------ printer *)

(* '{0:04x}'.format(c) for c < 0x20: lower-case hex *)
Definition hex_digit (n : N) : N := if n <? 10 then 48 + n else 87 + n.

(* encoder.ESCAPE_DCT over ESCAPE: control characters below 0x20, backslash and the double quote *)
Definition esc_char (c : N) : list N :=
  if c =? 34 then [92; 34]
  else if c =? 92 then [92; 92]
  else if c =? 10 then [92; 110]
  else if c =? 13 then [92; 114]
  else if c =? 9 then [92; 116]
  else if c =? 8 then [92; 98]
  else if c =? 12 then [92; 102]
  else if c <? 32 then [92; 117; 48; 48; hex_digit (c / 16); hex_digit (c mod 16)]
  else [c].

Definition print_str (s : list N) : list N := 34 :: flat_map esc_char s ++ [34].

(* int.__repr__: decimal digits, most significant first.  The fuel (bit length) is a Coq
   artefact; it always suffices (JsonProofs.print_N_spec). *)
Fixpoint digits_aux (fuel : nat) (n : N) (acc : list N) : list N :=
  match fuel with
  | O => acc
  | S f =>
    let '(q, r) := N.div_eucl n 10 in
    let acc' := (48 + r) :: acc in
    if q =? 0 then acc' else digits_aux f q acc'
  end.

Definition print_N (n : N) : list N := digits_aux (S (N.to_nat (N.log2 n))) n [].

Definition print_Z (z : Z) : list N :=
  match z with
  | Z0 => [48]
  | Zpos p => print_N (Npos p)
  | Zneg p => 45 :: print_N (Npos p)
  end.

(* ', '.join(parts) *)
Fixpoint join_sep (parts : list (list N)) : list N :=
  match parts with
  | [] => []
  | [p] => p
  | p :: tl => p ++ 44 :: 32 :: join_sep tl
  end.

Fixpoint print (d : jv) : list N :=
  match d with
  | JNull => [110; 117; 108; 108]
  | JBool true => [116; 114; 117; 101]
  | JBool false => [102; 97; 108; 115; 101]
  | JInt z => print_Z z
  | JStr s => print_str s
  | JArr l => 91 :: join_sep (map print l) ++ [93]
  | JObj l => 123 :: join_sep (map (fun kv => print_str (fst kv) ++ 58 :: 32 :: print (snd kv)) l)
                  ++ [125]
  end.

(* ------------------------------------------------------------------ parser *)

Definition is_ws (c : N) : bool := (c =? 32) || (c =? 9) || (c =? 10) || (c =? 13).
Definition is_digit (c : N) : bool := (48 <=? c) && (c <=? 57).

(* WHITESPACE.match(s, end).end() *)
Fixpoint skip_ws (s : list N) : list N :=
  match s with
  | c :: r => if is_ws c then skip_ws r else s
  | [] => []
  end.

Definition hex_val (c : N) : option N :=
  if is_digit c then Some (c - 48)
  else if (97 <=? c) && (c <=? 102) then Some (c - 87)
  else if (65 <=? c) && (c <=? 70) then Some (c - 55)
  else None.

Definition hex4 (a b c d : N) : option N :=
  match hex_val a, hex_val b, hex_val c, hex_val d with
  | Some x, Some y, Some z, Some w => Some (((x * 16 + y) * 16 + z) * 16 + w)
  | _, _, _, _ => None
  end.

Definition is_high (u : N) : bool := (55296 <=? u) && (u <=? 56319).   (* D800..DBFF *)
Definition is_low (u : N) : bool := (56320 <=? u) && (u <=? 57343).    (* DC00..DFFF *)
Definition join_surrogates (hi lo : N) : N := 65536 + ((hi - 55296) * 1024 + (lo - 56320)).

(* decoder.BACKSLASH *)
Definition unescape (e : N) : option N :=
  if e =? 34 then Some 34
  else if e =? 92 then Some 92
  else if e =? 47 then Some 47
  else if e =? 98 then Some 8
  else if e =? 102 then Some 12
  else if e =? 110 then Some 10
  else if e =? 114 then Some 13
  else if e =? 116 then Some 9
  else None.

Definition cons_res (c : N) (r : option (list N * list N)) : option (list N * list N) :=
  match r with
  | Some (str, rest) => Some (c :: str, rest)
  | None => None
  end.

(* scanstring(s, end, strict=True): [s] starts just after the opening quote; returns the
   decoded string and the text after the closing quote *)
Fixpoint scan_string (s : list N) : option (list N * list N) :=
  match s with
  | [] => None                                   (* unterminated *)
  | c :: r =>
    if c =? 34 then Some ([], r)
    else if c =? 92 then
      match r with
      | [] => None
      | e :: r1 =>
        if e =? 117 then
          match r1 with
          | h1 :: h2 :: h3 :: h4 :: r2 =>
            match hex4 h1 h2 h3 h4 with
            | None => None                       (* Invalid \uXXXX escape *)
            | Some u =>
              if is_high u then
                match r2 with
                | b :: u' :: g1 :: g2 :: g3 :: g4 :: r4 =>
                  if (b =? 92) && (u' =? 117) then
                    match hex4 g1 g2 g3 g4 with
                    | None => None
                    | Some u2 =>
                      if is_low u2 then cons_res (join_surrogates u u2) (scan_string r4)
                      else cons_res u (scan_string r2)
                    end
                  else cons_res u (scan_string r2)
                | _ => cons_res u (scan_string r2)
                end
              else cons_res u (scan_string r2)
            end
          | _ => None
          end
        else
          match unescape e with
          | Some ch => cons_res ch (scan_string r1)
          | None => None                         (* Invalid \escape *)
          end
      end
    else if c <? 32 then None                    (* Invalid control character *)
    else cons_res c (scan_string r)
  end.

(* [0-9]* accumulated into acc *)
Fixpoint scan_digits (s : list N) (acc : N) : N * list N :=
  match s with
  | c :: r => if is_digit c then scan_digits r (acc * 10 + (c - 48)) else (acc, s)
  | [] => (acc, [])
  end.

(* the integer part of NUMBER_RE: an optional minus, then 0 or a nonzero digit followed by digits; a following fraction or exponent is
   left in the rest, where every caller rejects it *)
Definition parse_number (s : list N) : option (Z * list N) :=
  let '(neg, s1) := match s with
                    | c :: r => if c =? 45 then (true, r) else (false, s)
                    | [] => (false, s)
                    end in
  match s1 with
  | d :: r1 =>
    if d =? 48 then Some (0%Z, r1)
    else if is_digit d then
      let '(n, r2) := scan_digits r1 (d - 48) in
      Some (if neg then (- Z.of_N n)%Z else Z.of_N n, r2)
    else None
  | [] => None
  end.

Fixpoint expect (lit s : list N) : option (list N) :=
  match lit with
  | [] => Some s
  | x :: lit' =>
    match s with
    | c :: r => if c =? x then expect lit' r else None
    | [] => None
    end
  end.

(* dict(pairs): a repeated key keeps its first position and takes the last value *)
Fixpoint dict_set (k : list N) (v : jv) (l : list (list N * jv)) : list (list N * jv) :=
  match l with
  | [] => [(k, v)]
  | (k', v') :: t => if str_eqb k' k then (k', v) :: t else (k', v') :: dict_set k v t
  end.

Definition dict_of_pairs (ps : list (list N * jv)) : list (list N * jv) :=
  fold_left (fun acc kv => dict_set (fst kv) (snd kv) acc) ps [].

(* scan_once / JSONArray / JSONObject.  Every call in the cycle spends one unit of fuel;
   fuel = length of the text always suffices on the printer's image (JsonProofs.need_le). *)
Fixpoint parse_value (fuel : nat) (s : list N) : option (jv * list N) :=
  match fuel with
  | O => None
  | S f =>
    match s with
    | [] => None
    | c :: r =>
      if c =? 34 then
        match scan_string r with
        | Some (str, r') => Some (JStr str, r')
        | None => None
        end
      else if c =? 123 then
        match skip_ws r with
        | c1 :: r1 =>
          if c1 =? 125 then Some (JObj [], r1)
          else if c1 =? 34 then
            match parse_members f r1 with
            | Some (ps, r2) => Some (JObj (dict_of_pairs ps), r2)
            | None => None
            end
          else None
        | [] => None
        end
      else if c =? 91 then
        match skip_ws r with
        | c1 :: r1 =>
          if c1 =? 93 then Some (JArr [], r1)
          else
            match parse_elems f (c1 :: r1) with
            | Some (vs, r2) => Some (JArr vs, r2)
            | None => None
            end
        | [] => None
        end
      else if c =? 110 then
        match expect [117; 108; 108] r with Some r' => Some (JNull, r') | None => None end
      else if c =? 116 then
        match expect [114; 117; 101] r with Some r' => Some (JBool true, r') | None => None end
      else if c =? 102 then
        match expect [97; 108; 115; 101] r with Some r' => Some (JBool false, r') | None => None end
      else
        match parse_number s with
        | Some (z, r') => Some (JInt z, r')
        | None => None
        end
    end
  end
with parse_elems (fuel : nat) (s : list N) : option (list jv * list N) :=
  (* [s] is at the first character of a value *)
  match fuel with
  | O => None
  | S f =>
    match parse_value f s with
    | None => None
    | Some (v, r) =>
      match skip_ws r with
      | c :: r1 =>
        if c =? 93 then Some ([v], r1)
        else if c =? 44 then
          match parse_elems f (skip_ws r1) with
          | Some (vs, r2) => Some (v :: vs, r2)
          | None => None
          end
        else None
      | [] => None
      end
    end
  end
with parse_members (fuel : nat) (s : list N) : option (list (list N * jv) * list N) :=
  (* [s] is just after the opening quote of a key *)
  match fuel with
  | O => None
  | S f =>
    match scan_string s with
    | None => None
    | Some (k, r) =>
      match skip_ws r with
      | c :: r1 =>
        if c =? 58 then
          match parse_value f (skip_ws r1) with
          | None => None
          | Some (v, r2) =>
            match skip_ws r2 with
            | c2 :: r3 =>
              if c2 =? 125 then Some ([(k, v)], r3)
              else if c2 =? 44 then
                match skip_ws r3 with
                | c3 :: r4 =>
                  if c3 =? 34 then
                    match parse_members f r4 with
                    | Some (ps, r5) => Some ((k, v) :: ps, r5)
                    | None => None
                    end
                  else None
                | [] => None
                end
              else None
            | [] => None
            end
          end
        else None
      | [] => None
      end
    end
  end.

(* JSONDecoder.decode: leading whitespace, one value, trailing whitespace, end of text *)
Definition parse (s : list N) : option jv :=
  match parse_value (length s) (skip_ws s) with
  | Some (v, r) => match skip_ws r with [] => Some v | _ :: _ => None end
  | None => None
  end.

(* ------------------------------------------------------------------ UTF-8 (str.encode() /
   bytes.decode(), both strict) *)

Definition is_surrogate (c : N) : bool := (55296 <=? c) && (c <=? 57343).
Definition scalar (c : N) : bool := (c <=? 1114111) && negb (is_surrogate c).

Definition utf8_char (c : N) : option (list N) :=
  if c <? 128 then Some [c]
  else if c <? 2048 then Some [192 + c / 64; 128 + c mod 64]
  else if is_surrogate c then None                (* UnicodeEncodeError *)
  else if c <? 65536 then Some [224 + c / 4096; 128 + (c / 64) mod 64; 128 + c mod 64]
  else if c <=? 1114111 then
    Some [240 + c / 262144; 128 + (c / 4096) mod 64; 128 + (c / 64) mod 64; 128 + c mod 64]
  else None.

Fixpoint utf8_encode (s : list N) : option (list N) :=
  match s with
  | [] => Some []
  | c :: r =>
    match utf8_char c, utf8_encode r with
    | Some b, Some br => Some (b ++ br)
    | _, _ => None
    end
  end.

Definition is_cont (b : N) : bool := (128 <=? b) && (b <=? 191).

(* strict decoder: rejects stray / missing continuation bytes, overlong forms, surrogates,
   code points above 10FFFF and bytes F5..FF, as CPython's does *)
Fixpoint utf8_decode (b : list N) : option (list N) :=
  match b with
  | [] => Some []
  | b0 :: r =>
    if b0 <? 128 then
      match utf8_decode r with Some s => Some (b0 :: s) | None => None end
    else if b0 <? 194 then None
    else if b0 <? 224 then
      match r with
      | b1 :: r1 =>
        if is_cont b1 then
          match utf8_decode r1 with
          | Some s => Some (((b0 - 192) * 64 + (b1 - 128)) :: s)
          | None => None
          end
        else None
      | _ => None
      end
    else if b0 <? 240 then
      match r with
      | b1 :: b2 :: r2 =>
        if is_cont b1 && is_cont b2 then
          let c := ((b0 - 224) * 64 + (b1 - 128)) * 64 + (b2 - 128) in
          if (c <? 2048) || is_surrogate c then None
          else match utf8_decode r2 with Some s => Some (c :: s) | None => None end
        else None
      | _ => None
      end
    else if b0 <? 245 then
      match r with
      | b1 :: b2 :: b3 :: r3 =>
        if is_cont b1 && is_cont b2 && is_cont b3 then
          let c := (((b0 - 240) * 64 + (b1 - 128)) * 64 + (b2 - 128)) * 64 + (b3 - 128) in
          if (c <? 65536) || (1114111 <? c) then None
          else match utf8_decode r3 with Some s => Some (c :: s) | None => None end
        else None
      | _ => None
      end
    else None
  end.

(* ------------------------------------------------------------------ JSONHandler glue over
   the codecs (falcon/media/json.py) *)

(* what a dumps function returned *)
Inductive dumped := DStr (s : list N) | DBytes (b : list N).

Inductive ser_res :=
| SBytes (b : list N)        (* the body *)
| SStr (s : list N)          (* a str handed on un-encoded (bytes-mode handler, str result) *)
| SEncodeError               (* UnicodeEncodeError from str.encode(): lone surrogate *)
| SAttrError.                (* bytes has no .encode() *)

(* __init__ probes dumps once and binds _serialize_s (str mode: dumps(media).encode()) or
   _serialize_b (dumps(media) returned as is) *)
Definition json_serialize_glue (probe_is_str : bool) (r : dumped) : ser_res :=
  if probe_is_str then
    match r with
    | DStr s => match utf8_encode s with Some b => SBytes b | None => SEncodeError end
    | DBytes _ => SAttrError
    end
  else
    match r with
    | DStr s => SStr s
    | DBytes b => SBytes b
    end.

(* the default handler: dumps = partial(json.dumps, ensure_ascii=False) *)
Definition json_serialize (d : jv) : ser_res := json_serialize_glue true (DStr (print d)).

(* _deserialize with the default loads, over the model codecs *)
Inductive deser_res := DOk (v : jv) | DNotFound | DMalformed.

Definition json_deserialize_body (data : list N) : deser_res :=
  match data with
  | [] => DNotFound
  | _ :: _ =>
    match utf8_decode data with
    | None => DMalformed
    | Some text =>
      match parse text with
      | Some v => DOk v
      | None => DMalformed
      end
    end
  end.

(* ------------------------------------------------------------------ URLEncodedFormHandler
   .serialize: urlencode(media, doseq=True).encode() for a mapping (ordered) from str to
   str or sequence of str *)

Inductive fval := FStr (s : list N) | FSeq (l : list (list N)).

Definition upper_hex (n : N) : N := if n <? 10 then 48 + n else 55 + n.

(* quote_from_bytes with safe = '' (+ ' ' handled by the caller): _ALWAYS_SAFE is
   A-Z a-z 0-9 _ . - ~ *)
Definition always_safe (b : N) : bool :=
  ((65 <=? b) && (b <=? 90)) || ((97 <=? b) && (b <=? 122)) || is_digit b
  || (b =? 95) || (b =? 46) || (b =? 45) || (b =? 126).

Definition quote_plus_byte (b : N) : list N :=
  if always_safe b then [b]
  else if b =? 32 then [43]
  else [37; upper_hex (b / 16); upper_hex (b mod 16)].

(* quote_plus(s): s.encode('utf-8', 'strict') then per byte; None = UnicodeEncodeError *)
Definition quote_plus (s : list N) : option (list N) :=
  match utf8_encode s with
  | Some bs => Some (flat_map quote_plus_byte bs)
  | None => None
  end.

Fixpoint join_amp (parts : list (list N)) : list N :=
  match parts with
  | [] => []
  | [p] => p
  | p :: tl => p ++ 38 :: join_amp tl
  end.

Fixpoint all_some {A} (l : list (option A)) : option (list A) :=
  match l with
  | [] => Some []
  | Some x :: t => match all_some t with Some r => Some (x :: r) | None => None end
  | None :: _ => None
  end.

(* urlencode quotes the key first (so an unencodable key raises even when its value is an
   empty sequence), then the value or each element of it *)
Definition form_pairs (kv : list N * fval) : list (option (list N)) :=
  match quote_plus (fst kv) with
  | None => [None]
  | Some qk =>
    let pair v := match quote_plus v with Some qv => Some (qk ++ 61 :: qv) | None => None end in
    match snd kv with
    | FStr v => [pair v]
    | FSeq l => map pair l
    end
  end.

Definition form_print (m : list (list N * fval)) : option (list N) :=
  match all_some (flat_map form_pairs m) with
  | Some parts => Some (join_amp parts)
  | None => None
  end.
