(* C12 — the UTF-8 layer under the JSON codec, and the body-level round trip through the
   JSONHandler glue: _deserialize (serialize d) = d. *)
From Coq Require Import ZArith NArith List Bool Arith Lia ZifyBool ZifyNat ZifyN.
From Falcon.lib Require Import PyStr.
From Falcon.C12 Require Import Json JsonProofs.
Import ListNotations.
Local Open Scope N_scope.
Ltac Zify.zify_post_hook ::= Z.div_mod_to_equations.

Definition cons_opt (c : N) (r : option (list N)) : option (list N) :=
  match r with Some s => Some (c :: s) | None => None end.

Lemma utf8_decode_1 b0 tail :
  (b0 <? 128) = true -> utf8_decode ([b0] ++ tail) = cons_opt b0 (utf8_decode tail).
Proof. intro H. cbn [app utf8_decode]. rewrite H. reflexivity. Qed.

Lemma utf8_decode_2 b0 b1 tail :
  194 <= b0 < 224 -> is_cont b1 = true ->
  utf8_decode ([b0; b1] ++ tail) = cons_opt ((b0 - 192) * 64 + (b1 - 128)) (utf8_decode tail).
Proof.
  intros H0 H1. cbn [app utf8_decode].
  replace (b0 <? 128) with false by lia. replace (b0 <? 194) with false by lia.
  replace (b0 <? 224) with true by lia. rewrite H1. reflexivity.
Qed.

Lemma utf8_decode_3 b0 b1 b2 tail :
  224 <= b0 < 240 -> is_cont b1 = true -> is_cont b2 = true ->
  let c := ((b0 - 224) * 64 + (b1 - 128)) * 64 + (b2 - 128) in
  (c <? 2048) = false -> is_surrogate c = false ->
  utf8_decode ([b0; b1; b2] ++ tail) = cons_opt c (utf8_decode tail).
Proof.
  intros H0 H1 H2 c Hc Hs. cbn [app utf8_decode].
  replace (b0 <? 128) with false by lia. replace (b0 <? 194) with false by lia.
  replace (b0 <? 224) with false by lia. replace (b0 <? 240) with true by lia.
  rewrite H1, H2. cbn [andb]. fold c. rewrite Hc, Hs. reflexivity.
Qed.

Lemma utf8_decode_4 b0 b1 b2 b3 tail :
  240 <= b0 < 245 -> is_cont b1 = true -> is_cont b2 = true -> is_cont b3 = true ->
  let c := (((b0 - 240) * 64 + (b1 - 128)) * 64 + (b2 - 128)) * 64 + (b3 - 128) in
  (c <? 65536) = false -> (1114111 <? c) = false ->
  utf8_decode ([b0; b1; b2; b3] ++ tail) = cons_opt c (utf8_decode tail).
Proof.
  intros H0 H1 H2 H3 c Hc Hm. cbn [app utf8_decode].
  replace (b0 <? 128) with false by lia. replace (b0 <? 194) with false by lia.
  replace (b0 <? 224) with false by lia. replace (b0 <? 240) with false by lia.
  replace (b0 <? 245) with true by lia.
  rewrite H1, H2, H3. cbn [andb]. fold c. rewrite Hc, Hm. reflexivity.
Qed.

Ltac some_inj E :=
  match type of E with
  | Some ?x = Some ?y => let H := fresh in assert (H : x = y) by congruence; clear E; subst y
  end.

Lemma utf8_char_decode c bs tail :
  utf8_char c = Some bs -> utf8_decode (bs ++ tail) = cons_opt c (utf8_decode tail).
Proof.
  unfold utf8_char.
  destruct (c <? 128) eqn:H1.
  { intro E; some_inj E. apply utf8_decode_1, H1. }
  destruct (c <? 2048) eqn:H2.
  { intro E; some_inj E.
    rewrite utf8_decode_2; [| lia | unfold is_cont; lia].
    replace ((192 + c / 64 - 192) * 64 + (128 + c mod 64 - 128)) with c by lia. reflexivity. }
  destruct (is_surrogate c) eqn:H3; [discriminate |].
  destruct (c <? 65536) eqn:H4.
  { intro E; some_inj E.
    assert (Ec : ((224 + c / 4096 - 224) * 64 + (128 + (c / 64) mod 64 - 128)) * 64
                 + (128 + c mod 64 - 128) = c) by lia.
    rewrite utf8_decode_3.
    - rewrite Ec. reflexivity.
    - lia.
    - unfold is_cont; lia.
    - unfold is_cont; lia.
    - rewrite Ec. exact H2.
    - rewrite Ec. exact H3. }
  destruct (c <=? 1114111) eqn:H5; [| discriminate].
  intro E; some_inj E.
  assert (Ec : (((240 + c / 262144 - 240) * 64 + (128 + (c / 4096) mod 64 - 128)) * 64
                + (128 + (c / 64) mod 64 - 128)) * 64 + (128 + c mod 64 - 128) = c) by lia.
  rewrite utf8_decode_4.
  - rewrite Ec. reflexivity.
  - lia.
  - unfold is_cont; lia.
  - unfold is_cont; lia.
  - unfold is_cont; lia.
  - rewrite Ec. exact H4.
  - rewrite Ec. lia.
Qed.

(* bytes.decode() inverts str.encode() *)
Theorem utf8_roundtrip : forall s b, utf8_encode s = Some b -> utf8_decode b = Some s.
Proof.
  induction s as [|c s IH]; intros b E; cbn [utf8_encode] in E.
  - injection E as <-. reflexivity.
  - destruct (utf8_char c) as [bc|] eqn:Ec; [| discriminate].
    destruct (utf8_encode s) as [bs|] eqn:Es; [| discriminate].
    injection E as <-. rewrite (utf8_char_decode c bc bs Ec), (IH bs eq_refl). reflexivity.
Qed.

Definition str_scalar (s : list N) : Prop := Forall (fun c => scalar c = true) s.

Lemma utf8_char_scalar c : scalar c = true -> exists b, utf8_char c = Some b /\ b <> [].
Proof.
  unfold scalar, utf8_char. intro H.
  destruct (c <? 128); [eexists; split; [reflexivity | discriminate] |].
  destruct (c <? 2048); [eexists; split; [reflexivity | discriminate] |].
  destruct (is_surrogate c); [cbn in H; lia |].
  destruct (c <? 65536); [eexists; split; [reflexivity | discriminate] |].
  destruct (c <=? 1114111); [eexists; split; [reflexivity | discriminate] | cbn in H; lia].
Qed.

(* str.encode() succeeds exactly on strings of scalar values *)
Theorem utf8_encode_scalar s : str_scalar s -> exists b, utf8_encode s = Some b.
Proof.
  induction 1 as [|c s Hc Hs (bs & IH)]; cbn [utf8_encode].
  - eexists; reflexivity.
  - destruct (utf8_char_scalar c Hc) as (bc & E & _). rewrite E, IH. eexists; reflexivity.
Qed.

Theorem utf8_encode_some_scalar s b : utf8_encode s = Some b -> str_scalar s.
Proof.
  revert b. induction s as [|c s IH]; intros b E; [constructor |].
  cbn [utf8_encode] in E.
  destruct (utf8_char c) as [bc|] eqn:Ec; [| discriminate].
  destruct (utf8_encode s) as [bs|] eqn:Es; [| discriminate].
  constructor; [| exact (IH bs eq_refl)].
  unfold utf8_char in Ec. unfold scalar.
  destruct (c <? 128) eqn:H1; [unfold is_surrogate; lia |].
  destruct (c <? 2048) eqn:H2; [unfold is_surrogate; lia |].
  destruct (is_surrogate c) eqn:H3; [discriminate |].
  destruct (c <? 65536) eqn:H4; [lia |].
  destruct (c <=? 1114111) eqn:H5; [lia | discriminate].
Qed.

Lemma utf8_encode_nonempty c s b : utf8_encode (c :: s) = Some b -> b <> [].
Proof.
  cbn [utf8_encode]. destruct (utf8_char c) as [bc|] eqn:Ec; [| discriminate].
  destruct (utf8_encode s) as [bs|]; [| discriminate].
  intro E; injection E as <-.
  assert (Hs : scalar c = true).
  { pose proof (utf8_encode_some_scalar [c] (bc ++ [])) as H. cbn [utf8_encode] in H. rewrite Ec in H.
    specialize (H eq_refl). inversion H; assumption. }
  destruct (utf8_char_scalar c Hs) as (bc' & E' & Hne). rewrite Ec in E'. injection E' as <-.
  destruct bc; [congruence | discriminate].
Qed.

(* ------------------------------------------------------------------ the body-level round trip *)

(* Whenever the default JSONHandler serializes a document (i.e. str.encode() does not raise),
   deserializing the body returns the document. *)
Theorem json_body_roundtrip d body :
  wf d -> json_serialize d = SBytes body -> json_deserialize_body body = DOk d.
Proof.
  intros Hwf. unfold json_serialize, json_serialize_glue, json_deserialize_body.
  destruct (utf8_encode (print d)) as [b|] eqn:E; [| discriminate].
  intro H; injection H as <-.
  destruct (print_head d) as (c & tl & Ep & _).
  assert (Hne : b <> []) by (rewrite Ep in E; exact (utf8_encode_nonempty c tl b E)).
  destruct b as [|b0 b]; [congruence |].
  rewrite (utf8_roundtrip _ _ E), (json_roundtrip d Hwf). reflexivity.
Qed.

(* ... and serialization succeeds for every document whose strings and keys consist of Unicode
   scalar values (no lone surrogates) *)
Inductive scalars : jv -> Prop :=
| sc_null : scalars JNull
| sc_bool b : scalars (JBool b)
| sc_int z : scalars (JInt z)
| sc_str s : str_scalar s -> scalars (JStr s)
| sc_arr l : Forall scalars l -> scalars (JArr l)
| sc_obj l : Forall (fun kv => str_scalar (fst kv) /\ scalars (snd kv)) l -> scalars (JObj l).

Lemma ascii_scalar c : c < 128 -> scalar c = true.
Proof. unfold scalar, is_surrogate. lia. Qed.

Lemma esc_char_scalar c : scalar c = true -> str_scalar (esc_char c).
Proof.
  intro H. unfold esc_char, str_scalar.
  repeat match goal with
         | |- Forall _ (if ?b then _ else _) => destruct b eqn:?
         end;
    repeat (constructor; try (apply ascii_scalar; unfold hex_digit; lia)); try exact H.
  all: apply ascii_scalar; unfold hex_digit;
    match goal with |- (if ?b then _ else _) < _ => destruct b end; lia.
Qed.

Lemma print_str_scalar s : str_scalar s -> str_scalar (print_str s).
Proof.
  intro H. unfold print_str, str_scalar. constructor; [reflexivity |].
  apply Forall_app. split; [| repeat constructor].
  induction H as [|c s Hc Hs IH]; cbn [flat_map]; [constructor |].
  apply Forall_app. split; [apply esc_char_scalar, Hc | exact IH].
Qed.

Lemma digits_scalar l : all_digits l -> str_scalar l.
Proof.
  apply Forall_impl. intros c H. apply ascii_scalar. unfold is_digit in H. lia.
Qed.

Lemma print_Z_scalar z : str_scalar (print_Z z).
Proof.
  destruct z as [|p|p]; cbn [print_Z].
  - repeat constructor.
  - destruct (print_N_spec (Npos p)) as (d & tl & E & Hd & Htl & _); [lia |]. rewrite E.
    constructor; [apply ascii_scalar; lia | apply digits_scalar, Htl].
  - destruct (print_N_spec (Npos p)) as (d & tl & E & Hd & Htl & _); [lia |]. rewrite E.
    constructor; [reflexivity |]. constructor; [apply ascii_scalar; lia | apply digits_scalar, Htl].
Qed.

Lemma join_sep_scalar parts : Forall str_scalar parts -> str_scalar (join_sep parts).
Proof.
  induction 1 as [|p ps Hp Hps IH]; [constructor |].
  destruct ps as [|q ps]; [exact Hp |].
  change (join_sep (p :: q :: ps)) with (p ++ 44 :: 32 :: join_sep (q :: ps)).
  apply Forall_app. split; [exact Hp |]. constructor; [reflexivity |]. constructor; [reflexivity | exact IH].
Qed.

Lemma print_scalar d : scalars d -> str_scalar (print d).
Proof.
  induction d as [|b|z|s|l IH|l IH] using jv_ind'; intro H; cbn [print].
  - repeat constructor.
  - destruct b; repeat constructor.
  - apply print_Z_scalar.
  - inversion H; subst. apply print_str_scalar. assumption.
  - inversion H as [| | | |l' Hl|]; subst. constructor; [reflexivity |].
    apply Forall_app. split; [| repeat constructor].
    apply join_sep_scalar. apply Forall_map.
    rewrite Forall_forall in *. intros x Hx. apply IH; [exact Hx | apply Hl, Hx].
  - inversion H as [| | | | |l' Hl]; subst. constructor; [reflexivity |].
    apply Forall_app. split; [| repeat constructor].
    apply join_sep_scalar. apply Forall_map.
    rewrite Forall_forall in *. intros [k v] Hx. cbn [fst snd].
    destruct (Hl (k, v) Hx) as [Hk Hv]. cbn [fst snd] in *.
    apply Forall_app. split; [apply print_str_scalar, Hk |].
    constructor; [reflexivity |]. constructor; [reflexivity |].
    apply (IH (k, v) Hx). exact Hv.
Qed.

(* The whole stack: every JSON-representable float-free document (distinct keys, scalar
   strings) is serialized by the handler to a body that the handler deserializes to the same
   document. *)
Theorem json_handler_roundtrip d :
  wf d -> scalars d ->
  exists body, json_serialize d = SBytes body /\ json_deserialize_body body = DOk d.
Proof.
  intros Hwf Hsc.
  destruct (utf8_encode_scalar (print d) (print_scalar d Hsc)) as (b & E).
  exists b. assert (Hs : json_serialize d = SBytes b).
  { unfold json_serialize, json_serialize_glue. rewrite E. reflexivity. }
  split; [exact Hs | exact (json_body_roundtrip d b Hwf Hs)].
Qed.

(* a lone surrogate anywhere makes str.encode() raise: the handler does not produce a body *)
Theorem json_serialize_surrogate_fails d :
  ~ str_scalar (print d) -> json_serialize d = SEncodeError.
Proof.
  intro H. unfold json_serialize, json_serialize_glue.
  destruct (utf8_encode (print d)) as [b|] eqn:E; [| reflexivity].
  exfalso. apply H. exact (utf8_encode_some_scalar _ _ E).
Qed.

(* ------------------------------------------------------------------ coherence with the glue
   model of Model.v (the one run against the real handler with CPython's answers as inputs):
   json_deserialize_body is that glue instantiated with the model codecs *)
From Falcon.C12 Require Import Model.

Definition hres_of (r : deser_res) : hres :=
  match r with DOk _ => HOk | DNotFound => HErr ENotFound | DMalformed => HErr EMalformed end.

Theorem json_deserialize_body_glue data :
  hres_of (json_deserialize_body data) =
  json_deserialize (match data with [] => true | _ => false end)
                   (match utf8_decode data with Some _ => true | None => false end)
                   (match utf8_decode data with
                    | Some t => match parse t with Some _ => LOk | None => LValueError end
                    | None => LValueError
                    end).
Proof.
  unfold json_deserialize_body, json_deserialize. destruct data as [|b0 data]; [reflexivity |].
  destruct (utf8_decode (b0 :: data)) as [t|]; [| reflexivity].
  destruct (parse t); reflexivity.
Qed.

(* a body that is not UTF-8 or not JSON is a 400-class malformed-media error, an empty one is
   media-not-found: never anything else *)
Theorem json_deserialize_body_status data :
  status_class (hres_of (json_deserialize_body data)) = 200%nat \/
  status_class (hres_of (json_deserialize_body data)) = 400%nat.
Proof. destruct (json_deserialize_body data); cbn; auto. Qed.
