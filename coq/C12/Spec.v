(* C12 — reference behaviour and boolean oracles. *)
From Coq Require Import ZArith List Bool Arith.
From Falcon.C12 Require Import Model.
Import ListNotations.

(* ---- request media: every call answers from the FIRST handler invocation *)
Definition spec_out (r0 : hres) (d : bool) : rout :=
  match r0 with
  | HOk => Ret 0
  | HErr e => if d && herr_eqb e ENotFound then RetDefault else Raise 0 e
  end.

Definition rout_eqb (a b : rout) : bool :=
  match a, b with
  | Ret k, Ret k' => Nat.eqb k k'
  | RetDefault, RetDefault => true
  | Raise k e, Raise k' e' => Nat.eqb k k' && herr_eqb e e'
  | _, _ => false
  end.

Fixpoint list_eqb {A} (eqb : A -> A -> bool) (a b : list A) : bool :=
  match a, b with
  | [], [] => true
  | x :: a', y :: b' => eqb x y && list_eqb eqb a' b'
  | _, _ => false
  end.

(* oracle on an observed session: [ds] the calls made, [obs] what each returned/raised
   (object identities mapped to handler invocation numbers by the harness), and the
   counters observed at the end.  Returns the failed clauses:
   1 results differ from "first invocation decides"; 2 handler invoked more than once;
   3 stream read more than once; 4 exhaust not called exactly as the handler asks. *)
Definition oracle_req (r0 : hres) (exhaust : bool) (ds : list bool) (obs : list rout)
           (ncalls nreads nexhausts : nat) : list N :=
  let n1 := match ds with [] => 0 | _ => 1 end in
  (if list_eqb rout_eqb obs (map (spec_out r0) ds) then [] else [1%N]) ++
  (if Nat.eqb ncalls n1 then [] else [2%N]) ++
  (if Nat.eqb nreads n1 then [] else [3%N]) ++
  (if Nat.eqb nexhausts (if exhaust then n1 else 0) then [] else [4%N]).

(* ---- response media.  Assigning resp.media binds the response to that object; the body is
   produced from the content the object has when a render first needs it, and is then FIXED until
   the next assignment to resp.media - any assignment, including of the same object again, makes
   the next render serialize the object's then-current content.  An in-place amendment WITHOUT a
   new assignment does not change the body (by design: media is serialized at most once per
   assignment).  No cache of bytes appears here, only the content version that was fixed. *)
Record pspec := { q_text : option nat; q_data : option nat; q_media : option nat;
                  q_fixed : option nat;      (* content version fixed by the first render *)
                  q_muts : list nat }.
Definition qinit : pspec :=
  {| q_text := None; q_data := None; q_media := None; q_fixed := None; q_muts := [] |}.

Definition qstep (s : pspec) (o : rop) : pspec * option body :=
  match o with
  | SetMedia v => ({| q_text := q_text s; q_data := q_data s; q_media := v; q_fixed := None;
                      q_muts := q_muts s |}, None)
  | SetText t => ({| q_text := t; q_data := q_data s; q_media := q_media s; q_fixed := q_fixed s;
                     q_muts := q_muts s |}, None)
  | SetData d => ({| q_text := q_text s; q_data := d; q_media := q_media s; q_fixed := q_fixed s;
                     q_muts := q_muts s |}, None)
  | Mutate x => ({| q_text := q_text s; q_data := q_data s; q_media := q_media s;
                    q_fixed := q_fixed s; q_muts := x :: q_muts s |}, None)
  | Render =>
    match q_text s, q_data s, q_media s with
    | Some t, _, _ => (s, Some (BText t))
    | None, Some d, _ => (s, Some (BData d))
    | None, None, None => (s, Some BNone)
    | None, None, Some x =>
      let v := match q_fixed s with Some v => v | None => version (q_muts s) x end in
      ({| q_text := None; q_data := None; q_media := Some x; q_fixed := Some v;
          q_muts := q_muts s |}, Some (BMedia x v))
    end
  end.

Fixpoint qrun (s : pspec) (ops : list rop) : list (option body) :=
  match ops with
  | [] => []
  | o :: tl => let '(s1, b) := qstep s o in b :: qrun s1 tl
  end.

Definition count_setmedia (ops : list rop) : nat :=
  length (filter (fun o => match o with SetMedia _ => true | _ => false end) ops).

Definition body_eqb (a b : option body) : bool :=
  match a, b with
  | None, None => true
  | Some BNone, Some BNone => true
  | Some (BText x), Some (BText y) | Some (BData x), Some (BData y) => Nat.eqb x y
  | Some (BMedia x v), Some (BMedia y w) => Nat.eqb x y && Nat.eqb v w
  | _, _ => false
  end.

(* oracle on an observed response session: 1 bodies differ from the reading above (in particular
   a stale rendering after a re-assignment); 2 more serializations than media assignments *)
Definition oracle_resp (ops : list rop) (obs : list (option body)) (nser : nat) : list N :=
  (if list_eqb body_eqb obs (qrun qinit ops) then [] else [1%N]) ++
  (if Nat.leb nser (count_setmedia ops) then [] else [2%N]).

(* ---- handler glue: the only outcomes are a value, not-found, or malformed (400-class),
   unless the codec itself raises something that is not a ValueError *)
Definition oracle_json (empty utf8_ok : bool) (l : loads_res) (obs : hres) : list N :=
  match empty, utf8_ok, l, obs with
  | true, _, _, HErr ENotFound => []
  | false, false, _, HErr EMalformed => []
  | false, true, LOk, HOk => []
  | false, true, LValueError, HErr EMalformed => []
  | false, true, LOtherError, HErr EOther => []
  | _, _, _, _ => [1%N]
  end.
