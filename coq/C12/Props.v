(* C12 — property theorems (request media parsed at most once; error caching; handler glue;
   response render cache; the JSON codec round trip). *)
From Coq Require Import ZArith NArith List Bool Arith Lia.
From Falcon.C12 Require Import Model Spec Proofs Json JsonProofs ProofsUtf8 Form ProofsForm ProofsStream.
Import ListNotations.

(* Every call answers from the first handler invocation: later calls return the same object
   or re-raise the same error object; a default substitutes only for not-found. *)
Theorem C12_get_media_trace : forall h ex ds,
  snd (run_gets h ex rinit ds) = map (spec_out (h 0)) ds.
Proof. exact get_media_trace. Qed.
Print Assumptions C12_get_media_trace.

(* Request media is parsed at most once, the stream read at most once, and exhausted exactly
   when the handler asks for it — for every sequence of calls. *)
Theorem C12_parse_at_most_once : forall h ex ds,
  let s := fst (run_gets h ex rinit ds) in
  let n := match ds with [] => 0 | _ => 1 end in
  calls s = n /\ reads s = n /\ exhausts s = (if ex then n else 0).
Proof. exact parse_at_most_once. Qed.
Print Assumptions C12_parse_at_most_once.

Theorem C12_later_calls_touch_nothing : forall h ex d ds,
  fst (run_gets h ex (fst (get_media h ex rinit d)) ds) = fst (get_media h ex rinit d).
Proof. exact later_calls_touch_nothing. Qed.
Print Assumptions C12_later_calls_touch_nothing.

Theorem C12_default_only_for_notfound_never_cached : forall h ex ds1 e,
  h 0 = HErr e ->
  snd (run_gets h ex rinit (ds1 ++ [false])) = map (spec_out (h 0)) ds1 ++ [Raise 0 e].
Proof. intros h ex ds1 e. exact (default_only_for_notfound h ex ds1 e). Qed.
Print Assumptions C12_default_only_for_notfound_never_cached.

(* An empty JSON body is the media-not-found error; an undecodable body is a 400-class
   malformed-media error. *)
Theorem C12_json_empty_notfound : forall u l, json_deserialize true u l = HErr ENotFound.
Proof. exact json_empty_notfound. Qed.
Print Assumptions C12_json_empty_notfound.

Theorem C12_json_undecodable_is_400 : forall u l,
  (u = false \/ l = LValueError) -> status_class (json_deserialize false u l) = 400.
Proof. exact json_undecodable_is_400. Qed.
Print Assumptions C12_json_undecodable_is_400.

Theorem C12_form_undecodable_is_400 : forall a p,
  a && p = false -> status_class (form_deserialize a p) = 400.
Proof. exact form_undecodable_is_400. Qed.
Print Assumptions C12_form_undecodable_is_400.

(* The response render cache is transparent (never a stale rendering), for every sequence of
   assignments (incl. re-assigning the SAME object), renders and in-place amendments of media
   objects: the body is the content the object has when a render first needs it after the latest
   assignment to resp.media (Spec.qstep) ... *)
Theorem C12_render_cache_transparent : forall ops, snd (prun pinit ops) = qrun qinit ops.
Proof. exact render_cache_transparent. Qed.
Print Assumptions C12_render_cache_transparent.

(* ... an assignment ALWAYS invalidates: from any state, assigning an object - the one already
   assigned or another - and rendering serializes the content the object has now ... *)
Theorem C12_reassign_renders_current : forall s x,
  p_text s = None -> p_data s = None ->
  snd (pstep (fst (pstep s (SetMedia (Some x)))) Render) = Some (BMedia x (version (p_muts s) x)).
Proof. exact reassign_renders_current. Qed.
Print Assumptions C12_reassign_renders_current.

(* ... while an in-place amendment WITHOUT a new assignment leaves the body as rendered (by design:
   media is serialized at most once per assignment) ... *)
Theorem C12_mutate_keeps_rendering : forall s x,
  let s1 := fst (pstep s Render) in
  snd (pstep (fst (pstep s1 (Mutate x))) Render) = snd (pstep s Render).
Proof. exact mutate_keeps_rendering. Qed.
Print Assumptions C12_mutate_keeps_rendering.

Theorem C12_version_is_mutation_count : forall ops x,
  version (p_muts (fst (prun pinit ops))) x = mutations_of ops x.
Proof. exact version_is_mutation_count. Qed.
Print Assumptions C12_version_is_mutation_count.

(* ... and media is serialized at most once per assignment. *)
Theorem C12_serialize_once_per_assignment : forall ops,
  length (p_serializations (fst (prun pinit ops))) <= count_setmedia ops.
Proof. exact serialize_once_per_assignment. Qed.
Print Assumptions C12_serialize_once_per_assignment.

(* The oracles the harness evaluates on the implementation accept the model. *)
Theorem C12_oracle_req_sound : forall h ex ds,
  let r := run_gets h ex rinit ds in
  oracle_req (h 0) ex ds (snd r) (calls (fst r)) (reads (fst r)) (exhausts (fst r)) = [].
Proof. exact oracle_req_sound. Qed.
Print Assumptions C12_oracle_req_sound.

Theorem C12_oracle_resp_sound : forall ops,
  let r := prun pinit ops in
  oracle_resp ops (snd r) (length (p_serializations (fst r))) = [].
Proof. exact oracle_resp_sound. Qed.
Print Assumptions C12_oracle_resp_sound.

Theorem C12_oracle_json_sound : forall e u l, oracle_json e u l (json_deserialize e u l) = [].
Proof. exact oracle_json_sound. Qed.
Print Assumptions C12_oracle_json_sound.

(* Non-vacuity: a not-found body, a call with default, then one without. *)
Example C12_session_example :
  snd (run_gets (fun _ => HErr ENotFound) true rinit [true; false; true]) =
  [RetDefault; Raise 0 ENotFound; RetDefault].
Proof. reflexivity. Qed.

(* render early, amend in place (body unchanged), re-assign the same object (new content), another
   object, then text wins *)
Example C12_render_example :
  snd (prun pinit [SetMedia (Some 1); Render; Mutate 1; Render; SetMedia (Some 1); Render;
                   SetMedia (Some 2); Render; SetText (Some 3); Render]) =
  [None; Some (BMedia 1 0); None; Some (BMedia 1 0); None; Some (BMedia 1 1);
   None; Some (BMedia 2 0); None; Some (BText 3)].
Proof. reflexivity. Qed.

(* ------------------------------------------------------------------ JSON codec (Json.v) *)

(* The parser (model of json.loads) inverts the printer (model of
   json.dumps(ensure_ascii=False)) on every float-free document whose objects have pairwise
   distinct keys: any depth, any size, integers of any magnitude, strings over arbitrary code
   points (escape-worthy, DEL, non-ASCII, astral, even lone surrogates at this level). *)
Theorem C12_json_roundtrip : forall d, wf d -> parse (print d) = Some d.
Proof. exact json_roundtrip. Qed.
Print Assumptions C12_json_roundtrip.

(* Without the distinct-keys hypothesis the parser returns the dict(pairs) reading: a repeated
   key keeps its first position and takes its last value (json.loads). *)
Theorem C12_json_roundtrip_norm : forall d, parse (print d) = Some (norm d).
Proof. exact json_roundtrip_norm. Qed.
Print Assumptions C12_json_roundtrip_norm.

(* Inside any context: the document is read back and the following text is left untouched
   (an integer must not be followed by a digit), with any fuel >= the length of its text. *)
Theorem C12_json_roundtrip_rest : forall d rest fuel,
  (length (print d) <= fuel)%nat -> head_not_digit rest ->
  parse_value fuel (print d ++ rest) = Some (norm d, rest).
Proof. exact json_roundtrip_rest. Qed.
Print Assumptions C12_json_roundtrip_rest.

(* Two different documents never serialize to the same text. *)
Theorem C12_json_print_injective : forall d1 d2, wf d1 -> wf d2 -> print d1 = print d2 -> d1 = d2.
Proof. exact print_injective. Qed.
Print Assumptions C12_json_print_injective.

(* Non-vacuity: an object with the keys k-quote and the empty string; the first maps to an array
   of 10**30, an object (newline -> null) and the string U+1F600 backslash U+0001 e-acute, the
   second to true.  The expected text was produced by json.dumps(ensure_ascii=False). *)
Definition ex_doc : jv :=
  JObj [([107; 34]%N, JArr [JInt (10 ^ 30); JObj [([10%N], JNull)]; JStr [128512; 92; 1; 233]%N]);
        ([], JBool true)].

Example C12_json_example :
  wf ex_doc /\
  print ex_doc =
  [123; 34; 107; 92; 34; 34; 58; 32; 91; 49; 48; 48; 48; 48; 48; 48; 48; 48; 48; 48; 48; 48; 48; 48;
   48; 48; 48; 48; 48; 48; 48; 48; 48; 48; 48; 48; 48; 48; 48; 48; 44; 32; 123; 34; 92; 110; 34; 58;
   32; 110; 117; 108; 108; 125; 44; 32; 34; 128512; 92; 92; 92; 117; 48; 48; 48; 49; 233; 34; 93; 44;
   32; 34; 34; 58; 32; 116; 114; 117; 101; 125]%N /\
  parse (print ex_doc) = Some ex_doc.
Proof.
  split; [| split; vm_compute; reflexivity].
  repeat constructor; cbn; intuition discriminate.
Qed.

(* duplicate keys: the pairs a:1, b:2, a:3 read back as a:3, b:2 *)
Example C12_json_dup_example :
  parse (print (JObj [([97%N], JInt 1); ([98%N], JInt 2); ([97%N], JInt 3)])) =
  Some (JObj [([97%N], JInt 3); ([98%N], JInt 2)]).
Proof. vm_compute. reflexivity. Qed.

(* ------------------------------------------------------------------ UTF-8 and the handler glue *)

(* bytes.decode() inverts str.encode() (strict UTF-8, model of CPython's codec) *)
Theorem C12_utf8_roundtrip : forall s b, utf8_encode s = Some b -> utf8_decode b = Some s.
Proof. exact utf8_roundtrip. Qed.
Print Assumptions C12_utf8_roundtrip.

(* Whenever JSONHandler.serialize produces a body for a document, JSONHandler._deserialize of
   that body is the document (dumps -> encode -> decode -> loads). *)
Theorem C12_json_body_roundtrip : forall d body,
  wf d -> json_serialize d = SBytes body -> json_deserialize_body body = DOk d.
Proof. exact json_body_roundtrip. Qed.
Print Assumptions C12_json_body_roundtrip.

(* It does produce one for every document whose strings and keys are sequences of Unicode
   scalar values: the JSON half of "any JSON-representable document round-trips". *)
Theorem C12_json_handler_roundtrip : forall d,
  wf d -> scalars d ->
  exists body, json_serialize d = SBytes body /\ json_deserialize_body body = DOk d.
Proof. exact json_handler_roundtrip. Qed.
Print Assumptions C12_json_handler_roundtrip.

(* A lone surrogate makes str.encode() raise instead (no body is produced). *)
Theorem C12_json_serialize_surrogate_fails : forall d,
  ~ str_scalar (print d) -> json_serialize d = SEncodeError.
Proof. exact json_serialize_surrogate_fails. Qed.
Print Assumptions C12_json_serialize_surrogate_fails.

(* json_deserialize_body is the glue of Model.v (the one compared with the real handler)
   instantiated with the model codecs; its outcomes are a value, not-found or malformed. *)
Theorem C12_json_deserialize_body_glue : forall data,
  hres_of (json_deserialize_body data) =
  json_deserialize (match data with [] => true | _ => false end)
                   (match utf8_decode data with Some _ => true | None => false end)
                   (match utf8_decode data with
                    | Some t => match parse t with Some _ => LOk | None => LValueError end
                    | None => LValueError
                    end).
Proof. exact json_deserialize_body_glue. Qed.
Print Assumptions C12_json_deserialize_body_glue.

Theorem C12_json_deserialize_body_status : forall data,
  status_class (hres_of (json_deserialize_body data)) = 200 \/
  status_class (hres_of (json_deserialize_body data)) = 400.
Proof. exact json_deserialize_body_status. Qed.
Print Assumptions C12_json_deserialize_body_status.

Example C12_json_body_example :
  scalars ex_doc /\
  json_serialize ex_doc = SBytes
  [123; 34; 107; 92; 34; 34; 58; 32; 91; 49; 48; 48; 48; 48; 48; 48; 48; 48; 48; 48; 48; 48; 48; 48;
   48; 48; 48; 48; 48; 48; 48; 48; 48; 48; 48; 48; 48; 48; 48; 48; 44; 32; 123; 34; 92; 110; 34; 58;
   32; 110; 117; 108; 108; 125; 44; 32; 34; 240; 159; 152; 128; 92; 92; 92; 117; 48; 48; 48; 49; 195;
   169; 34; 93; 44; 32; 34; 34; 58; 32; 116; 114; 117; 101; 125]%N /\
  json_serialize (JStr [55357%N]) = SEncodeError /\
  json_deserialize_body [91; 49; 44; 93]%N = DMalformed /\
  json_deserialize_body [34; 237; 160; 128; 34]%N = DMalformed /\
  json_deserialize_body [] = DNotFound.
Proof.
  split; [| repeat split; vm_compute; reflexivity].
  repeat constructor.
Qed.

(* ------------------------------------------------------------------ URL-encoded forms *)

(* falcon.util.uri.decode inverts urllib's quote_plus (percent-decoding over UTF-8, '+' = space) *)
Theorem C12_decode_quote_plus : forall s q, quote_plus s = Some q -> decode q = Some s.
Proof. exact decode_quote_plus. Qed.
Print Assumptions C12_decode_quote_plus.

(* Every form mapping (distinct keys; keys and values over Unicode scalar values; a value is a
   str or a sequence of >= 2 strs; no field with both an empty name and an empty value) is
   serialized by URLEncodedFormHandler.serialize (urlencode(doseq=True)) to a body that
   URLEncodedFormHandler._deserialize (ASCII decode + parse_query_string(keep_blank=True,
   csv=False)) maps back to the same mapping, keys in the same order. *)
Theorem C12_form_roundtrip : forall m,
  canonical m ->
  exists body, form_print m = Some body /\ form_deserialize_body true body = FOk m.
Proof. exact form_roundtrip. Qed.
Print Assumptions C12_form_roundtrip.

(* Non-vacuity: a key with a space and a non-ASCII letter mapped to three values containing
   reserved characters and an astral character, an empty key, an empty value.  The expected body
   was produced by urllib.parse.urlencode(doseq=True). *)
Definition ex_form : list (list N * fval) :=
  [([107; 32; 233]%N, FSeq [[97; 38; 98; 61; 99]; [43; 37]; [128512]]%N);
   ([], FStr [120%N]); ([101%N], FStr [])].

Example C12_form_example :
  canonical ex_form /\
  form_print ex_form = Some
  [107; 43; 37; 67; 51; 37; 65; 57; 61; 97; 37; 50; 54; 98; 37; 51; 68; 99; 38; 107; 43; 37; 67; 51;
   37; 65; 57; 61; 37; 50; 66; 37; 50; 53; 38; 107; 43; 37; 67; 51; 37; 65; 57; 61; 37; 70; 48; 37;
   57; 70; 37; 57; 56; 37; 56; 48; 38; 61; 120; 38; 101; 61]%N.
Proof.
  split; [| vm_compute; reflexivity].
  split.
  - cbn. repeat constructor; cbn; intuition discriminate.
  - repeat constructor; cbn; try lia; try (intuition discriminate).
Qed.

(* ------------------------------------------------------------------ Content-Length and chunking *)

(* What the stream hands the handler does not depend on how the transport chunks the body, and a
   declared length matters only when it is smaller than the body: on ASGI a MISSING Content-Length
   means "until the last event" (chunked / HTTP/2 uploads), on WSGI it means no body. *)
Theorem C12_asgi_offered_any_chunking : forall cl chunks1 chunks2,
  concat chunks1 = concat chunks2 -> offered_asgi cl chunks1 = offered_asgi cl chunks2.
Proof. exact asgi_offered_any_chunking. Qed.
Print Assumptions C12_asgi_offered_any_chunking.

Theorem C12_json_roundtrip_any_chunking : forall d body cl chunks,
  wf d -> json_serialize d = SBytes body -> concat chunks = body ->
  (forall n, cl = Some n -> length body <= n) ->
  json_deserialize_body (offered_asgi cl chunks) = DOk d.
Proof. exact json_roundtrip_any_chunking. Qed.
Print Assumptions C12_json_roundtrip_any_chunking.

Theorem C12_json_roundtrip_wsgi : forall d body n,
  wf d -> json_serialize d = SBytes body -> length body <= n ->
  json_deserialize_body (offered_wsgi (Some n) body) = DOk d.
Proof. exact json_roundtrip_wsgi. Qed.
Print Assumptions C12_json_roundtrip_wsgi.

Theorem C12_json_no_body_notfound : forall data chunks,
  json_deserialize_body (offered_wsgi None data) = DNotFound /\
  json_deserialize_body (offered_wsgi (Some 0) data) = DNotFound /\
  json_deserialize_body (offered_asgi (Some 0) chunks) = DNotFound.
Proof. exact json_no_body_notfound. Qed.
Print Assumptions C12_json_no_body_notfound.

(* [offered_*] is the declared body of C07's request-stream model *)
Theorem C12_offered_wsgi_is_C07_declared : forall cl data,
  offered_wsgi cl data =
  Falcon.C07.Spec.w_declared (Z.of_nat (match cl with Some n => n | None => 0 end)) data.
Proof. exact offered_wsgi_is_C07_declared. Qed.
Print Assumptions C12_offered_wsgi_is_C07_declared.

Theorem C12_offered_asgi_is_C07_declared : forall cl chunks,
  (Falcon.C07.Model.len (concat chunks) <= Falcon.C07.Model.two63)%Z ->
  offered_asgi cl chunks =
  Falcon.C07.Spec.a_declared None (option_map Z.of_nat cl) (events_of chunks).
Proof. exact offered_asgi_is_C07_declared. Qed.
Print Assumptions C12_offered_asgi_is_C07_declared.
