(* C12 — property theorems (request media parsed at most once; error caching; handler glue;
   response render cache).  The JSON/form codecs are in PropsCodec.v. *)
From Coq Require Import ZArith List Bool Arith.
From Falcon.C12 Require Import Model Spec Proofs.
Import ListNotations.

(* Every call answers from the first handler invocation: later calls return the same object
   or re-raise the same error object; a default substitutes only for not-found. *)
Theorem C12_get_media_trace : forall h ex ds,
  snd (run_gets h ex rinit ds) = map (spec_out (h 0)) ds.
Proof. exact get_media_trace. Qed.
Print Assumptions C12_get_media_trace.

(* Request media is parsed at most once, the stream read at most once, and exhausted exactly
   when the handler asks for it — for every sequence of calls. *)
Theorem C12_parse_at_most_once : forall h ex ds,
  let s := fst (run_gets h ex rinit ds) in
  let n := match ds with [] => 0 | _ => 1 end in
  calls s = n /\ reads s = n /\ exhausts s = (if ex then n else 0).
Proof. exact parse_at_most_once. Qed.
Print Assumptions C12_parse_at_most_once.

Theorem C12_later_calls_touch_nothing : forall h ex d ds,
  fst (run_gets h ex (fst (get_media h ex rinit d)) ds) = fst (get_media h ex rinit d).
Proof. exact later_calls_touch_nothing. Qed.
Print Assumptions C12_later_calls_touch_nothing.

Theorem C12_default_only_for_notfound_never_cached : forall h ex ds1 e,
  h 0 = HErr e ->
  snd (run_gets h ex rinit (ds1 ++ [false])) = map (spec_out (h 0)) ds1 ++ [Raise 0 e].
Proof. intros h ex ds1 e. exact (default_only_for_notfound h ex ds1 e). Qed.
Print Assumptions C12_default_only_for_notfound_never_cached.

(* An empty JSON body is the media-not-found error; an undecodable body is a 400-class
   malformed-media error. *)
Theorem C12_json_empty_notfound : forall u l, json_deserialize true u l = HErr ENotFound.
Proof. exact json_empty_notfound. Qed.
Print Assumptions C12_json_empty_notfound.

Theorem C12_json_undecodable_is_400 : forall u l,
  (u = false \/ l = LValueError) -> status_class (json_deserialize false u l) = 400.
Proof. exact json_undecodable_is_400. Qed.
Print Assumptions C12_json_undecodable_is_400.

Theorem C12_form_undecodable_is_400 : forall a p,
  a && p = false -> status_class (form_deserialize a p) = 400.
Proof. exact form_undecodable_is_400. Qed.
Print Assumptions C12_form_undecodable_is_400.

(* The response render cache is transparent (never a stale rendering) ... *)
Theorem C12_render_cache_transparent : forall ops, snd (prun pinit ops) = qrun qinit ops.
Proof. exact render_cache_transparent. Qed.
Print Assumptions C12_render_cache_transparent.

(* ... and media is serialized at most once per assignment. *)
Theorem C12_serialize_once_per_assignment : forall ops,
  length (p_serializations (fst (prun pinit ops))) <= count_setmedia ops.
Proof. exact serialize_once_per_assignment. Qed.
Print Assumptions C12_serialize_once_per_assignment.

(* The oracles the harness evaluates on the implementation accept the model. *)
Theorem C12_oracle_req_sound : forall h ex ds,
  let r := run_gets h ex rinit ds in
  oracle_req (h 0) ex ds (snd r) (calls (fst r)) (reads (fst r)) (exhausts (fst r)) = [].
Proof. exact oracle_req_sound. Qed.
Print Assumptions C12_oracle_req_sound.

Theorem C12_oracle_resp_sound : forall ops,
  let r := prun pinit ops in
  oracle_resp ops (snd r) (length (p_serializations (fst r))) = [].
Proof. exact oracle_resp_sound. Qed.
Print Assumptions C12_oracle_resp_sound.

Theorem C12_oracle_json_sound : forall e u l, oracle_json e u l (json_deserialize e u l) = [].
Proof. exact oracle_json_sound. Qed.
Print Assumptions C12_oracle_json_sound.

(* Non-vacuity: a not-found body, a call with default, then one without. *)
Example C12_session_example :
  snd (run_gets (fun _ => HErr ENotFound) true rinit [true; false; true]) =
  [RetDefault; Raise 0 ENotFound; RetDefault].
Proof. reflexivity. Qed.

Example C12_render_example :
  snd (prun pinit [SetMedia (Some 1); Render; Render; SetMedia (Some 2); Render; SetText (Some 3); Render]) =
  [None; Some (BMedia 1); Some (BMedia 1); None; Some (BMedia 2); None; Some (BText 3)].
Proof. reflexivity. Qed.
