(* C12 — executable model of request media caching (falcon/request.py:get_media and its
   ASGI twin: same control flow with await), the response media render cache
   (response.py: media setter + render_body), and the glue of the JSON and URL-encoded
   handlers around their stdlib codecs (media/json.py, media/urlencoded.py). *)
From Coq Require Import ZArith List Bool Arith.
Import ListNotations.

(* ------------------------------------------------------------------ request side *)

(* what handler.deserialize did on its k-th invocation *)
Inductive herr := ENotFound | EMalformed | EOther.
Inductive hres := HOk | HErr (e : herr).

Definition herr_eqb (a b : herr) : bool :=
  match a, b with
  | ENotFound, ENotFound | EMalformed, EMalformed | EOther, EOther => true
  | _, _ => false
  end.

(* Objects are identified by the handler invocation that produced them, so that "the same
   object" / "the same error" is expressible. *)
Record rstate := {
  media : option nat;                 (* _media: Some k = result of invocation k; None = _UNSET *)
  media_error : option (nat * herr);  (* _media_error: error object raised by invocation k *)
  calls : nat;                        (* handler.deserialize invocations so far *)
  reads : nat;                        (* stream reads performed by the handler *)
  exhausts : nat                      (* bounded_stream.exhaust() calls *)
}.

Definition rinit : rstate :=
  {| media := None; media_error := None; calls := 0; reads := 0; exhausts := 0 |}.

Inductive rout :=
| Ret (k : nat)            (* returns the object produced by invocation k *)
| RetDefault               (* returns the caller's default_when_empty *)
| Raise (k : nat) (e : herr).   (* raises the error object of invocation k *)

(* get_media(default_when_empty=...) ; [dflt] = a default was passed.
   [h k] = behaviour of the handler on its k-th invocation, [exhaust] = handler.exhaust_stream *)
Definition get_media (h : nat -> hres) (exhaust : bool) (s : rstate) (dflt : bool)
  : rstate * rout :=
  match media s with
  | Some k => (s, Ret k)
  | None =>
    match media_error s with
    | Some (k, e) =>
      if dflt && herr_eqb e ENotFound then (s, RetDefault) else (s, Raise k e)
    | None =>
      let k := calls s in
      let ex := if exhaust then S (exhausts s) else exhausts s in
      match h k with
      | HOk =>
        ({| media := Some k; media_error := None; calls := S k;
            reads := S (reads s); exhausts := ex |}, Ret k)
      | HErr e =>
        ({| media := None; media_error := Some (k, e); calls := S k;
            reads := S (reads s); exhausts := ex |},
         if dflt && herr_eqb e ENotFound then RetDefault else Raise k e)
      end
    end
  end.

Fixpoint run_gets (h : nat -> hres) (exhaust : bool) (s : rstate) (ds : list bool)
  : rstate * list rout :=
  match ds with
  | [] => (s, [])
  | d :: tl =>
    let '(s1, o) := get_media h exhaust s d in
    let '(s2, os) := run_gets h exhaust s1 tl in
    (s2, o :: os)
  end.

(* ------------------------------------------------------------------ handler glue *)

(* JSONHandler._deserialize: empty => MediaNotFoundError; data.decode() (UTF-8, strict)
   and loads raising ValueError => MediaMalformedError; any other exception propagates.
   The stdlib answers are inputs: [utf8_ok], and what loads did. *)
Inductive loads_res := LOk | LValueError | LOtherError.

Definition json_deserialize (empty utf8_ok : bool) (l : loads_res) : hres :=
  if empty then HErr ENotFound
  else if negb utf8_ok then HErr EMalformed
  else match l with
       | LOk => HOk
       | LValueError => HErr EMalformed
       | LOtherError => HErr EOther
       end.

(* URLEncodedFormHandler._deserialize: body.decode('ascii') or the parser failing in any way
   => MediaMalformedError; an empty body parses to the empty dict. *)
Definition form_deserialize (ascii_ok parse_ok : bool) : hres :=
  if ascii_ok && parse_ok then HOk else HErr EMalformed.

(* the status class the application sees when it lets the error propagate *)
Definition status_class (r : hres) : nat :=
  match r with
  | HOk => 200
  | HErr ENotFound => 400
  | HErr EMalformed => 400
  | HErr EOther => 500
  end.

(* ------------------------------------------------------------------ what the request stream
   hands to handler.deserialize (stream.read() to the end), as a function of Content-Length.
   WSGI (request.py:_get_wrapped_wsgi_input): BoundedStream(wsgi.input, content_length or 0) - a
   MISSING Content-Length means an empty body, whatever wsgi.input holds.  ASGI
   (asgi/request.py:stream): BoundedStream(receive, content_length=self.content_length) - a
   missing Content-Length means "until the event without more_body" (chunked / HTTP/2 uploads),
   Content-Length: 0 means empty although events carry bytes.  In both, a declared length bounds
   the body from above (first n bytes) and a shorter actual body is handed over as it is.
   (The full cursor semantics of both streams is C07's; ProofsStream.v relates the two.) *)
Definition offered_wsgi (cl : option nat) (data : list N) : list N :=
  firstn (match cl with Some n => n | None => 0 end) data.

Definition offered_asgi (cl : option nat) (chunks : list (list N)) : list N :=
  match cl with Some n => firstn n (concat chunks) | None => concat chunks end.

(* ------------------------------------------------------------------ response side *)

(* resp.media = obj (setter), resp.text/data assignment, render_body(), and - outside falcon - the
   application amending a media object IN PLACE.  A media object is identified by [o]; its
   content is the number of in-place amendments it has received so far ([version]).  The
   serializer is invoked with the current media object and sees the content it has at that
   moment; the result is cached in _media_rendered until the next assignment to resp.media
   (ANY assignment, also of the very same object).  Text/data values are identified by the index
   of the assignment that stored them. *)
Inductive rop :=
| SetMedia (v : option nat) | SetText (t : option nat) | SetData (d : option nat) | Render
| Mutate (o : nat).

Definition version (muts : list nat) (o : nat) : nat := length (filter (Nat.eqb o) muts).

Record pstate := {
  p_text : option nat; p_data : option nat; p_media : option nat;
  p_rendered : option (nat * nat);        (* _media_rendered: serialize(object o at version v) *)
  p_serializations : list (nat * nat);    (* history of handler.serialize calls, newest first *)
  p_muts : list nat                       (* in-place amendments so far (object ids) *)
}.

Definition pinit : pstate :=
  {| p_text := None; p_data := None; p_media := None; p_rendered := None; p_serializations := [];
     p_muts := [] |}.

Inductive body := BNone | BText (t : nat) | BData (d : nat) | BMedia (o v : nat).

Definition pstep (s : pstate) (o : rop) : pstate * option body :=
  match o with
  | SetMedia v => ({| p_text := p_text s; p_data := p_data s; p_media := v;
                      p_rendered := None; p_serializations := p_serializations s;
                      p_muts := p_muts s |}, None)
  | SetText t => ({| p_text := t; p_data := p_data s; p_media := p_media s;
                     p_rendered := p_rendered s; p_serializations := p_serializations s;
                     p_muts := p_muts s |}, None)
  | SetData d => ({| p_text := p_text s; p_data := d; p_media := p_media s;
                     p_rendered := p_rendered s; p_serializations := p_serializations s;
                     p_muts := p_muts s |}, None)
  | Mutate x => ({| p_text := p_text s; p_data := p_data s; p_media := p_media s;
                    p_rendered := p_rendered s; p_serializations := p_serializations s;
                    p_muts := x :: p_muts s |}, None)
  | Render =>
    match p_text s with
    | Some t => (s, Some (BText t))
    | None =>
      match p_data s with
      | Some d => (s, Some (BData d))
      | None =>
        match p_media s with
        | None => (s, Some BNone)
        | Some x =>
          match p_rendered s with
          | Some (x', v') => (s, Some (BMedia x' v'))
          | None =>
            let v := version (p_muts s) x in
            ({| p_text := None; p_data := None; p_media := Some x;
                p_rendered := Some (x, v); p_serializations := (x, v) :: p_serializations s;
                p_muts := p_muts s |},
             Some (BMedia x v))
          end
        end
      end
    end
  end.

Fixpoint prun (s : pstate) (ops : list rop) : pstate * list (option body) :=
  match ops with
  | [] => (s, [])
  | o :: tl =>
    let '(s1, b) := pstep s o in
    let '(s2, bs) := prun s1 tl in
    (s2, b :: bs)
  end.
