(* C12 — proofs about the JSON codec model (Json.v): the parser inverts the printer on
   documents of any depth and size. *)
From Coq Require Import ZArith NArith List Bool Arith Lia ZifyBool ZifyNat ZifyN.
From Falcon.lib Require Import PyStr.
From Falcon.C12 Require Import Json.
Import ListNotations.
Local Open Scope N_scope.
Ltac Zify.zify_post_hook ::= Z.div_mod_to_equations.

(* ------------------------------------------------------------------ induction principle for
   the nested inductive *)
Section jv_ind_nested.
  Variable P : jv -> Prop.
  Hypothesis Hnull : P JNull.
  Hypothesis Hbool : forall b, P (JBool b).
  Hypothesis Hint : forall z, P (JInt z).
  Hypothesis Hstr : forall s, P (JStr s).
  Hypothesis Harr : forall l, Forall P l -> P (JArr l).
  Hypothesis Hobj : forall l, Forall (fun kv => P (snd kv)) l -> P (JObj l).

  Fixpoint jv_ind' (d : jv) : P d :=
    match d with
    | JNull => Hnull
    | JBool b => Hbool b
    | JInt z => Hint z
    | JStr s => Hstr s
    | JArr l =>
      Harr l ((fix go (l : list jv) : Forall P l :=
                 match l with
                 | [] => Forall_nil _
                 | v :: t => Forall_cons v (jv_ind' v) (go t)
                 end) l)
    | JObj l =>
      Hobj l ((fix go (l : list (list N * jv)) : Forall (fun kv => P (snd kv)) l :=
                 match l with
                 | [] => Forall_nil _
                 | kv :: t => Forall_cons kv (jv_ind' (snd kv)) (go t)
                 end) l)
    end.
End jv_ind_nested.

(* ------------------------------------------------------------------ the domain *)

(* well-formed documents: the keys of every object are pairwise distinct (a Python dict).
   Nothing is required of strings at the code point level (the UTF-8 layer needs scalars). *)
Inductive wf : jv -> Prop :=
| wf_null : wf JNull
| wf_bool b : wf (JBool b)
| wf_int z : wf (JInt z)
| wf_str s : wf (JStr s)
| wf_arr l : Forall wf l -> wf (JArr l)
| wf_obj l : NoDup (map fst l) -> Forall (fun kv => wf (snd kv)) l -> wf (JObj l).

(* what json.loads makes of the printed form of an arbitrary association list: duplicate keys
   collapse as in dict(pairs) *)
Fixpoint norm (d : jv) : jv :=
  match d with
  | JArr l => JArr (map norm l)
  | JObj l => JObj (dict_of_pairs (map (fun kv => (fst kv, norm (snd kv))) l))
  | _ => d
  end.

(* fuel the parser spends on the printed form *)
Fixpoint need (d : jv) : nat :=
  match d with
  | JArr l => S (fold_right (fun v acc => S (need v + acc)) 0%nat l)
  | JObj l => S (fold_right (fun kv acc => S (need (snd kv) + acc)) 0%nat l)
  | _ => 1%nat
  end.

(* ------------------------------------------------------------------ strings *)

Lemma lt32_cases c : c < 32 -> In c (map N.of_nat (seq 0 32)).
Proof.
  intro H. replace c with (N.of_nat (N.to_nat c)) by lia.
  apply in_map. apply in_seq. lia.
Qed.

Lemma scan_string_esc c tail :
  scan_string (esc_char c ++ tail) = cons_res c (scan_string tail).
Proof.
  destruct (c <? 32) eqn:Hlt.
  - apply N.ltb_lt in Hlt. apply lt32_cases in Hlt. vm_compute in Hlt.
    repeat (destruct Hlt as [Hlt | Hlt]; [subst c; reflexivity |]). contradiction.
  - unfold esc_char.
    destruct (c =? 34) eqn:E1; [apply N.eqb_eq in E1; subst c; reflexivity |].
    destruct (c =? 92) eqn:E2; [apply N.eqb_eq in E2; subst c; reflexivity |].
    destruct (c =? 10) eqn:E3; [apply N.eqb_eq in E3; subst c; reflexivity |].
    destruct (c =? 13) eqn:E4; [apply N.eqb_eq in E4; subst c; reflexivity |].
    destruct (c =? 9) eqn:E5; [apply N.eqb_eq in E5; subst c; reflexivity |].
    destruct (c =? 8) eqn:E6; [apply N.eqb_eq in E6; subst c; reflexivity |].
    destruct (c =? 12) eqn:E7; [apply N.eqb_eq in E7; subst c; reflexivity |].
    rewrite Hlt. cbn [app]. cbn [scan_string]. rewrite E1, E2, Hlt. reflexivity.
Qed.

Lemma scan_string_print s rest :
  scan_string (flat_map esc_char s ++ 34 :: rest) = Some (s, rest).
Proof.
  induction s as [|c s IH].
  - reflexivity.
  - cbn [flat_map]. rewrite <- app_assoc. rewrite scan_string_esc, IH. reflexivity.
Qed.

(* ------------------------------------------------------------------ integers *)

Definition all_digits (l : list N) : Prop := Forall (fun c => is_digit c = true) l.

Definition head_not_digit (rest : list N) : Prop :=
  match rest with [] => True | c :: _ => is_digit c = false end.

Fixpoint valf (l : list N) (a : N) : N :=
  match l with [] => a | d :: t => valf t (a * 10 + (d - 48)) end.

Lemma valf_app l1 l2 a : valf (l1 ++ l2) a = valf l2 (valf l1 a).
Proof. revert a; induction l1 as [|d l1 IH]; intro a; cbn [app valf]; [reflexivity | apply IH]. Qed.

Lemma scan_digits_app l rest a :
  all_digits l -> head_not_digit rest -> scan_digits (l ++ rest) a = (valf l a, rest).
Proof.
  intros Hl Hr. revert a. induction Hl as [|c l Hc Hl IH]; intro a.
  - cbn [app valf]. destruct rest as [|c r]; [reflexivity |].
    cbn [head_not_digit] in Hr. cbn [scan_digits]. rewrite Hr. reflexivity.
  - cbn [app valf scan_digits]. rewrite Hc. apply IH.
Qed.

Lemma div_eucl_10 n : N.div_eucl n 10 = (n / 10, n mod 10).
Proof. unfold N.div, N.modulo. destruct (N.div_eucl n 10). reflexivity. Qed.

Lemma digits_aux_spec : forall fuel n acc,
  0 < n -> n < 2 ^ N.of_nat fuel ->
  exists d tl, digits_aux fuel n acc = d :: tl ++ acc /\ 49 <= d <= 57 /\
               all_digits tl /\ valf tl (d - 48) = n.
Proof.
  induction fuel as [|f IH]; intros n acc Hpos Hlt.
  - cbn in Hlt. lia.
  - cbn [digits_aux]. rewrite div_eucl_10.
    destruct (n / 10 =? 0) eqn:Hq.
    + exists (48 + n mod 10), []. cbn [app valf]. repeat split; try lia. constructor.
    + rewrite Nat2N.inj_succ, N.pow_succ_r' in Hlt.
      destruct (IH (n / 10) ((48 + n mod 10) :: acc)) as (d & tl & E & Hd & Htl & Hv); [lia | lia |].
      exists d, (tl ++ [48 + n mod 10]). rewrite E. repeat split; try lia.
      * rewrite <- app_assoc. reflexivity.
      * apply Forall_app. split; [exact Htl |]. constructor; [| constructor].
        unfold is_digit. lia.
      * rewrite valf_app, Hv. cbn [valf]. lia.
Qed.

Lemma print_N_spec n : 0 < n ->
  exists d tl, print_N n = d :: tl /\ 49 <= d <= 57 /\ all_digits tl /\ valf tl (d - 48) = n.
Proof.
  intro Hpos. unfold print_N.
  destruct (digits_aux_spec (S (N.to_nat (N.log2 n))) n [] Hpos) as (d & tl & E & H).
  - rewrite Nat2N.inj_succ, N2Nat.id. apply N.log2_spec. exact Hpos.
  - exists d, tl. rewrite E, app_nil_r. split; [reflexivity | exact H].
Qed.

Lemma parse_number_digits (neg : bool) d tl rest :
  49 <= d <= 57 -> all_digits tl -> head_not_digit rest ->
  parse_number ((if neg then [45] else []) ++ d :: tl ++ rest) =
  Some (if neg then (- Z.of_N (valf tl (d - 48)))%Z else Z.of_N (valf tl (d - 48)), rest).
Proof.
  intros Hd Htl Hr. unfold parse_number.
  assert (E45 : (d =? 45) = false) by lia.
  assert (E48 : (d =? 48) = false) by lia.
  assert (Edg : is_digit d = true) by (unfold is_digit; lia).
  destruct neg; cbn [app].
  - change (45 =? 45) with true. cbv iota beta. rewrite E48, Edg, scan_digits_app by assumption. reflexivity.
  - rewrite E45. rewrite E48, Edg, scan_digits_app by assumption. reflexivity.
Qed.

Lemma parse_number_print z rest :
  head_not_digit rest -> parse_number (print_Z z ++ rest) = Some (z, rest).
Proof.
  intro Hr. destruct z as [|p|p]; cbn [print_Z].
  - reflexivity.
  - destruct (print_N_spec (Npos p)) as (d & tl & E & Hd & Htl & Hv); [lia |].
    rewrite E. pose proof (parse_number_digits false d tl rest Hd Htl Hr) as H.
    cbn [app] in H |- *. rewrite H, Hv. reflexivity.
  - destruct (print_N_spec (Npos p)) as (d & tl & E & Hd & Htl & Hv); [lia |].
    rewrite E. pose proof (parse_number_digits true d tl rest Hd Htl Hr) as H.
    cbn [app] in H |- *. rewrite H, Hv. reflexivity.
Qed.

Lemma print_Z_head z : exists c tl, print_Z z = c :: tl /\ (c = 45 \/ 48 <= c <= 57).
Proof.
  destruct z as [|p|p]; cbn [print_Z].
  - exists 48, []. split; [reflexivity | lia].
  - destruct (print_N_spec (Npos p)) as (d & tl & E & Hd & _); [lia |].
    exists d, tl. split; [exact E | lia].
  - exists 45, (print_N (Npos p)). split; [reflexivity | lia].
Qed.

(* ------------------------------------------------------------------ first characters *)

Definition value_start (c : N) : Prop :=
  c = 34 \/ c = 123 \/ c = 91 \/ c = 110 \/ c = 116 \/ c = 102 \/ c = 45 \/ 48 <= c <= 57.

Lemma print_head d : exists c tl, print d = c :: tl /\ value_start c.
Proof.
  unfold value_start. destruct d as [|b|z|s|l|l]; cbn [print].
  - eexists _, _. split; [reflexivity | lia].
  - destruct b; eexists _, _; (split; [reflexivity | lia]).
  - destruct (print_Z_head z) as (c & tl & E & H). exists c, tl. split; [exact E | lia].
  - unfold print_str. eexists _, _. split; [reflexivity | lia].
  - eexists _, _. split; [reflexivity | lia].
  - eexists _, _. split; [reflexivity | lia].
Qed.

Lemma skip_ws_start c tl : value_start c -> skip_ws (c :: tl) = c :: tl.
Proof.
  intro H. cbn [skip_ws]. replace (is_ws c) with false; [reflexivity |].
  unfold value_start in H. unfold is_ws. lia.
Qed.

Lemma skip_ws_print d rest : skip_ws (print d ++ rest) = print d ++ rest.
Proof.
  destruct (print_head d) as (c & tl & E & H). rewrite E. cbn [app]. apply skip_ws_start, H.
Qed.

(* ------------------------------------------------------------------ unfolding equations *)

Lemma parse_value_str f r :
  parse_value (S f) (34 :: r) =
  match scan_string r with Some (str, r') => Some (JStr str, r') | None => None end.
Proof. reflexivity. Qed.

Lemma parse_value_obj f r :
  parse_value (S f) (123 :: r) =
  match skip_ws r with
  | c1 :: r1 =>
    if c1 =? 125 then Some (JObj [], r1)
    else if c1 =? 34 then
      match parse_members f r1 with
      | Some (ps, r2) => Some (JObj (dict_of_pairs ps), r2)
      | None => None
      end
    else None
  | [] => None
  end.
Proof. reflexivity. Qed.

Lemma parse_value_arr f r :
  parse_value (S f) (91 :: r) =
  match skip_ws r with
  | c1 :: r1 =>
    if c1 =? 93 then Some (JArr [], r1)
    else match parse_elems f (c1 :: r1) with
         | Some (vs, r2) => Some (JArr vs, r2)
         | None => None
         end
  | [] => None
  end.
Proof. reflexivity. Qed.

Lemma parse_value_number f c r :
  c = 45 \/ 48 <= c <= 57 ->
  parse_value (S f) (c :: r) =
  match parse_number (c :: r) with Some (z, r') => Some (JInt z, r') | None => None end.
Proof.
  intro H. cbn [parse_value].
  replace (c =? 34) with false by lia. replace (c =? 123) with false by lia.
  replace (c =? 91) with false by lia. replace (c =? 110) with false by lia.
  replace (c =? 116) with false by lia. replace (c =? 102) with false by lia.
  reflexivity.
Qed.

Lemma parse_elems_eq f s :
  parse_elems (S f) s =
  match parse_value f s with
  | None => None
  | Some (v, r) =>
    match skip_ws r with
    | c :: r1 =>
      if c =? 93 then Some ([v], r1)
      else if c =? 44 then
        match parse_elems f (skip_ws r1) with
        | Some (vs, r2) => Some (v :: vs, r2)
        | None => None
        end
      else None
    | [] => None
    end
  end.
Proof. reflexivity. Qed.

Lemma parse_members_eq f s :
  parse_members (S f) s =
  match scan_string s with
  | None => None
  | Some (k, r) =>
    match skip_ws r with
    | c :: r1 =>
      if c =? 58 then
        match parse_value f (skip_ws r1) with
        | None => None
        | Some (v, r2) =>
          match skip_ws r2 with
          | c2 :: r3 =>
            if c2 =? 125 then Some ([(k, v)], r3)
            else if c2 =? 44 then
              match skip_ws r3 with
              | c3 :: r4 =>
                if c3 =? 34 then
                  match parse_members f r4 with
                  | Some (ps, r5) => Some ((k, v) :: ps, r5)
                  | None => None
                  end
                else None
              | [] => None
              end
            else None
          | [] => None
          end
        end
      else None
    | [] => None
    end
  end.
Proof. reflexivity. Qed.

(* ------------------------------------------------------------------ dict(pairs) on distinct keys *)

Lemma dict_set_fresh k v l : ~ In k (map fst l) -> dict_set k v l = l ++ [(k, v)].
Proof.
  induction l as [|[k' v'] l IH]; intro H; cbn [dict_set app].
  - reflexivity.
  - cbn [map fst In] in H. destruct (str_eqb k' k) eqn:E.
    + apply str_eqb_eq in E. tauto.
    + rewrite IH by tauto. reflexivity.
Qed.

Lemma dict_of_pairs_nodup_acc l : forall acc,
  NoDup (map fst (acc ++ l)) ->
  fold_left (fun a kv => dict_set (fst kv) (snd kv) a) l acc = acc ++ l.
Proof.
  induction l as [|[k v] l IH]; intros acc H; cbn [fold_left].
  - rewrite app_nil_r. reflexivity.
  - cbn [fst snd]. rewrite dict_set_fresh.
    + rewrite IH; rewrite <- app_assoc; [reflexivity | exact H].
    + rewrite map_app in H. cbn [map fst] in H. apply NoDup_remove_2 in H.
      intro Hin. apply H. apply in_or_app. left. exact Hin.
Qed.

Lemma dict_of_pairs_nodup l : NoDup (map fst l) -> dict_of_pairs l = l.
Proof. intro H. unfold dict_of_pairs. apply (dict_of_pairs_nodup_acc l []). exact H. Qed.

Lemma map_id_Forall {A} (f : A -> A) l : Forall (fun x => f x = x) l -> map f l = l.
Proof. induction 1 as [|x l Hx Hl IH]; cbn [map]; [reflexivity | rewrite Hx, IH; reflexivity]. Qed.

Lemma norm_wf d : wf d -> norm d = d.
Proof.
  induction d as [| | | |l IH|l IH] using jv_ind'; intro H; cbn [norm]; try reflexivity.
  - inversion H as [| | | |l' Hl|]; subst. f_equal. apply map_id_Forall.
    rewrite Forall_forall in *. intros x Hx. apply IH; [exact Hx | apply Hl, Hx].
  - inversion H as [| | | | |l' Hnd Hl]; subst. f_equal.
    rewrite (map_id_Forall (fun kv => (fst kv, norm (snd kv)))).
    + apply dict_of_pairs_nodup. exact Hnd.
    + rewrite Forall_forall in *. intros [k v] Hx. cbn [fst snd]. f_equal.
      apply (IH (k, v) Hx). apply (Hl (k, v) Hx).
Qed.

(* ------------------------------------------------------------------ containers *)

Definition rt_at (d : jv) : Prop :=
  forall fuel rest, (need d <= fuel)%nat -> head_not_digit rest ->
    parse_value fuel (print d ++ rest) = Some (norm d, rest).

Definition elems_need (l : list jv) : nat :=
  fold_right (fun v acc => S (need v + acc)) 0%nat l.
Definition members_need (l : list (list N * jv)) : nat :=
  fold_right (fun kv acc => S (need (snd kv) + acc)) 0%nat l.

Lemma join_sep_cons_app p ps X :
  join_sep (p :: ps) ++ X =
  p ++ match ps with [] => X | _ :: _ => 44 :: 32 :: join_sep ps ++ X end.
Proof. destruct ps; cbn [join_sep]; [reflexivity | rewrite <- app_assoc; reflexivity]. Qed.

Lemma skip_ws_nonws c Y : is_ws c = false -> skip_ws (c :: Y) = c :: Y.
Proof. intro H. cbn [skip_ws]. rewrite H. reflexivity. Qed.

Lemma skip_ws_elems w l X :
  skip_ws (join_sep (map print (w :: l)) ++ X) = join_sep (map print (w :: l)) ++ X.
Proof. cbn [map]. rewrite join_sep_cons_app. apply skip_ws_print. Qed.

Lemma elems_need_cons v l : elems_need (v :: l) = S (need v + elems_need l).
Proof. reflexivity. Qed.

Lemma parse_elems_print : forall l v, Forall rt_at (v :: l) -> forall fuel rest,
  (elems_need (v :: l) <= fuel)%nat ->
  parse_elems fuel (join_sep (map print (v :: l)) ++ 93 :: rest) = Some (map norm (v :: l), rest).
Proof.
  induction l as [|w l IH]; intros v HF fuel rest Hfuel;
    inversion HF as [|? ? Hv HF']; subst;
    rewrite elems_need_cons in Hfuel;
    (destruct fuel as [|f]; [lia |]);
    rewrite parse_elems_eq; cbn [map]; rewrite join_sep_cons_app.
  - rewrite Hv; [| lia | reflexivity]. reflexivity.
  - rewrite Hv; [| lia | reflexivity].
    rewrite (skip_ws_nonws 44) by reflexivity. cbv beta iota.
    change (44 =? 93) with false. change (44 =? 44) with true. cbv beta iota.
    change (skip_ws (32 :: join_sep (print w :: map print l) ++ 93 :: rest))
      with (skip_ws (join_sep (map print (w :: l)) ++ 93 :: rest)).
    rewrite skip_ws_elems. rewrite (IH w HF' f rest); [reflexivity | lia].
Qed.

Definition mpart (kv : list N * jv) : list N :=
  print_str (fst kv) ++ 58 :: 32 :: print (snd kv).
Definition mbody (kv : list N * jv) (Y : list N) : list N :=
  flat_map esc_char (fst kv) ++ 34 :: 58 :: 32 :: print (snd kv) ++ Y.
Definition normkv (kv : list N * jv) : list N * jv := (fst kv, norm (snd kv)).

Lemma mpart_app kv Y : mpart kv ++ Y = 34 :: mbody kv Y.
Proof.
  unfold mpart, mbody, print_str. cbn [app]. rewrite <- !app_assoc. cbn [app]. reflexivity.
Qed.

Lemma members_need_cons kv l : members_need (kv :: l) = S (need (snd kv) + members_need l).
Proof. reflexivity. Qed.

Definition members_tail (l : list (list N * jv)) (rest : list N) : list N :=
  match l with
  | [] => 125 :: rest
  | _ :: _ => 44 :: 32 :: join_sep (map mpart l) ++ 125 :: rest
  end.

Lemma members_tail_head l rest : head_not_digit (members_tail l rest).
Proof. destruct l; reflexivity. Qed.

Lemma parse_members_print : forall l kv, Forall (fun kv => rt_at (snd kv)) (kv :: l) ->
  forall fuel rest, (members_need (kv :: l) <= fuel)%nat ->
  parse_members fuel (mbody kv (members_tail l rest)) = Some (map normkv (kv :: l), rest).
Proof.
  induction l as [|kv' l IH]; intros kv HF fuel rest Hfuel;
    inversion HF as [|? ? Hv HF']; subst;
    rewrite members_need_cons in Hfuel;
    (destruct fuel as [|f]; [lia |]);
    rewrite parse_members_eq; unfold mbody; rewrite scan_string_print;
    rewrite (skip_ws_nonws 58) by reflexivity; cbv beta iota;
    change (58 =? 58) with true; cbv beta iota;
    match goal with |- context [skip_ws (32 :: ?X)] => change (skip_ws (32 :: X)) with (skip_ws X) end;
    rewrite skip_ws_print;
    (rewrite Hv; [| lia | apply members_tail_head]);
    unfold members_tail.
  - reflexivity.
  - rewrite (skip_ws_nonws 44) by reflexivity. cbv beta iota.
    change (44 =? 125) with false. change (44 =? 44) with true. cbv beta iota.
    match goal with |- context [skip_ws (32 :: ?X)] => change (skip_ws (32 :: X)) with (skip_ws X) end.
    cbn [map]. rewrite join_sep_cons_app, mpart_app.
    rewrite (skip_ws_nonws 34) by reflexivity. cbv beta iota.
    change (34 =? 34) with true. cbv beta iota.
    replace (match map mpart l with
             | [] => 125 :: rest
             | _ :: _ => 44 :: 32 :: join_sep (map mpart l) ++ 125 :: rest
             end) with (members_tail l rest) by (destruct l; reflexivity).
    rewrite (IH kv' HF' f rest); [reflexivity | lia].
Qed.

(* ------------------------------------------------------------------ the round trip *)

Lemma parse_value_print : forall d, rt_at d.
Proof.
  induction d as [|b|z|s|l IH|l IH] using jv_ind'; intros fuel rest Hfuel Hrest;
    (destruct fuel as [|f]; [cbn in Hfuel; lia |]).
  - reflexivity.
  - destruct b; reflexivity.
  - cbn [print norm]. destruct (print_Z_head z) as (c & tl & E & Hc).
    pose proof (parse_number_print z rest Hrest) as Hn. rewrite E in *. cbn [app] in *.
    rewrite parse_value_number by exact Hc. rewrite Hn. reflexivity.
  - cbn [print norm]. unfold print_str. cbn [app]. rewrite parse_value_str.
    rewrite <- app_assoc. cbn [app]. rewrite scan_string_print. reflexivity.
  - cbn [print norm]. cbn [app]. rewrite parse_value_arr.
    destruct l as [|v l].
    + reflexivity.
    + rewrite <- app_assoc. cbn [app]. rewrite skip_ws_elems.
      destruct (print_head v) as (c & tl & E & Hc).
      assert (Ej : exists tl', join_sep (map print (v :: l)) ++ 93 :: rest = c :: tl').
      { cbn [map]. rewrite join_sep_cons_app, E. cbn [app]. eexists. reflexivity. }
      destruct Ej as (tl' & Ej). rewrite Ej.
      replace (c =? 93) with false by (unfold value_start in Hc; lia).
      rewrite <- Ej. rewrite (parse_elems_print l v IH f rest); [reflexivity |].
      cbn [need] in Hfuel. fold (elems_need (v :: l)) in Hfuel. lia.
  - cbn [print norm]. cbn [app]. rewrite parse_value_obj.
    destruct l as [|kv l].
    + reflexivity.
    + rewrite <- app_assoc. cbn [app].
      change (map (fun kv0 => print_str (fst kv0) ++ 58 :: 32 :: print (snd kv0)) (kv :: l))
        with (mpart kv :: map mpart l).
      rewrite join_sep_cons_app, mpart_app.
      rewrite (skip_ws_nonws 34) by reflexivity.
      change (34 =? 125) with false. change (34 =? 34) with true. cbv beta iota.
      replace (match map mpart l with
               | [] => 125 :: rest
               | _ :: _ => 44 :: 32 :: join_sep (map mpart l) ++ 125 :: rest
               end) with (members_tail l rest) by (destruct l; reflexivity).
      rewrite (parse_members_print l kv IH f rest); [reflexivity |].
      cbn [need] in Hfuel. fold (members_need (kv :: l)) in Hfuel. lia.
Qed.

(* fuel = length of the text suffices *)
Lemma need_join_sep {A} (f : A -> nat) (p : A -> list N) l :
  Forall (fun x => (f x <= length (p x))%nat) l ->
  (fold_right (fun x acc => S (f x + acc)) 0%nat l <= length (join_sep (map p l)) + 1)%nat.
Proof.
  induction 1 as [|x l Hx Hl IH]; cbn [fold_right map].
  - lia.
  - destruct l as [|y l].
    + cbn [fold_right map join_sep]. lia.
    + cbn [map] in IH |- *.
      change (join_sep (p x :: p y :: map p l)) with (p x ++ 44 :: 32 :: join_sep (p y :: map p l)).
      rewrite app_length. cbn [length]. cbn [fold_right] in IH |- *.
      set (F := fold_right _ _ l) in *. set (J := length (join_sep _)) in *.
      set (a := f x) in *. set (b := f y) in *. set (c := length (p x)) in *.
      clearbody F J a b c. lia.
Qed.

Lemma need_le_length d : (need d <= length (print d))%nat.
Proof.
  induction d as [|b|z|s|l IH|l IH] using jv_ind'; cbn [need print].
  - cbn. lia.
  - destruct b; cbn; lia.
  - destruct (print_Z_head z) as (c & tl & E & _). rewrite E. cbn [length]. lia.
  - unfold print_str. cbn [length]. lia.
  - pose proof (need_join_sep need print l IH) as H.
    cbn [length]. rewrite app_length. cbn [length]. lia.
  - assert (IH' : Forall (fun kv => (need (snd kv) <= length (mpart kv))%nat) l).
    { eapply Forall_impl; [| exact IH]. intros kv Hkv. cbv beta in Hkv. unfold mpart.
      rewrite app_length. cbn [length]. lia. }
    pose proof (need_join_sep (fun kv => need (snd kv)) mpart l IH') as H.
    cbn [length]. rewrite app_length. cbn [length].
    change (map (fun kv => print_str (fst kv) ++ 58 :: 32 :: print (snd kv)) l) with (map mpart l).
    lia.
Qed.

(* Generalised over the text that follows the document (as inside a container); an integer
   must not be followed by a digit. *)
Theorem json_roundtrip_rest d rest fuel :
  (length (print d) <= fuel)%nat -> head_not_digit rest ->
  parse_value fuel (print d ++ rest) = Some (norm d, rest).
Proof.
  intros Hf Hr. apply parse_value_print; [| exact Hr].
  pose proof (need_le_length d). lia.
Qed.

(* For ANY association lists in object position the parser returns the dict() reading of the
   printed text ... *)
Theorem json_roundtrip_norm d : parse (print d) = Some (norm d).
Proof.
  unfold parse. pose proof (skip_ws_print d []) as Hs. rewrite app_nil_r in Hs. rewrite Hs.
  pose proof (json_roundtrip_rest d [] (length (print d)) (le_n _) I) as H.
  rewrite app_nil_r in H. rewrite H. reflexivity.
Qed.

(* ... and for documents whose objects have pairwise distinct keys (every Python dict) the
   parser inverts the printer: documents of any depth and size, integers of any size,
   strings over arbitrary code points. *)
Theorem json_roundtrip d : wf d -> parse (print d) = Some d.
Proof. intro H. rewrite json_roundtrip_norm, norm_wf by exact H. reflexivity. Qed.

(* The printer is injective on well-formed documents: two different documents never share a
   body. *)
Theorem print_injective d1 d2 : wf d1 -> wf d2 -> print d1 = print d2 -> d1 = d2.
Proof.
  intros H1 H2 E. apply json_roundtrip in H1. apply json_roundtrip in H2.
  rewrite E in H1. congruence.
Qed.
