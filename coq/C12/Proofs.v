From Coq Require Import ZArith List Bool Arith Lia.
From Falcon.C12 Require Import Model Spec.
Import ListNotations.

Lemma herr_eqb_refl e : herr_eqb e e = true.
Proof. destruct e; reflexivity. Qed.

Lemma rout_eqb_refl o : rout_eqb o o = true.
Proof. destruct o; simpl; rewrite ?Nat.eqb_refl, ?herr_eqb_refl; reflexivity. Qed.

Lemma list_eqb_refl {A} (eqb : A -> A -> bool) (R : forall x, eqb x x = true) l :
  list_eqb eqb l l = true.
Proof. induction l; simpl; [reflexivity | rewrite R, IHl; reflexivity]. Qed.

(* ---- request side *)

(* the state after the first call: settled *)
Definition settled (r0 : hres) (exhaust : bool) (s : rstate) : Prop :=
  calls s = 1 /\ reads s = 1 /\ exhausts s = (if exhaust then 1 else 0) /\
  match r0 with
  | HOk => media s = Some 0
  | HErr e => media s = None /\ media_error s = Some (0, e)
  end.

Lemma first_call h ex d :
  let '(s, o) := get_media h ex rinit d in
  settled (h 0) ex s /\ o = spec_out (h 0) d.
Proof.
  unfold get_media, rinit, settled, spec_out; cbn.
  destruct (h 0) as [|e]; cbn; destruct ex; cbn; repeat split; reflexivity.
Qed.

Lemma settled_call h ex r0 s d :
  settled r0 ex s -> get_media h ex s d = (s, spec_out r0 d).
Proof.
  intros (C & R & X & M). unfold get_media, spec_out.
  destruct r0 as [|e].
  - rewrite M. reflexivity.
  - destruct M as [M1 M2]. rewrite M1, M2. destruct (d && herr_eqb e ENotFound); reflexivity.
Qed.

Lemma settled_run h ex r0 s ds :
  settled r0 ex s -> run_gets h ex s ds = (s, map (spec_out r0) ds).
Proof.
  intro S. induction ds as [|d tl IH]; simpl; [reflexivity|].
  rewrite (settled_call h ex r0 s d S), IH. reflexivity.
Qed.

Theorem get_media_trace h ex ds :
  snd (run_gets h ex rinit ds) = map (spec_out (h 0)) ds.
Proof.
  destruct ds as [|d tl]; [reflexivity|]. simpl.
  pose proof (first_call h ex d) as F. destruct (get_media h ex rinit d) as [s o].
  destruct F as [S ->]. rewrite (settled_run h ex (h 0) s tl S). reflexivity.
Qed.

Theorem parse_at_most_once h ex ds :
  let s := fst (run_gets h ex rinit ds) in
  let n := match ds with [] => 0 | _ => 1 end in
  calls s = n /\ reads s = n /\ exhausts s = (if ex then n else 0).
Proof.
  destruct ds as [|d tl]; cbn zeta; [destruct ex; repeat split; reflexivity|]. simpl.
  pose proof (first_call h ex d) as F. destruct (get_media h ex rinit d) as [s o].
  destruct F as [S _]. rewrite (settled_run h ex (h 0) s tl S). simpl.
  destruct S as (C & R & X & _). rewrite C, R, X. destruct ex; repeat split; reflexivity.
Qed.

(* later calls leave the whole state (cache, error, stream counters) untouched *)
Theorem later_calls_touch_nothing h ex d ds :
  fst (run_gets h ex (fst (get_media h ex rinit d)) ds) = fst (get_media h ex rinit d).
Proof.
  pose proof (first_call h ex d) as F. destruct (get_media h ex rinit d) as [s o].
  destruct F as [S _]. simpl. rewrite (settled_run h ex (h 0) s ds S). reflexivity.
Qed.

(* the caller's default substitutes only for not-found and is never cached: a later call
   without a default raises the original error object *)
Theorem default_only_for_notfound h ex ds1 :
  forall e, h 0 = HErr e ->
  snd (run_gets h ex rinit (ds1 ++ [false])) =
  map (spec_out (h 0)) ds1 ++ [Raise 0 e].
Proof.
  intros e E. rewrite get_media_trace, map_app. simpl. rewrite E. reflexivity.
Qed.

Theorem oracle_req_sound h ex ds :
  let r := run_gets h ex rinit ds in
  oracle_req (h 0) ex ds (snd r) (calls (fst r)) (reads (fst r)) (exhausts (fst r)) = [].
Proof.
  cbn zeta. unfold oracle_req. rewrite get_media_trace.
  destruct (parse_at_most_once h ex ds) as (C & R & X). rewrite C, R, X.
  rewrite (list_eqb_refl rout_eqb rout_eqb_refl), !Nat.eqb_refl. reflexivity.
Qed.

(* ---- handler glue *)
Theorem json_empty_notfound u l : json_deserialize true u l = HErr ENotFound.
Proof. reflexivity. Qed.

Theorem json_undecodable_is_400 u l :
  (u = false \/ l = LValueError) -> status_class (json_deserialize false u l) = 400.
Proof. intros [-> | ->]; [reflexivity | destruct u; reflexivity]. Qed.

Theorem form_undecodable_is_400 a p :
  a && p = false -> status_class (form_deserialize a p) = 400.
Proof. unfold form_deserialize. intros ->. reflexivity. Qed.

Theorem oracle_json_sound e u l : oracle_json e u l (json_deserialize e u l) = [].
Proof. destruct e, u, l; reflexivity. Qed.

(* ---- response side *)
Definition pabs (s : pstate) : pspec :=
  {| q_text := p_text s; q_data := p_data s; q_media := p_media s;
     q_fixed := option_map snd (p_rendered s); q_muts := p_muts s |}.

(* a cached rendering always belongs to the current media object *)
Definition pinv (s : pstate) : Prop :=
  forall x v, p_rendered s = Some (x, v) -> p_media s = Some x.

Lemma pstep_refines s o :
  pinv s -> let '(s1, b) := pstep s o in
            pinv s1 /\ qstep (pabs s) o = (pabs s1, b).
Proof.
  intro I. destruct o as [v|t|d| |x]; cbn.
  - split; [intros x w H; discriminate | reflexivity].
  - split; [exact I | reflexivity].
  - split; [exact I | reflexivity].
  - unfold pabs. destruct (p_text s) eqn:T; cbn; [split; [exact I|rewrite T; reflexivity]|].
    destruct (p_data s) eqn:D; cbn; [split; [exact I|rewrite T, D; reflexivity]|].
    destruct (p_media s) as [x|] eqn:M; cbn; [|split; [exact I|rewrite T, D, M; reflexivity]].
    destruct (p_rendered s) as [[x' v']|] eqn:R; cbn.
    + split; [exact I|]. rewrite T, D, M, R. cbn. specialize (I x' v' R). rewrite M in I.
      injection I as ->. reflexivity.
    + split; [intros y w H; injection H as <- <-; reflexivity|]. reflexivity.
  - split; [exact I | reflexivity].
Qed.

Lemma prun_refines s ops : pinv s -> snd (prun s ops) = qrun (pabs s) ops.
Proof.
  revert s. induction ops as [|o tl IH]; intros s I; simpl; [reflexivity|].
  pose proof (pstep_refines s o I) as P. destruct (pstep s o) as [s1 b].
  destruct P as [I1 Q]. rewrite Q. specialize (IH s1 I1).
  destruct (prun s1 tl) as [s2 bs]. simpl in *. rewrite IH. reflexivity.
Qed.

(* the _media_rendered cache is transparent w.r.t. the reading of Spec.v, for every sequence of
   assignments, renders and in-place amendments *)
Theorem render_cache_transparent ops : snd (prun pinit ops) = qrun qinit ops.
Proof. apply (prun_refines pinit ops). intros x v H. discriminate. Qed.

(* an assignment ALWAYS invalidates: from any state, assigning an object (the same one or another)
   and rendering serializes the content the object has now *)
Theorem reassign_renders_current s x :
  p_text s = None -> p_data s = None ->
  snd (pstep (fst (pstep s (SetMedia (Some x)))) Render) = Some (BMedia x (version (p_muts s) x)).
Proof. intros T D. cbn. rewrite T, D. reflexivity. Qed.

(* an in-place amendment WITHOUT a new assignment does not change the body (by design) *)
Theorem mutate_keeps_rendering s x :
  let s1 := fst (pstep s Render) in
  snd (pstep (fst (pstep s1 (Mutate x))) Render) = snd (pstep s Render).
Proof.
  cbn. destruct (p_text s) eqn:T; cbn; [rewrite T; reflexivity|].
  destruct (p_data s) eqn:D; cbn; [rewrite T, D; reflexivity|].
  destruct (p_media s) as [y|] eqn:M; cbn; [|rewrite T, D, M; reflexivity].
  destruct (p_rendered s) as [[y' v']|] eqn:R; cbn; [rewrite T, D, M, R; reflexivity | reflexivity].
Qed.

(* the content version the model uses is the number of amendments in the history *)
Definition mutations_of (ops : list rop) (x : nat) : nat :=
  length (filter (fun o => match o with Mutate y => Nat.eqb x y | _ => false end) ops).

Lemma pstep_muts s o x :
  version (p_muts (fst (pstep s o))) x =
  version (p_muts s) x + match o with Mutate y => if Nat.eqb x y then 1 else 0 | _ => 0 end.
Proof.
  destruct o as [v|t|d| |y]; cbn; rewrite ?Nat.add_0_r; try reflexivity.
  - destruct (p_text s); cbn; [reflexivity|]. destruct (p_data s); cbn; [reflexivity|].
    destruct (p_media s); cbn; [|reflexivity]. destruct (p_rendered s) as [[? ?]|]; cbn; reflexivity.
  - unfold version. cbn [filter]. destruct (Nat.eqb x y); cbn [length]; lia.
Qed.

Lemma prun_muts ops : forall s x,
  version (p_muts (fst (prun s ops))) x = version (p_muts s) x + mutations_of ops x.
Proof.
  induction ops as [|o tl IH]; intros s x; simpl; [unfold mutations_of; simpl; lia|].
  pose proof (pstep_muts s o x) as P. destruct (pstep s o) as [s1 b]. simpl in P.
  specialize (IH s1 x). destruct (prun s1 tl) as [s2 bs]. simpl in *. rewrite IH, P.
  unfold mutations_of. simpl. destruct o as [| | | |y]; simpl; try lia. destruct (Nat.eqb x y); simpl; lia.
Qed.

Theorem version_is_mutation_count ops x :
  version (p_muts (fst (prun pinit ops))) x = mutations_of ops x.
Proof. rewrite prun_muts. reflexivity. Qed.

Definition pending (s : pstate) : nat :=
  match p_rendered s, p_media s with None, Some _ => 1 | _, _ => 0 end.

Lemma pstep_count s o n :
  length (p_serializations s) + pending s <= n ->
  let s1 := fst (pstep s o) in
  length (p_serializations s1) + pending s1 <=
  n + match o with SetMedia _ => 1 | _ => 0 end.
Proof.
  intro H. unfold pending in *. destruct o as [v|t|d| |x]; cbn.
  - destruct v; destruct (p_rendered s); destruct (p_media s); cbn in *; lia.
  - lia.
  - lia.
  - destruct (p_text s); cbn; [lia|]. destruct (p_data s); cbn; [lia|].
    destruct (p_media s) eqn:M; cbn; [|try rewrite M; lia].
    destruct (p_rendered s) as [[? ?]|] eqn:R; cbn; [try rewrite R; try rewrite M; lia | lia].
  - lia.
Qed.

Lemma prun_count s ops n :
  length (p_serializations s) + pending s <= n ->
  length (p_serializations (fst (prun s ops))) <= n + count_setmedia ops.
Proof.
  revert s n. induction ops as [|o tl IH]; intros s n H; simpl.
  - unfold count_setmedia. simpl. lia.
  - pose proof (pstep_count s o n H) as P. destruct (pstep s o) as [s1 b]. simpl in P.
    specialize (IH s1 _ P). destruct (prun s1 tl) as [s2 bs]. simpl in *.
    unfold count_setmedia in *. simpl. destruct o; simpl in *; lia.
Qed.

(* media is serialized at most once per assignment *)
Theorem serialize_once_per_assignment ops :
  length (p_serializations (fst (prun pinit ops))) <= count_setmedia ops.
Proof. apply (prun_count pinit ops 0). reflexivity. Qed.

Lemma body_eqb_refl b : body_eqb b b = true.
Proof. destruct b as [[| | |]|]; simpl; rewrite ?Nat.eqb_refl; reflexivity. Qed.

Theorem oracle_resp_sound ops :
  let r := prun pinit ops in
  oracle_resp ops (snd r) (length (p_serializations (fst r))) = [].
Proof.
  cbn zeta. unfold oracle_resp. rewrite render_cache_transparent.
  rewrite (list_eqb_refl body_eqb body_eqb_refl).
  pose proof (serialize_once_per_assignment ops) as H. apply Nat.leb_le in H. rewrite H.
  reflexivity.
Qed.
