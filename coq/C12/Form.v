(* C12 — executable model of the read side of URLEncodedFormHandler:
   _deserialize = body.decode('ascii') then falcon.util.uri.parse_query_string(body_str,
   keep_blank=self._keep_blank, csv=False), with falcon.util.uri.decode (unquote_plus=True).
   This is a minimal local copy for the form round trip (C08 owns the full model of
   parse_query_string incl. csv=True); the write side (form_print) is in Json.v.

   Not modelled (the functions return None there, and the harness compares only where the model
   answers): percent-decoded bytes that are not valid UTF-8 (CPython substitutes U+FFFD under
   errors='replace'), and csv=True. *)
From Coq Require Import ZArith NArith List Bool Arith.
From Falcon.lib Require Import PyStr.
From Falcon.C12 Require Import Json.
Import ListNotations.
Local Open Scope N_scope.

(* the percent-decoding loop of uri.decode over the bytes of the string: tokens =
   s.split(b'%'); each token after the first is replaced by _HEX_TO_BYTE[token[:2]] +
   token[2:] when its first two characters are hex digits (either case), else kept with its
   '%'.  Tokens contain no '%', so this left-to-right scan is the same function. *)
Fixpoint pct_decode (s : list N) : list N :=
  match s with
  | [] => []
  | c :: r =>
    if c =? 37 then
      match r with
      | h :: l :: r2 =>
        match hex_val h, hex_val l with
        | Some x, Some y => (x * 16 + y) :: pct_decode r2
        | _, _ => 37 :: pct_decode r
        end
      | _ => 37 :: pct_decode r
      end
    else c :: pct_decode r
  end.

Definition plus_to_space (s : list N) : list N := map (fun c => if c =? 43 then 32 else c) s.

Definition has_char (c : N) (s : list N) : bool := existsb (N.eqb c) s.

(* uri.decode(encoded_uri, unquote_plus=True).  None: UnicodeEncodeError from .encode() (a lone
   surrogate; impossible for the ASCII text the form handler passes) or bytes that are not UTF-8
   (CPython returns U+FFFD substitutions; not modelled). *)
Definition decode (s : list N) : option (list N) :=
  let s1 := if has_char 43 s then plus_to_space s else s in
  if negb (has_char 37 s1) then Some s1
  else
    match utf8_encode s1 with
    | None => None
    | Some b => utf8_decode (pct_decode b)
    end.

(* str.split(sep) for a one-character separator: always at least one piece *)
Fixpoint split_on (sep : N) (s : list N) : list (list N) :=
  match s with
  | [] => [[]]
  | c :: r =>
    match split_on sep r with
    | p :: ps => if c =? sep then [] :: p :: ps else (c :: p) :: ps
    | [] => [[c]]          (* unreachable: split_on never returns [] *)
    end
  end.

(* field.partition('='): text before the first '=', text after it (both empty-safe) *)
Fixpoint partition_eq (s : list N) : list N * list N :=
  match s with
  | [] => ([], [])
  | c :: r => if c =? 61 then ([], r) else let '(a, b) := partition_eq r in (c :: a, b)
  end.

(* params[k] handling for a repeated key: a second occurrence turns the value into a list, later
   ones are appended; a new key is added at the end (dict insertion order) *)
Fixpoint params_add (k v : list N) (ps : list (list N * fval)) : list (list N * fval) :=
  match ps with
  | [] => [(k, FStr v)]
  | (k', old) :: t =>
    if str_eqb k' k then
      (k', match old with FStr o => FSeq [o; v] | FSeq l => FSeq (l ++ [v]) end) :: t
    else (k', old) :: params_add k v t
  end.

Definition is_nil {A} (l : list A) : bool := match l with [] => true | _ => false end.

(* the loop body of parse_query_string with csv=False; None only where decode is None *)
Definition parse_field (keep_blank is_encoded : bool) (field : list N)
           (ps : list (list N * fval)) : option (list (list N * fval)) :=
  let '(k, v) := partition_eq field in
  if is_nil v && (negb keep_blank || is_nil k) then Some ps
  else
    match (if is_encoded then decode k else Some k) with
    | None => None
    | Some k' =>
      match (if is_encoded then decode v else Some v) with
      | None => None
      | Some v' => Some (params_add k' v' ps)
      end
    end.

Fixpoint parse_fields (keep_blank is_encoded : bool) (fields : list (list N))
         (ps : list (list N * fval)) : option (list (list N * fval)) :=
  match fields with
  | [] => Some ps
  | f :: tl =>
    match parse_field keep_blank is_encoded f ps with
    | None => None
    | Some ps' => parse_fields keep_blank is_encoded tl ps'
    end
  end.

Definition parse_qs (keep_blank : bool) (qs : list N) : option (list (list N * fval)) :=
  let is_encoded := has_char 43 qs || has_char 37 qs in
  parse_fields keep_blank is_encoded (split_on 38 qs) [].

(* URLEncodedFormHandler._deserialize *)
Inductive form_res := FOk (m : list (list N * fval)) | FMalformed | FNotModelled.

Definition form_deserialize_body (keep_blank : bool) (body : list N) : form_res :=
  if forallb (fun b => b <? 128) body then         (* body.decode('ascii') *)
    match parse_qs keep_blank body with
    | Some m => FOk m
    | None => FNotModelled
    end
  else FMalformed.
