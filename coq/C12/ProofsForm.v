(* C12 — the URL-encoded form round trip: URLEncodedFormHandler._deserialize (Form.v) inverts
   URLEncodedFormHandler.serialize (Json.form_print) on every mapping a form can represent. *)
From Coq Require Import ZArith NArith List Bool Arith Lia ZifyBool ZifyNat ZifyN.
From Falcon.lib Require Import PyStr.
From Falcon.C12 Require Import Json JsonProofs ProofsUtf8 Form.
Import ListNotations.
Local Open Scope N_scope.
Ltac Zify.zify_post_hook ::= Z.div_mod_to_equations.

(* ------------------------------------------------------------------ bytes and ASCII *)

Definition is_byte (b : N) : Prop := b < 256.
Definition is_ascii (c : N) : Prop := c < 128.

Lemma utf8_char_bytes c bs : utf8_char c = Some bs -> Forall is_byte bs.
Proof.
  unfold utf8_char, is_byte.
  destruct (c <? 128) eqn:H1; [intro E; some_inj E; repeat constructor; lia |].
  destruct (c <? 2048) eqn:H2; [intro E; some_inj E; repeat constructor; lia |].
  destruct (is_surrogate c); [discriminate |].
  destruct (c <? 65536) eqn:H4; [intro E; some_inj E; repeat constructor; lia |].
  destruct (c <=? 1114111) eqn:H5; [intro E; some_inj E; repeat constructor; lia | discriminate].
Qed.

Lemma utf8_encode_bytes s : forall bs, utf8_encode s = Some bs -> Forall is_byte bs.
Proof.
  induction s as [|c s IH]; intros bs E; cbn [utf8_encode] in E.
  - some_inj E. constructor.
  - destruct (utf8_char c) as [bc|] eqn:Ec; [| discriminate].
    destruct (utf8_encode s) as [br|] eqn:Es; [| discriminate].
    some_inj E. apply Forall_app. split; [exact (utf8_char_bytes c bc Ec) | exact (IH br eq_refl)].
Qed.

Lemma ascii_encode l : Forall is_ascii l -> utf8_encode l = Some l.
Proof.
  induction 1 as [|c l Hc Hl IH]; [reflexivity |].
  cbn [utf8_encode]. unfold utf8_char. unfold is_ascii in Hc.
  replace (c <? 128) with true by lia. rewrite IH. reflexivity.
Qed.

Lemma ascii_decode l : Forall is_ascii l -> utf8_decode l = Some l.
Proof.
  induction 1 as [|c l Hc Hl IH]; [reflexivity |].
  cbn [utf8_decode]. unfold is_ascii in Hc. replace (c <? 128) with true by lia.
  rewrite IH. reflexivity.
Qed.

(* ------------------------------------------------------------------ quote_plus characters *)

Definition qp_ok (c : N) : Prop := c < 128 /\ c <> 38 /\ c <> 61.

Lemma hex_val_upper n : n < 16 -> hex_val (upper_hex n) = Some n.
Proof.
  intro H. unfold upper_hex, hex_val, is_digit.
  destruct (n <? 10) eqn:E.
  - replace ((48 <=? 48 + n) && (48 + n <=? 57)) with true by lia. f_equal. lia.
  - replace ((48 <=? 55 + n) && (55 + n <=? 57)) with false by lia.
    replace ((97 <=? 55 + n) && (55 + n <=? 102)) with false by lia.
    replace ((65 <=? 55 + n) && (55 + n <=? 70)) with true by lia. f_equal. lia.
Qed.

Lemma upper_hex_range n : n < 16 -> 48 <= upper_hex n <= 57 \/ 65 <= upper_hex n <= 70.
Proof. intro H. unfold upper_hex. destruct (n <? 10) eqn:E; lia. Qed.

Lemma quote_plus_byte_ok b : is_byte b -> Forall qp_ok (quote_plus_byte b).
Proof.
  unfold is_byte, quote_plus_byte, qp_ok. intro Hb.
  destruct (always_safe b) eqn:Hs.
  - constructor; [| constructor]. unfold always_safe, is_digit in Hs. lia.
  - destruct (b =? 32) eqn:H32.
    + constructor; [lia | constructor].
    + pose proof (upper_hex_range (b / 16)) as H1. pose proof (upper_hex_range (b mod 16)) as H2.
      constructor; [lia |]. constructor; [lia |]. constructor; [lia | constructor].
Qed.

Lemma quote_plus_byte_nonempty b : quote_plus_byte b <> [].
Proof.
  unfold quote_plus_byte. destruct (always_safe b); [discriminate |].
  destruct (b =? 32); discriminate.
Qed.

(* percent-decoding (after '+' -> ' ') inverts the quoting of one byte *)
Lemma pct_decode_byte b rest :
  is_byte b ->
  pct_decode (plus_to_space (quote_plus_byte b) ++ rest) = b :: pct_decode rest.
Proof.
  unfold is_byte, quote_plus_byte, plus_to_space. intro Hb.
  destruct (always_safe b) eqn:Hs.
  - cbn [map app]. unfold always_safe, is_digit in Hs.
    replace (b =? 43) with false by lia. cbn [pct_decode].
    replace (b =? 37) with false by lia. reflexivity.
  - destruct (b =? 32) eqn:H32.
    + cbn [map app]. change (43 =? 43) with true. cbv iota.
      change (pct_decode (32 :: rest)) with (32 :: pct_decode rest). f_equal. lia.
    + cbn [map app]. change (37 =? 43) with false. cbv iota.
      pose proof (upper_hex_range (b / 16)) as H1. pose proof (upper_hex_range (b mod 16)) as H2.
      replace (upper_hex (b / 16) =? 43) with false by lia.
      replace (upper_hex (b mod 16) =? 43) with false by lia.
      cbn [pct_decode]. change (37 =? 37) with true. cbv iota.
      rewrite !hex_val_upper by lia. f_equal. lia.
Qed.

Lemma plus_to_space_app a b : plus_to_space (a ++ b) = plus_to_space a ++ plus_to_space b.
Proof. apply map_app. Qed.

Lemma pct_decode_quoted bs :
  Forall is_byte bs -> pct_decode (plus_to_space (flat_map quote_plus_byte bs)) = bs.
Proof.
  induction 1 as [|b bs Hb Hbs IH]; [reflexivity |].
  cbn [flat_map]. rewrite plus_to_space_app, pct_decode_byte by exact Hb. rewrite IH. reflexivity.
Qed.

Lemma flat_map_quote_ok bs : Forall is_byte bs -> Forall qp_ok (flat_map quote_plus_byte bs).
Proof.
  induction 1 as [|b bs Hb Hbs IH]; [constructor |].
  cbn [flat_map]. apply Forall_app. split; [apply quote_plus_byte_ok, Hb | exact IH].
Qed.

(* the total reading of quote_plus on encodable strings *)
Definition qp (s : list N) : list N := match quote_plus s with Some q => q | None => [] end.

Lemma quote_plus_scalar s : str_scalar s -> quote_plus s = Some (qp s).
Proof.
  intro H. unfold qp, quote_plus. destruct (utf8_encode_scalar s H) as (b & E). rewrite E. reflexivity.
Qed.

Lemma qp_ok_all s : str_scalar s -> Forall qp_ok (qp s).
Proof.
  intro H. unfold qp, quote_plus. destruct (utf8_encode_scalar s H) as (b & E). rewrite E.
  apply flat_map_quote_ok. exact (utf8_encode_bytes s b E).
Qed.

Lemma qp_nil s : str_scalar s -> qp s = [] -> s = [].
Proof.
  intros H E. destruct s as [|c s]; [reflexivity | exfalso].
  unfold qp, quote_plus in E. destruct (utf8_encode_scalar (c :: s) H) as (b & Eb). rewrite Eb in E.
  pose proof (utf8_encode_nonempty c s b Eb) as Hne.
  destruct b as [|b0 b]; [congruence |]. cbn [flat_map] in E.
  apply app_eq_nil in E. destruct E as [E _]. exact (quote_plus_byte_nonempty b0 E).
Qed.

(* ------------------------------------------------------------------ uri.decode inverts quote_plus *)

Lemma has_char_false c s : has_char c s = false <-> ~ In c s.
Proof.
  unfold has_char. split.
  - intros H Hin. assert (existsb (N.eqb c) s = true); [| congruence].
    apply existsb_exists. exists c. split; [exact Hin | apply N.eqb_refl].
  - intro H. destruct (existsb (N.eqb c) s) eqn:E; [| reflexivity].
    apply existsb_exists in E. destruct E as (x & Hx & Ex). apply N.eqb_eq in Ex. subst x. contradiction.
Qed.

Lemma plus_to_space_id s : has_char 43 s = false -> plus_to_space s = s.
Proof.
  rewrite has_char_false. unfold plus_to_space. induction s as [|c s IH]; intro H; [reflexivity |].
  cbn [map]. cbn [In] in H. replace (c =? 43) with false by lia. rewrite IH by tauto. reflexivity.
Qed.

Lemma plus_choice s : (if has_char 43 s then plus_to_space s else s) = plus_to_space s.
Proof. destruct (has_char 43 s) eqn:E; [reflexivity | symmetry; apply plus_to_space_id, E]. Qed.

Lemma pct_decode_id s : has_char 37 s = false -> pct_decode s = s.
Proof.
  rewrite has_char_false. induction s as [|c s IH]; intro H; [reflexivity |].
  cbn [pct_decode]. cbn [In] in H. replace (c =? 37) with false by lia. rewrite IH by tauto. reflexivity.
Qed.

Lemma plus_to_space_ascii s : Forall is_ascii s -> Forall is_ascii (plus_to_space s).
Proof.
  unfold plus_to_space. intro H. apply Forall_map. eapply Forall_impl; [| exact H].
  unfold is_ascii. intros c Hc. cbv beta. destruct (c =? 43); lia.
Qed.

Lemma qp_ok_ascii s : Forall qp_ok s -> Forall is_ascii s.
Proof. apply Forall_impl. unfold qp_ok, is_ascii. tauto. Qed.

Theorem decode_quote_plus s q : quote_plus s = Some q -> decode q = Some s.
Proof.
  unfold quote_plus. destruct (utf8_encode s) as [bs|] eqn:E; [| discriminate].
  intro H; some_inj H.
  pose proof (utf8_encode_bytes s bs E) as Hb.
  pose proof (qp_ok_ascii _ (flat_map_quote_ok bs Hb)) as Hascii.
  pose proof (plus_to_space_ascii _ Hascii) as Hascii1.
  pose proof (pct_decode_quoted bs Hb) as Hp.
  pose proof (utf8_roundtrip s bs E) as Hrt.
  unfold decode. rewrite plus_choice.
  set (s1 := plus_to_space (flat_map quote_plus_byte bs)) in *.
  destruct (has_char 37 s1) eqn:H37; cbn [negb].
  - rewrite (ascii_encode s1 Hascii1), Hp. exact Hrt.
  - rewrite (pct_decode_id s1 H37) in Hp. rewrite <- Hp in Hrt.
    rewrite (ascii_decode s1 Hascii1) in Hrt. exact Hrt.
Qed.

Lemma decode_plain x : has_char 43 x = false -> has_char 37 x = false -> decode x = Some x.
Proof.
  intros H1 H2. unfold decode. rewrite H1, H2. reflexivity.
Qed.

(* what parse_query_string does with a key or value: decode it only if the whole query string
   contains a '+' or a '%' *)
Definition dec (enc : bool) (x : list N) : option (list N) := if enc then decode x else Some x.

Lemma dec_qp enc s :
  str_scalar s -> (enc = false -> has_char 43 (qp s) = false /\ has_char 37 (qp s) = false) ->
  dec enc (qp s) = Some s.
Proof.
  intros Hs Hplain. pose proof (decode_quote_plus s (qp s) (quote_plus_scalar s Hs)) as Hd.
  unfold dec. destruct enc; [exact Hd |].
  destruct (Hplain eq_refl) as [H1 H2]. rewrite (decode_plain _ H1 H2) in Hd. exact Hd.
Qed.

(* ------------------------------------------------------------------ split('&') and partition('=') *)

Lemma split_on_nonnil sep s : split_on sep s <> [].
Proof.
  induction s as [|c s IH]; cbn [split_on]; [discriminate |].
  destruct (split_on sep s) as [|p ps]; [discriminate |]. destruct (c =? sep); discriminate.
Qed.

Lemma split_on_sep sep r : split_on sep (sep :: r) = [] :: split_on sep r.
Proof.
  cbn [split_on]. pose proof (split_on_nonnil sep r) as H.
  destruct (split_on sep r) as [|p ps]; [congruence |]. rewrite N.eqb_refl. reflexivity.
Qed.

Lemma split_on_app sep p r : ~ In sep p -> split_on sep (p ++ sep :: r) = p :: split_on sep r.
Proof.
  induction p as [|c p IH]; intro H.
  - apply split_on_sep.
  - cbn [app split_on]. cbn [In] in H. rewrite IH by tauto.
    replace (c =? sep) with false by lia. reflexivity.
Qed.

Lemma split_on_nosep sep p : ~ In sep p -> split_on sep p = [p].
Proof.
  induction p as [|c p IH]; intro H; [reflexivity |].
  cbn [split_on]. cbn [In] in H. rewrite IH by tauto. replace (c =? sep) with false by lia. reflexivity.
Qed.

Lemma join_amp_cons2 p q ps : join_amp (p :: q :: ps) = p ++ 38 :: join_amp (q :: ps).
Proof. reflexivity. Qed.

Lemma split_join parts :
  parts <> [] -> Forall (fun p => ~ In 38 p) parts -> split_on 38 (join_amp parts) = parts.
Proof.
  intros Hne H. induction H as [|p ps Hp Hps IH]; [congruence |].
  destruct ps as [|q ps].
  - cbn [join_amp]. apply split_on_nosep, Hp.
  - rewrite join_amp_cons2, split_on_app by exact Hp. rewrite IH by discriminate. reflexivity.
Qed.

Lemma partition_eq_app a b : ~ In 61 a -> partition_eq (a ++ 61 :: b) = (a, b).
Proof.
  induction a as [|c a IH]; intro H.
  - reflexivity.
  - cbn [app partition_eq]. cbn [In] in H. replace (c =? 61) with false by lia.
    rewrite IH by tauto. reflexivity.
Qed.

Lemma qp_ok_not_in c s : Forall qp_ok s -> c = 38 \/ c = 61 -> ~ In c s.
Proof.
  intros H Hc Hin. rewrite Forall_forall in H. specialize (H c Hin). unfold qp_ok in H. lia.
Qed.

(* ------------------------------------------------------------------ the printer as a list of fields *)

Definition pairs_of (kv : list N * fval) : list (list N * list N) :=
  match snd kv with
  | FStr v => [(fst kv, v)]
  | FSeq l => map (pair (fst kv)) l
  end.

Definition ftext (p : list N * list N) : list N := qp (fst p) ++ 61 :: qp (snd p).

Definition good_pair (p : list N * list N) : Prop :=
  str_scalar (fst p) /\ str_scalar (snd p) /\ ~ (fst p = [] /\ snd p = []).

Definition entry_scalar (kv : list N * fval) : Prop :=
  str_scalar (fst kv) /\
  match snd kv with FStr v => str_scalar v | FSeq l => Forall str_scalar l end.

Lemma all_some_map_Some {A} (l : list A) : all_some (map Some l) = Some l.
Proof. induction l as [|x l IH]; [reflexivity |]. cbn [map all_some]. rewrite IH. reflexivity. Qed.

Lemma form_pairs_fields kv :
  entry_scalar kv -> form_pairs kv = map (fun p => Some (ftext p)) (pairs_of kv).
Proof.
  intros [Hk Hv]. unfold form_pairs, pairs_of. rewrite (quote_plus_scalar _ Hk).
  destruct (snd kv) as [v|l].
  - cbn [map]. rewrite (quote_plus_scalar _ Hv). reflexivity.
  - rewrite map_map. induction Hv as [|e l He Hl IH]; [reflexivity |].
    cbn [map]. rewrite (quote_plus_scalar _ He), IH. reflexivity.
Qed.

Lemma form_print_fields m :
  Forall entry_scalar m ->
  form_print m = Some (join_amp (map ftext (flat_map pairs_of m))).
Proof.
  intro H. unfold form_print.
  assert (E : flat_map form_pairs m = map Some (map ftext (flat_map pairs_of m))).
  { induction H as [|kv m Hkv Hm IH]; [reflexivity |].
    cbn [flat_map]. rewrite IH, (form_pairs_fields kv Hkv), !map_app, !map_map. reflexivity. }
  rewrite E, all_some_map_Some. reflexivity.
Qed.

(* ------------------------------------------------------------------ one field *)

Lemma is_nil_false {A} (l : list A) : l <> [] -> is_nil l = false.
Proof. destruct l; [congruence | reflexivity]. Qed.

Lemma parse_field_ftext enc p acc :
  good_pair p ->
  (enc = false -> has_char 43 (ftext p) = false /\ has_char 37 (ftext p) = false) ->
  parse_field true enc (ftext p) acc = Some (params_add (fst p) (snd p) acc).
Proof.
  intros (Hk & Hv & Hne) Hplain. unfold parse_field, ftext.
  pose proof (qp_ok_all _ Hk) as Hqk. pose proof (qp_ok_all _ Hv) as Hqv.
  rewrite partition_eq_app by (apply (qp_ok_not_in 61 _ Hqk); lia).
  assert (Hskip : is_nil (qp (snd p)) && (negb true || is_nil (qp (fst p))) = false).
  { cbn [negb orb]. destruct (qp (snd p)) eqn:Ev; [| reflexivity].
    destruct (qp (fst p)) eqn:Ek; [| reflexivity].
    exfalso. apply Hne. split; [apply (qp_nil _ Hk Ek) | apply (qp_nil _ Hv Ev)]. }
  rewrite Hskip.
  assert (Hsub : enc = false ->
                 (has_char 43 (qp (fst p)) = false /\ has_char 37 (qp (fst p)) = false) /\
                 (has_char 43 (qp (snd p)) = false /\ has_char 37 (qp (snd p)) = false)).
  { intro He. destruct (Hplain He) as [H1 H2]. unfold ftext, has_char in H1, H2.
    rewrite existsb_app in H1, H2. cbn [existsb] in H1, H2.
    apply orb_false_iff in H1. apply orb_false_iff in H2.
    destruct H1 as [H1a H1b]. destruct H2 as [H2a H2b].
    apply orb_false_iff in H1b. apply orb_false_iff in H2b. unfold has_char. tauto. }
  fold (dec enc (qp (fst p))). fold (dec enc (qp (snd p))).
  rewrite (dec_qp enc _ Hk), (dec_qp enc _ Hv); [reflexivity | |]; intro He; apply (Hsub He).
Qed.

Definition build (ps : list (list N * list N)) (acc : list (list N * fval)) : list (list N * fval) :=
  fold_left (fun a p => params_add (fst p) (snd p) a) ps acc.

Lemma parse_fields_ftext enc ps : forall acc,
  Forall good_pair ps ->
  (enc = false -> Forall (fun p => has_char 43 (ftext p) = false /\ has_char 37 (ftext p) = false) ps) ->
  parse_fields true enc (map ftext ps) acc = Some (build ps acc).
Proof.
  induction ps as [|p ps IH]; intros acc Hg Hplain; [reflexivity |].
  inversion Hg as [|? ? Hp Hps]; subst. cbn [map parse_fields build fold_left].
  rewrite (parse_field_ftext enc p acc Hp).
  - apply IH; [exact Hps |]. intro He. specialize (Hplain He). inversion Hplain; assumption.
  - intro He. specialize (Hplain He). inversion Hplain; assumption.
Qed.

(* ------------------------------------------------------------------ the dict that is built *)

Lemma params_add_fresh k v acc : ~ In k (map fst acc) -> params_add k v acc = acc ++ [(k, FStr v)].
Proof.
  induction acc as [|[k' old] acc IH]; intro H; [reflexivity |].
  cbn [params_add app]. cbn [map fst In] in H.
  destruct (str_eqb k' k) eqn:E; [apply str_eqb_eq in E; tauto |].
  rewrite IH by tauto. reflexivity.
Qed.

Definition upd (old : fval) (v : list N) : fval :=
  match old with FStr o => FSeq [o; v] | FSeq l => FSeq (l ++ [v]) end.

Lemma params_add_hit k v old acc t :
  ~ In k (map fst acc) -> params_add k v (acc ++ (k, old) :: t) = acc ++ (k, upd old v) :: t.
Proof.
  induction acc as [|[k' o'] acc IH]; intro H.
  - cbn [app params_add]. rewrite str_eqb_refl. reflexivity.
  - cbn [app params_add]. cbn [map fst In] in H.
    destruct (str_eqb k' k) eqn:E; [apply str_eqb_eq in E; tauto |].
    rewrite IH by tauto. reflexivity.
Qed.

Lemma build_seq_more k l : forall l0 acc,
  ~ In k (map fst acc) ->
  build (map (pair k) l) (acc ++ [(k, FSeq l0)]) = acc ++ [(k, FSeq (l0 ++ l))].
Proof.
  induction l as [|e l IH]; intros l0 acc H.
  - cbn [map build fold_left]. rewrite app_nil_r. reflexivity.
  - cbn [map build fold_left fst snd]. rewrite params_add_hit by exact H. cbn [upd].
    fold (build (map (pair k) l) (acc ++ [(k, FSeq (l0 ++ [e]))])).
    rewrite IH by exact H. rewrite <- app_assoc. reflexivity.
Qed.

Definition entry_shape (kv : list N * fval) : Prop :=
  match snd kv with FStr _ => True | FSeq l => (2 <= length l)%nat end.

Lemma build_app ps1 ps2 acc : build (ps1 ++ ps2) acc = build ps2 (build ps1 acc).
Proof. apply fold_left_app. Qed.

Lemma build_entries m : forall acc,
  NoDup (map fst (acc ++ m)) -> Forall entry_shape m ->
  build (flat_map pairs_of m) acc = acc ++ m.
Proof.
  induction m as [|[k fv] m IH]; intros acc Hnd Hsh.
  - cbn [flat_map build fold_left]. rewrite app_nil_r. reflexivity.
  - inversion Hsh as [|? ? Hkv Hm]; subst. cbn [flat_map]. rewrite build_app.
    assert (Hfresh : ~ In k (map fst acc)).
    { rewrite map_app in Hnd. cbn [map fst] in Hnd. apply NoDup_remove_2 in Hnd.
      intro Hin. apply Hnd. apply in_or_app. left. exact Hin. }
    assert (Hnd' : NoDup (map fst ((acc ++ [(k, fv)]) ++ m))) by (rewrite <- app_assoc; exact Hnd).
    assert (E : build (pairs_of (k, fv)) acc = acc ++ [(k, fv)]).
    { unfold pairs_of. cbn [fst snd]. destruct fv as [v|l].
      - cbn [build fold_left fst snd]. apply params_add_fresh, Hfresh.
      - unfold entry_shape in Hkv. cbn [snd] in Hkv.
        destruct l as [|e1 [|e2 l]]; cbn [length] in Hkv; try lia.
        cbn [map build fold_left fst snd]. rewrite (params_add_fresh k e1 acc Hfresh).
        rewrite (params_add_hit k e2 (FStr e1) acc [] Hfresh). cbn [upd].
        fold (build (map (pair k) l) (acc ++ [(k, FSeq [e1; e2])])).
        rewrite build_seq_more by exact Hfresh. reflexivity. }
    rewrite E, (IH (acc ++ [(k, fv)]) Hnd' Hm), <- app_assoc. reflexivity.
Qed.

(* ------------------------------------------------------------------ the round trip *)

(* the mappings a form can represent: distinct keys; keys and values over Unicode scalar values;
   a value is a str, or a sequence of at least two strs (a one-element sequence reads back as a
   str, an empty one vanishes); a field whose name and value are both empty does not exist in the
   format (parse_query_string skips it) *)
Definition canonical (m : list (list N * fval)) : Prop :=
  NoDup (map fst m) /\
  Forall (fun kv =>
    str_scalar (fst kv) /\
    match snd kv with
    | FStr v => str_scalar v /\ ~ (fst kv = [] /\ v = [])
    | FSeq l => (2 <= length l)%nat /\ Forall str_scalar l /\
                (fst kv = [] -> Forall (fun e => e <> []) l)
    end) m.

Lemma canonical_parts m : canonical m ->
  Forall entry_scalar m /\ Forall entry_shape m /\ Forall good_pair (flat_map pairs_of m).
Proof.
  intros [_ H]. induction H as [|[k fv] m Hkv Hm (IH1 & IH2 & IH3)].
  - repeat split; constructor.
  - cbn [fst snd] in Hkv. destruct Hkv as [Hk Hv].
    split; [| split].
    + constructor; [| exact IH1]. split; [exact Hk |]. cbn [snd]. destruct fv; tauto.
    + constructor; [| exact IH2]. unfold entry_shape. cbn [snd]. destruct fv; tauto.
    + cbn [flat_map]. apply Forall_app. split; [| exact IH3].
      unfold pairs_of. cbn [fst snd]. destruct fv as [v|l].
      * constructor; [| constructor]. unfold good_pair. cbn [fst snd]. tauto.
      * destruct Hv as (_ & Hl & Hne). apply Forall_map. rewrite Forall_forall in *.
        intros e He. unfold good_pair. cbn [fst snd]. split; [exact Hk |]. split; [apply Hl, He |].
        intros [Ek Ee]. exact (Hne Ek e He Ee).
Qed.

Lemma join_amp_forall (P : N -> Prop) parts :
  P 38 -> Forall (Forall P) parts -> Forall P (join_amp parts).
Proof.
  intros H38 H. induction H as [|p ps Hp Hps IH]; [constructor |].
  destruct ps as [|q ps]; [exact Hp |].
  rewrite join_amp_cons2. apply Forall_app. split; [exact Hp | constructor; [exact H38 | exact IH]].
Qed.

Lemma has_char_join c parts :
  has_char c (join_amp parts) = false -> Forall (fun p => has_char c p = false) parts.
Proof.
  induction parts as [|p ps IH]; intro H; [constructor |].
  destruct ps as [|q ps].
  - constructor; [exact H | constructor].
  - rewrite join_amp_cons2 in H. unfold has_char in H. rewrite existsb_app in H.
    apply orb_false_iff in H. destruct H as [H1 H2]. cbn [existsb] in H2.
    apply orb_false_iff in H2. constructor; [exact H1 | apply IH; exact (proj2 H2)].
Qed.

Lemma ftext_chars p : good_pair p -> Forall (fun c => c < 128 /\ c <> 38) (ftext p).
Proof.
  intros (Hk & Hv & _). unfold ftext. apply Forall_app. split.
  - eapply Forall_impl; [| exact (qp_ok_all _ Hk)]. unfold qp_ok. tauto.
  - constructor; [lia |]. eapply Forall_impl; [| exact (qp_ok_all _ Hv)]. unfold qp_ok. tauto.
Qed.

Lemma parse_qs_fields ps :
  Forall good_pair ps -> parse_qs true (join_amp (map ftext ps)) = Some (build ps []).
Proof.
  intro Hgood. destruct ps as [|p0 ps0]; [reflexivity |].
  remember (p0 :: ps0) as ps eqn:Eps.
  assert (Hchars : Forall (Forall (fun c => c < 128 /\ c <> 38)) (map ftext ps)).
  { apply Forall_map. eapply Forall_impl; [| exact Hgood]. exact ftext_chars. }
  unfold parse_qs.
  set (enc := has_char 43 (join_amp (map ftext ps)) || has_char 37 (join_amp (map ftext ps))).
  assert (Henc : enc = false ->
                 Forall (fun p => has_char 43 (ftext p) = false /\ has_char 37 (ftext p) = false) ps).
  { intro He. unfold enc in He. apply orb_false_iff in He. destruct He as [H43 H37].
    apply has_char_join in H43. apply has_char_join in H37.
    rewrite Forall_forall in *. intros p Hp. split.
    - apply H43. apply in_map. exact Hp.
    - apply H37. apply in_map. exact Hp. }
  clearbody enc. rewrite split_join.
  - apply parse_fields_ftext; assumption.
  - subst ps. discriminate.
  - eapply Forall_impl; [| exact Hchars]. intros part Hp Hin.
    rewrite Forall_forall in Hp. specialize (Hp 38 Hin). cbv beta in Hp. lia.
Qed.

Lemma body_ascii ps :
  Forall good_pair ps -> forallb (fun b => b <? 128) (join_amp (map ftext ps)) = true.
Proof.
  intro Hgood. apply forallb_forall. apply Forall_forall.
  apply (join_amp_forall (fun c => (c <? 128) = true)); [reflexivity |].
  apply Forall_map. eapply Forall_impl; [| exact Hgood]. intros p Hp.
  eapply Forall_impl; [| exact (ftext_chars p Hp)]. intros c Hcc. cbv beta in Hcc. lia.
Qed.

Theorem form_roundtrip m :
  canonical m ->
  exists body, form_print m = Some body /\ form_deserialize_body true body = FOk m.
Proof.
  intro Hc. destruct (canonical_parts m Hc) as (Hes & Hsh & Hgood). destruct Hc as [Hnd _].
  exists (join_amp (map ftext (flat_map pairs_of m))). split; [exact (form_print_fields m Hes) |].
  unfold form_deserialize_body.
  rewrite (body_ascii _ Hgood), (parse_qs_fields _ Hgood), (build_entries m [] Hnd Hsh). reflexivity.
Qed.

(* what falls outside [canonical] and why (the format cannot represent it) *)
Example form_singleton_seq_reads_as_str :
  form_print [([97], FSeq [[98]])] = Some [97; 61; 98] /\
  form_deserialize_body true [97; 61; 98] = FOk [([97], FStr [98])].
Proof. split; vm_compute; reflexivity. Qed.

Example form_empty_name_and_value_vanishes :
  form_print [([], FStr [])] = Some [61] /\ form_deserialize_body true [61] = FOk [].
Proof. split; vm_compute; reflexivity. Qed.

Example form_keep_blank_false_drops_blank_values :
  form_print [([97], FStr [])] = Some [97; 61] /\ form_deserialize_body false [97; 61] = FOk [].
Proof. split; vm_compute; reflexivity. Qed.
