(* C10 — parse_host on valid authorities; unquote_string = the quoted-pair reading. *)
From Coq Require Import ZArith NArith List Bool Lia ZifyBool ZifyN Arith.
From Falcon.lib Require Import PyStr Utf8.
From Falcon.C10 Require Import Model Spec ProofsDecode.
Import ListNotations.
Open Scope N_scope.

(* ------------------------------------------------------------------ int() on digits *)
Lemma is_digit_isdigit c : isdigit c = is_digit c.
Proof. reflexivity. Qed.

Lemma digits_not_space c : is_digit c = true -> is_space c = false.
Proof. unfold is_digit, is_space. lia. Qed.

Lemma lstrip_digits s : forallb is_digit s = true -> lstrip_sp s = s.
Proof.
  destruct s as [|c tl]; [reflexivity|]. cbn [forallb lstrip_sp]. intro H.
  apply andb_true_iff in H as [Hc _]. rewrite (digits_not_space c Hc). reflexivity.
Qed.

Lemma forallb_rev {A} (f : A -> bool) l : forallb f l = true -> forallb f (rev l) = true.
Proof. rewrite !forallb_forall. intros H x Hx. apply H. apply in_rev. exact Hx. Qed.

Lemma strip_digits s : forallb is_digit s = true -> strip_sp s = s.
Proof.
  intro H. unfold strip_sp. rewrite (lstrip_digits s H).
  rewrite (lstrip_digits (rev s) (forallb_rev _ _ H)). apply rev_involutive.
Qed.

Lemma digits_val_digits s : forall acc prev,
  forallb is_digit s = true -> (s <> [] \/ prev = true) ->
  digits_val acc prev s = Some (fold_left (fun a c => (10 * a + Z.of_N (c - 48))%Z) s acc).
Proof.
  induction s as [|c tl IH]; intros acc prev H Hne.
  - destruct Hne as [Hne | ->]; [contradiction | reflexivity].
  - cbn [forallb] in H. apply andb_true_iff in H as [Hc Htl].
    cbn [digits_val fold_left]. rewrite is_digit_isdigit, Hc. apply IH; [exact Htl | right; reflexivity].
Qed.

Theorem py_int_digits p : all_digits p = true -> py_int p = Some (dec_val p).
Proof.
  unfold all_digits. intro H. apply andb_true_iff in H as [Hne Hd].
  unfold py_int. rewrite (strip_digits p Hd).
  destruct p as [|c r]; [discriminate|].
  pose proof Hd as Hd'. cbn [forallb] in Hd'. apply andb_true_iff in Hd' as [Hc _].
  replace (c =? 43) with false by (unfold is_digit in Hc; lia).
  replace (c =? 45) with false by (unfold is_digit in Hc; lia).
  unfold dec_val. apply digits_val_digits; [exact Hd | left; discriminate].
Qed.

(* ------------------------------------------------------------------ find / rfind / partition *)
Lemma char_in_cons c x s : char_in c (x :: s) = (c =? x) || char_in c s.
Proof. reflexivity. Qed.

Lemma rfind_none c s : char_in c s = false -> rfind_chr c s = None.
Proof.
  induction s as [|x tl IH]; [reflexivity|]. rewrite char_in_cons. intro H.
  apply orb_false_iff in H as [H1 H2]. cbn [rfind_chr]. rewrite (IH H2). rewrite N.eqb_sym, H1. reflexivity.
Qed.

Lemma find_app c a b : char_in c a = false -> find_chr c (a ++ c :: b) = Some (length a).
Proof.
  induction a as [|x a IH]; cbn [app find_chr length].
  - intros _. rewrite N.eqb_refl. reflexivity.
  - rewrite char_in_cons. intro H. apply orb_false_iff in H as [H1 H2].
    rewrite N.eqb_sym, H1, (IH H2). reflexivity.
Qed.

Lemma rfind_app c a b :
  char_in c b = false -> rfind_chr c (a ++ c :: b) = Some (length a).
Proof.
  intro Hb. induction a as [|x a IH]; cbn [app rfind_chr length].
  - rewrite (rfind_none c b Hb), N.eqb_refl. reflexivity.
  - rewrite IH. reflexivity.
Qed.

Lemma partition_spec sep s a f b :
  partition_chr sep s = (a, f, b) ->
  char_in sep a = false /\
  (if f then s = a ++ sep :: b else a = s /\ b = []).
Proof.
  revert a f b. induction s as [|c tl IH]; intros a f b; cbn [partition_chr].
  - intro H. injection H as <- <- <-. auto.
  - destruct (c =? sep) eqn:E.
    + intro H. injection H as <- <- <-. apply N.eqb_eq in E. subst. auto.
    + destruct (partition_chr sep tl) as [[a' f'] b'] eqn:P. intro H. injection H as <- <- <-.
      destruct (IH a' f' b' eq_refl) as [Ha Hs]. split.
      * rewrite char_in_cons, N.eqb_sym, E, Ha. reflexivity.
      * destruct f'; [rewrite Hs; reflexivity | destruct Hs as [-> ->]; auto].
Qed.

Lemma rfind2_none x y s : char_in x s = false -> rfind2 x y s = None.
Proof.
  induction s as [|c tl IH]; [reflexivity|]. rewrite char_in_cons. intro H.
  apply orb_false_iff in H as [H1 H2]. cbn [rfind2]. rewrite (IH H2), N.eqb_sym, H1. reflexivity.
Qed.

Lemma rfind2_app x y a s :
  char_in x a = false ->
  rfind2 x y (a ++ s) = option_map (fun i => (length a + i)%nat) (rfind2 x y s).
Proof.
  induction a as [|c a IH]; cbn [app length].
  - intros _. destruct (rfind2 x y s); reflexivity.
  - rewrite char_in_cons. intro H. apply orb_false_iff in H as [H1 H2].
    cbn [rfind2]. rewrite (IH H2). destruct (rfind2 x y s); cbn [option_map]; [reflexivity|].
    rewrite N.eqb_sym, H1. reflexivity.
Qed.

Lemma digits_no c p : forallb is_digit p = true -> is_digit c = false -> char_in c p = false.
Proof.
  intros H Hc. destruct (char_in c p) eqn:E; [|reflexivity].
  apply char_in_In in E. rewrite forallb_forall in H. apply H in E. congruence.
Qed.

(* ------------------------------------------------------------------ parse_host *)
Lemma skipn_pre {A} (pre : list A) x y p : skipn (length pre + 0 + 2) (pre ++ x :: y :: p) = p.
Proof.
  replace (length pre + 0 + 2)%nat with (length (pre ++ [x; y])) by (rewrite app_length; cbn [length]; lia).
  replace (pre ++ x :: y :: p) with ((pre ++ [x; y]) ++ p) by (rewrite <- app_assoc; reflexivity).
  rewrite skipn_app, skipn_all, Nat.sub_diag. reflexivity.
Qed.

Lemma firstn_pre {A} (c : A) a rest :
  firstn (length (c :: a) + 0 - 1) (skipn 1 ((c :: a) ++ rest)) = a.
Proof.
  replace (length (c :: a) + 0 - 1)%nat with (length a) by (cbn [length]; lia).
  cbn [app skipn]. rewrite firstn_app, firstn_all, Nat.sub_diag. cbn [firstn]. apply app_nil_r.
Qed.

Lemma startswith_1 c r x : startswith (c :: r) [x] = (c =? x).
Proof. cbn [startswith]. destruct r; apply andb_true_r. Qed.

Definition with_default (p d : option Z) : option Z := match p with Some n => Some n | None => d end.

Theorem parse_host_valid h d name p :
  ref_authority h = Some (name, p) -> parse_host h d = Ok (name, with_default p d).
Proof.
  unfold ref_authority. destruct h as [|c r].
  { intro H. injection H as <- <-. reflexivity. }
  destruct (c =? 91) eqn:E.
  - apply N.eqb_eq in E. subst c.
    destruct (partition_chr 93 r) as [[a found] after] eqn:P.
    apply partition_spec in P as [Ha Hs]. destruct found; cbn [negb]; [|discriminate]. subst r.
    assert (Hpre : char_in 93 (91 :: a) = false) by (rewrite char_in_cons; exact Ha).
    unfold parse_host. rewrite startswith_1. cbn [N.eqb Pos.eqb].
    change (91 :: a ++ 93 :: after) with ((91 :: a) ++ 93 :: after).
    rewrite (rfind2_app 93 58 (91 :: a) (93 :: after) Hpre).
    destruct after as [|x p'].
    + intro H. injection H as <- <-. cbn [rfind2 option_map].
      cbn [app skipn]. rewrite removelast_last. reflexivity.
    + destruct ((x =? 58) && all_digits p') eqn:C; [|discriminate].
      intro H. injection H as <- <-. apply andb_true_iff in C as [Ex Hd]. apply N.eqb_eq in Ex. subst x.
      pose proof Hd as Hd'. unfold all_digits in Hd'. apply andb_true_iff in Hd' as [_ Hdig].
      assert (N93 : rfind2 93 58 (58 :: p') = None).
      { apply rfind2_none. rewrite char_in_cons. cbn [N.eqb Pos.eqb orb]. apply digits_no; [exact Hdig | reflexivity]. }
      assert (R : rfind2 93 58 (93 :: 58 :: p') = Some O).
      { change (rfind2 93 58 (93 :: 58 :: p')) with
          (match rfind2 93 58 (58 :: p') with Some i => Some (S i) | None => Some O end).
        rewrite N93. reflexivity. }
      rewrite R. cbn [option_map].
      unfold parse_port. rewrite skipn_pre, (py_int_digits p' Hd), firstn_pre. reflexivity.
  - destruct (partition_chr 58 (c :: r)) as [[nm found] p'] eqn:P.
    pose proof P as P'. apply partition_spec in P' as [Hn Hs].
    unfold parse_host. rewrite startswith_1, E.
    destruct found; cbn [negb].
    + destruct (all_digits p') eqn:Hd; [|discriminate]. intro H. injection H as <- <-.
      pose proof Hd as Hd'. unfold all_digits in Hd'. apply andb_true_iff in Hd' as [_ Hdig].
      assert (Hp : char_in 58 p' = false) by (apply digits_no; [exact Hdig | reflexivity]).
      rewrite P. rewrite Hs. rewrite (rfind_app 58 nm p' Hp), (find_app 58 nm p' Hn).
      cbn [opt_nat_eqb orb]. rewrite Nat.eqb_refl. cbn [negb].
      unfold parse_port. rewrite (py_int_digits p' Hd). reflexivity.
    + destruct Hs as [-> ->]. intro H. injection H as <- <-.
      rewrite (rfind_none 58 (c :: r) Hn). reflexivity.
Qed.

(* parse_host never raises (since the fix "treat a non-numeric port ... as not specified") *)
Theorem parse_host_total h d : exists r, parse_host h d = Ok r.
Proof.
  unfold parse_host. destruct (startswith h [91]).
  - destruct (rfind2 93 58 h); eexists; reflexivity.
  - destruct (opt_nat_eqb (rfind_chr 58 h) None || negb (opt_nat_eqb (rfind_chr 58 h) (find_chr 58 h)));
      [eexists; reflexivity|].
    destruct (partition_chr 58 h) as [[name f] port]. eexists; reflexivity.
Qed.

(* a port that is not a number is "not specified" *)
Example parse_host_bad_port_defaults :
  parse_host [101; 120; 97; 109; 112; 108; 101; 46; 99; 111; 109; 58; 97; 98; 99] (Some 80%Z)
  = Ok ([101; 120; 97; 109; 112; 108; 101; 46; 99; 111; 109], Some 80%Z) /\
  parse_host [101; 120; 97; 109; 112; 108; 101; 46; 99; 111; 109; 58] None
  = Ok ([101; 120; 97; 109; 112; 108; 101; 46; 99; 111; 109], None).
Proof. vm_compute. split; reflexivity. Qed.

(* ------------------------------------------------------------------ unquote_string *)
Lemma split_bs2_cons2 c d tl2 :
  split_bs2 (c :: d :: tl2) =
  if (c =? 92) && (d =? 92) then [] :: split_bs2 tl2 else cons_hd c (split_bs2 (d :: tl2)).
Proof. reflexivity. Qed.

Lemma split_bs2_ex s : exists h t, split_bs2 s = h :: t.
Proof.
  destruct s as [|c [|d tl2]]; [cbn [split_bs2]; eauto | cbn [split_bs2]; eauto |].
  rewrite split_bs2_cons2. destruct ((c =? 92) && (d =? 92)); [eauto|].
  unfold cons_hd. destruct (split_bs2 (d :: tl2)); eauto.
Qed.

Lemma join_chr_cons sep c h t : join_chr sep ((c :: h) :: t) = c :: join_chr sep (h :: t).
Proof. destruct t; reflexivity. Qed.

Lemma drop_bs_cons c s : drop_bs (c :: s) = if c =? 92 then drop_bs s else c :: drop_bs s.
Proof. unfold drop_bs. cbn [filter]. destruct (c =? 92); reflexivity. Qed.

Lemma qp_cons_ne c s : (c =? 92) = false -> qp_unescape (c :: s) = c :: qp_unescape s.
Proof. intro E. cbn [qp_unescape]. rewrite E. reflexivity. Qed.

Theorem split_join_is_qp s : join_chr 92 (map drop_bs (split_bs2 s)) = qp_unescape s.
Proof.
  induction s as [s IH] using list_len_ind.
  destruct s as [|c [|d tl2]].
  - reflexivity.
  - cbn [split_bs2 map join_chr qp_unescape]. rewrite drop_bs_cons. destruct (c =? 92); reflexivity.
  - rewrite split_bs2_cons2. destruct ((c =? 92) && (d =? 92)) eqn:E.
    + apply andb_true_iff in E as [Ec Ed]. apply N.eqb_eq in Ec, Ed. subst c d.
      destruct (split_bs2_ex tl2) as (h & t & Hs).
      assert (I : join_chr 92 (map drop_bs (split_bs2 tl2)) = qp_unescape tl2) by (apply IH; cbn [length]; lia).
      rewrite Hs in *. cbn [map] in *.
      change (join_chr 92 (drop_bs [] :: drop_bs h :: map drop_bs t))
        with (drop_bs [] ++ 92 :: join_chr 92 (drop_bs h :: map drop_bs t)).
      rewrite I. reflexivity.
    + destruct (split_bs2_ex (d :: tl2)) as (h & t & Hs).
      assert (I : join_chr 92 (map drop_bs (split_bs2 (d :: tl2))) = qp_unescape (d :: tl2))
        by (apply IH; cbn [length]; lia).
      rewrite Hs in *. cbn [cons_hd map] in *. rewrite drop_bs_cons.
      destruct (c =? 92) eqn:Ec; cbv iota.
      * cbn [andb] in E. transitivity (qp_unescape (d :: tl2)); [exact I|].
        rewrite (qp_cons_ne d tl2 E).
        apply N.eqb_eq in Ec. subst c. cbn [qp_unescape N.eqb Pos.eqb]. reflexivity.
      * rewrite join_chr_cons. rewrite (qp_cons_ne c (d :: tl2) Ec). f_equal. exact I.
Qed.

Lemma qp_no_bs s : char_in 92 s = false -> qp_unescape s = s.
Proof.
  induction s as [|c tl IH]; [reflexivity|]. rewrite char_in_cons. intro H.
  apply orb_false_iff in H as [H1 H2]. rewrite N.eqb_sym in H1.
  rewrite (qp_cons_ne c tl H1), (IH H2). reflexivity.
Qed.

Lemma split_bs2_single s : contains s [92; 92] = false -> split_bs2 s = [s].
Proof.
  induction s as [|c tl IH]; [reflexivity|].
  cbn [contains]. intro H. apply orb_false_iff in H as [H1 H2].
  destruct tl as [|d tl2]; [reflexivity|]. rewrite split_bs2_cons2.
  assert (H1' : (c =? 92) && (d =? 92) = false).
  { cbn [startswith] in H1. destruct tl2; cbn [startswith] in H1; rewrite ?andb_true_r in H1; exact H1. }
  rewrite H1', (IH H2). reflexivity.
Qed.

(* a quoted-string is unquoted by the quoted-pair reading, on all three branches *)
Theorem unquote_quoted inner : unquote_string (34 :: inner ++ [34]) = qp_unescape inner.
Proof.
  unfold unquote_string.
  assert (L2 : Nat.ltb (length (34 :: inner ++ [34])) 2 = false).
  { apply Nat.ltb_ge. cbn [length]. rewrite app_length. cbn [length]. lia. }
  rewrite L2. cbn [hd N.eqb Pos.eqb negb orb].
  change (34 :: inner ++ [34]) with ((34 :: inner) ++ [34]). rewrite last_last. cbn [N.eqb Pos.eqb negb].
  cbn [app skipn]. rewrite removelast_last.
  destruct (char_in 92 inner) eqn:B; cbn [negb].
  - destruct (contains inner [92; 92]) eqn:C; cbn [negb].
    + apply split_join_is_qp.
    + rewrite <- split_join_is_qp, (split_bs2_single inner C). reflexivity.
  - symmetry. apply qp_no_bs. exact B.
Qed.

Theorem qp_roundtrip s : qp_unescape (qp_escape s) = s.
Proof.
  unfold qp_escape. induction s as [|c tl IH]; [reflexivity|].
  cbn [flat_map]. destruct ((c =? 92) || (c =? 34)) eqn:E.
  - cbn [app qp_unescape N.eqb Pos.eqb]. rewrite IH. reflexivity.
  - apply orb_false_iff in E as [E1 _]. cbn [app]. rewrite (qp_cons_ne c _ E1), IH. reflexivity.
Qed.

Theorem unquote_inverse_of_quote s : unquote_string (34 :: qp_escape s ++ [34]) = s.
Proof. rewrite unquote_quoted. apply qp_roundtrip. Qed.

Theorem unquote_unquoted q :
  (length q < 2)%nat \/ hd 0 q <> 34 \/ last q 0 <> 34 -> unquote_string q = q.
Proof.
  intro H. unfold unquote_string. destruct (length q <? 2)%nat eqn:L; [reflexivity|].
  apply Nat.ltb_ge in L. destruct H as [H | [H | H]]; [lia | |].
  - apply N.eqb_neq in H. rewrite H. reflexivity.
  - apply N.eqb_neq in H. rewrite H. rewrite orb_true_r. reflexivity.
Qed.

Theorem host_oracle_sound h d : host_oracle h d (parse_host h d) = true.
Proof.
  unfold host_oracle. destruct (ref_authority h) as [[name p]|] eqn:R; [|reflexivity].
  rewrite (parse_host_valid h d name p R). rewrite str_eqb_refl. cbn [andb].
  unfold with_default. destruct p as [n|]; [apply Z.eqb_refl|]. destruct d; [apply Z.eqb_refl | reflexivity].
Qed.
