(* C10 — decode: the three code paths equal the reference decoder. *)
From Coq Require Import ZArith NArith List Bool Lia ZifyBool ZifyN Arith.
From Falcon.lib Require Import PyStr Utf8.
From Falcon.gen Require Import Consts ConstsC10.
From Falcon.C10 Require Import Model Spec ProofsTables.
Import ListNotations.
Open Scope N_scope.

Lemma list_len_ind {A} (P : list A -> Prop) :
  (forall l, (forall l', (length l' < length l)%nat -> P l') -> P l) -> forall l, P l.
Proof.
  intros H l. remember (length l) as n eqn:Hn. revert l Hn.
  induction n as [n IH] using lt_wf_ind. intros l Hn. apply H. intros l' Hl.
  apply (IH (length l')); [lia | reflexivity].
Qed.

(* ---- split *)
Lemma split_chr_cons_ne sep c tl :
  (c =? sep) = false ->
  split_chr sep (c :: tl) = match split_chr sep tl with [] => [[c]] | h :: t => (c :: h) :: t end.
Proof. intro E. cbn [split_chr]. rewrite E. reflexivity. Qed.

Lemma split_chr_cons_eq sep tl : split_chr sep (sep :: tl) = [] :: split_chr sep tl.
Proof. cbn [split_chr]. rewrite N.eqb_refl. reflexivity. Qed.

Lemma split_chr_ex sep s : exists h t, split_chr sep s = h :: t.
Proof.
  pose proof (split_chr_nonempty sep s) as H. destruct (split_chr sep s) as [|h t]; [contradiction|].
  exists h, t. reflexivity.
Qed.

(* the first token starts with x  ==>  the string starts with x (and x is not the separator) *)
Lemma split_hd_cons sep s x h t :
  split_chr sep s = (x :: h) :: t ->
  exists s', s = x :: s' /\ (x =? sep) = false /\ split_chr sep s' = h :: t.
Proof.
  destruct s as [|c tl]; cbn [split_chr]; [discriminate|].
  destruct (c =? sep) eqn:E; [discriminate|].
  destruct (split_chr_ex sep tl) as (h' & t' & Hs). rewrite Hs. intro H. injection H as -> -> ->.
  exists tl. auto.
Qed.

(* ---- the two loops are the same concatenation *)
Lemma fold_pieces ts t0 :
  fold_left (fun acc tok => acc ++ piece tok) ts t0 = t0 ++ concat (map piece ts).
Proof.
  revert t0. induction ts as [|tok ts IH]; intro t0; cbn [fold_left map concat].
  - symmetry. apply app_nil_r.
  - rewrite IH, app_assoc. reflexivity.
Qed.

Lemma bytearray_pieces ts t0 : bytearray_loop t0 ts = t0 ++ concat (map piece ts).
Proof.
  revert t0. induction ts as [|tok ts IH]; intro t0; cbn [bytearray_loop map concat].
  - symmetry. apply app_nil_r.
  - rewrite IH, app_assoc. reflexivity.
Qed.

Definition joined (tokens : list (list N)) : list N :=
  match tokens with [] => [] | t0 :: ts => t0 ++ concat (map piece ts) end.

Lemma join_short_joined tokens : join_short tokens = joined tokens.
Proof. destruct tokens; [reflexivity|]. apply fold_pieces. Qed.

Lemma join_bytearray_joined tokens : join_tokens_bytearray tokens = decode_replace (joined tokens).
Proof. destruct tokens; [reflexivity|]. cbn [join_tokens_bytearray joined]. rewrite bytearray_pieces. reflexivity. Qed.

(* ---- split on '%' then patch each token  =  the reference byte decoder *)
Lemma ref_bytes_cons_ne plus c tl :
  (c =? 37) = false ->
  ref_bytes plus (c :: tl) = (if plus && (c =? 43) then 32 else c) :: ref_bytes plus tl.
Proof. intro E. cbn [ref_bytes]. rewrite E. destruct (plus && (c =? 43)); reflexivity. Qed.

Lemma ref_bytes_pct plus tl :
  ref_bytes plus (37 :: tl) =
  match tl with
  | a :: b :: rest =>
    if is_hex a && is_hex b then (16 * hexval a + hexval b) :: ref_bytes plus rest
    else 37 :: ref_bytes plus tl
  | _ => 37 :: ref_bytes plus tl
  end.
Proof. reflexivity. Qed.

Theorem joined_is_reference bs : joined (split_chr 37 bs) = ref_bytes false bs.
Proof.
  induction bs as [bs IH] using list_len_ind.
  destruct bs as [|c tl]; [reflexivity|].
  destruct (c =? 37) eqn:E.
  - apply N.eqb_eq in E. subst c. rewrite split_chr_cons_eq.
    destruct (split_chr_ex 37 tl) as (h & t & Hs). rewrite Hs.
    cbn [joined map concat app].
    assert (IHtl : h ++ concat (map piece t) = ref_bytes false tl).
    { rewrite <- (IH tl) by (cbn [length]; lia). rewrite Hs. reflexivity. }
    rewrite piece_spec.
    destruct h as [|a [|b r]].
    + (* tl starts with '%' or is empty *)
      rewrite ref_bytes_pct. rewrite <- IHtl. cbn [app].
      destruct tl as [|a' [|b' rest]]; try reflexivity.
      destruct (is_hex a' && is_hex b') eqn:Hx; [|reflexivity].
      exfalso. apply andb_true_iff in Hx as [Ha _].
      destruct (a' =? 37) eqn:Ea.
      * apply N.eqb_eq in Ea. apply (is_hex_not37 _ Ha Ea).
      * rewrite split_chr_cons_ne in Hs by exact Ea.
        destruct (split_chr 37 (b' :: rest)); discriminate.
    + rewrite ref_bytes_pct. rewrite <- IHtl.
      apply split_hd_cons in Hs as (s1 & -> & Ea & Hs1).
      destruct s1 as [|b' rest]; [reflexivity|].
      destruct (is_hex a && is_hex b') eqn:Hx; [|reflexivity].
      exfalso. apply andb_true_iff in Hx as [_ Hb].
      destruct (b' =? 37) eqn:Eb.
      * apply N.eqb_eq in Eb. apply (is_hex_not37 _ Hb Eb).
      * rewrite split_chr_cons_ne in Hs1 by exact Eb.
        destruct (split_chr 37 rest); discriminate.
    + apply split_hd_cons in Hs as (s1 & -> & Ea & Hs1).
      apply split_hd_cons in Hs1 as (s2 & -> & Eb & Hs2).
      rewrite ref_bytes_pct.
      destruct (is_hex a && is_hex b) eqn:Hx.
      * cbn [app]. f_equal. rewrite <- (IH s2) by (cbn [length]; lia). rewrite Hs2. reflexivity.
      * rewrite <- IHtl. reflexivity.
  - rewrite split_chr_cons_ne by exact E. rewrite ref_bytes_cons_ne by exact E. cbn [andb].
    destruct (split_chr_ex 37 tl) as (h & t & Hs). rewrite Hs. cbn [joined app]. f_equal.
    rewrite <- (IH tl) by (cbn [length]; lia). rewrite Hs. reflexivity.
Qed.

(* the short path, the bytearray path and the reference agree on every byte string, whatever
   the number of tokens *)
Theorem three_paths_agree bs :
  decode_replace (join_short (split_chr 37 bs)) = decode_replace (ref_bytes false bs) /\
  join_tokens_bytearray (split_chr 37 bs) = decode_replace (ref_bytes false bs).
Proof.
  rewrite join_short_joined, join_bytearray_joined, joined_is_reference. split; reflexivity.
Qed.

(* ---- '+' *)
Lemma replace_chr_id a b s : char_in a s = false -> replace_chr a b s = s.
Proof.
  unfold replace_chr, char_in. induction s as [|c s IH]; cbn [existsb map]; intro H; [reflexivity|].
  apply orb_false_iff in H as [H1 H2]. rewrite N.eqb_sym in H1. rewrite H1, IH by exact H2. reflexivity.
Qed.

Lemma encode_replace_plus s :
  encode (replace_chr 43 32 s) = replace_chr 43 32 (encode s).
Proof.
  unfold replace_chr, encode. induction s as [|c s IH]; [reflexivity|].
  cbn [map flat_map]. rewrite map_app, <- IH. f_equal.
  destruct (c =? 43) eqn:E.
  - apply N.eqb_eq in E. subst c. reflexivity.
  - transitivity (map (fun x => x) (encode_cp c)); [symmetry; apply map_id|].
    apply map_ext_in. intros x Hx. destruct (x =? 43) eqn:Ex; [|reflexivity].
    apply N.eqb_eq in Ex. subst x. apply encode_cp_In_ascii in Hx; [|lia]. subst c. discriminate.
Qed.

Lemma is_hex_replace c : is_hex (if c =? 43 then 32 else c) = is_hex c.
Proof. destruct (c =? 43) eqn:E; [|reflexivity]. apply N.eqb_eq in E. subst. reflexivity. Qed.

Lemma is_hex_keep c : is_hex c = true -> (if c =? 43 then 32 else c) = c.
Proof.
  intro H. destruct (c =? 43) eqn:E; [|reflexivity]. apply N.eqb_eq in E. subst. discriminate.
Qed.

(* turning '+' into ' ' first and then decoding = decoding with the plus flag *)
Theorem ref_bytes_plus bs : ref_bytes true bs = ref_bytes false (replace_chr 43 32 bs).
Proof.
  induction bs as [bs IH] using list_len_ind.
  destruct bs as [|c tl]; [reflexivity|].
  unfold replace_chr in *. cbn [map].
  destruct (c =? 37) eqn:E.
  - apply N.eqb_eq in E. subst c. cbn [N.eqb Pos.eqb]. rewrite !ref_bytes_pct.
    destruct tl as [|a [|b rest]].
    + reflexivity.
    + cbn [map]. f_equal. apply (IH [a]). cbn [length]. lia.
    + cbn [map]. rewrite !is_hex_replace.
      destruct (is_hex a && is_hex b) eqn:Hx.
      * apply andb_true_iff in Hx as [Ha Hb]. rewrite (is_hex_keep a Ha), (is_hex_keep b Hb).
        f_equal. apply IH. cbn [length]. lia.
      * f_equal. apply (IH (a :: b :: rest)). cbn [length]. lia.
  - rewrite ref_bytes_cons_ne by exact E. cbn [andb].
    destruct (c =? 43) eqn:E2.
    + rewrite ref_bytes_cons_ne by reflexivity. cbn [andb]. f_equal. apply IH. cbn [length]. lia.
    + rewrite ref_bytes_cons_ne by exact E. cbn [andb]. f_equal. apply IH. cbn [length]. lia.
Qed.

Lemma ref_bytes_no_pct bs : char_in 37 bs = false -> ref_bytes false bs = bs.
Proof.
  unfold char_in. induction bs as [|c tl IH]; cbn [existsb]; intro H; [reflexivity|].
  apply orb_false_iff in H as [H1 H2]. rewrite N.eqb_sym in H1.
  rewrite ref_bytes_cons_ne by exact H1. cbn [andb]. rewrite IH by exact H2. reflexivity.
Qed.

Lemma char_in_encode a s : a < 128 -> char_in a (encode s) = char_in a s.
Proof.
  intro Ha. apply eq_true_iff_eq. rewrite !char_in_In. unfold encode. rewrite in_flat_map. split.
  - intros (c & Hc & Hin). apply encode_cp_In_ascii in Hin; [|exact Ha]. subst. exact Hc.
  - intro H. exists a. split; [exact H|]. rewrite encode_cp_ascii by exact Ha. left. reflexivity.
Qed.

Lemma scalar_replace s : forallb scalar s = true -> forallb scalar (replace_chr 43 32 s) = true.
Proof.
  unfold replace_chr. rewrite !forallb_forall. intros H x Hx. apply in_map_iff in Hx as (c & <- & Hc).
  destruct (c =? 43); [reflexivity | apply H, Hc].
Qed.

(* the string decode() works on after the '+' step *)
Definition plus_step (s : str) (plus : bool) : str := if plus then replace_chr 43 32 s else s.

Lemma plus_step_model s plus :
  (if char_in 43 s && plus then replace_chr 43 32 s else s) = plus_step s plus.
Proof.
  unfold plus_step. destruct plus; [|rewrite andb_false_r; reflexivity]. rewrite andb_true_r.
  destruct (char_in 43 s) eqn:E; [reflexivity|]. symmetry. apply replace_chr_id. exact E.
Qed.

Lemma ref_decode_plus_step s plus :
  ref_decode s plus = decode_replace (ref_bytes false (encode (plus_step s plus))).
Proof.
  unfold ref_decode, plus_step. destruct plus; [|reflexivity].
  rewrite ref_bytes_plus, encode_replace_plus. reflexivity.
Qed.

(* the fast exit: without '%' the reference decoder returns the (plus-replaced) string itself *)
Theorem identity_path_sound s plus :
  forallb scalar s = true -> char_in 37 (plus_step s plus) = false ->
  ref_decode s plus = plus_step s plus.
Proof.
  intros Hs H. rewrite ref_decode_plus_step.
  rewrite ref_bytes_no_pct by (rewrite char_in_encode by lia; exact H).
  apply decode_encode. unfold plus_step. destruct plus; [apply scalar_replace|]; exact Hs.
Qed.

Theorem decode_is_reference s plus :
  forallb scalar s = true -> decode s plus = Ok (ref_decode s plus).
Proof.
  intro Hs. unfold decode. rewrite plus_step_model.
  assert (Hs1 : forallb scalar (plus_step s plus) = true).
  { unfold plus_step. destruct plus; [apply scalar_replace|]; exact Hs. }
  destruct (char_in 37 (plus_step s plus)) eqn:E; cbn [negb].
  - unfold py_encode. rewrite Hs1.
    destruct (three_paths_agree (encode (plus_step s plus))) as [P1 P2].
    rewrite ref_decode_plus_step.
    destruct (length (split_chr 37 (encode (plus_step s plus))) <? 8)%nat; [rewrite P1 | rewrite P2]; reflexivity.
  - rewrite identity_path_sound by assumption. reflexivity.
Qed.

(* decoding never fails and returns a valid str *)
Theorem decode_total s plus :
  forallb scalar s = true -> exists r, decode s plus = Ok r /\ forallb scalar r = true.
Proof.
  intro Hs. exists (ref_decode s plus). split; [apply decode_is_reference, Hs|].
  unfold ref_decode. apply decode_replace_scalar.
  (* ref_bytes of bytes are bytes *)
  assert (G : forall p bs, Forall (fun b => b < 256) bs -> Forall (fun b => b < 256) (ref_bytes p bs)).
  { intros p bs. induction bs as [bs IH] using list_len_ind. intro F.
    destruct bs as [|c tl]; [constructor|].
    inversion F as [|? ? Hc Ftl]; subst.
    destruct (c =? 37) eqn:E.
    - apply N.eqb_eq in E. subst c. rewrite ref_bytes_pct.
      assert (Itl : Forall (fun b => b < 256) (ref_bytes p tl)) by (apply IH; [cbn [length]; lia | exact Ftl]).
      destruct tl as [|a [|b rest]]; try (constructor; [exact Hc | exact Itl]).
      destruct (is_hex a && is_hex b) eqn:Hx; [|constructor; [exact Hc | exact Itl]].
      apply andb_true_iff in Hx as [Ha Hb].
      constructor.
      + unfold is_hex, is_upper_hex, is_digit, hexval in *.
        destruct (a <=? 57) eqn:A1; destruct (b <=? 57) eqn:B1;
          destruct (a <=? 70) eqn:A2; destruct (b <=? 70) eqn:B2; lia.
      + apply IH; [cbn [length]; lia|]. inversion Ftl as [|? ? _ F2]; subst.
        inversion F2; subst; assumption.
    - rewrite ref_bytes_cons_ne by exact E. constructor.
      + destruct (p && (c =? 43)); [lia | exact Hc].
      + apply IH; [cbn [length]; lia | exact Ftl]. }
  apply G. apply encode_bytes. exact Hs.
Qed.

(* the documented non-domain: a lone surrogate makes str.encode() raise (only when a '%' forces
   the slow path) *)
Example decode_surrogate_crashes : decode [55296; 37] false = Crash UnicodeEncodeError.
Proof. vm_compute. reflexivity. Qed.
