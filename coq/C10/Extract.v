From Coq Require Import ZArith NArith List Bool.
From Coq Require Import ExtrOcamlBasic.
From Falcon.lib Require Import Wire PyStr Utf8.
From Falcon.C10 Require Import Model Spec.
Import ListNotations.
Open Scope Z_scope.

Definition v_crash (k : crash) : val :=
  L [I 0; I (match k with UnicodeEncodeError => 1 | ValueError => 2 end)].
Definition v_res {A} (f : A -> val) (r : res A) : val :=
  match r with Ok v => L [I 1; f v] | Crash k => v_crash k end.
Definition v_host (p : str * option Z) : val := L [vstr (fst p); vopt I (snd p)].
Definition d_host (v : val) : res (str * option Z) :=
  match v with
  | L [I 1; L [s; p]] => Ok (dstr s, dopt dZ p)
  | _ => Crash ValueError
  end.

(* ops: 0 decode + ref_decode; 1 encoder; 2 parse_host; 3 unquote_string; 4 ref_decode; 5 enc_oracle;
   6 host_oracle; 7 utf8 encode; 8 utf8 decode_replace; 9 py_int; 10 qp_unescape *)
Definition run (v : val) : val :=
  match v with
  | L [I 0; s; p] => L [v_res vstr (decode (dstr s) (dbool p)); vstr (ref_decode (dstr s) (dbool p))]
  | L [I 1; iv; ck; s] => v_res vstr (encoder (dbool iv) (dbool ck) (dstr s))
  | L [I 2; h; d] => v_res v_host (parse_host (dstr h) (dopt dZ d))
  | L [I 3; s] => vstr (unquote_string (dstr s))
  | L [I 4; s; p] => vstr (ref_decode (dstr s) (dbool p))
  | L [I 5; iv; ck; s; out; out2] =>
    vlist vN (enc_oracle (dbool iv) (dbool ck) (dstr s) (dstr out) (dstr out2))
  | L [I 6; h; d; out] => vbool (host_oracle (dstr h) (dopt dZ d) (d_host out))
  | L [I 7; s] => v_res vstr (py_encode (dstr s))
  | L [I 8; s] => vstr (decode_replace (dstr s))
  | L [I 9; s] => vopt I (py_int (dstr s))
  | L [I 10; s] => vstr (qp_unescape (dstr s))
  | _ => L [I (-1)]
  end.

Extraction "C10/model.ml" run.
