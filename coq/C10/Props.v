(* C10 — property theorems only; each closed by [exact] of a lemma proved in Proofs*.v and
   followed by Print Assumptions.  Strings range over ALL lists of code points; the hypothesis
   [forallb scalar s = true] is Python's own domain restriction for str.encode() (no lone
   surrogates; see Model.py_encode and the Example at the end). *)
From Coq Require Import ZArith NArith List Bool.
From Falcon.lib Require Import PyStr Utf8.
From Falcon.gen Require Import Consts ConstsC10.
From Falcon.C10 Require Import Model Spec ProofsTables ProofsDecode ProofsEncode ProofsHost.
Import ListNotations.
Open Scope N_scope.

(* ---- falcon's live tables are the RFC 3986 classes *)
Theorem C10_unreserved_is_rfc3986 : forall c, char_in c uri_UNRESERVED = rfc_unreserved c.
Proof. exact unreserved_is_rfc. Qed.
Print Assumptions C10_unreserved_is_rfc3986.

Theorem C10_all_allowed_is_rfc3986 : forall c,
  char_in c uri_ALL_ALLOWED = rfc_unreserved c || rfc_reserved c.
Proof. exact all_allowed_is_rfc. Qed.
Print Assumptions C10_all_allowed_is_rfc3986.

Theorem C10_hex_table_is_hex : forall k,
  assoc k uri_HEX_TO_BYTE = match k with [a; b] => hex_pair a b | _ => None end.
Proof. exact assoc_spec. Qed.
Print Assumptions C10_hex_table_is_hex.

(* ---- UTF-8 *)
Theorem C10_utf8_decode_encode : forall s, forallb scalar s = true -> decode_replace (encode s) = s.
Proof. exact decode_encode. Qed.
Print Assumptions C10_utf8_decode_encode.

(* ---- decode = reference decoder, on every path, and total *)
Theorem C10_decode_is_reference : forall s plus,
  forallb scalar s = true -> decode s plus = Ok (ref_decode s plus).
Proof. exact decode_is_reference. Qed.
Print Assumptions C10_decode_is_reference.

Theorem C10_decode_three_paths_agree :
  (forall s plus, forallb scalar s = true -> char_in 37 (plus_step s plus) = false ->
     ref_decode s plus = plus_step s plus) /\
  (forall bs, decode_replace (join_short (split_chr 37 bs)) = decode_replace (ref_bytes false bs) /\
              join_tokens_bytearray (split_chr 37 bs) = decode_replace (ref_bytes false bs)).
Proof. split; [exact identity_path_sound | exact three_paths_agree]. Qed.
Print Assumptions C10_decode_three_paths_agree.

Theorem C10_decode_total : forall s plus,
  forallb scalar s = true -> exists r, decode s plus = Ok r /\ forallb scalar r = true.
Proof. exact decode_total. Qed.
Print Assumptions C10_decode_total.

(* ---- encode / encode_value: RFC 3986 characters and upper-case %XX only *)
Theorem C10_encode_alphabet : forall is_value s out,
  encoder is_value false s = Ok out -> escaped_ok true (rfc_allowed is_value) out = true.
Proof. exact encode_alphabet. Qed.
Print Assumptions C10_encode_alphabet.

(* ... and these escapes are the UTF-8 bytes: decoding returns the original.  [plus] may be
   true only for encode_value ('+' is a legal URI character that encode keeps). *)
Theorem C10_decode_encode : forall is_value plus s,
  (plus = true -> is_value = true) -> forallb scalar s = true ->
  exists out, encoder is_value false s = Ok out /\ decode out plus = Ok s.
Proof. exact decode_encoded. Qed.
Print Assumptions C10_decode_encode.

Theorem C10_decode_encode_value : forall s plus, forallb scalar s = true ->
  exists out, encode_value s = Ok out /\ decode out plus = Ok s.
Proof. intros s plus H. apply decode_encoded; [reflexivity | exact H]. Qed.
Print Assumptions C10_decode_encode_value.

(* ---- check-escaped encoders *)
Theorem C10_check_escaped_fixpoint : forall is_value s,
  fully_escaped is_value s = true -> encoder is_value true s = Ok s.
Proof. exact check_escaped_fixpoint. Qed.
Print Assumptions C10_check_escaped_fixpoint.

Theorem C10_check_escaped_idempotent : forall is_value s out,
  encoder is_value true s = Ok out -> encoder is_value true out = Ok out.
Proof. exact check_escaped_idempotent. Qed.
Print Assumptions C10_check_escaped_idempotent.

Theorem C10_check_escaped_output_escaped : forall is_value s out,
  encoder is_value true s = Ok out -> fully_escaped is_value out = true.
Proof. exact check_escaped_output. Qed.
Print Assumptions C10_check_escaped_output_escaped.

Theorem C10_check_escaped_otherwise_encodes : forall is_value plus s out,
  (plus = true -> is_value = true) ->
  fully_escaped is_value s = false -> encoder is_value true s = Ok out -> ref_decode out plus = s.
Proof. exact check_escaped_otherwise. Qed.
Print Assumptions C10_check_escaped_otherwise_encodes.

(* the encoders never fail on a str of scalar code points *)
Theorem C10_encode_total : forall is_value s, forallb scalar s = true ->
  exists out, encoder is_value false s = Ok out.
Proof. intros iv s H. exists (table_out iv (encode s)). apply encoder_plain, H. Qed.
Print Assumptions C10_encode_total.

(* ---- parse_host *)
Theorem C10_parse_host_valid : forall h d name p,
  ref_authority h = Some (name, p) -> parse_host h d = Ok (name, with_default p d).
Proof. exact parse_host_valid. Qed.
Print Assumptions C10_parse_host_valid.

Theorem C10_parse_host_total : forall h d, exists r, parse_host h d = Ok r.
Proof. exact parse_host_total. Qed.
Print Assumptions C10_parse_host_total.

(* ---- unquote_string *)
Theorem C10_unquote_quoted : forall inner, unquote_string (34 :: inner ++ [34]) = qp_unescape inner.
Proof. exact unquote_quoted. Qed.
Print Assumptions C10_unquote_quoted.

Theorem C10_unquote_inverse_of_quote : forall s, unquote_string (34 :: qp_escape s ++ [34]) = s.
Proof. exact unquote_inverse_of_quote. Qed.
Print Assumptions C10_unquote_inverse_of_quote.

Theorem C10_unquote_unquoted : forall q,
  (length q < 2)%nat \/ hd 0 q <> 34 \/ last q 0 <> 34 -> unquote_string q = q.
Proof. exact unquote_unquoted. Qed.
Print Assumptions C10_unquote_unquoted.

(* ---- purity: the model functions have no state, so equal arguments give equal results whatever was
   computed before.  (Trivial in Gallina; it documents the clause the harness checks on the code, where a
   module-level memo / functools cache shared between encoders would break it.) *)
Theorem C10_functions_are_pure : forall iv ck s1 s2 p1 p2,
  s1 = s2 -> p1 = p2 ->
  encoder iv ck s1 = encoder iv ck s2 /\ decode s1 p1 = decode s2 p2 /\
  parse_host s1 None = parse_host s2 None /\ unquote_string s1 = unquote_string s2.
Proof. intros; subst; repeat split; reflexivity. Qed.
Print Assumptions C10_functions_are_pure.

(* ---- the oracles the harness evaluates on the implementation accept the model *)
Theorem C10_enc_oracle_sound : forall is_value check s out out2,
  encoder is_value check s = Ok out -> encoder is_value check out = Ok out2 ->
  enc_oracle is_value check s out out2 = [].
Proof. exact enc_oracle_sound. Qed.
Print Assumptions C10_enc_oracle_sound.

Theorem C10_host_oracle_sound : forall h d, host_oracle h d (parse_host h d) = true.
Proof. exact host_oracle_sound. Qed.
Print Assumptions C10_host_oracle_sound.

(* ---- non-vacuity and documented edges *)
(* "a+b %zz €😀/" : scalar, goes through the escape path of every encoder, decodes back *)
Definition sample : str := [97; 43; 98; 32; 37; 122; 122; 32; 8364; 128512; 47].
Example C10_sample_nontrivial :
  forallb scalar sample = true /\
  encode_value sample <> Ok sample /\
  match encode_value sample with
  | Ok out => decode out true = Ok sample /\ length out = 40%nat
  | Crash _ => False
  end /\
  fully_escaped true sample = false /\
  fully_escaped true [97; 37; 52; 49; 37; 101; 50] = true /\
  encoder true true [97; 37; 52; 49; 37; 101; 50] = Ok [97; 37; 52; 49; 37; 101; 50].
Proof. vm_compute. repeat split; try reflexivity; discriminate. Qed.

(* nine escapes: the bytearray path; two: the short path; both malformed and valid escapes *)
Example C10_paths_exercised :
  decode (concat (repeat [37; 52; 49] 9) ++ [37; 103]) true = Ok (repeat 65 9 ++ [37; 103]) /\
  decode [37; 69; 50; 37; 56; 50; 37; 65; 67; 43] true = Ok [8364; 32] /\
  decode [37; 70; 70; 37] false = Ok [65533; 37] /\
  decode [97; 43] false = Ok [97; 43].
Proof. vm_compute. repeat split; reflexivity. Qed.

(* '+' is a URI character: encode keeps it, so decoding with unquote_plus=True differs by design *)
Example C10_plus_by_design :
  encode_uri [43] = Ok [43] /\ decode [43] true = Ok [32] /\ decode [43] false = Ok [43].
Proof. exact encode_plus_by_design. Qed.

(* outside the domain: a lone surrogate makes str.encode() raise inside decode/encode *)
Example C10_surrogate_outside_domain :
  decode [55296; 37] false = Crash UnicodeEncodeError /\ encode_value [55296] = Crash UnicodeEncodeError.
Proof. vm_compute. split; reflexivity. Qed.

Example C10_authorities :
  ref_authority [91; 58; 58; 49; 93; 58; 56; 48] = Some ([58; 58; 49], Some 80%Z) /\
  parse_host [91; 58; 58; 49; 93; 58; 56; 48] None = Ok ([58; 58; 49], Some 80%Z) /\
  parse_host [97; 58; 120] (Some 8080%Z) = Ok ([97], Some 8080%Z).
Proof. vm_compute. repeat split; reflexivity. Qed.
