From Coq Require Import ZArith NArith List Bool.
From Falcon.C10 Require Import Model Spec.
