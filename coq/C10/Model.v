(* C10 — executable model of falcon/util/uri.py: decode (three paths), the four encoders made
   by _create_str_encoder, parse_host, unquote_string.  str / bytes are lists of code points /
   byte values; the character tables come from the regenerated Consts files. *)
From Coq Require Import ZArith NArith List Bool.
From Falcon.lib Require Import PyStr Utf8.
From Falcon.gen Require Import Consts ConstsC10.
Import ListNotations.
Open Scope N_scope.

Inductive crash := UnicodeEncodeError | ValueError.
Inductive res (A : Type) : Type := Ok (v : A) | Crash (k : crash).
Arguments Ok {A} v.
Arguments Crash {A} k.

(* str.encode(): UnicodeEncodeError on a lone surrogate *)
Definition py_encode (s : str) : res (list N) :=
  if forallb scalar s then Ok (encode s) else Crash UnicodeEncodeError.

(* ------------------------------------------------------------------ decode *)

(* _HEX_TO_BYTE[key]  (None = KeyError) *)
Fixpoint assoc (k : list N) (t : list (list N * list N)) : option (list N) :=
  match t with
  | [] => None
  | (k', v) :: tl => if str_eqb k k' then Some v else assoc k tl
  end.

(* try: _HEX_TO_BYTE[token[:2]] + token[2:]   except KeyError: b'%' + token *)
Definition piece (tok : list N) : list N :=
  match assoc (firstn 2 tok) uri_HEX_TO_BYTE with
  | Some v => v ++ skipn 2 tok
  | None => 37 :: tok
  end.

(* len(tokens) < 8: in-place add on an immutable bytes object *)
Definition join_short (tokens : list (list N)) : list N :=
  match tokens with
  | [] => []                       (* unreachable: split never returns [] *)
  | t0 :: ts => fold_left (fun acc tok => acc ++ piece tok) ts t0
  end.

(* _join_tokens_bytearray *)
Fixpoint bytearray_loop (acc : list N) (ts : list (list N)) : list N :=
  match ts with
  | [] => acc
  | tok :: tl => bytearray_loop (acc ++ piece tok) tl
  end.

Definition join_tokens_bytearray (tokens : list (list N)) : str :=
  match tokens with
  | [] => []
  | t0 :: ts => decode_replace (bytearray_loop t0 ts)
  end.

Definition decode (s : str) (unquote_plus : bool) : res str :=
  let s1 := if char_in 43 s && unquote_plus then replace_chr 43 32 s else s in
  if negb (char_in 37 s1) then Ok s1
  else match py_encode s1 with
       | Crash k => Crash k
       | Ok bs =>
         let tokens := split_chr 37 bs in
         if (length tokens <? 8)%nat then Ok (decode_replace (join_short tokens))
         else Ok (join_tokens_bytearray tokens)
       end.

(* ------------------------------------------------------------------ encoders *)

Definition hex_upper (n : N) : N := if n <? 10 then 48 + n else 55 + n.

(* _create_char_encoder(allowed)[b]:  chr(b) if allowed else '%{0:02X}'.format(b) *)
Definition encode_char (allowed : str) (b : N) : list N :=
  if char_in b allowed then [b] else [37; hex_upper (b / 16); hex_upper (b mod 16)].

Definition is_nil {A} (l : list A) : bool := match l with [] => true | _ :: _ => false end.

(* s.rstrip(chars) (linear; PyStr.rstrip_set goes through List.rev, quadratic once extracted) *)
Fixpoint rstrip_chars (set : str) (s : str) : str :=
  match s with
  | [] => []
  | c :: tl =>
    match rstrip_chars set tl with
    | [] => if char_in c set then [] else [c]
    | r => c :: r
    end
  end.

(* the for/else over uri.split('%')[1:] *)
Definition escapes_all_valid (s : str) : bool :=
  forallb (fun tok => match firstn 2 tok with
                      | [a; b] => char_in a uri_HEX_DIGITS && char_in b uri_HEX_DIGITS
                      | _ => false
                      end) (tl (split_chr 37 s)).

Definition allowed_chars (is_value : bool) : str :=
  if is_value then uri_UNRESERVED else uri_ALL_ALLOWED.

Definition encoder (is_value check_is_escaped : bool) (s : str) : res str :=
  let allowed := allowed_chars is_value in
  if is_nil (rstrip_chars allowed s) then Ok s
  else if check_is_escaped && is_nil (rstrip_chars (allowed ++ [37]) s) && escapes_all_valid s
  then Ok s
  else match py_encode s with
       | Crash k => Crash k
       | Ok bs => Ok (flat_map (encode_char allowed) bs)
       end.

Definition encode_uri := encoder false false.
Definition encode_value := encoder true false.
Definition encode_check_escaped := encoder false true.
Definition encode_value_check_escaped := encoder true true.

(* ------------------------------------------------------------------ parse_host *)

(* int(s) for a str on the ASCII grammar: [space]* [+-]? digit ('_'? digit)* [space]*
   (for an ASCII str CPython applies Py_ISSPACE: 9..13 and 32; 28..31 are spaces only when the
   str is non-ASCII).  Non-ASCII digits/spaces are outside the modelled domain (the model
   answers ValueError there). *)
Definition is_space (c : N) : bool :=
  ((9 <=? c) && (c <=? 13)) || (c =? 32).

Fixpoint digits_val (acc : Z) (prev_digit : bool) (s : str) : option Z :=
  match s with
  | [] => if prev_digit then Some acc else None
  | c :: tl =>
    if isdigit c then digits_val (10 * acc + Z.of_N (c - 48))%Z true tl
    else if (c =? 95) && prev_digit then digits_val acc false tl
    else None
  end.

Fixpoint lstrip_sp (s : str) : str :=
  match s with c :: tl => if is_space c then lstrip_sp tl else s | [] => [] end.
Definition strip_sp (s : str) : str := rev (lstrip_sp (rev (lstrip_sp s))).

Definition py_int (s : str) : option Z :=
  match strip_sp s with
  | [] => None
  | c :: r =>
    if c =? 43 then digits_val 0 false r
    else if c =? 45 then option_map Z.opp (digits_val 0 false r)
    else digits_val 0 false (c :: r)
  end.

Fixpoint find_chr (c : N) (s : str) : option nat :=
  match s with
  | [] => None
  | x :: tl => if x =? c then Some O else option_map S (find_chr c tl)
  end.

Fixpoint rfind_chr (c : N) (s : str) : option nat :=
  match s with
  | [] => None
  | x :: tl => match rfind_chr c tl with
               | Some i => Some (S i)
               | None => if x =? c then Some O else None
               end
  end.

(* s.rfind(chr a + chr b) *)
Fixpoint rfind2 (a b : N) (s : str) : option nat :=
  match s with
  | [] => None
  | x :: tl => match rfind2 a b tl with
               | Some i => Some (S i)
               | None => if (x =? a) && match tl with d :: _ => d =? b | [] => false end
                         then Some O else None
               end
  end.

Definition opt_nat_eqb (a b : option nat) : bool :=
  match a, b with
  | Some x, Some y => Nat.eqb x y
  | None, None => true
  | _, _ => false
  end.

(* _parse_port: int(port), a ValueError means "not specified" *)
Definition parse_port (port : str) (default_port : option Z) : option Z :=
  match py_int port with Some n => Some n | None => default_port end.

Definition parse_host (host : str) (default_port : option Z) : res (str * option Z) :=
  if startswith host [91] then
    match rfind2 93 58 host with
    | Some pos => Ok (firstn (pos - 1) (skipn 1 host), parse_port (skipn (pos + 2) host) default_port)
    | None => Ok (removelast (skipn 1 host), default_port)
    end
  else
    let pos := rfind_chr 58 host in
    if opt_nat_eqb pos None || negb (opt_nat_eqb pos (find_chr 58 host))
    then Ok (host, default_port)
    else let '(name, _, port) := partition_chr 58 host in
         Ok (name, parse_port port default_port).

(* ------------------------------------------------------------------ unquote_string *)

Definition cons_hd (c : N) (l : list str) : list str :=
  match l with [] => [[c]] | h :: t => (c :: h) :: t end.

(* s.split('\\\\')  (two backslashes; leftmost, non-overlapping) *)
Fixpoint split_bs2 (s : str) : list str :=
  match s with
  | [] => [[]]
  | c :: tl =>
    match tl with
    | d :: tl2 => if (c =? 92) && (d =? 92) then [] :: split_bs2 tl2
                  else cons_hd c (split_bs2 tl)
    | [] => [[c]]
    end
  end.

Definition drop_bs (s : str) : str := filter (fun c => negb (c =? 92)) s.

Definition unquote_string (q : str) : str :=
  if (length q <? 2)%nat then q
  else if negb (hd 0 q =? 34) || negb (last q 0 =? 34) then q
  else
    let tmp := removelast (skipn 1 q) in
    if negb (char_in 92 tmp) then tmp
    else if negb (contains tmp [92; 92]) then drop_bs tmp
    else join_chr 92 (map drop_bs (split_bs2 tmp)).
