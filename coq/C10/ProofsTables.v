(* C10 — facts about falcon's regenerated character tables, all by computation over the live
   values: if _UNRESERVED, _DELIMITERS, _HEX_DIGITS or _HEX_TO_BYTE change in the sources, these
   lemmas are re-checked (and fail when the change breaks RFC 3986 agreement). *)
From Coq Require Import ZArith NArith List Bool Lia ZifyBool ZifyN.
From Falcon.lib Require Import PyStr Utf8.
From Falcon.gen Require Import Consts ConstsC10.
From Falcon.C10 Require Import Model Spec.
Import ListNotations.
Open Scope N_scope.

Definition N_range (n : nat) : list N := map N.of_nat (seq 0 n).

Lemma in_N_range c n : c < N.of_nat n -> In c (N_range n).
Proof.
  intro H. unfold N_range. apply in_map_iff. exists (N.to_nat c). split; [lia|].
  apply in_seq. lia.
Qed.

Lemma char_in_big T c : forallb (fun x => x <? 128) T = true -> 128 <= c -> char_in c T = false.
Proof.
  intros HT Hc. destruct (char_in c T) eqn:E; [|reflexivity].
  apply char_in_In in E. rewrite forallb_forall in HT. apply HT in E. lia.
Qed.

(* a table of ASCII characters equals a predicate that is false above 127 as soon as the two
   agree on 0..127 *)
Lemma table_spec (T : str) (f : N -> bool) :
  forallb (fun x => x <? 128) T = true ->
  (forall c, 128 <= c -> f c = false) ->
  forallb (fun c => Bool.eqb (char_in c T) (f c)) (N_range 128) = true ->
  forall c, char_in c T = f c.
Proof.
  intros HT Hf Hall c. destruct (N.ltb_spec c 128) as [L|L].
  - rewrite forallb_forall in Hall. apply eqb_prop. apply Hall. apply in_N_range. exact L.
  - rewrite (Hf c L). apply char_in_big; assumption.
Qed.

Lemma rfc_unreserved_big c : 128 <= c -> rfc_unreserved c = false.
Proof. intro H. unfold rfc_unreserved, is_alpha, is_digit. lia. Qed.

Lemma rfc_reserved_big c : 128 <= c -> rfc_reserved c = false.
Proof. intro H. unfold rfc_reserved. cbn [existsb]. lia. Qed.

Lemma is_hex_big c : 128 <= c -> is_hex c = false.
Proof. intro H. unfold is_hex, is_upper_hex, is_digit. lia. Qed.

Theorem unreserved_is_rfc c : char_in c uri_UNRESERVED = rfc_unreserved c.
Proof.
  revert c. apply table_spec; [vm_compute; reflexivity | exact rfc_unreserved_big | vm_compute; reflexivity].
Qed.

Theorem all_allowed_is_rfc c : char_in c uri_ALL_ALLOWED = rfc_unreserved c || rfc_reserved c.
Proof.
  revert c. apply (table_spec uri_ALL_ALLOWED (fun c => rfc_unreserved c || rfc_reserved c));
    [vm_compute; reflexivity | | vm_compute; reflexivity].
  intros c H. rewrite rfc_unreserved_big, rfc_reserved_big by exact H. reflexivity.
Qed.

Theorem hex_digits_is_rfc c : char_in c uri_HEX_DIGITS = is_hex c.
Proof.
  revert c. apply table_spec; [vm_compute; reflexivity | exact is_hex_big | vm_compute; reflexivity].
Qed.

Theorem allowed_spec iv c : char_in c (allowed_chars iv) = rfc_allowed iv c.
Proof.
  unfold allowed_chars, rfc_allowed. destruct iv; [apply unreserved_is_rfc | apply all_allowed_is_rfc].
Qed.

Lemma rfc_allowed_lt iv c : rfc_allowed iv c = true -> c < 128.
Proof.
  intro H. destruct (N.ltb_spec c 128) as [L|L]; [exact L|].
  unfold rfc_allowed in H. rewrite rfc_unreserved_big, ?rfc_reserved_big in H by exact L.
  destruct iv; discriminate.
Qed.

Lemma rfc_allowed_37 iv : rfc_allowed iv 37 = false.
Proof. destruct iv; reflexivity. Qed.

Lemma rfc_value_43 : rfc_allowed true 43 = false.
Proof. reflexivity. Qed.

Lemma is_hex_allowed iv c : is_hex c = true -> rfc_allowed iv c = true.
Proof.
  intro H. assert (U : rfc_unreserved c = true).
  { unfold is_hex, is_upper_hex, rfc_unreserved, is_alpha, is_digit in *. lia. }
  unfold rfc_allowed. rewrite U. destruct iv; reflexivity.
Qed.

Lemma is_hex_not37 c : is_hex c = true -> c <> 37.
Proof. unfold is_hex, is_upper_hex, is_digit. lia. Qed.

Lemma is_hex_not43 c : is_hex c = true -> c <> 43.
Proof. unfold is_hex, is_upper_hex, is_digit. lia. Qed.

(* ---- _HEX_TO_BYTE *)

Definition hex_pair (a b : N) : option (list N) :=
  if is_hex a && is_hex b then Some [16 * hexval a + hexval b] else None.

Definition opt_eqb (x y : option (list N)) : bool :=
  match x, y with
  | None, None => true
  | Some p, Some q => str_eqb p q
  | _, _ => false
  end.

Lemma opt_eqb_eq x y : opt_eqb x y = true -> x = y.
Proof.
  destruct x, y; simpl; intro H; try discriminate; try reflexivity.
  apply str_eqb_eq in H. congruence.
Qed.

Lemma assoc_none k T : (forall k' v, In (k', v) T -> k' <> k) -> assoc k T = None.
Proof.
  induction T as [|[k' v] T IH]; intro H; [reflexivity|].
  cbn [assoc]. destruct (str_eqb k k') eqn:E.
  - apply str_eqb_eq in E. exfalso. apply (H k' v); [left; reflexivity | congruence].
  - apply IH. intros k2 v2 Hin. apply (H k2 v2). right. exact Hin.
Qed.

Definition key_ok (kv : list N * list N) : bool :=
  match fst kv with
  | [a; b] => (a <? 256) && (b <? 256)
  | _ => false
  end.

Lemma keys_ok : forallb key_ok uri_HEX_TO_BYTE = true.
Proof. vm_compute. reflexivity. Qed.

Lemma table_pairs :
  forallb (fun a => forallb (fun b => opt_eqb (assoc [a; b] uri_HEX_TO_BYTE) (hex_pair a b)) (N_range 256))
          (N_range 256) = true.
Proof. vm_compute. reflexivity. Qed.

Lemma key_shape k v : In (k, v) uri_HEX_TO_BYTE -> exists a b, k = [a; b] /\ a < 256 /\ b < 256.
Proof.
  intro H. pose proof keys_ok as K. rewrite forallb_forall in K. apply K in H.
  unfold key_ok in H. cbn [fst] in H.
  destruct k as [|a [|b [|c k]]]; try discriminate. exists a, b. split; [reflexivity|lia].
Qed.

(* the dictionary is exactly "two hex digits -> the byte they denote" *)
Theorem assoc_spec k :
  assoc k uri_HEX_TO_BYTE = match k with [a; b] => hex_pair a b | _ => None end.
Proof.
  destruct k as [|a [|b [|c k]]].
  - apply assoc_none. intros k' v H. apply key_shape in H as (x & y & -> & _). discriminate.
  - apply assoc_none. intros k' v H. apply key_shape in H as (x & y & -> & _). discriminate.
  - destruct (N.ltb_spec a 256) as [La|La]; [destruct (N.ltb_spec b 256) as [Lb|Lb]|].
    + pose proof table_pairs as T. rewrite forallb_forall in T.
      specialize (T a (in_N_range a 256 La)). rewrite forallb_forall in T.
      specialize (T b (in_N_range b 256 Lb)). apply opt_eqb_eq in T. exact T.
    + unfold hex_pair. rewrite (is_hex_big b) by lia. rewrite andb_false_r.
      apply assoc_none. intros k' v H. apply key_shape in H as (x & y & -> & Hx & Hy).
      intro E. injection E as -> ->. lia.
    + unfold hex_pair. rewrite (is_hex_big a) by lia. cbn [andb].
      apply assoc_none. intros k' v H. apply key_shape in H as (x & y & -> & Hx & Hy).
      intro E. injection E as -> ->. lia.
  - apply assoc_none. intros k' v H. apply key_shape in H as (x & y & -> & _). discriminate.
Qed.

Theorem piece_spec tok :
  piece tok = match tok with
              | a :: b :: r => if is_hex a && is_hex b then (16 * hexval a + hexval b) :: r
                               else 37 :: tok
              | _ => 37 :: tok
              end.
Proof.
  unfold piece. rewrite assoc_spec.
  destruct tok as [|a [|b r]]; cbn [firstn skipn]; try reflexivity.
  unfold hex_pair. destruct (is_hex a && is_hex b); reflexivity.
Qed.

(* '%{0:02X}' digits *)
Lemma hex_upper_spec n : n < 16 ->
  is_upper_hex (hex_upper n) = true /\ hexval (hex_upper n) = n.
Proof.
  intro H. unfold hex_upper, is_upper_hex, is_digit, hexval.
  destruct (n <? 10) eqn:E; split; try lia.
  - replace (48 + n <=? 57) with true by lia. lia.
  - replace (55 + n <=? 57) with false by lia. replace (55 + n <=? 70) with true by lia. lia.
Qed.

Lemma upper_hex_is_hex c : is_upper_hex c = true -> is_hex c = true.
Proof. intro H. unfold is_hex. rewrite H. reflexivity. Qed.
