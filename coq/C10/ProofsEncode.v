(* C10 — the four encoders: output language, round trip through the decoder, the
   already-escaped check (fixpoint, idempotence), and soundness of the harness oracle. *)
From Coq Require Import ZArith NArith List Bool Lia ZifyBool ZifyN Arith.
From Falcon.lib Require Import PyStr Utf8.
From Falcon.gen Require Import Consts ConstsC10.
From Falcon.C10 Require Import Model Spec ProofsTables ProofsDecode.
Import ListNotations.
Open Scope N_scope.
#[local] Ltac Zify.zify_post_hook ::= Z.div_mod_to_equations.

(* ---- not uri.rstrip(chars)  <=>  every character is in chars *)
Lemma rstrip_nil set s : is_nil (rstrip_chars set s) = forallb (fun c => char_in c set) s.
Proof.
  induction s as [|c tl IH]; [reflexivity|].
  cbn [rstrip_chars forallb]. destruct (rstrip_chars set tl) as [|x r]; cbn [is_nil] in IH; rewrite <- IH.
  - rewrite andb_true_r. destruct (char_in c set); reflexivity.
  - rewrite andb_false_r. reflexivity.
Qed.

Lemma char_in_app c a b : char_in c (a ++ b) = char_in c a || char_in c b.
Proof. unfold char_in. apply existsb_app. Qed.

(* ---- the for/else over split('%')[1:] is a scan: every '%' is followed by two hex digits *)
Definition two_hex (s : str) : bool :=
  match s with a :: b :: _ => is_hex a && is_hex b | _ => false end.

Fixpoint esc_scan (s : str) : bool :=
  match s with
  | [] => true
  | c :: tl => (if c =? 37 then two_hex tl else true) && esc_scan tl
  end.

Definition tok_ok (tok : str) : bool :=
  match firstn 2 tok with
  | [a; b] => char_in a uri_HEX_DIGITS && char_in b uri_HEX_DIGITS
  | _ => false
  end.

Lemma split_hd_nil sep s t : split_chr sep s = [] :: t -> s = [] \/ exists s', s = sep :: s'.
Proof.
  destruct s as [|c tl]; [left; reflexivity|]. cbn [split_chr].
  destruct (c =? sep) eqn:E.
  - apply N.eqb_eq in E. subst. right. exists tl. reflexivity.
  - destruct (split_chr sep tl); discriminate.
Qed.

Lemma is_hex_37 : is_hex 37 = false.
Proof. reflexivity. Qed.

Lemma tok_ok_two_hex tl h t : split_chr 37 tl = h :: t -> tok_ok h = two_hex tl.
Proof.
  intro Hs. unfold tok_ok. destruct h as [|a [|b r]]; cbn [firstn].
  - apply split_hd_nil in Hs as [-> | [s' ->]]; [reflexivity|].
    cbn [two_hex]. destruct s' as [|b s'']; [reflexivity|]. rewrite is_hex_37. reflexivity.
  - apply split_hd_cons in Hs as (s1 & -> & Ea & Hs1).
    apply split_hd_nil in Hs1 as [-> | [s' ->]]; [reflexivity|].
    cbn [two_hex]. rewrite is_hex_37, andb_false_r. reflexivity.
  - apply split_hd_cons in Hs as (s1 & -> & Ea & Hs1).
    apply split_hd_cons in Hs1 as (s2 & -> & Eb & Hs2).
    cbn [two_hex]. rewrite !hex_digits_is_rfc. reflexivity.
Qed.

Lemma escapes_all_valid_tok s : escapes_all_valid s = forallb tok_ok (List.tl (split_chr 37 s)).
Proof. reflexivity. Qed.

Lemma escapes_all_valid_scan s : escapes_all_valid s = esc_scan s.
Proof.
  rewrite escapes_all_valid_tok.
  induction s as [|c s' IH]; [reflexivity|].
  cbn [esc_scan]. destruct (c =? 37) eqn:E.
  - apply N.eqb_eq in E. subst c. rewrite split_chr_cons_eq. cbn [List.tl].
    destruct (split_chr_ex 37 s') as (h & t & Hs). rewrite Hs in *. cbn [forallb List.tl] in *.
    rewrite IH, (tok_ok_two_hex s' h t Hs). reflexivity.
  - rewrite split_chr_cons_ne by exact E.
    destruct (split_chr_ex 37 s') as (h & t & Hs). rewrite Hs in *. cbn [List.tl] in *. exact IH.
Qed.

(* ---- the two tests of the check_is_escaped branch together = "fully escaped" *)
Lemma esc_scan_hex2 a b rest : is_hex a = true -> is_hex b = true ->
  esc_scan (a :: b :: rest) = esc_scan rest.
Proof.
  intros Ha Hb. cbn [esc_scan].
  replace (a =? 37) with false by (symmetry; apply N.eqb_neq, is_hex_not37, Ha).
  replace (b =? 37) with false by (symmetry; apply N.eqb_neq, is_hex_not37, Hb).
  reflexivity.
Qed.

Theorem check_conditions_iff iv s :
  forallb (fun c => char_in c (allowed_chars iv ++ [37])) s && escapes_all_valid s
  = fully_escaped iv s.
Proof.
  rewrite escapes_all_valid_scan. unfold fully_escaped.
  induction s as [s IH] using list_len_ind.
  destruct s as [|c tl]; [reflexivity|].
  cbn [forallb esc_scan escaped_ok]. rewrite char_in_app, allowed_spec.
  replace (char_in c [37]) with (c =? 37) by (unfold char_in; cbn [existsb]; rewrite orb_false_r; reflexivity).
  destruct (c =? 37) eqn:E.
  - rewrite orb_true_r. cbn [andb].
    destruct tl as [|a [|b rest]].
    + reflexivity.
    + cbn [two_hex]. rewrite andb_false_r. reflexivity.
    + cbn [two_hex]. destruct (is_hex a) eqn:Ha; [destruct (is_hex b) eqn:Hb|].
      * cbn [andb]. rewrite esc_scan_hex2 by assumption.
        cbn [forallb]. rewrite !char_in_app, !allowed_spec.
        rewrite (is_hex_allowed iv a Ha), (is_hex_allowed iv b Hb). cbn [orb andb].
        apply IH. cbn [length]. lia.
      * cbn [andb]. rewrite andb_false_r. reflexivity.
      * cbn [andb]. rewrite andb_false_r. reflexivity.
  - rewrite orb_false_r. cbn [andb]. rewrite <- (IH tl) by (cbn [length]; lia).
    destruct (rfc_allowed iv c); cbn [andb]; reflexivity.
Qed.

(* ---- the byte-wise table *)
Lemma encode_char_allowed iv b : rfc_allowed iv b = true -> encode_char (allowed_chars iv) b = [b].
Proof. intro H. unfold encode_char. rewrite allowed_spec, H. reflexivity. Qed.

Lemma encode_char_escaped iv b : rfc_allowed iv b = false ->
  encode_char (allowed_chars iv) b = [37; hex_upper (b / 16); hex_upper (b mod 16)].
Proof. intro H. unfold encode_char. rewrite allowed_spec, H. reflexivity. Qed.

Definition table_out (iv : bool) (bs : list N) : str := flat_map (encode_char (allowed_chars iv)) bs.

(* all characters allowed: the table maps the string to itself (so the rstrip fast exit is
   only a shortcut) *)
Lemma table_out_allowed iv s :
  forallb (fun c => char_in c (allowed_chars iv)) s = true -> table_out iv (encode s) = s.
Proof.
  intro H. assert (A : Forall (fun c => c < 128) s).
  { apply Forall_forall. intros c Hc. rewrite forallb_forall in H. specialize (H c Hc).
    rewrite allowed_spec in H. apply (rfc_allowed_lt iv c H). }
  rewrite encode_ascii by exact A. unfold table_out.
  induction s as [|c tl IH]; [reflexivity|].
  cbn [forallb] in H. apply andb_true_iff in H as [Hc Htl]. inversion A; subst.
  cbn [flat_map]. rewrite allowed_spec in Hc. rewrite encode_char_allowed by exact Hc.
  cbn [app]. f_equal. apply IH; assumption.
Qed.

Lemma hex_upper_lt n : n < 16 -> hex_upper n < 128.
Proof. intro H. unfold hex_upper. destruct (n <? 10); lia. Qed.

Lemma table_out_ascii iv bs : Forall (fun b => b < 256) bs -> Forall (fun c => c < 128) (table_out iv bs).
Proof.
  unfold table_out. induction 1 as [|b bs Hb _ IH]; [constructor|].
  cbn [flat_map]. apply Forall_app. split; [|exact IH].
  destruct (rfc_allowed iv b) eqn:E.
  - rewrite encode_char_allowed by exact E. repeat constructor. apply (rfc_allowed_lt iv b E).
  - rewrite encode_char_escaped by exact E.
    repeat constructor; try lia; apply hex_upper_lt; lia.
Qed.

(* the reference byte decoder undoes the table *)
Theorem ref_bytes_table_out iv plus bs :
  (plus = true -> iv = true) -> Forall (fun b => b < 256) bs ->
  ref_bytes plus (table_out iv bs) = bs.
Proof.
  intros Hp. unfold table_out. induction 1 as [|b bs Hb _ IH]; [reflexivity|].
  cbn [flat_map]. destruct (rfc_allowed iv b) eqn:E.
  - rewrite encode_char_allowed by exact E. cbn [app].
    assert (N37 : (b =? 37) = false).
    { destruct (b =? 37) eqn:X; [|reflexivity]. apply N.eqb_eq in X. subst. rewrite rfc_allowed_37 in E. discriminate. }
    rewrite ref_bytes_cons_ne by exact N37.
    assert (N43 : plus && (b =? 43) = false).
    { destruct plus; [|reflexivity]. rewrite (Hp eq_refl) in E. cbn [andb].
      destruct (b =? 43) eqn:X; [|reflexivity]. apply N.eqb_eq in X. subst. discriminate. }
    rewrite N43, IH. reflexivity.
  - rewrite encode_char_escaped by exact E. cbn [app]. rewrite ref_bytes_pct.
    destruct (hex_upper_spec (b / 16)) as [U1 V1]; [lia|].
    destruct (hex_upper_spec (b mod 16)) as [U2 V2]; [lia|].
    rewrite (upper_hex_is_hex _ U1), (upper_hex_is_hex _ U2). cbn [andb].
    rewrite V1, V2, IH. f_equal. lia.
Qed.

(* the table emits allowed characters and upper-case escapes only *)
Theorem table_out_language iv u bs :
  Forall (fun b => b < 256) bs -> escaped_ok u (rfc_allowed iv) (table_out iv bs) = true.
Proof.
  unfold table_out. induction 1 as [|b bs Hb _ IH]; [reflexivity|].
  cbn [flat_map]. destruct (rfc_allowed iv b) eqn:E.
  - rewrite encode_char_allowed by exact E. cbn [app escaped_ok].
    destruct (b =? 37) eqn:X.
    { apply N.eqb_eq in X. subst. rewrite rfc_allowed_37 in E. discriminate. }
    rewrite E, IH. reflexivity.
  - rewrite encode_char_escaped by exact E. cbn [app escaped_ok N.eqb Pos.eqb].
    destruct (hex_upper_spec (b / 16)) as [U1 _]; [lia|].
    destruct (hex_upper_spec (b mod 16)) as [U2 _]; [lia|].
    rewrite U1, U2, (upper_hex_is_hex _ U1), (upper_hex_is_hex _ U2), IH. destruct u; reflexivity.
Qed.

Lemma allowed_language iv u s :
  forallb (fun c => char_in c (allowed_chars iv)) s = true -> escaped_ok u (rfc_allowed iv) s = true.
Proof.
  induction s as [|c tl IH]; [reflexivity|]. cbn [forallb escaped_ok]. intro H.
  apply andb_true_iff in H as [Hc Htl]. rewrite allowed_spec in Hc.
  destruct (c =? 37) eqn:X.
  { apply N.eqb_eq in X. subst. rewrite rfc_allowed_37 in Hc. discriminate. }
  rewrite Hc, IH by exact Htl. reflexivity.
Qed.

(* ---- normal forms of the encoder *)
Theorem encoder_plain iv s :
  forallb scalar s = true -> encoder iv false s = Ok (table_out iv (encode s)).
Proof.
  intro Hs. unfold encoder. rewrite rstrip_nil.
  destruct (forallb (fun c => char_in c (allowed_chars iv)) s) eqn:E.
  - rewrite table_out_allowed by exact E. reflexivity.
  - cbn [andb]. unfold py_encode. rewrite Hs. reflexivity.
Qed.

Theorem encoder_cases iv ck s out :
  encoder iv ck s = Ok out ->
  (out = s /\ (forallb (fun c => char_in c (allowed_chars iv)) s = true
               \/ (ck = true /\ fully_escaped iv s = true)))
  \/ (forallb scalar s = true /\ out = table_out iv (encode s)
      /\ (ck = false \/ fully_escaped iv s = false)).
Proof.
  unfold encoder. rewrite rstrip_nil.
  destruct (forallb (fun c => char_in c (allowed_chars iv)) s) eqn:E.
  { intro H. injection H as <-. left. auto. }
  rewrite <- andb_assoc, rstrip_nil, check_conditions_iff.
  destruct (ck && fully_escaped iv s) eqn:C.
  { intro H. injection H as <-. apply andb_true_iff in C as [-> C]. left. auto. }
  unfold py_encode. destruct (forallb scalar s) eqn:Hs; [|discriminate].
  intro H. injection H as <-. right. repeat split.
  apply andb_false_iff in C. exact C.
Qed.

(* ---- theorems *)

(* output alphabet of encode / encode_value *)
Theorem encode_alphabet iv s out :
  encoder iv false s = Ok out -> escaped_ok true (rfc_allowed iv) out = true.
Proof.
  intro H. apply encoder_cases in H as [[-> [A | [X _]]] | (Hs & -> & _)].
  - apply allowed_language, A.
  - discriminate.
  - apply table_out_language, encode_bytes, Hs.
Qed.

Theorem ref_decode_table_out iv plus s :
  (plus = true -> iv = true) -> forallb scalar s = true ->
  ref_decode (table_out iv (encode s)) plus = s.
Proof.
  intros Hp Hs. unfold ref_decode.
  rewrite encode_ascii by (apply table_out_ascii, encode_bytes, Hs).
  rewrite ref_bytes_table_out by (try exact Hp; apply encode_bytes, Hs).
  apply decode_encode, Hs.
Qed.

Lemma ascii_scalar s : Forall (fun c => c < 128) s -> forallb scalar s = true.
Proof.
  intro F. apply forallb_forall. rewrite Forall_forall in F. intros c Hc. specialize (F c Hc).
  unfold scalar. lia.
Qed.

Theorem decode_encoded iv plus s :
  (plus = true -> iv = true) -> forallb scalar s = true ->
  exists out, encoder iv false s = Ok out /\ decode out plus = Ok s.
Proof.
  intros Hp Hs. exists (table_out iv (encode s)). split; [apply encoder_plain, Hs|].
  rewrite decode_is_reference by (apply ascii_scalar, table_out_ascii, encode_bytes, Hs).
  rewrite ref_decode_table_out by assumption. reflexivity.
Qed.

Theorem check_escaped_fixpoint iv s : fully_escaped iv s = true -> encoder iv true s = Ok s.
Proof.
  intro F. unfold encoder. rewrite rstrip_nil.
  destruct (forallb (fun c => char_in c (allowed_chars iv)) s); [reflexivity|].
  rewrite <- andb_assoc, rstrip_nil, check_conditions_iff, F. reflexivity.
Qed.

Theorem check_escaped_output iv s out : encoder iv true s = Ok out -> fully_escaped iv out = true.
Proof.
  intro H. apply encoder_cases in H as [[-> [A | [_ F]]] | (Hs & -> & _)].
  - apply allowed_language, A.
  - exact F.
  - apply table_out_language, encode_bytes, Hs.
Qed.

Theorem check_escaped_idempotent iv s out :
  encoder iv true s = Ok out -> encoder iv true out = Ok out.
Proof. intro H. apply check_escaped_fixpoint, (check_escaped_output iv s out H). Qed.

(* a string that is not fully escaped is encoded from scratch, hence decodes back *)
Theorem check_escaped_otherwise iv plus s out :
  (plus = true -> iv = true) ->
  fully_escaped iv s = false -> encoder iv true s = Ok out -> ref_decode out plus = s.
Proof.
  intros Hp F H. apply encoder_cases in H as [[-> [A | [_ F']]] | (Hs & -> & _)].
  - unfold fully_escaped in F. rewrite (allowed_language iv false s A) in F. discriminate.
  - congruence.
  - apply ref_decode_table_out; assumption.
Qed.

(* the oracle the harness applies to what the real encoders returned accepts the model *)
Theorem enc_oracle_sound iv ck s out out2 :
  encoder iv ck s = Ok out -> encoder iv ck out = Ok out2 -> enc_oracle iv ck s out out2 = [].
Proof.
  intros H1 H2. unfold enc_oracle.
  assert (C1 : escaped_ok (negb ck) (rfc_allowed iv) out = true).
  { destruct ck; cbn [negb]; [apply (check_escaped_output iv s out H1) | apply (encode_alphabet iv s out H1)]. }
  rewrite C1. cbn [app].
  assert (C4 : ck && negb (str_eqb out2 out) = false).
  { destruct ck; [|reflexivity]. cbn [andb]. apply check_escaped_idempotent in H1. rewrite H1 in H2.
    injection H2 as <-. rewrite str_eqb_refl. reflexivity. }
  rewrite C4.
  destruct (ck && fully_escaped iv s) eqn:CF.
  - apply andb_true_iff in CF as [-> F]. rewrite (check_escaped_fixpoint iv s F) in H1.
    injection H1 as <-. rewrite str_eqb_refl. reflexivity.
  - cbn [andb app].
    assert (R : forall plus, (plus = true -> iv = true) -> ref_decode out plus = s).
    { intros plus Hp. apply encoder_cases in H1 as [[-> [A | [-> F]]] | (Hs & -> & _)].
      - rewrite <- (table_out_allowed iv s A) at 1. apply ref_decode_table_out; [exact Hp|].
        apply ascii_scalar, Forall_forall. intros c Hc. rewrite forallb_forall in A.
        specialize (A c Hc). rewrite allowed_spec in A. apply (rfc_allowed_lt iv c A).
      - rewrite F in CF. discriminate.
      - apply ref_decode_table_out; assumption. }
    rewrite (R false) by discriminate. rewrite str_eqb_refl. cbn [andb].
    destruct iv; cbn [negb orb]; [|reflexivity].
    rewrite (R true) by reflexivity. rewrite str_eqb_refl. reflexivity.
Qed.

(* by design: '+' is allowed in a whole URI, so decoding encode(s) with unquote_plus=True
   does not return s *)
Example encode_plus_by_design :
  encode_uri [43] = Ok [43] /\ decode [43] true = Ok [32] /\ decode [43] false = Ok [43].
Proof. vm_compute. repeat split; reflexivity. Qed.
