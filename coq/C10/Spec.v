(* C10 — the reference reading (RFC 3986) and the boolean oracles the harness evaluates on what
   the real functions returned.  Nothing here refers to falcon's tables. *)
From Coq Require Import ZArith NArith List Bool.
From Falcon.lib Require Import PyStr Utf8.
From Falcon.C10 Require Import Model.
Import ListNotations.
Open Scope N_scope.

Definition is_digit (c : N) : bool := (48 <=? c) && (c <=? 57).
Definition is_upper_hex (c : N) : bool := is_digit c || ((65 <=? c) && (c <=? 70)).
Definition is_hex (c : N) : bool := is_upper_hex c || ((97 <=? c) && (c <=? 102)).
Definition hexval (c : N) : N :=
  if c <=? 57 then c - 48 else if c <=? 70 then c - 55 else c - 87.

Definition is_alpha (c : N) : bool := ((65 <=? c) && (c <=? 90)) || ((97 <=? c) && (c <=? 122)).
(* RFC 3986 2.3: ALPHA / DIGIT / "-" / "." / "_" / "~" *)
Definition rfc_unreserved (c : N) : bool :=
  is_alpha c || is_digit c || (c =? 45) || (c =? 46) || (c =? 95) || (c =? 126).
(* RFC 3986 2.2: gen-delims ":/?#[]@"  sub-delims "!$&'()*+,;=" *)
Definition rfc_reserved (c : N) : bool :=
  existsb (N.eqb c) [58; 47; 63; 35; 91; 93; 64; 33; 36; 38; 39; 40; 41; 42; 43; 44; 59; 61].
Definition rfc_allowed (is_value : bool) (c : N) : bool :=
  if is_value then rfc_unreserved c else rfc_unreserved c || rfc_reserved c.

(* the reference decoder on bytes: a well-formed %XX is one byte, anything else literal,
   '+' is a space only on request *)
Fixpoint ref_bytes (plus : bool) (bs : list N) : list N :=
  match bs with
  | [] => []
  | c :: tl =>
    if c =? 37 then
      match tl with
      | a :: b :: rest =>
        if is_hex a && is_hex b then (16 * hexval a + hexval b) :: ref_bytes plus rest
        else 37 :: ref_bytes plus tl
      | _ => 37 :: ref_bytes plus tl
      end
    else if plus && (c =? 43) then 32 :: ref_bytes plus tl
    else c :: ref_bytes plus tl
  end.

(* ... read as UTF-8 with replacement *)
Definition ref_decode (s : str) (plus : bool) : str :=
  decode_replace (ref_bytes plus (encode s)).

(* the language the encoders may emit: allowed characters and %XX escapes *)
Fixpoint escaped_ok (upper_only : bool) (allowed : N -> bool) (s : str) : bool :=
  match s with
  | [] => true
  | c :: tl =>
    if c =? 37 then
      match tl with
      | a :: b :: rest =>
        (if upper_only then is_upper_hex a && is_upper_hex b else is_hex a && is_hex b)
        && escaped_ok upper_only allowed rest
      | _ => false
      end
    else allowed c && escaped_ok upper_only allowed tl
  end.

(* "already fully escaped" *)
Definition fully_escaped (is_value : bool) (s : str) : bool :=
  escaped_ok false (rfc_allowed is_value) s.

(* Oracle for one observation of an encoder: [out] = f s, [out2] = f out.  Returns the clauses
   that fail: 1 output alphabet / escape shape, 2 not decodable back to [s], 3 a fully escaped
   input was changed, 4 not idempotent. *)
Definition enc_oracle (is_value check : bool) (s out out2 : str) : list N :=
  (if escaped_ok (negb check) (rfc_allowed is_value) out then [] else [1])
  ++ (if check && fully_escaped is_value s then []
      else if str_eqb (ref_decode out false) s
              && (negb is_value || str_eqb (ref_decode out true) s) then [] else [2])
  ++ (if check && fully_escaped is_value s && negb (str_eqb out s) then [3] else [])
  ++ (if check && negb (str_eqb out2 out) then [4] else []).

(* ---- authorities: host [":" 1*DIGIT]  with host = "[" literal "]" or a colon-free name *)
Definition all_digits (s : str) : bool := negb (is_nil s) && forallb is_digit s.
Definition dec_val (s : str) : Z := fold_left (fun a c => (10 * a + Z.of_N (c - 48))%Z) s 0%Z.

Definition ref_authority (h : str) : option (str * option Z) :=
  match h with
  | c :: r =>
    if c =? 91 then
      let '(a, found, after) := partition_chr 93 r in
      if negb found then None
      else match after with
           | [] => Some (a, None)
           | d :: p => if (d =? 58) && all_digits p then Some (a, Some (dec_val p)) else None
           end
    else
      let '(name, found, p) := partition_chr 58 h in
      if negb found then Some (h, None)
      else if all_digits p then Some (name, Some (dec_val p)) else None
  | [] => Some ([], None)
  end.

Definition host_oracle (h : str) (d : option Z) (out : res (str * option Z)) : bool :=
  match ref_authority h with
  | None => true
  | Some (name, p) =>
    match out with
    | Ok (name', p') =>
      str_eqb name name' &&
      match (match p with Some n => Some n | None => d end), p' with
      | Some x, Some y => Z.eqb x y
      | None, None => true
      | _, _ => false
      end
    | Crash _ => false
    end
  end.

(* ---- quoted-string: "\x" stands for x *)
Fixpoint qp_unescape (s : str) : str :=
  match s with
  | [] => []
  | c :: tl =>
    if c =? 92 then match tl with [] => [] | d :: tl2 => d :: qp_unescape tl2 end
    else c :: qp_unescape tl
  end.

Definition qp_escape (s : str) : str :=
  flat_map (fun c => if (c =? 92) || (c =? 34) then [92; c] else [c]) s.
