(* GENERATION FAILED in harness/consts_c11.py: the staged falcon sources no longer provide a value this
   table is read from.
Traceback (most recent call last):
  File "/verif/harness/gen_consts.py", line 59, in main
    m.emit(L2.append, nlist, strlit, strlist)
  File "/verif/harness/consts_c11.py", line 15, in emit
    A('Definition resolver_cache_size : nat := %d.' % h._resolve.cache_info().maxsize)
                                                      ^^^^^^^^^^^^^^^^^^^^^
AttributeError: 'function' object has no attribute 'cache_info'

*)
Definition consts_generation_failed_C11 : False := I.
