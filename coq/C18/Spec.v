(* C18 — the property as a monitor over what can be observed from outside: the labels the
   scheduler fired, the results handed to the application, and the public observation after
   every step (server-side pull counters, ws.closed, which tasks are runnable).  The monitor
   knows nothing about the model's state; [oracle] is evaluated by the harness on the real
   code's trace, and Proofs.v shows the model's own traces always pass (oracle_sound). *)
From Coq Require Import ZArith NArith List Bool Arith.
From Falcon.C18 Require Import Model.
Import ListNotations.

(* m_idx     client events handed to the application so far
   m_told    the application already knows the session is over (an operation raised
             WebSocketDisconnected, or it called close() itself)
   m_res     events the server handed to the framework so far
   m_credit  pulls that may have been cancelled (cancelled receives + close calls)
   m_prev    ws.closed as observed after the previous step
   m_pdisc   the pump holds a disconnect event it has not processed yet
   m_cc      close() has been called *)
Record mon := mkMon { m_idx : nat; m_told : bool; m_res : nat; m_credit : nat;
                      m_prev : bool; m_pdisc : bool; m_cc : bool }.

Definition mon0 : mon :=
  {| m_idx := 0; m_told := false; m_res := 0; m_credit := 0; m_prev := false;
     m_pdisc := false; m_cc := false |}.

Definition is_disc (e : option ev) : bool :=
  match e with Some (Disc _) => true | _ => false end.

Definition disc_matches (e : option ev) (c : option Z) : bool :=
  match e, c with
  | Some (Disc c'), Some z => Z.eqb (code_of c') z
  | _, _ => false
  end.

Definition msg_matches (e : option ev) (n : N) : bool :=
  match e with Some (Msg n') => N.eqb n n' | _ => false end.

Definition set_told (m : mon) : mon :=
  {| m_idx := m_idx m; m_told := true; m_res := m_res m; m_credit := m_credit m;
     m_prev := m_prev m; m_pdisc := m_pdisc m; m_cc := m_cc m |}.
Definition inc_idx (m : mon) : mon :=
  {| m_idx := S (m_idx m); m_told := m_told m; m_res := m_res m; m_credit := m_credit m;
     m_prev := m_prev m; m_pdisc := m_pdisc m; m_cc := m_cc m |}.

(* clause numbers:
   1 FIFO / once / lossless: the k-th event returned is the k-th event the client sent
   2 bounded: <= 1 outstanding pull; pulls <= delivered + capacity + 1 (+ cancelled pulls)
   3 a disconnect is reported to a sender as soon as the pump has run past it (and a send
     succeeds only while ws.closed is false)
   4 the first report of the disconnect to a receiver is the client's disconnect event, in
     sequence (after every message that preceded it)
   5 no lost wake-up: a receiver is never left blocked while the framework holds an event
     and no framework task is runnable
   6 when close() returns the pump task has ended
   7 no internal error (assertion / InvalidStateError) surfaces in receive *)
Definition mon_res (sent : list ev) (pstat : nat) (mf : mon * list N) (o : obs) : mon * list N :=
  let (m, f) := mf in
  match o with
  | (KRecv, VMsg n) =>
    if msg_matches (nth_error sent (m_idx m)) n then (inc_idx m, f) else (m, f ++ [1%N])
  | (KRecv, EDisc c) =>
    if m_told m then (m, f)
    else if disc_matches (nth_error sent (m_idx m)) c then (set_told (inc_idx m), f)
         else (set_told m, f ++ [4%N])
  | (KRecv, ECancelled) => (m, f)
  | (KRecv, EAssert) => (m, f ++ [7%N])
  | (KRecv, EInvalidState) => (m, f ++ [7%N])
  | (KSend, VOk) => if m_prev m then (m, f ++ [3%N]) else (m, f)
  | (KSend, EDisc _) => if m_prev m then (set_told m, f) else (set_told m, f ++ [3%N])
  | (KClose, VOk) => if (pstat =? 3) || (pstat =? 4) then (m, f) else (m, f ++ [6%N])
  | (KClose, EValueErr) => (m, f)        (* a rejected close(): no effect *)
  | _ => (m, f ++ [8%N])
  end.

Definition mon_label (cp : nat) (sent : list ev) (l : label) (m : mon) : mon :=
  match l with
  | LServer =>
    {| m_idx := m_idx m; m_told := m_told m; m_res := S (m_res m); m_credit := m_credit m;
       m_prev := m_prev m;
       m_pdisc := negb (cp =? 0) && is_disc (nth_error sent (m_res m)); m_cc := m_cc m |}
  | LRecvCancel =>
    {| m_idx := m_idx m; m_told := m_told m; m_res := m_res m; m_credit := S (m_credit m);
       m_prev := m_prev m; m_pdisc := m_pdisc m; m_cc := m_cc m |}
  | LCloseCall =>
    {| m_idx := m_idx m; m_told := true; m_res := m_res m; m_credit := S (m_credit m);
       m_prev := m_prev m; m_pdisc := m_pdisc m; m_cc := true |}
  | _ => m
  end.

Definition mon_step (cp : nat) (sent : list ev) (m : mon) (l : label) (rs : list obs)
           (o : obsv) : mon * list N :=
  let m1 := mon_label cp sent l m in
  let (m2, f1) := fold_left (mon_res sent (o_p o)) rs (m1, []) in
  let f2 :=
    if (o_outst o <=? 1)
       && (o_pulls o <=? m_idx m2 + cp + 1 + m_credit m2 + (if m_told m2 then 1 else 0))
    then [] else [2%N] in
  let f3 :=
    match l with
    | LPump => if m_pdisc m && negb (m_cc m) && negb (o_closed o) then [3%N] else []
    | _ => []
    end in
  let f5 :=
    if negb (m_told m2) && (o_r o =? 2) && negb (o_p o =? 1) && negb (m_res m2 =? m_idx m2)
    then [5%N] else [] in
  ({| m_idx := m_idx m2; m_told := m_told m2; m_res := m_res m2; m_credit := m_credit m2;
      m_prev := o_closed o;
      m_pdisc := match l with LPump => false | _ => m_pdisc m2 end; m_cc := m_cc m2 |},
   f1 ++ f2 ++ f3 ++ f5).

Definition entry := (label * list obs * obsv)%type.

(* failing clauses, each tagged with the index of the step at which it failed *)
Fixpoint oracle_from (cp : nat) (sent : list ev) (m : mon) (i : nat) (tr : list entry)
  : list (nat * N) :=
  match tr with
  | [] => []
  | (l, rs, o) :: tl =>
    let (m', f) := mon_step cp sent m l rs o in
    map (fun c => (i, c)) f ++ oracle_from cp sent m' (S i) tl
  end.

Definition oracle (cp : nat) (sent : list ev) (tr : list entry) : list (nat * N) :=
  oracle_from cp sent mon0 0 tr.

(* the trace the model itself produces for a label sequence (disabled labels are skipped) *)
Fixpoint trace_of (fixed : bool) (ls : list label) (s : st) : list entry :=
  match ls with
  | [] => []
  | l :: tl =>
    match step fixed l s with
    | Some s' => (l, skipn (length (log s)) (log s'), observe s') :: trace_of fixed tl s'
    | None => trace_of fixed tl s
    end
  end.
