From Coq Require Import ZArith NArith List Bool Arith Lia.
From Falcon.C18 Require Import Model Spec Proofs.
Import ListNotations.

Lemma recv_call_inv sent s s' : Inv sent s -> recv_call true s = Some s' -> Inv sent s'.
Proof.
  intros H Hs. open_inv H s. unfold recv_call in Hs; cbn in Hs.
  destruct recv; try discriminate.
  destruct wst.
  2:{ inversion Hs; subst; clear Hs. constructor; unfold held, hand; fin. }
  destruct (cap =? 0) eqn:Ec.
  { inversion Hs; subst; clear Hs. constructor; unfold held, hand; cbn; rewrite ?Ec; fin. }
  destruct popw. { inversion Hs; subst; clear Hs. constructor; unfold held, hand; cbn; rewrite ?Ec; fin. }
  destruct ptask; cbn in Hs.
  2:{ inversion Hs; subst; clear Hs. unfold recv_stopped; cbn.
      destruct queue as [|m q]; cbn; [destruct flag; cbn | destruct m; cbn];
        constructor; unfold held, hand; cbn; rewrite ?Ec; try (timeout 60 fin). }
  inversion Hs; subst; clear Hs.
  unfold recv_loop; cbn.
  destruct queue as [|m q]; cbn.
  - constructor; unfold held, hand; cbn; rewrite ?Ec; fin.
  - unfold notify_put; cbn. destruct putw; cbn.
    + destruct m; cbn; constructor; unfold held, hand; cbn; rewrite ?Ec; fin.
    + destruct pump; cbn; try (exfalso; exact Hputw); destruct m; cbn; constructor; unfold held, hand; cbn; rewrite ?Ec; fin.
    + destruct m; cbn; constructor; unfold held, hand; cbn; rewrite ?Ec; fin.
Qed.

Lemma recv_run_inv sent s s' : Inv sent s -> recv_run true s = Some s' -> Inv sent s'.
Proof.
  intros H Hs. open_inv H s. unfold recv_run in Hs; cbn in Hs.
  destruct recv as [|ld| |e|fn]; try discriminate.
  - (* RAwaitPop *)
    destruct ld; cbn in Hs.
    + inversion Hs; subst; clear Hs. unfold recv_loop; cbn.
      destruct queue as [|m q]; cbn; [brk; congruence|].
      unfold notify_put; cbn. destruct putw; cbn.
      * destruct m; cbn; constructor; unfold held, hand; cbn; fin.
      * destruct pump; cbn; try (exfalso; exact Hputw); destruct m; cbn; constructor; unfold held, hand; cbn; fin.
      * destruct m; cbn; constructor; unfold held, hand; cbn; fin.
    + destruct (pump_finished pump) eqn:Ef; [|discriminate]. inversion Hs; subst; clear Hs.
      destruct pump; try discriminate; cbn; constructor; unfold held, hand; cbn; fin.
  - inversion Hs; subst; clear Hs. destruct e; cbn; constructor; unfold held, hand; cbn; fin.
  - inversion Hs; subst; clear Hs. destruct fn; cbn; constructor; unfold held, hand; cbn; fin.
Qed.
