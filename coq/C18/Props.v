(* C18 — property theorems only.  Everything is about Model.step / Model.run with fixed = true
   (the repaired notification in receive()), i.e. the definitions that are extracted and run
   against the implementation; [reach cp sent ls] is the state after the label sequence [ls]
   from the state right after ws.accept(), for capacity [cp] and client events [sent]. *)
From Coq Require Import ZArith NArith List Bool Arith.
From Falcon.C18 Require Import Model Spec Proofs ProofsInv ProofsOracle ProofsMain.
Import ListNotations.

(* The invariant (Proofs.Inv: FIFO equation, bounds, waiter/pc consistency, flag meaning,
   pull accounting, cancellation bookkeeping) holds initially and is preserved by every
   enabled label, for every capacity (0 included), every client event list. *)
Theorem C18_invariant_init : forall cp sent, Inv sent (init cp sent).
Proof. exact inv_init. Qed.
Print Assumptions C18_invariant_init.

Theorem C18_invariant_step : forall sent l s s',
  Inv sent s -> step true l s = Some s' -> Inv sent s'.
Proof. exact step_inv. Qed.
Print Assumptions C18_invariant_step.

Theorem C18_invariant_reachable : forall cp sent ls, Inv sent (reach cp sent ls).
Proof. exact reachable_inv. Qed.
Print Assumptions C18_invariant_reachable.

(* Bounded: at most [cp] events are queued; queued + the one in the pump's hand (+ an
   outstanding pull) never exceed cp + 1.  (Demanding <= cp including the in-hand event
   would be false of correct code: see Example C18_holds_cap_plus_one.) *)
Theorem C18_bounded : forall cp sent ls, let s := reach cp sent ls in
  length (queue s) <= cp
  /\ length (queue s) + length (hand s) + length (losth s) + outst s <= cp + 1.
Proof. exact bounded. Qed.
Print Assumptions C18_bounded.

(* At most one receive() pull is outstanding, and none while the pump is parked with an
   event it cannot enqueue (it stops pulling when full). *)
Theorem C18_single_pull_stops_when_full : forall cp sent ls, let s := reach cp sent ls in
  outst s <= 1 /\ (forall e, pump s = PAwaitPut e -> outst s = 0 /\ length (queue s) = cp).
Proof. exact single_pull. Qed.
Print Assumptions C18_single_pull_stops_when_full.

(* FIFO, lossless, once each: what the application took out, then the queue, then the event
   in hand, then (only after close() cancelled the pump) the dropped in-hand event, then what
   the server still holds, is exactly what the client sent; everything taken out was returned
   to the application (never dropped).  Cancelling a pending receive is one of the labels,
   so it loses nothing either. *)
Theorem C18_fifo_lossless_once : forall cp sent ls, let s := reach cp sent ls in
  map fst (consumed s) ++ queue s ++ hand s ++ losth s ++ remaining s = sent
  /\ Forall (fun p => snd p = true) (consumed s)
  /\ (pump_cancel (pump s) = false -> losth s = []).
Proof. exact fifo_lossless. Qed.
Print Assumptions C18_fifo_lossless_once.

(* No lost wake-up: a waiting receiver whose queue is non-empty has been woken, is runnable,
   and running it returns the head of the queue. *)
Theorem C18_no_lost_wakeup : forall cp sent ls ld m q, let s := reach cp sent ls in
  recv s = RAwaitPop ld -> queue s = m :: q ->
  ld = true /\ recv_runnable s = true
  /\ exists s', step true LRecvRun s = Some s' /\ log s' = log s ++ [(KRecv, res_of m)]
                /\ queue s' = q /\ consumed s' = consumed s ++ [(m, true)].
Proof. exact no_lost_wakeup. Qed.
Print Assumptions C18_no_lost_wakeup.

(* ... and if the event is still in the pump's hand, the pump is runnable and its next step
   enqueues it and wakes the receiver. *)
Theorem C18_wakeup_progress : forall cp sent ls e, let s := reach cp sent ls in
  cp <> 0 -> recv s = RAwaitPop false -> hand s = [e] ->
  exists s', step true LPump s = Some s' /\ recv s' = RAwaitPop true /\ queue s' = [e].
Proof. exact wakeup_progress. Qed.
Print Assumptions C18_wakeup_progress.

(* A disconnect is reported to a sender promptly: the pump's first step after receiving it
   sets the flag (even when the queue is full), from then on ws.closed is true and every
   send_text raises WebSocketDisconnected; the pump never pulls again. *)
Theorem C18_sender_told_promptly : forall cp sent ls, let s := reach cp sent ls in
  (forall c s', pump s = PHave (Disc c) -> step true LPump s = Some s' ->
                flag s' = true /\ dcode s' = code_of c /\ is_closed s' = true)
  /\ (forall n, is_closed s = true -> exists c, log (send_op n s) = log s ++ [(KSend, EDisc c)])
  /\ (flag s = true -> outst s = 0 /\ step true LServer s = None).
Proof. exact sender_prompt. Qed.
Print Assumptions C18_sender_told_promptly.

(* Closing stops the background reader: when close() returns, the pump task has ended (or
   never existed) and stays so whatever happens next. *)
Theorem C18_close_stops_pump : forall cp sent ls l s', let s := reach cp sent ls in
  (l = LCloseCall \/ l = LCloseRun) -> step true l s = Some s' -> ctl s' = CIdle ->
  (exists r, log s' = log s ++ [(KClose, r)])
  /\ forall ls', let s'' := run true ls' s' in
       ptask s'' = false /\ (pump s'' = PNone \/ pump_finished (pump s'') = true).
Proof. exact close_stops_pump. Qed.
Print Assumptions C18_close_stops_pump.

(* close(<invalid code>) (label LCloseBad: ValueError, swallowed by the application, which
   keeps receiving): no effect on the receiver -- the reader keeps running; the label is part
   of every schedule, so all theorems above cover it. *)
Theorem C18_rejected_close_is_noop : forall s s',
  step true LCloseBad s = Some s' ->
  s' = logr KClose EValueErr s /\ pump s' = pump s /\ ptask s' = ptask s /\ queue s' = queue s
  /\ outst s' = outst s.
Proof. exact rejected_close_is_noop. Qed.
Print Assumptions C18_rejected_close_is_noop.

(* Unbuffered mode (max_receive_queue = 0): the receiver is bypassed altogether. *)
Theorem C18_passthrough : forall sent ls, let s := reach 0 sent ls in
  pump s = PNone /\ queue s = [] /\ flag s = false /\ ptask s = false.
Proof. exact passthrough. Qed.
Print Assumptions C18_passthrough.

(* The monitor the harness evaluates on the implementation's observed trace (Spec.oracle:
   clauses 1 FIFO/once/lossless as seen by the application, 2 pull bounds, 3 sender told
   promptly, 4 first disconnect report to a receiver comes in sequence, 5 no lost wake-up,
   6 close stops the pump, 7 no internal error) accepts every trace of the model: all
   capacities, all client event lists, all label sequences. *)
Theorem C18_oracle_sound : forall cp sent ls,
  oracle cp sent (trace_of true ls (init cp sent)) = [].
Proof. exact oracle_sound. Qed.
Print Assumptions C18_oracle_sound.

(* The code as found (fixed = false): close() cancels the pump while it is parked on a full
   queue; a receive that runs before the pump's finally clause calls set_result on the
   cancelled waiter: asyncio.InvalidStateError, and the popped message is lost.  Replayed on
   the implementation (corpus/C18/put_waiter_race.json) this was the finding; the repaired
   model returns the message. *)
Theorem C18_put_waiter_race_refuted_before_fix :
  exists cp sent ls,
    In (KRecv, EInvalidState) (log (run false ls (init cp sent)))
    /\ oracle cp sent (trace_of false ls (init cp sent)) <> []
    /\ ~ In (KRecv, EInvalidState) (log (run true ls (init cp sent)))
    /\ log (run true ls (init cp sent)) = [(KRecv, VMsg 1)].
Proof. exact put_waiter_race_refuted_before_fix. Qed.
Print Assumptions C18_put_waiter_race_refuted_before_fix.

(* Non-vacuity.  Capacity 1, three messages: the framework really holds cap + 1 = 2 events
   (one queued, one in the parked pump's hand) with no pull outstanding. *)
Example C18_holds_cap_plus_one :
  let s := reach 1 [Msg 1; Msg 2; Msg 3] [LPump; LServer; LPump; LServer; LPump] in
  queue s = [Msg 1] /\ pump s = PAwaitPut (Msg 2) /\ outst s = 0 /\ pulls s = 2
  /\ length (queue s) + length (hand s) = 2.
Proof. vm_compute. repeat split; reflexivity. Qed.

(* A waiting receiver, a message arriving: woken, runnable, delivered. *)
Example C18_wakeup_example :
  let s := reach 2 [Msg 7] [LRecvCall; LPump; LServer; LPump] in
  recv s = RAwaitPop true /\ queue s = [Msg 7] /\ recv_runnable s = true
  /\ log (run true [LRecvRun] s) = [(KRecv, VMsg 7)].
Proof. vm_compute. repeat split; reflexivity. Qed.

(* Disconnect behind a full queue: the sender is told at once, the receiver still gets the
   message first. *)
Example C18_disconnect_example :
  let s := reach 1 [Msg 1; Disc (Some 1001%Z)] [LPump; LServer; LPump; LServer; LPump] in
  flag s = true /\ pump s = PAwaitPut (Disc (Some 1001%Z)) /\ is_closed s = true
  /\ log (run true [LRecvCall; LPump; LRecvCall] s)
     = [(KRecv, VMsg 1); (KRecv, EDisc (Some 1001%Z))].
Proof. vm_compute. repeat split; reflexivity. Qed.

(* close() with a receiver waiting: the pump is cancelled, the receiver gets the synthetic
   disconnect, nothing is left running. *)
Example C18_close_example :
  let s := reach 1 [] [LRecvCall; LPump; LCloseCall; LPump; LCloseRun; LRecvRun] in
  pump s = PCancelled /\ ptask s = false /\ recv s = RIdle /\ ctl s = CIdle
  /\ log s = [(KClose, VOk); (KRecv, EDisc (Some 1000%Z))].
Proof. vm_compute. repeat split; reflexivity. Qed.
