From Coq Require Import ZArith NArith List Bool Arith.
From Falcon.C18 Require Import Model Spec Proofs.
Import ListNotations.
