(* C18 — executable model of falcon/asgi/ws.py:_BufferedReceiver together with the parts of
   WebSocket that surface its state (receive_text, send_text, close, closed/ready), as a
   labelled transition system at *await* granularity.

   One label = one thing the event loop (or the application, or the ASGI server) can do next:
     LServer      the server resolves the outstanding receive() future with the next client event
     LPump        the pump task (_BufferedReceiver._pump) runs to its next suspension
     LRecvCall    the receiving task calls ws.receive_text() and runs to its first suspension
     LRecvRun     the receiving task is resumed
     LRecvCancel  the pending receive is cancelled (task.cancel())
     LSend n      some task calls ws.send_text(n) (the server's send never suspends)
     LCloseCall   some task calls ws.close() and runs to its first suspension
     LCloseRun    that task is resumed
     LCloseBad    some task calls ws.close(<invalid code>): ValueError, which it swallows
   Any enabled label may fire (over-approximates asyncio's FIFO ready queue).  The model
   starts right after ws.accept() has returned (pump task created, not yet run).

   [fixed] selects the repaired code: the notification in receive()
   (fixes/C18-put-waiter-cancelled.patch) and receive() on a stopped receiver
   (fixes/C17-receive-after-stopped-receiver.patch); fixed = false is the code as found. *)
From Coq Require Import ZArith NArith List Bool Arith.
Import ListNotations.

Inductive ev := Msg (n : N) | Disc (c : option Z).
Inductive fut := FNone | FPending | FCancelled.
(* pump task: PNone = never created (max_receive_queue = 0) *)
Inductive ppc := PNone | PStart | PAwaitServer | PHave (e : ev) | PAwaitPut (e : ev)
               | PPutWoken (e : ev) | PCancelling (fin : bool) | PDone | PCancelled.
Inductive rpc := RIdle | RAwaitPop (ld : bool) | RAwaitServer | RHave (e : ev)
               | RCancelling (fin : bool).
Inductive cpc := CIdle | CStopping.
Inductive wstate := Accepted | Closed.
Inductive sev := SText (n : N) | SClose (code : Z).
Inductive res := VMsg (n : N) | VOk | EDisc (c : option Z) | ECancelled | EAssert | EInvalidState
               | EValueErr.
Inductive opk := KRecv | KSend | KClose.
Definition obs := (opk * res)%type.
Inductive label := LServer | LPump | LRecvCall | LRecvRun | LRecvCancel | LSend (n : N)
                 | LCloseCall | LCloseRun | LCloseBad.

(* cap        max_receive_queue
   queue      _messages
   popw       _pop_message_waiter is not None
   putw       _put_message_waiter: None / pending future / future cancelled by task.cancel()
   flag,dcode client_disconnected, client_disconnected_code
   ptask      _pump_task is not None
   wst,ccode  WebSocket._state (after accept), _close_code
   remaining,outst,pulls,sends   the ASGI server: events not yet handed over, unresolved
              receive() futures, receive() calls so far, events passed to send()
   consumed   (ghost) events taken out of the framework by the application, in order; the
              flag is false when the event was dropped instead of returned
   losth      (ghost) event dropped from the pump's hand by cancellation
   credit     (ghost) number of LRecvCancel / LCloseCall labels so far
   log        results of completed application operations, in completion order *)
Record st := mkSt {
  cap : nat;
  queue : list ev;
  popw : bool;
  putw : fut;
  flag : bool;
  dcode : Z;
  ptask : bool;
  pump : ppc;
  wst : wstate;
  ccode : option Z;
  recv : rpc;
  ctl : cpc;
  remaining : list ev;
  outst : nat;
  pulls : nat;
  sends : list sev;
  consumed : list (ev * bool);
  losth : list ev;
  credit : nat;
  log : list obs
}.

Definition set_queue (v : list ev) (s : st) : st :=
  {| cap := cap s; queue := v; popw := popw s; putw := putw s; flag := flag s; dcode := dcode s; ptask := ptask s; pump := pump s; wst := wst s; ccode := ccode s; recv := recv s; ctl := ctl s; remaining := remaining s; outst := outst s; pulls := pulls s; sends := sends s; consumed := consumed s; losth := losth s; credit := credit s; log := log s |}.
Definition set_popw (v : bool) (s : st) : st :=
  {| cap := cap s; queue := queue s; popw := v; putw := putw s; flag := flag s; dcode := dcode s; ptask := ptask s; pump := pump s; wst := wst s; ccode := ccode s; recv := recv s; ctl := ctl s; remaining := remaining s; outst := outst s; pulls := pulls s; sends := sends s; consumed := consumed s; losth := losth s; credit := credit s; log := log s |}.
Definition set_putw (v : fut) (s : st) : st :=
  {| cap := cap s; queue := queue s; popw := popw s; putw := v; flag := flag s; dcode := dcode s; ptask := ptask s; pump := pump s; wst := wst s; ccode := ccode s; recv := recv s; ctl := ctl s; remaining := remaining s; outst := outst s; pulls := pulls s; sends := sends s; consumed := consumed s; losth := losth s; credit := credit s; log := log s |}.
Definition set_flag (v : bool) (s : st) : st :=
  {| cap := cap s; queue := queue s; popw := popw s; putw := putw s; flag := v; dcode := dcode s; ptask := ptask s; pump := pump s; wst := wst s; ccode := ccode s; recv := recv s; ctl := ctl s; remaining := remaining s; outst := outst s; pulls := pulls s; sends := sends s; consumed := consumed s; losth := losth s; credit := credit s; log := log s |}.
Definition set_dcode (v : Z) (s : st) : st :=
  {| cap := cap s; queue := queue s; popw := popw s; putw := putw s; flag := flag s; dcode := v; ptask := ptask s; pump := pump s; wst := wst s; ccode := ccode s; recv := recv s; ctl := ctl s; remaining := remaining s; outst := outst s; pulls := pulls s; sends := sends s; consumed := consumed s; losth := losth s; credit := credit s; log := log s |}.
Definition set_ptask (v : bool) (s : st) : st :=
  {| cap := cap s; queue := queue s; popw := popw s; putw := putw s; flag := flag s; dcode := dcode s; ptask := v; pump := pump s; wst := wst s; ccode := ccode s; recv := recv s; ctl := ctl s; remaining := remaining s; outst := outst s; pulls := pulls s; sends := sends s; consumed := consumed s; losth := losth s; credit := credit s; log := log s |}.
Definition set_pump (v : ppc) (s : st) : st :=
  {| cap := cap s; queue := queue s; popw := popw s; putw := putw s; flag := flag s; dcode := dcode s; ptask := ptask s; pump := v; wst := wst s; ccode := ccode s; recv := recv s; ctl := ctl s; remaining := remaining s; outst := outst s; pulls := pulls s; sends := sends s; consumed := consumed s; losth := losth s; credit := credit s; log := log s |}.
Definition set_wst (v : wstate) (s : st) : st :=
  {| cap := cap s; queue := queue s; popw := popw s; putw := putw s; flag := flag s; dcode := dcode s; ptask := ptask s; pump := pump s; wst := v; ccode := ccode s; recv := recv s; ctl := ctl s; remaining := remaining s; outst := outst s; pulls := pulls s; sends := sends s; consumed := consumed s; losth := losth s; credit := credit s; log := log s |}.
Definition set_ccode (v : option Z) (s : st) : st :=
  {| cap := cap s; queue := queue s; popw := popw s; putw := putw s; flag := flag s; dcode := dcode s; ptask := ptask s; pump := pump s; wst := wst s; ccode := v; recv := recv s; ctl := ctl s; remaining := remaining s; outst := outst s; pulls := pulls s; sends := sends s; consumed := consumed s; losth := losth s; credit := credit s; log := log s |}.
Definition set_recv (v : rpc) (s : st) : st :=
  {| cap := cap s; queue := queue s; popw := popw s; putw := putw s; flag := flag s; dcode := dcode s; ptask := ptask s; pump := pump s; wst := wst s; ccode := ccode s; recv := v; ctl := ctl s; remaining := remaining s; outst := outst s; pulls := pulls s; sends := sends s; consumed := consumed s; losth := losth s; credit := credit s; log := log s |}.
Definition set_ctl (v : cpc) (s : st) : st :=
  {| cap := cap s; queue := queue s; popw := popw s; putw := putw s; flag := flag s; dcode := dcode s; ptask := ptask s; pump := pump s; wst := wst s; ccode := ccode s; recv := recv s; ctl := v; remaining := remaining s; outst := outst s; pulls := pulls s; sends := sends s; consumed := consumed s; losth := losth s; credit := credit s; log := log s |}.
Definition set_remaining (v : list ev) (s : st) : st :=
  {| cap := cap s; queue := queue s; popw := popw s; putw := putw s; flag := flag s; dcode := dcode s; ptask := ptask s; pump := pump s; wst := wst s; ccode := ccode s; recv := recv s; ctl := ctl s; remaining := v; outst := outst s; pulls := pulls s; sends := sends s; consumed := consumed s; losth := losth s; credit := credit s; log := log s |}.
Definition set_outst (v : nat) (s : st) : st :=
  {| cap := cap s; queue := queue s; popw := popw s; putw := putw s; flag := flag s; dcode := dcode s; ptask := ptask s; pump := pump s; wst := wst s; ccode := ccode s; recv := recv s; ctl := ctl s; remaining := remaining s; outst := v; pulls := pulls s; sends := sends s; consumed := consumed s; losth := losth s; credit := credit s; log := log s |}.
Definition set_pulls (v : nat) (s : st) : st :=
  {| cap := cap s; queue := queue s; popw := popw s; putw := putw s; flag := flag s; dcode := dcode s; ptask := ptask s; pump := pump s; wst := wst s; ccode := ccode s; recv := recv s; ctl := ctl s; remaining := remaining s; outst := outst s; pulls := v; sends := sends s; consumed := consumed s; losth := losth s; credit := credit s; log := log s |}.
Definition set_sends (v : list sev) (s : st) : st :=
  {| cap := cap s; queue := queue s; popw := popw s; putw := putw s; flag := flag s; dcode := dcode s; ptask := ptask s; pump := pump s; wst := wst s; ccode := ccode s; recv := recv s; ctl := ctl s; remaining := remaining s; outst := outst s; pulls := pulls s; sends := v; consumed := consumed s; losth := losth s; credit := credit s; log := log s |}.
Definition set_consumed (v : list (ev * bool)) (s : st) : st :=
  {| cap := cap s; queue := queue s; popw := popw s; putw := putw s; flag := flag s; dcode := dcode s; ptask := ptask s; pump := pump s; wst := wst s; ccode := ccode s; recv := recv s; ctl := ctl s; remaining := remaining s; outst := outst s; pulls := pulls s; sends := sends s; consumed := v; losth := losth s; credit := credit s; log := log s |}.
Definition set_losth (v : list ev) (s : st) : st :=
  {| cap := cap s; queue := queue s; popw := popw s; putw := putw s; flag := flag s; dcode := dcode s; ptask := ptask s; pump := pump s; wst := wst s; ccode := ccode s; recv := recv s; ctl := ctl s; remaining := remaining s; outst := outst s; pulls := pulls s; sends := sends s; consumed := consumed s; losth := v; credit := credit s; log := log s |}.
Definition set_credit (v : nat) (s : st) : st :=
  {| cap := cap s; queue := queue s; popw := popw s; putw := putw s; flag := flag s; dcode := dcode s; ptask := ptask s; pump := pump s; wst := wst s; ccode := ccode s; recv := recv s; ctl := ctl s; remaining := remaining s; outst := outst s; pulls := pulls s; sends := sends s; consumed := consumed s; losth := losth s; credit := v; log := log s |}.
Definition set_log (v : list obs) (s : st) : st :=
  {| cap := cap s; queue := queue s; popw := popw s; putw := putw s; flag := flag s; dcode := dcode s; ptask := ptask s; pump := pump s; wst := wst s; ccode := ccode s; recv := recv s; ctl := ctl s; remaining := remaining s; outst := outst s; pulls := pulls s; sends := sends s; consumed := consumed s; losth := losth s; credit := credit s; log := v |}.

Definition code_of (c : option Z) : Z := match c with Some z => z | None => 1000%Z end.

Definition pump_finished (p : ppc) : bool :=
  match p with PDone | PCancelled => true | _ => false end.

Definition init (cp : nat) (sent : list ev) : st :=
  {| cap := cp; queue := []; popw := false; putw := FNone; flag := false; dcode := 0%Z;
     ptask := negb (cp =? 0); pump := if cp =? 0 then PNone else PStart;
     wst := Accepted; ccode := None; recv := RIdle; ctl := CIdle;
     remaining := sent; outst := 0; pulls := 0; sends := [];
     consumed := []; losth := []; credit := 0; log := [] |}.

Definition logr (k : opk) (r : res) (s : st) : st := set_log (log s ++ [(k, r)]) s.

(* ------------------------------------------------------------------ _pump *)

(* `while not self.client_disconnected:` + `await self._asgi_receive()` *)
Definition pump_loop (s : st) : st :=
  if flag s then set_pump PDone s
  else set_pump PAwaitServer (set_outst (S (outst s)) (set_pulls (S (pulls s)) s)).

(* `# Notify receive()` *)
Definition wake_pop (s : st) : st :=
  if popw s then
    set_popw false (match recv s with RAwaitPop _ => set_recv (RAwaitPop true) s | _ => s end)
  else s.

(* `while len(self._messages) >= self._max_queue:` ... append ... notify *)
Definition put_phase (e : ev) (s : st) : st :=
  if cap s <=? length (queue s) then set_putw FPending (set_pump (PAwaitPut e) s)
  else pump_loop (wake_pop (set_queue (queue s ++ [e]) s)).

Definition note_disc (e : ev) (s : st) : st :=
  match e with
  | Disc c => set_flag true (set_dcode (code_of c) s)
  | Msg _ => s
  end.

Definition step_pump (s : st) : option st :=
  match pump s with
  | PStart => Some (pump_loop s)
  | PHave e => Some (put_phase e (note_disc e s))
  | PPutWoken e => Some (put_phase e (set_putw FNone s))      (* finally: waiter = None *)
  | PCancelling fin => Some (set_pump PCancelled (if fin then set_putw FNone s else s))
  | _ => None
  end.

(* ------------------------------------------------------------------ the ASGI server *)

Definition step_server (s : st) : option st :=
  match remaining s, outst s with
  | e :: r, S k =>
    match pump s with
    | PAwaitServer => Some (set_pump (PHave e) (set_outst k (set_remaining r s)))
    | _ =>
      match recv s with
      | RAwaitServer => Some (set_recv (RHave e) (set_outst k (set_remaining r s)))
      | _ => None
      end
    end
  | _, _ => None
  end.

(* ------------------------------------------------------------------ receive_text *)

(* WebSocket._receive after the event arrived, and the tail of receive_text *)
Definition finish_event (e : ev) (s : st) : st :=
  match e with
  | Msg n => logr KRecv (VMsg n) (set_recv RIdle s)
  | Disc c =>
    logr KRecv (EDisc (Some (code_of c)))
         (set_recv RIdle (set_wst Closed (set_ccode (Some (code_of c)) s)))
  end.

(* `# Notify _pump()`; None = set_result on a cancelled future: InvalidStateError *)
Definition notify_put (fixed : bool) (s : st) : option st :=
  match putw s with
  | FNone => Some s
  | FPending =>
    Some (set_putw FNone (match pump s with PAwaitPut e => set_pump (PPutWoken e) s | _ => s end))
  | FCancelled => if fixed then Some (set_putw FNone s) else None
  end.

(* _BufferedReceiver.receive from `while not self._messages:` on *)
Definition recv_loop (fixed : bool) (s : st) : st :=
  match queue s with
  | [] => set_popw true (set_recv (RAwaitPop false) s)
  | m :: q =>
    let s1 := set_queue q s in
    match notify_put fixed s1 with
    | Some s2 => finish_event m (set_consumed (consumed s ++ [(m, true)]) s2)
    | None => logr KRecv EInvalidState
                   (set_recv RIdle (set_consumed (consumed s ++ [(m, false)]) s1))
    end
  end.

(* repaired receive() on a stopped receiver (fixes/C17-receive-after-stopped-receiver.patch):
   what is queued is delivered in order, then a disconnect event carrying the client's code
   if the client is known to have disconnected *)
Definition recv_stopped (s : st) : st :=
  match queue s with
  | m :: q => finish_event m (set_consumed (consumed s ++ [(m, true)]) (set_queue q s))
  | [] => finish_event (Disc (if flag s then Some (dcode s) else None)) s
  end.

Definition recv_call (fixed : bool) (s : st) : option st :=
  match recv s with
  | RIdle =>
    match wst s with
    | Closed => Some (logr KRecv (EDisc (ccode s)) s)          (* _require_accepted *)
    | Accepted =>
      if cap s =? 0 then                                       (* pass-through *)
        Some (set_recv RAwaitServer (set_outst (S (outst s)) (set_pulls (S (pulls s)) s)))
      else if popw s then Some (logr KRecv EAssert s)
      else if negb (ptask s) then
        (* the receiver was stopped by close() but the socket is not CLOSED *)
        if fixed then Some (recv_stopped s) else Some (logr KRecv EAssert s)
      else Some (recv_loop fixed s)
    end
  | _ => None
  end.

Definition recv_runnable (s : st) : bool :=
  match recv s with
  | RAwaitPop ld => ld || pump_finished (pump s)
  | RHave _ | RCancelling _ => true
  | _ => false
  end.

Definition recv_run (fixed : bool) (s : st) : option st :=
  match recv s with
  | RAwaitPop ld =>
    if ld || pump_finished (pump s) then
      let s1 := set_popw false s in                            (* finally *)
      if ld then Some (recv_loop fixed s1)
      else Some (finish_event (Disc None) s1)                  (* pump ended: synthetic event *)
    else None
  | RHave e => Some (finish_event e (set_consumed (consumed s ++ [(e, true)]) s))
  | RCancelling fin =>
    Some (logr KRecv ECancelled (set_recv RIdle (if fin then set_popw false s else s)))
  | _ => None
  end.

(* task.cancel() on the receiving task.  In pass-through mode a cancellation that races
   with the resolution of the server's own future (RHave) is between asyncio and the
   server, no falcon code is involved: not a label of this system. *)
Definition recv_cancel (s : st) : option st :=
  match recv s with
  | RAwaitPop _ => Some (set_credit (S (credit s)) (set_recv (RCancelling true) s))
  | RAwaitServer =>
    Some (set_credit (S (credit s)) (set_recv (RCancelling false) (set_outst (pred (outst s)) s)))
  | _ => None
  end.

(* ------------------------------------------------------------------ send_text *)

Definition send_op (n : N) (s : st) : st :=
  match wst s with
  | Closed => logr KSend (EDisc (ccode s)) s                   (* _require_accepted *)
  | Accepted =>
    if flag s then
      logr KSend (EDisc (Some (dcode s))) (set_wst Closed (set_ccode (Some (dcode s)) s))
    else logr KSend VOk (set_sends (sends s ++ [SText n]) s)
  end.

(* ------------------------------------------------------------------ close *)

Definition is_closed (s : st) : bool :=
  match wst s with Closed => true | Accepted => flag s end.

Definition close_rest (s0 : st) : st :=
  let s := set_ctl CIdle s0 in
  if is_closed s then logr KClose VOk s
  else logr KClose VOk
            (set_sends (sends s ++ [SClose 1000%Z]) (set_wst Closed (set_ccode (Some 1000%Z) s))).

(* self._pump_task.cancel() *)
Definition cancel_pump (s : st) : st :=
  match pump s with
  | PStart => set_pump (PCancelling false) s
  | PAwaitServer => set_pump (PCancelling false) (set_outst (pred (outst s)) s)
  | PHave e => set_pump (PCancelling false) (set_losth (losth s ++ [e]) s)
  | PAwaitPut e =>
    set_pump (PCancelling true) (set_putw FCancelled (set_losth (losth s ++ [e]) s))
  | PPutWoken e => set_pump (PCancelling true) (set_losth (losth s ++ [e]) s)
  | _ => s
  end.

Definition close_call (s0 : st) : option st :=
  match ctl s0 with
  | CIdle =>
    let s := set_credit (S (credit s0)) s0 in
    if negb (ptask s) then Some (close_rest s)
    else
      let s1 := cancel_pump s in
      if pump_finished (pump s1) then Some (close_rest (set_ptask false s1))
      else Some (set_ctl CStopping s1)
  | CStopping => None
  end.

Definition close_run (s : st) : option st :=
  match ctl s with
  | CStopping =>
    if pump_finished (pump s) then Some (close_rest (set_ptask false s)) else None
  | CIdle => None
  end.

(* ------------------------------------------------------------------ the system *)

Definition step (fixed : bool) (l : label) (s : st) : option st :=
  match l with
  | LServer => step_server s
  | LPump => step_pump s
  | LRecvCall => recv_call fixed s
  | LRecvRun => recv_run fixed s
  | LRecvCancel => recv_cancel s
  | LSend n => Some (send_op n s)
  | LCloseCall => close_call s
  | LCloseRun => close_run s
  | LCloseBad =>
    (* repaired close(): the code is validated before anything else, the call has no effect.
       (The code as found stopped the receiver first; that behaviour is modelled and refuted
       in C17 -- C17_misuse_table_refuted_before_fix -- and is not a label of the pre-fix
       system here.) *)
    if fixed then match ctl s with CIdle => Some (logr KClose EValueErr s) | CStopping => None end
    else None
  end.

(* labels that are not enabled are skipped *)
Fixpoint run (fixed : bool) (ls : list label) (s : st) : st :=
  match ls with
  | [] => s
  | l :: tl => run fixed tl (match step fixed l s with Some s' => s' | None => s end)
  end.

(* ------------------------------------------------------------------ public observation *)

(* task status: 0 idle / no call in progress, 1 runnable, 2 blocked, 3 finished, 4 none *)
Definition pump_status (s : st) : nat :=
  match pump s with
  | PNone => 4
  | PStart | PHave _ | PPutWoken _ | PCancelling _ => 1
  | PAwaitServer | PAwaitPut _ => 2
  | PDone | PCancelled => 3
  end.

Definition recv_status (s : st) : nat :=
  match recv s with
  | RIdle => 0
  | _ => if recv_runnable s then 1 else 2
  end.

Definition ctl_status (s : st) : nat :=
  match ctl s with
  | CIdle => 0
  | CStopping => if pump_finished (pump s) then 1 else 2
  end.

Record obsv := mkObs { o_outst : nat; o_pulls : nat; o_closed : bool;
                       o_p : nat; o_r : nat; o_c : nat }.

Definition observe (s : st) : obsv :=
  {| o_outst := outst s; o_pulls := pulls s; o_closed := is_closed s;
     o_p := pump_status s; o_r := recv_status s; o_c := ctl_status s |}.
