(* C18 — the invariant holds in every reachable state; consequences stated clause by clause. *)
From Coq Require Import ZArith NArith List Bool Arith Lia.
From Falcon.C18 Require Import Model Spec Proofs ProofsPump ProofsRecv ProofsCtl.
Import ListNotations.

Lemma logr_inv sent k r s : Inv sent s -> Inv sent (logr k r s).
Proof. intros []. constructor; assumption. Qed.

Theorem step_inv sent l s s' : Inv sent s -> step true l s = Some s' -> Inv sent s'.
Proof.
  intros H Hs. destruct l; cbn in Hs.
  - eapply step_server_inv; eauto.
  - eapply step_pump_inv; eauto.
  - eapply recv_call_inv; eauto.
  - eapply recv_run_inv; eauto.
  - eapply recv_cancel_inv; eauto.
  - inversion Hs; subst. apply send_op_inv; assumption.
  - eapply close_call_inv; eauto.
  - eapply close_run_inv; eauto.
  - destruct (ctl s); [|discriminate]. inversion Hs; subst. apply logr_inv. assumption.
Qed.

Theorem run_inv sent ls : forall s, Inv sent s -> Inv sent (run true ls s).
Proof.
  induction ls as [|l tl IH]; intros s H; cbn; [assumption|].
  apply IH. destruct (step true l s) eqn:E; [eapply step_inv; eauto | assumption].
Qed.

Theorem reachable_inv cp sent ls : Inv sent (run true ls (init cp sent)).
Proof. apply run_inv, inv_init. Qed.

Ltac cap_tac :=
  repeat (cbn;
    match goal with
    | |- context [match ?x with _ => _ end] => destruct x
    | |- context [if ?x then _ else _] => destruct x
    end); cbn; try reflexivity.

Lemma cap_logr k r s : cap (logr k r s) = cap s. Proof. reflexivity. Qed.
Lemma cap_pump_loop s : cap (pump_loop s) = cap s. Proof. unfold pump_loop. cap_tac. Qed.
Lemma cap_wake_pop s : cap (wake_pop s) = cap s. Proof. unfold wake_pop. cap_tac. Qed.
Lemma cap_put_phase e s : cap (put_phase e s) = cap s.
Proof. unfold put_phase. destruct (cap s <=? length (queue s)); cbn; [reflexivity|]. rewrite cap_pump_loop, cap_wake_pop. reflexivity. Qed.
Lemma cap_note_disc e s : cap (note_disc e s) = cap s. Proof. destruct e; reflexivity. Qed.
Lemma cap_finish_event e s : cap (finish_event e s) = cap s. Proof. destruct e; reflexivity. Qed.
Lemma cap_recv_loop f s : cap (recv_loop f s) = cap s.
Proof.
  unfold recv_loop. destruct (queue s); [reflexivity|]. unfold notify_put; cbn.
  destruct (putw s); cbn; try (rewrite cap_finish_event; cbn; try reflexivity).
  - destruct (pump s); reflexivity.
  - destruct f; cbn; [rewrite cap_finish_event|]; reflexivity.
Qed.
Lemma cap_recv_stopped s : cap (recv_stopped s) = cap s.
Proof. unfold recv_stopped. destruct (queue s); rewrite cap_finish_event; reflexivity. Qed.
Lemma cap_close_rest s : cap (close_rest s) = cap s.
Proof. unfold close_rest. destruct (is_closed (set_ctl CIdle s)); reflexivity. Qed.
Lemma cap_cancel_pump s : cap (cancel_pump s) = cap s.
Proof. unfold cancel_pump. destruct (pump s); reflexivity. Qed.

Lemma cap_const l s s' f : step f l s = Some s' -> cap s' = cap s.
Proof.
  destruct l; cbn; unfold step_server, step_pump, recv_call, recv_run, recv_cancel, close_call,
    close_run; intro H;
  repeat match goal with
         | H : match ?x with _ => _ end = Some _ |- _ => destruct x eqn:?; try discriminate
         | H : (if ?x then _ else _) = Some _ |- _ => destruct x eqn:?; try discriminate
         end; inversion H; subst; clear H; cbn;
  rewrite ?cap_logr, ?cap_put_phase, ?cap_note_disc, ?cap_pump_loop, ?cap_finish_event,
    ?cap_recv_loop, ?cap_recv_stopped, ?cap_close_rest; cbn; rewrite ?cap_cancel_pump; try reflexivity.
  all: try (destruct fin; reflexivity).
  unfold send_op. cap_tac.
Qed.

Lemma run_cap f ls : forall s, cap (run f ls s) = cap s.
Proof.
  induction ls as [|l tl IH]; intro s; cbn; [reflexivity|].
  rewrite IH. destruct (step f l s) eqn:E; [eapply cap_const; eauto | reflexivity].
Qed.

(* ------------------------------------------------------------------ consequences *)

Ltac use_inv H s :=
  destruct H as [Hfifo Htrue Hqb Houtst Hmode Hputw Hparked Hrecv Hflag Hpulls Hlost Hptask];
  destruct s as [cap queue popw putw flag dcode ptask pump wst ccode recv ctl remaining outst pulls
                     sends consumed losth credit log];
  unfold held, hand in *; cbn in *.

Lemma inv_bounded sent s : Inv sent s ->
  length (queue s) <= cap s /\ length (queue s) + length (hand s) + length (losth s) + outst s <= cap s + 1.
Proof.
  intro H. use_inv H s. split; [assumption|].
  destruct (cap =? 0) eqn:E.
  - apply Nat.eqb_eq in E. brk. subst. cbn. destruct recv; cbn; lia.
  - brk. destruct pump; cbn in *; destruct recv; cbn in *; brk; subst; cbn in *; try lia;
    try match goal with H : context [if ?b then _ else _] |- _ => destruct b; brk; try lia end.
Qed.

Lemma inv_single_pull sent s : Inv sent s ->
  outst s <= 1 /\ (forall e, pump s = PAwaitPut e -> outst s = 0 /\ length (queue s) = cap s).
Proof.
  intro H. use_inv H s. split.
  - destruct recv; destruct pump; destruct (cap =? 0); cbn in *; brk; try lia; try discriminate; try congruence.
  - intros e ->. cbn in *. destruct (cap =? 0); brk; [discriminate|].
    destruct recv; brk; cbn in *; lia.
Qed.

Lemma inv_fifo sent s : Inv sent s ->
  map fst (consumed s) ++ queue s ++ hand s ++ losth s ++ remaining s = sent
  /\ Forall (fun p => snd p = true) (consumed s)
  /\ (pump_cancel (pump s) = false -> losth s = []).
Proof.
  intro H. pose proof (i_lost _ _ H) as Hl. destruct H. repeat split; try assumption.
  intro E. rewrite E in Hl. assumption.
Qed.

Lemma inv_no_lost_wakeup sent s ld : Inv sent s ->
  recv s = RAwaitPop ld -> queue s <> [] -> ld = true /\ recv_runnable s = true.
Proof.
  intros H Hr Hq. use_inv H s. subst. destruct ld; cbn; [auto|]. brk. congruence.
Qed.

(* a receiver that waits while the pump holds an event: the pump is runnable and its step
   makes the receiver runnable *)
Lemma inv_wakeup_progress sent s e : Inv sent s -> cap s <> 0 ->
  recv s = RAwaitPop false -> hand s = [e] ->
  exists s', step_pump s = Some s' /\ recv s' = RAwaitPop true /\ queue s' = [e].
Proof.
  intros H Hc Hr Hh. use_inv H s. destruct cap as [|cp']; [congruence|]. cbn in *.
  destruct recv as [|ld| | |]; try discriminate. inversion Hr; subst ld. brk.
  unfold step_pump; cbn.
  destruct pump; cbn in *; try discriminate; inversion Hh; subst; cbn in *.
  - eexists; split; [reflexivity|]. unfold put_phase, note_disc; destruct e; cbn;
      unfold pump_loop, wake_pop; cbn;
      repeat match goal with |- context [if ?b then _ else _] => destruct b; cbn end; auto.
  - lia.
  - eexists; split; [reflexivity|]. unfold put_phase; cbn;
      unfold pump_loop, wake_pop; cbn;
      repeat match goal with |- context [if ?b then _ else _] => destruct b; cbn end; auto.
Qed.

Definition res_of (m : ev) : res :=
  match m with Msg n => VMsg n | Disc c => EDisc (Some (code_of c)) end.

Lemma inv_recv_delivers_head sent s ld m q : Inv sent s ->
  recv s = RAwaitPop ld -> queue s = m :: q ->
  exists s', recv_run true s = Some s' /\ log s' = log s ++ [(KRecv, res_of m)] /\ queue s' = q
             /\ consumed s' = consumed s ++ [(m, true)].
Proof.
  intros H Hr Hq. use_inv H s. subst. destruct ld; brk.
  unfold recv_run, recv_loop, notify_put; cbn.
  destruct putw; cbn; try (destruct pump; cbn);
    eexists; (split; [reflexivity|]); destruct m; cbn; auto.
Qed.

Lemma inv_sender_prompt sent s n : Inv sent s -> is_closed s = true ->
  exists c, log (send_op n s) = log s ++ [(KSend, EDisc c)].
Proof.
  intros _ Hc. destruct s; unfold send_op, is_closed in *; cbn in *.
  destruct wst; cbn; [rewrite Hc; cbn|]; eexists; reflexivity.
Qed.

Lemma pump_sets_flag s c s' :
  pump s = PHave (Disc c) -> step_pump s = Some s' -> flag s' = true /\ dcode s' = code_of c.
Proof.
  intros Hp Hs. destruct s; cbn in *; subst. unfold step_pump in Hs; cbn in Hs.
  inversion Hs; subst; clear Hs. unfold put_phase, pump_loop, wake_pop; cbn.
  repeat match goal with |- context [if ?b then _ else _] => destruct b; cbn end;
  repeat match goal with |- context [match ?b with _ => _ end] => destruct b; cbn end; auto.
Qed.

Lemma inv_after_disconnect_no_pull sent s : Inv sent s -> flag s = true ->
  outst s = 0 /\ step_server s = None.
Proof.
  intros H Hf. use_inv H s. unfold step_server; cbn.
  destruct pump; destruct recv; destruct (cap =? 0); cbn in *; brk; try congruence;
    subst outst; (split; [reflexivity|]); destruct remaining; reflexivity.
Qed.

Lemma inv_stopped sent s : Inv sent s -> ptask s = false ->
  pump s = PNone \/ pump_finished (pump s) = true.
Proof. intros H Hp. pose proof (i_ptask _ _ H) as Hq. rewrite Hp in Hq. tauto. Qed.

Lemma close_completes sent l s s' : Inv sent s -> (l = LCloseCall \/ l = LCloseRun) ->
  step true l s = Some s' -> ctl s' = CIdle ->
  ptask s' = false /\ (pump s' = PNone \/ pump_finished (pump s') = true)
  /\ exists r, log s' = log s ++ [(KClose, r)].
Proof.
  intros H Hl Hs Hc. assert (H' : Inv sent s') by (eapply step_inv; eauto).
  assert (Hp : ptask s' = false /\ exists r, log s' = log s ++ [(KClose, r)]).
  { destruct s. destruct Hl; subst l; cbn in Hs; unfold close_call, close_run in Hs; cbn in Hs.
    - destruct ctl; [|discriminate]. destruct ptask; cbn in Hs.
      + unfold cancel_pump in Hs; cbn in Hs.
        destruct pump; cbn in Hs; inversion Hs; subst; try discriminate;
          unfold close_rest; cbn;
          match goal with |- context [if ?b then _ else _] => destruct b; cbn end; eauto.
      + inversion Hs; subst. unfold close_rest; cbn.
        match goal with |- context [if ?b then _ else _] => destruct b; cbn end; eauto.
    - destruct ctl; [discriminate|]. destruct (pump_finished pump); [|discriminate].
      inversion Hs; subst. unfold close_rest; cbn.
      match goal with |- context [if ?b then _ else _] => destruct b; cbn end; eauto. }
  destruct Hp as [Hp Hlog]. repeat split; auto. eapply inv_stopped; eauto.
Qed.

Lemma pt_pump_loop s : ptask (pump_loop s) = ptask s. Proof. unfold pump_loop. cap_tac. Qed.
Lemma pt_wake_pop s : ptask (wake_pop s) = ptask s. Proof. unfold wake_pop. cap_tac. Qed.
Lemma pt_put_phase e s : ptask (put_phase e s) = ptask s.
Proof. unfold put_phase. destruct (cap s <=? length (queue s)); cbn; [reflexivity|]. rewrite pt_pump_loop, pt_wake_pop. reflexivity. Qed.
Lemma pt_note_disc e s : ptask (note_disc e s) = ptask s. Proof. destruct e; reflexivity. Qed.
Lemma pt_finish_event e s : ptask (finish_event e s) = ptask s. Proof. destruct e; reflexivity. Qed.
Lemma pt_recv_loop f s : ptask (recv_loop f s) = ptask s.
Proof.
  unfold recv_loop. destruct (queue s); [reflexivity|]. unfold notify_put; cbn.
  destruct (putw s); cbn; try (rewrite pt_finish_event; cbn; try reflexivity).
  - destruct (pump s); reflexivity.
  - destruct f; cbn; [rewrite pt_finish_event|]; reflexivity.
Qed.
Lemma pt_recv_stopped s : ptask (recv_stopped s) = ptask s.
Proof. unfold recv_stopped. destruct (queue s); rewrite pt_finish_event; reflexivity. Qed.
Lemma pt_close_rest s : ptask (close_rest s) = ptask s.
Proof. unfold close_rest. destruct (is_closed (set_ctl CIdle s)); reflexivity. Qed.
Lemma pt_cancel_pump s : ptask (cancel_pump s) = ptask s.
Proof. unfold cancel_pump. destruct (pump s); reflexivity. Qed.

Lemma ptask_stable l s s' : ptask s = false -> step true l s = Some s' -> ptask s' = false.
Proof.
  intros Hp.
  destruct l; cbn; unfold step_server, step_pump, recv_call, recv_run, recv_cancel, close_call,
    close_run; intro H;
  repeat match goal with
         | H : match ?x with _ => _ end = Some _ |- _ => destruct x eqn:?; try discriminate
         | H : (if ?x then _ else _) = Some _ |- _ => destruct x eqn:?; try discriminate
         end; inversion H; subst; clear H; cbn;
  rewrite ?pt_put_phase, ?pt_note_disc, ?pt_pump_loop, ?pt_finish_event,
    ?pt_recv_loop, ?pt_recv_stopped, ?pt_close_rest; cbn; rewrite ?pt_cancel_pump; try assumption; try reflexivity.
  all: try (destruct fin; assumption).
  unfold send_op. cap_tac; assumption.
Qed.

Lemma inv_passthrough sent s : Inv sent s -> cap s = 0 ->
  pump s = PNone /\ queue s = [] /\ flag s = false /\ ptask s = false.
Proof. intros H Hc. pose proof (i_mode _ _ H) as Hm. rewrite Hc in Hm. cbn in Hm. tauto. Qed.
