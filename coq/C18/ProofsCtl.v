From Coq Require Import ZArith NArith List Bool Arith Lia.
From Falcon.C18 Require Import Model Spec Proofs.
Import ListNotations.

Lemma recv_cancel_inv sent s s' : Inv sent s -> recv_cancel s = Some s' -> Inv sent s'.
Proof.
  intros H Hs. open_inv H s. unfold recv_cancel in Hs; cbn in Hs.
  destruct recv as [|ld| |e|fn]; try discriminate; inversion Hs; subst; clear Hs;
    constructor; unfold held, hand; cbn; fin.
Qed.

Lemma send_op_inv sent n s : Inv sent s -> Inv sent (send_op n s).
Proof.
  intros H. open_inv H s. unfold send_op; cbn.
  destruct wst; cbn; [destruct flag; cbn|]; constructor; unfold held, hand; cbn; fin.
Qed.

Lemma close_rest_inv sent s :
  Inv sent (set_ctl CIdle s) -> Inv sent (close_rest s).
Proof.
  intros H. unfold close_rest. destruct (is_closed (set_ctl CIdle s)) eqn:E.
  - open_inv H s. constructor; unfold held, hand; cbn; fin.
  - open_inv H s. constructor; unfold held, hand; cbn; fin.
Qed.

Lemma close_call_inv sent s s' : Inv sent s -> close_call s = Some s' -> Inv sent s'.
Proof.
  intros H Hs. open_inv H s. unfold close_call in Hs; cbn in Hs.
  destruct ctl; [|discriminate].
  destruct ptask; cbn in Hs.
  2:{ inversion Hs; subst; clear Hs. apply close_rest_inv.
      constructor; unfold held, hand; cbn; fin. }
  unfold cancel_pump in Hs; cbn in Hs.
  destruct pump; cbn in Hs; inversion Hs; subst; clear Hs;
  try apply close_rest_inv;
  constructor; unfold held, hand; cbn; fin.
Qed.

Lemma close_run_inv sent s s' : Inv sent s -> close_run s = Some s' -> Inv sent s'.
Proof.
  intros H Hs. unfold close_run in Hs.
  destruct (ctl s) eqn:Ec; [discriminate|].
  destruct (pump_finished (pump s)) eqn:Ef; [|discriminate].
  inversion Hs; subst; clear Hs. apply close_rest_inv.
  open_inv H s; subst. destruct pump; try discriminate; constructor; unfold held, hand; cbn; fin.
Qed.
