(* C18 — the invariant of the transition system and its preservation by every label. *)
From Coq Require Import ZArith NArith List Bool Arith Lia.
From Falcon.C18 Require Import Model Spec.
Import ListNotations.

Definition hand (s : st) : list ev :=
  match pump s with
  | PHave e | PAwaitPut e | PPutWoken e => [e]
  | _ => match recv s with RHave e => [e] | _ => [] end
  end.

Definition pump_cancel (p : ppc) : bool :=
  match p with PCancelling _ | PCancelled => true | _ => false end.

Definition is_disc_ev (e : ev) : bool := match e with Disc _ => true | Msg _ => false end.

(* events the server has handed over so far *)
Definition held (s : st) : nat :=
  length (consumed s) + length (queue s) + length (hand s) + length (losth s).

Record Inv (sent : list ev) (s : st) : Prop := mkInv {
  i_fifo : map fst (consumed s) ++ queue s ++ hand s ++ losth s ++ remaining s = sent;
  i_true : Forall (fun p => snd p = true) (consumed s);
  i_qb : length (queue s) <= cap s;
  i_outst : outst s = (match pump s with PAwaitServer => 1 | _ => 0 end)
                      + (match recv s with RAwaitServer => 1 | _ => 0 end);
  i_mode : if cap s =? 0
           then pump s = PNone /\ queue s = [] /\ flag s = false /\ popw s = false
                /\ putw s = FNone /\ ptask s = false /\ losth s = [] /\ ctl s = CIdle
           else pump s <> PNone
                /\ match recv s with
                   | RAwaitServer | RHave _ | RCancelling false => False
                   | _ => True
                   end;
  i_putw : match pump s, putw s with
           | PAwaitPut _, FPending => True
           | PAwaitPut _, _ => False
           | PCancelling true, FCancelled => True
           | _, FNone => True
           | _, _ => False
           end;
  i_parked : match pump s with PAwaitPut _ => cap s <= length (queue s) | _ => True end;
  i_recv : match recv s with
           | RAwaitPop false => queue s = [] /\ popw s = true /\ pump s <> PDone
           | RAwaitPop true => queue s <> [] /\ popw s = false
           | RCancelling true => True
           | _ => popw s = false
           end;
  i_flag : match pump s with
           | PNone | PStart | PAwaitServer | PHave _ => flag s = false
           | PAwaitPut e | PPutWoken e => flag s = is_disc_ev e
           | PDone => flag s = true /\ (wst s = Closed \/ exists q c, queue s = q ++ [Disc c])
           | _ => True
           end;
  i_pulls : held s + outst s <= pulls s /\ pulls s <= held s + outst s + credit s;
  i_lost : if pump_cancel (pump s) then length (losth s) <= 1 else losth s = [];
  i_ptask : if ptask s
            then pump s <> PNone
                 /\ match ctl s with
                    | CStopping => pump_cancel (pump s) = true
                    | CIdle => pump_cancel (pump s) = false
                    end
            else (pump s = PNone \/ pump_finished (pump s) = true) /\ ctl s = CIdle
}.

Lemma inv_init cp sent : Inv sent (init cp sent).
Proof.
  unfold init. destruct (cp =? 0) eqn:E; constructor; unfold hand; cbn; rewrite ?E; cbn;
    try solve [reflexivity | constructor | lia | exact I | intuition (auto; discriminate)].
Qed.

(* ---- tactics *)
Lemma snoc_last_disc (q : list ev) e :
  is_disc_ev e = true -> exists q' c, q ++ [e] = q' ++ [Disc c].
Proof. destruct e as [n|c]; [discriminate|]. intros _. exists q, c. reflexivity. Qed.

Lemma snoc_not_nil {A} (q : list A) x : q ++ [x] <> [].
Proof. destruct q; discriminate. Qed.

Lemma tail_last_disc (m : ev) q q0 c :
  m :: q = q0 ++ [Disc c] -> (q0 = [] /\ m = Disc c /\ q = []) \/ (exists q1, q = q1 ++ [Disc c]).
Proof.
  destruct q0 as [|x q0]; cbn; intro E; inversion E; subst.
  - left. auto.
  - right. exists q0. reflexivity.
Qed.

Ltac is_constructor_head c :=
  match c with
  | Accepted => idtac | Closed => idtac | CIdle => idtac | CStopping => idtac
  | FNone => idtac | FPending => idtac | FCancelled => idtac
  end.

Ltac fifo_tac :=
  repeat rewrite map_app; cbn [map fst snd app]; repeat rewrite <- app_assoc; cbn [app];
  try reflexivity; try assumption.

Ltac brk :=
  repeat match goal with
         | H : _ /\ _ |- _ => destruct H
         | H : exists _, _ |- _ => destruct H
         | H : _ \/ _ |- _ => destruct H
         | H : False |- _ => destruct H
         | H : ?x <> ?x |- _ => exfalso; apply H; reflexivity
         | H : true = false |- _ => discriminate H
         | H : false = true |- _ => discriminate H
         | H : ?x :: _ = [] |- _ => discriminate H
         | H : [] = ?x :: _ |- _ => discriminate H
         | H : Msg _ = Disc _ |- _ => discriminate H
         | H : Disc _ = Msg _ |- _ => discriminate H
         | H : _ :: _ = _ ++ [Disc _] |- _ => apply tail_last_disc in H
         | H : [] = _ ++ _ :: _ |- _ => destruct (app_cons_not_nil _ _ _ H)
         | H : ?c1 = ?c2 |- _ => is_constructor_head c1; is_constructor_head c2; discriminate H
         end.

Ltac len_tac := repeat rewrite app_length in *; cbn [length] in *; lia.

Ltac leaf0 :=
  solve [ assumption | reflexivity | exact I | lia | discriminate | congruence
        | fifo_tac | len_tac | apply snoc_not_nil
        | (apply Forall_app; split; [assumption | repeat constructor; reflexivity])
        | (eapply snoc_last_disc; reflexivity)
        | (do 2 eexists; reflexivity) ].

Ltac leaf := first [ leaf0 | left; leaf0 | right; leaf0 | left; repeat split; leaf0 | right; repeat split; leaf0 ].

Ltac fin1 := cbn in *; brk; subst; repeat split; try leaf.

Ltac fin :=
  fin1;
  repeat (match goal with
          | |- context [match ?x with _ => _ end] => is_var x; destruct x
          | H : context [match ?x with _ => _ end] |- _ => is_var x; destruct x
          | |- context [?c =? 0] => destruct (c =? 0) eqn:?
          | H : context [?c =? 0] |- _ => destruct (c =? 0) eqn:?
          end; fin1).

Ltac open_inv H s :=
  destruct H as [Hfifo Htrue Hqb Houtst Hmode Hputw Hparked Hrecv Hflag Hpulls Hlost Hptask];
  destruct s as [cap queue popw putw flag dcode ptask pump wst ccode recv ctl remaining outst pulls
                     sends consumed losth credit log];
  unfold held, hand in *; cbn in *.

Lemma step_server_inv sent s s' : Inv sent s -> step_server s = Some s' -> Inv sent s'.
Proof.
  intros H Hs. open_inv H s. unfold step_server in Hs; cbn in Hs.
  destruct remaining as [|e r]; [discriminate|].
  destruct outst as [|k]; [discriminate|].
  destruct pump; try (destruct recv; try discriminate); inversion Hs; subst; clear Hs;
    (constructor; unfold held, hand; fin).
Qed.

