From Coq Require Import ZArith NArith List Bool Arith Lia.
From Falcon.C18 Require Import Model Spec.
Import ListNotations.
