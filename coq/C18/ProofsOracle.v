(* C18 — the Spec monitor accepts every trace of the model (oracle_sound). *)
From Coq Require Import ZArith NArith List Bool Arith Lia.
From Falcon.C18 Require Import Model Spec Proofs ProofsPump ProofsRecv ProofsCtl ProofsInv.
Import ListNotations.

Record RelCore (sent : list ev) (s : st) (m : mon) : Prop := mkRel {
  r_idx : m_idx m = length (consumed s)
          \/ (m_told m = true /\ length (consumed s) = S (m_idx m) /\ wst s = Closed
              /\ recv s = RIdle);
  r_res : m_res m + length (remaining s) = length sent;
  r_credit : m_credit m = credit s;
  r_cc : m_cc m = false ->
         pump_cancel (pump s) = false /\ ptask s = negb (cap s =? 0) /\ ctl s = CIdle;
  r_told : m_told m = false -> m_cc m = false /\ wst s = Accepted
}.

Definition Rel (sent : list ev) (s : st) (m : mon) : Prop :=
  RelCore sent s m /\ m_prev m = is_closed s
  /\ (m_pdisc m = true -> m_cc m = true \/ exists c, pump s = PHave (Disc c)).

Lemma skipn_len_app {A} (l r : list A) : skipn (length l) (l ++ r) = r.
Proof. induction l; cbn; auto. Qed.
Lemma skipn_len {A} (l : list A) : skipn (length l) l = [].
Proof. induction l; cbn; auto. Qed.

Lemma nth_error_mid {A B} (f : A -> B) (c : list A) (m : B) r :
  nth_error (map f c ++ m :: r) (length c) = Some m.
Proof. induction c; cbn; auto. Qed.

Lemma nth_error_pre {A} (pre : list A) e r k :
  k + length (e :: r) = length (pre ++ e :: r) -> nth_error (pre ++ e :: r) k = Some e.
Proof.
  rewrite app_length. intro H. assert (k = length pre) by lia. subst.
  rewrite nth_error_app2 by lia. rewrite Nat.sub_diag. reflexivity.
Qed.

(* the results a step appends to the log, and the monitor's reaction to label + results *)
Definition news (s s' : st) : list obs := skipn (length (log s)) (log s').

Definition after_res (sent : list ev) (l : label) (s s' : st) (m : mon) : mon * list N :=
  fold_left (mon_res sent (o_p (observe s'))) (news s s') (mon_label (cap s) sent l m, []).

Ltac open_rel R m :=
  destruct R as [Ridx Rres Rcredit Rcc Rtold];
  destruct m as [idx told res credit' prev pdisc cc]; cbn in *.

Ltac open_all H R s m :=
  destruct H as [Hfifo Htrue Hqb Houtst Hmode Hputw Hparked Hrecv Hflag Hpulls Hlost Hptask];
  destruct R as [Ridx Rres Rcredit Rcc Rtold];
  destruct m as [idx told res credit' prev pdisc cc];
  destruct s as [cap queue popw putw flag dcode ptask pump wst ccode recv ctl remaining outst pulls
                     sends consumed losth credit log];
  unfold held, hand, after_res, news in *; cbn in *.

Ltac spec :=
  repeat match goal with
         | H : ?x = ?x -> _ |- _ => specialize (H eq_refl)
         | H : true = false -> _ |- _ => clear H
         | H : false = true -> _ |- _ => clear H
         end.

Ltac lens := repeat rewrite ?app_length, ?map_length in *; cbn [length] in *.

(* goal-directed case splitting only (the Inv hypotheses are mostly irrelevant here) *)
Ltac gfin1 := cbn in *; brk; subst; repeat split; try leaf.
Ltac gfin :=
  gfin1;
  repeat (match goal with
          | |- context [match ?x with _ => _ end] => is_var x; destruct x
          | |- context [?c =? 0] => destruct (c =? 0) eqn:?
          end; gfin1).

Lemma N_eqb_refl' n : N.eqb n n = true. Proof. apply N.eqb_refl. Qed.
Lemma Z_eqb_refl' z : Z.eqb z z = true. Proof. apply Z.eqb_refl. Qed.

Ltac use_nth :=
  try match goal with
      | Hn : nth_error ?a ?b = _ |- context [nth_error ?a ?b] => rewrite Hn
      end; cbn; rewrite ?N_eqb_refl', ?Z_eqb_refl'; cbn.

(* told / cc are destructed first so that the implications of RelCore compute *)
Ltac relgo told cc :=
  destruct told; destruct cc; cbn in *; spec; brk; try discriminate; subst;
  rewrite ?skipn_len_app, ?skipn_len; cbn; use_nth;
  (split; [try reflexivity | constructor; cbn; intros; spec; lens; try (timeout 10 gfin)]).

Ltac drop_inv :=
  repeat match goal with
         | H : Forall _ _ |- _ => clear H
         | H : length _ <= _ |- _ => clear H
         end.

Ltac inv_some Hs := injection Hs as Hs; rewrite <- Hs; clear Hs.

Lemma A_server sent s s' m : Inv sent s -> RelCore sent s m -> step_server s = Some s' ->
  snd (after_res sent LServer s s' m) = [] /\ RelCore sent s' (fst (after_res sent LServer s s' m)).
Proof.
  intros H R Hs. open_all H R s m. unfold step_server in Hs; cbn in Hs.
  destruct remaining as [|e r]; [discriminate|].
  destruct outst as [|k]; [discriminate|].
  destruct pump; try (destruct recv; try discriminate); inversion Hs; subst; clear Hs;
  relgo told cc.
Qed.

Ltac gcase := repeat match goal with |- context [match ?x with _ => _ end] => is_var x; destruct x; cbn end.

Lemma A_pump sent s s' m : Inv sent s -> RelCore sent s m -> step_pump s = Some s' ->
  snd (after_res sent LPump s s' m) = [] /\ RelCore sent s' (fst (after_res sent LPump s s' m)).
Proof.
  intros H R Hs. open_all H R s m. unfold step_pump in Hs; cbn in Hs.
  clear Hfifo Htrue Hqb Hputw Hparked Hpulls Hlost Hrecv Hflag Houtst Hmode Hptask.
  destruct pump as [| | |e|e|e|fn| |]; inversion Hs; subst; clear Hs.
  - unfold pump_loop; cbn. destruct flag; relgo told cc.
  - unfold put_phase, note_disc, pump_loop, wake_pop.
    destruct e as [n|c]; cbn; (destruct (Nat.leb_spec cap (length queue)); cbn; [relgo told cc|]);
    destruct popw; cbn; try destruct flag; cbn; try destruct recv; cbn; relgo told cc.
  - unfold put_phase, pump_loop, wake_pop. cbn.
    destruct (Nat.leb_spec cap (length queue)); cbn; [relgo told cc|].
    destruct popw; destruct flag; cbn; try destruct recv; cbn; relgo told cc.
  - destruct fn; relgo told cc.
Qed.

Lemma A_recv_call sent s s' m : Inv sent s -> RelCore sent s m -> recv_call true s = Some s' ->
  snd (after_res sent LRecvCall s s' m) = [] /\ RelCore sent s' (fst (after_res sent LRecvCall s s' m)).
Proof.
  intros H R Hs. open_all H R s m. unfold recv_call in Hs; cbn in Hs.
  destruct recv; try discriminate.
  destruct wst.
  2:{ inv_some Hs. clear Hfifo. relgo told cc. }
  destruct (cap =? 0) eqn:Ec.
  { inv_some Hs. clear Hfifo. cbn; rewrite ?Ec. relgo told cc. }
  destruct popw. { brk. }
  destruct ptask; cbn in Hs.
  2:{ inv_some Hs. unfold recv_stopped; cbn. destruct queue as [|m q]; cbn.
      - clear Hfifo. destruct flag; cbn; rewrite ?Ec; relgo told cc.
      - assert (Hn : nth_error sent (length consumed) = Some m) by (rewrite <- Hfifo; apply nth_error_mid).
        clear Hfifo Htrue Hqb Hparked Hpulls Hlost Hrecv Houtst.
        destruct m; cbn; rewrite ?Ec; relgo told cc. }
  inv_some Hs.
  unfold recv_loop; cbn.
  destruct queue as [|m q]; cbn.
  - clear Hfifo. relgo told cc.
  - assert (Hn : nth_error sent (length consumed) = Some m) by (rewrite <- Hfifo; apply nth_error_mid).
    clear Hfifo Htrue Hqb Hparked Hpulls Hlost Hrecv Houtst Hmode.
    unfold notify_put; cbn. destruct putw; cbn.
    + destruct m; cbn; relgo told cc.
    + destruct pump; cbn; try (exfalso; exact Hputw); destruct m; cbn; relgo told cc.
    + destruct m; cbn; relgo told cc.
Qed.

Lemma A_recv_run sent s s' m : Inv sent s -> RelCore sent s m -> recv_run true s = Some s' ->
  snd (after_res sent LRecvRun s s' m) = [] /\ RelCore sent s' (fst (after_res sent LRecvRun s s' m)).
Proof.
  intros H R Hs. open_all H R s m. unfold recv_run in Hs; cbn in Hs.
  destruct recv as [|ld| |e|fn]; try discriminate.
  - destruct ld; cbn in Hs.
    + inv_some Hs. unfold recv_loop; cbn.
      destruct queue as [|m q]; cbn; [brk; congruence|].
      assert (Hn : nth_error sent (length consumed) = Some m) by (rewrite <- Hfifo; apply nth_error_mid).
      clear Hfifo Htrue Hqb Hparked Hpulls Hlost Hrecv Houtst Hmode.
      unfold notify_put; cbn. destruct putw; cbn.
      * destruct m; cbn; relgo told cc.
      * destruct pump; cbn; try (exfalso; exact Hputw); destruct m; cbn; relgo told cc.
      * destruct m; cbn; relgo told cc.
    + destruct (pump_finished pump) eqn:Ef; [|discriminate]. inv_some Hs.
      clear Hfifo Htrue Hqb Hparked Hpulls Hlost Houtst.
      destruct pump; try discriminate; cbn; relgo told cc.
  - inv_some Hs.
    assert (Hn : nth_error sent (length consumed) = Some e).
    { rewrite <- Hfifo. destruct (cap =? 0); brk; subst; cbn; apply nth_error_mid. }
    clear Hfifo Htrue Hqb Hparked Hpulls Hlost Hrecv Houtst Hmode.
    destruct e; cbn; relgo told cc.
  - inv_some Hs. clear Hfifo. destruct fn; cbn; relgo told cc.
Qed.

Lemma A_recv_cancel sent s s' m : Inv sent s -> RelCore sent s m -> recv_cancel s = Some s' ->
  snd (after_res sent LRecvCancel s s' m) = [] /\ RelCore sent s' (fst (after_res sent LRecvCancel s s' m)).
Proof.
  intros H R Hs. open_all H R s m. unfold recv_cancel in Hs; cbn in Hs. clear Hfifo.
  destruct recv as [|ld| |e|fn]; try discriminate; inv_some Hs; relgo told cc.
Qed.

Lemma A_send sent n s m : Inv sent s -> RelCore sent s m -> m_prev m = is_closed s ->
  snd (after_res sent (LSend n) s (send_op n s) m) = []
  /\ RelCore sent (send_op n s) (fst (after_res sent (LSend n) s (send_op n s) m)).
Proof.
  intros H R Hp. open_all H R s m. clear Hfifo. unfold send_op, is_closed in *; cbn in *.
  destruct wst; cbn in *; [destruct flag; cbn in *|]; subst prev; relgo told cc.
Qed.

Lemma A_close_rest sent l s0 s m :
  (l = LCloseCall \/ l = LCloseRun) ->
  log s = log s0 -> cap s = cap s0 ->
  pump s = PNone \/ pump_finished (pump s) = true ->
  RelCore sent (set_ctl CIdle s) (mon_label (cap s0) sent l m) ->
  m_cc (mon_label (cap s0) sent l m) = true -> 
  snd (after_res sent l s0 (close_rest s) m) = []
  /\ RelCore sent (close_rest s) (fst (after_res sent l s0 (close_rest s) m)).
Proof.
  intros Hl Hlog Hcap Hp R Hcc. unfold after_res, news.
  assert (Hps : (pump_status (close_rest s) =? 3) || (pump_status (close_rest s) =? 4) = true).
  { unfold close_rest. destruct (is_closed (set_ctl CIdle s)); cbn; unfold pump_status; cbn;
      destruct Hp as [-> | Hp]; auto; destruct (pump s); try discriminate; auto. }
  unfold close_rest in *. destruct (is_closed (set_ctl CIdle s)) eqn:E; cbn in *;
    rewrite <- Hlog, skipn_len_app; cbn; rewrite Hps; cbn; (split; [reflexivity|]).
  - destruct R. constructor; cbn in *; auto.
  - destruct R as [Ridx Rres Rcredit Rcc Rtold].
    destruct l; try (destruct Hl; discriminate); cbn in *; constructor; cbn; auto; try discriminate;
    try (destruct Ridx as [|[? [? [? ?]]]]; [left; assumption | right; repeat split; auto]).
    intro Ht; destruct (Rtold Ht) as [X _]; congruence.
Qed.

Lemma relcore_told_cc sent s s2 m m2 :
  RelCore sent s m ->
  consumed s2 = consumed s -> remaining s2 = remaining s -> wst s2 = wst s -> recv s2 = recv s ->
  m_idx m2 = m_idx m -> m_res m2 = m_res m -> m_credit m2 = credit s2 ->
  m_told m2 = true -> m_cc m2 = true ->
  RelCore sent s2 m2.
Proof.
  intros [Ridx Rres Rcredit Rcc Rtold] Hc Hr Hw Hrc Hi Hre Hcr Ht Hcc.
  constructor; rewrite ?Hc, ?Hr, ?Hw, ?Hrc, ?Hi, ?Hre, ?Ht, ?Hcc; auto; try discriminate.
  destruct Ridx as [|[? [? [? ?]]]]; [left; assumption | right; repeat split; auto].
Qed.

Lemma A_close_call sent s s' m : Inv sent s -> RelCore sent s m -> close_call s = Some s' ->
  snd (after_res sent LCloseCall s s' m) = [] /\ RelCore sent s' (fst (after_res sent LCloseCall s s' m)).
Proof.
  intros H R Hs. unfold close_call in Hs.
  destruct (ctl s) eqn:Ec; [|discriminate].
  pose proof (i_ptask _ _ H) as Hpt.
  destruct (ptask s) eqn:Ep; cbn in Hs; rewrite Ep in Hs; cbn in Hs.
  - destruct (pump_finished (pump (cancel_pump (set_credit (S (credit s)) s)))) eqn:Ef; inv_some Hs.
    + apply A_close_rest; auto.
      * unfold cancel_pump; cbn. destruct (pump s); reflexivity.
      * unfold cancel_pump; cbn. destruct (pump s); reflexivity.
      * eapply relcore_told_cc; eauto; unfold cancel_pump; cbn; destruct (pump s); cbn; try reflexivity;
          rewrite (r_credit _ _ _ R); reflexivity.
    + unfold after_res, news.
      assert (El : log (set_ctl CStopping (cancel_pump (set_credit (S (credit s)) s))) = log s)
        by (unfold cancel_pump; cbn; destruct (pump s); reflexivity).
      rewrite El, skipn_len. cbn. split; [reflexivity|].
      eapply relcore_told_cc; eauto; unfold cancel_pump; cbn; destruct (pump s); cbn; try reflexivity;
        rewrite (r_credit _ _ _ R); reflexivity.
  - inv_some Hs. apply A_close_rest; auto.
    + cbn. tauto.
    + eapply relcore_told_cc; eauto; cbn; try reflexivity. rewrite (r_credit _ _ _ R); reflexivity.
Qed.

Lemma A_close_run sent s s' m : Inv sent s -> RelCore sent s m -> close_run s = Some s' ->
  snd (after_res sent LCloseRun s s' m) = [] /\ RelCore sent s' (fst (after_res sent LCloseRun s s' m)).
Proof.
  intros H R Hs. unfold close_run in Hs.
  destruct (ctl s) eqn:Ec; [discriminate|].
  destruct (pump_finished (pump s)) eqn:Ef; [|discriminate]. inv_some Hs.
  assert (Hcc : m_cc m = true).
  { destruct (m_cc m) eqn:E; [reflexivity|]. destruct (r_cc _ _ _ R E) as [_ [_ X]]. congruence. }
  assert (Ht : m_told m = true).
  { destruct (m_told m) eqn:E; [reflexivity|]. destruct (r_told _ _ _ R E) as [X _]. congruence. }
  apply A_close_rest; auto.
  cbn. eapply relcore_told_cc; eauto. apply (r_credit _ _ _ R).
Qed.

Lemma A_close_bad sent s s' m : Inv sent s -> RelCore sent s m ->
  step true LCloseBad s = Some s' ->
  snd (after_res sent LCloseBad s s' m) = [] /\ RelCore sent s' (fst (after_res sent LCloseBad s s' m)).
Proof.
  intros H R Hs. cbn in Hs. destruct (ctl s) eqn:Ec; [|discriminate]. injection Hs as <-.
  unfold after_res, news. cbn. rewrite skipn_len_app. cbn. split; [reflexivity|].
  destruct R. constructor; cbn; auto.
Qed.

Lemma A_all sent l s s' m : Inv sent s -> Rel sent s m -> step true l s = Some s' ->
  snd (after_res sent l s s' m) = [] /\ RelCore sent s' (fst (after_res sent l s s' m)).
Proof.
  intros H [R [Hp _]] Hs. destruct l; cbn in Hs.
  - apply A_server; auto.
  - apply A_pump; auto.
  - apply A_recv_call; auto.
  - apply A_recv_run; auto.
  - apply A_recv_cancel; auto.
  - injection Hs as <-. apply A_send; auto.
  - apply A_close_call; auto.
  - apply A_close_run; auto.
  - apply A_close_bad; auto.
Qed.

(* mon_res never touches m_pdisc, m_cc *)
Lemma mon_res_fields sent ps mf o :
  m_pdisc (fst (mon_res sent ps mf o)) = m_pdisc (fst mf)
  /\ m_cc (fst (mon_res sent ps mf o)) = m_cc (fst mf).
Proof.
  destruct mf as [m f]. destruct o as [k r]. unfold mon_res.
  destruct k; destruct r; cbn;
    repeat match goal with |- context [if ?b then _ else _] => destruct b eqn:?; cbn end; auto.
Qed.

Lemma fold_res_fields sent ps rs : forall mf,
  m_pdisc (fst (fold_left (mon_res sent ps) rs mf)) = m_pdisc (fst mf)
  /\ m_cc (fst (fold_left (mon_res sent ps) rs mf)) = m_cc (fst mf).
Proof.
  induction rs as [|o rs IH]; intro mf; cbn; [auto|].
  destruct (IH (mon_res sent ps mf o)) as [A B]. destruct (mon_res_fields sent ps mf o) as [C D].
  split; congruence.
Qed.

Lemma blocked_nothing_held sent s m : Inv sent s -> RelCore sent s m ->
  m_told m = false -> recv_status s = 2 -> pump_status s <> 1 -> m_res m = m_idx m.
Proof.
  intros H R Ht Hr Hp.
  destruct R as [Ridx Rres Rcredit Rcc Rtold]. destruct (Rtold Ht) as [Hcc Hw]. destruct (Rcc Hcc) as [Hpc [Hpt Hctl]].
  destruct Ridx as [Hi|[X _]]; [|congruence].
  pose proof (i_fifo _ _ H) as Hf. pose proof (i_lost _ _ H) as Hl. rewrite Hpc in Hl.
  pose proof (i_recv _ _ H) as Hrc. pose proof (i_mode _ _ H) as Hm. pose proof (i_parked _ _ H) as Hpk.
  apply (f_equal (@length _)) in Hf. repeat rewrite app_length in Hf. rewrite map_length in Hf.
  rewrite Hl in Hf. cbn in Hf.
  assert (length (queue s) = 0 /\ length (hand s) = 0); [|lia].
  unfold recv_status, recv_runnable, pump_status, hand in *.
  destruct s; cbn in *.
  destruct recv; cbn in *; try discriminate; try (destruct ld; cbn in *; try discriminate);
    destruct pump; cbn in *; try discriminate; try congruence; brk; subst; cbn in *;
    try (destruct (cap =? 0) eqn:E; brk; try discriminate; try congruence; subst; cbn in *; auto);
    try (apply Nat.eqb_neq in E; lia); auto.
Qed.

Lemma ph_finish_event x s : pump (finish_event x s) = pump s. Proof. destruct x; reflexivity. Qed.
Lemma ph_recv_loop f s e : pump s = PHave e -> pump (recv_loop f s) = PHave e.
Proof.
  intro Hp. unfold recv_loop. destruct (queue s); [exact Hp|]. unfold notify_put; cbn.
  destruct (putw s); cbn; try (rewrite ph_finish_event; cbn; try exact Hp).
  - rewrite Hp. cbn. exact Hp.
  - destruct f; cbn; [rewrite ph_finish_event|]; exact Hp.
Qed.
Lemma ph_recv_stopped s : pump (recv_stopped s) = pump s.
Proof. unfold recv_stopped. destruct (queue s); rewrite ph_finish_event; reflexivity. Qed.
Lemma ph_close_rest s : pump (close_rest s) = pump s.
Proof. unfold close_rest. destruct (is_closed (set_ctl CIdle s)); reflexivity. Qed.
Lemma ph_send_op n s : pump (send_op n s) = pump s.
Proof. unfold send_op. destruct (wst s); [destruct (flag s)|]; reflexivity. Qed.

Lemma pump_keeps_have l s s' e : pump s = PHave e -> step true l s = Some s' ->
  l <> LPump -> l <> LCloseCall -> pump s' = PHave e.
Proof.
  intros Hp Hs H1 H2.
  destruct l; try congruence; cbn in Hs;
    unfold step_server, recv_call, recv_run, recv_cancel, close_run in Hs;
  repeat match goal with
         | H : match ?x with _ => _ end = Some _ |- _ => destruct x eqn:?; try discriminate
         | H : (if ?x then _ else _) = Some _ |- _ => destruct x eqn:?; try discriminate
         end; injection Hs as <-; cbn;
  rewrite ?ph_finish_event, ?ph_recv_stopped, ?ph_close_rest, ?ph_send_op; cbn; try assumption; try congruence;
  try (apply ph_recv_loop; assumption).
  all: try (destruct fin; assumption).
Qed.

Lemma mon_step_ok sent l s s' m : Inv sent s -> Rel sent s m -> step true l s = Some s' ->
  snd (mon_step (cap s) sent m l (news s s') (observe s')) = []
  /\ Rel sent s' (fst (mon_step (cap s) sent m l (news s s') (observe s'))).
Proof.
  intros H R Hs.
  pose proof (A_all _ _ _ _ _ H R Hs) as [Hf1 RC].
  pose proof (step_inv _ _ _ _ H Hs) as H'.
  pose proof (cap_const _ _ _ _ Hs) as Hcap.
  unfold mon_step. unfold after_res in *.
  destruct (fold_res_fields sent (o_p (observe s')) (news s s') (mon_label (cap s) sent l m, [])) as [Fpd Fcc].
  destruct (fold_left (mon_res sent (o_p (observe s'))) (news s s') (mon_label (cap s) sent l m, []))
    as [m2 f1] eqn:Efold. cbn [fst snd] in *. subst f1.
  (* clause 2 *)
  assert (F2 : (o_outst (observe s') <=? 1)
       && (o_pulls (observe s') <=? m_idx m2 + cap s + 1 + m_credit m2 + (if m_told m2 then 1 else 0)) = true).
  { apply andb_true_intro. pose proof (inv_single_pull _ _ H') as [Ho _].
    pose proof (inv_bounded _ _ H') as [_ Hb]. pose proof (i_pulls _ _ H') as [_ Hpl].
    split; [apply Nat.leb_le; exact Ho|]. apply Nat.leb_le. cbn.
    rewrite (r_credit _ _ _ RC). rewrite <- Hcap. unfold held in Hpl.
    destruct (r_idx _ _ _ RC) as [Hi|[Ht [Hc _]]].
    - lia.
    - rewrite Ht. lia. }
  rewrite F2.
  (* clause 3 *)
  assert (F3 : match l with
               | LPump => if m_pdisc m && negb (m_cc m) && negb (o_closed (observe s')) then [3%N] else []
               | _ => [] end = []).
  { destruct l; try reflexivity. destruct (m_pdisc m) eqn:Epd; [|reflexivity].
    destruct (m_cc m) eqn:Ecc; [reflexivity|]. cbn.
    destruct R as [_ [_ Rp]]. destruct (Rp Epd) as [X|[c Hc]]; [congruence|].
    cbn in Hs. destruct (pump_sets_flag _ _ _ Hc Hs) as [Hfl _].
    unfold is_closed. rewrite Hfl. destruct (wst s'); reflexivity. }
  rewrite F3.
  (* clause 5 *)
  assert (F5 : negb (m_told m2) && (o_r (observe s') =? 2) && negb (o_p (observe s') =? 1)
               && negb (m_res m2 =? m_idx m2) = false).
  { destruct (m_told m2) eqn:Et; [reflexivity|]. cbn [negb andb].
    destruct (o_r (observe s') =? 2) eqn:Er; [|reflexivity].
    destruct (o_p (observe s') =? 1) eqn:Ep; [reflexivity|]. cbn [negb andb].
    apply Nat.eqb_eq in Er. apply Nat.eqb_neq in Ep. cbn in Er, Ep.
    rewrite (blocked_nothing_held _ _ _ H' RC Et Er Ep). rewrite Nat.eqb_refl. reflexivity. }
  rewrite F5. cbn [app]. split; [reflexivity|].
  (* Rel for the next step *)
  split; [|split].
  - destruct RC. constructor; cbn; auto.
  - reflexivity.
  - cbn. destruct R as [RC0 [_ Rp]].
    destruct l; try discriminate; intro Hpd; rewrite Fpd in Hpd; rewrite Fcc; cbn in Hpd |- *.
    + (* LServer *)
      apply andb_true_iff in Hpd as [Hc0 Hdisc]. right.
      apply negb_true_iff in Hc0.
      pose proof (i_mode _ _ H) as Hm. rewrite Hc0 in Hm. destruct Hm as [_ Hm].
      pose proof (i_fifo _ _ H) as Hfifo. destruct RC0 as [_ Rres _ _ _].
      cbn in Hs. unfold step_server in Hs.
      destruct (remaining s) as [|e r] eqn:Er; [discriminate|].
      destruct (outst s); [discriminate|].
      assert (Hn : nth_error sent (m_res m) = Some e).
      { rewrite <- Hfifo in *. rewrite !app_assoc. rewrite !app_assoc in Rres. apply nth_error_pre. exact Rres. }
      rewrite Hn in Hdisc. destruct e as [n0|c]; [discriminate|].
      destruct (pump s); try (destruct (recv s); try discriminate; destruct Hm; fail);
        injection Hs as <-; cbn; eauto.
    + destruct (Rp Hpd) as [X|[c Hc]]; [left; assumption | right; exists c; eapply pump_keeps_have; eauto; discriminate].
    + destruct (Rp Hpd) as [X|[c Hc]]; [left; assumption | right; exists c; eapply pump_keeps_have; eauto; discriminate].
    + destruct (Rp Hpd) as [X|[c Hc]]; [left; assumption | right; exists c; eapply pump_keeps_have; eauto; discriminate].
    + destruct (Rp Hpd) as [X|[c Hc]]; [left; assumption | right; exists c; eapply pump_keeps_have; eauto; discriminate].
    + left; reflexivity.
    + destruct (Rp Hpd) as [X|[c Hc]]; [left; assumption | right; exists c; eapply pump_keeps_have; eauto; discriminate].
    + destruct (Rp Hpd) as [X|[c Hc]]; [left; assumption | right; exists c; eapply pump_keeps_have; eauto; discriminate].
Qed.

Lemma rel_init cp sent : Rel sent (init cp sent) mon0.
Proof.
  unfold Rel, init, mon0. split; [|split]; cbn.
  - constructor; cbn; auto. destruct (cp =? 0); auto.
  - reflexivity.
  - discriminate.
Qed.

Lemma oracle_from_sound sent ls : forall s m i, Inv sent s -> Rel sent s m ->
  oracle_from (cap s) sent m i (trace_of true ls s) = [].
Proof.
  induction ls as [|l tl IH]; intros s m i H R; cbn; [reflexivity|].
  destruct (step true l s) as [s'|] eqn:Hs; [|apply IH; assumption].
  cbn. pose proof (mon_step_ok _ _ _ _ _ H R Hs) as [Hf R']. unfold news in *.
  destruct (mon_step (cap s) sent m l (skipn (length (log s)) (log s')) (observe s')) as [m' f].
  cbn in *. subst f. cbn.
  rewrite <- (cap_const _ _ _ _ Hs). apply IH; [eapply step_inv; eauto | assumption].
Qed.

Theorem oracle_sound cp sent ls : oracle cp sent (trace_of true ls (init cp sent)) = [].
Proof.
  unfold oracle.
  replace cp with (cap (init cp sent)) at 1 by reflexivity.
  apply oracle_from_sound; [apply inv_init | apply rel_init].
Qed.
