From Coq Require Import ZArith NArith List Bool Arith.
From Coq Require Import ExtrOcamlBasic.
From Falcon.lib Require Import Wire.
From Falcon.C18 Require Import Model Spec.
Import ListNotations.
Open Scope Z_scope.

Definition d_ev (v : val) : ev :=
  match v with
  | L [I 0; n] => Msg (dN n)
  | L [I _; c] => Disc (Some (dZ c))
  | _ => Disc None
  end.

Definition d_label (v : val) : label :=
  match v with
  | L [I 0] => LServer
  | L [I 1] => LPump
  | L [I 2] => LRecvCall
  | L [I 3] => LRecvRun
  | L [I 4] => LRecvCancel
  | L [I 5; n] => LSend (dN n)
  | L [I 6] => LCloseCall
  | L [I 7] => LCloseRun
  | _ => LCloseBad
  end.

Definition d_res (v : val) : res :=
  match v with
  | L [I 0; n] => VMsg (dN n)
  | L [I 1] => VOk
  | L [I 2] => EDisc None
  | L [I 2; c] => EDisc (Some (dZ c))
  | L [I 3] => ECancelled
  | L [I 4] => EAssert
  | L [I 5] => EInvalidState
  | _ => EValueErr
  end.

Definition d_opk (v : val) : opk :=
  match v with I 0 => KRecv | I 1 => KSend | _ => KClose end.

Definition d_obs (v : val) : obs := (d_opk (nth_val 0 v), d_res (nth_val 1 v)).

Definition d_obsv (v : val) : obsv :=
  {| o_outst := dnat (nth_val 0 v); o_pulls := dnat (nth_val 1 v); o_closed := dbool (nth_val 2 v);
     o_p := dnat (nth_val 3 v); o_r := dnat (nth_val 4 v); o_c := dnat (nth_val 5 v) |}.

Definition d_entry (v : val) : entry :=
  (d_label (nth_val 0 v), dlist d_obs (nth_val 1 v), d_obsv (nth_val 2 v)).

Definition v_res (r : res) : val :=
  match r with
  | VMsg n => L [I 0; vN n]
  | VOk => L [I 1]
  | EDisc None => L [I 2]
  | EDisc (Some c) => L [I 2; I c]
  | ECancelled => L [I 3]
  | EAssert => L [I 4]
  | EInvalidState => L [I 5]
  | EValueErr => L [I 6]
  end.

Definition v_opk (k : opk) : val := I (match k with KRecv => 0 | KSend => 1 | KClose => 2 end).
Definition v_obs (o : obs) : val := L [v_opk (fst o); v_res (snd o)].
Definition v_obsv (o : obsv) : val :=
  L [vnat (o_outst o); vnat (o_pulls o); vbool (o_closed o); vnat (o_p o); vnat (o_r o);
     vnat (o_c o)].
Definition v_sev (e : sev) : val :=
  match e with SText n => L [I 0; vN n] | SClose c => L [I 1; I c] end.

(* per label: [enabled; new results; observation] *)
Fixpoint run_trace (fixed : bool) (ls : list label) (s : st) : list val * st :=
  match ls with
  | [] => ([], s)
  | l :: tl =>
    match step fixed l s with
    | Some s' =>
      let (r, sf) := run_trace fixed tl s' in
      (L [I 1; vlist v_obs (skipn (length (log s)) (log s')); v_obsv (observe s')] :: r, sf)
    | None =>
      let (r, sf) := run_trace fixed tl s in
      (L [I 0; L []; v_obsv (observe s)] :: r, sf)
    end
  end.

(* advisory view of private state *)
Definition v_priv (s : st) : val :=
  L [vnat (length (queue s)); vbool (popw s);
     I (match putw s with FNone => 0 | FPending => 1 | FCancelled => 2 end);
     vbool (flag s); vbool (ptask s)].

(* ops: 1 run the model on a label sequence; 2 evaluate the oracle on an observed trace;
   3 like 1 but also returns the private view after every step *)
Definition run (v : val) : val :=
  match v with
  | L [I 1; fx; cp; sent; ls] =>
    let s0 := init (dnat cp) (dlist d_ev sent) in
    let (r, sf) := run_trace (dbool fx) (dlist d_label ls) s0 in
    L [L r; vlist v_sev (sends sf); v_obsv (observe s0)]
  | L [I 2; cp; sent; tr] =>
    vlist (fun p => L [vnat (fst p); vN (snd p)])
          (oracle (dnat cp) (dlist d_ev sent) (dlist d_entry tr))
  | L [I 3; fx; cp; sent; ls] =>
    let fix go (ls : list label) (s : st) : list val :=
      match ls with
      | [] => []
      | l :: tl => let s' := match step (dbool fx) l s with Some s' => s' | None => s end in
                   v_priv s' :: go tl s'
      end in
    L (go (dlist d_label ls) (init (dnat cp) (dlist d_ev sent)))
  | _ => L [I (-1)]
  end.

Extraction "C18/model.ml" run.
