From Coq Require Import ZArith NArith List Bool Arith Lia.
From Falcon.C18 Require Import Model Spec Proofs.
Import ListNotations.
Lemma step_pump_inv sent s s' : Inv sent s -> step_pump s = Some s' -> Inv sent s'.
Proof.
  intros H Hs. open_inv H s. unfold step_pump in Hs; cbn in Hs.
  destruct pump as [| | |e|e|e|fn| |]; inversion Hs; subst; clear Hs.
  - (* PStart *) unfold pump_loop; cbn. constructor; unfold held, hand. all: fin.
  - (* PHave *)
    unfold put_phase, note_disc, pump_loop, wake_pop.
    destruct e as [n|c]; cbn; (destruct (Nat.leb_spec cap (length queue)); cbn;
      [constructor; unfold held, hand; fin|]).
    + destruct popw; cbn; constructor; unfold held, hand; fin.
    + destruct popw; cbn; constructor; unfold held, hand; fin.
  - (* PPutWoken *)
    unfold put_phase, pump_loop, wake_pop. cbn.
    destruct (Nat.leb_spec cap (length queue)); cbn; [constructor; unfold held, hand; fin|].
    destruct popw; cbn; destruct e; cbn; constructor; unfold held, hand; fin.
  - destruct fn; constructor; unfold held, hand; fin.
Qed.
