(* C18 — the statements exported to Props.v, over every reachable state. *)
From Coq Require Import ZArith NArith List Bool Arith Lia.
From Falcon.C18 Require Import Model Spec Proofs ProofsPump ProofsRecv ProofsCtl ProofsInv ProofsOracle.
Import ListNotations.

Definition reach (cp : nat) (sent : list ev) (ls : list label) : st := run true ls (init cp sent).

Lemma reach_cap cp sent ls : cap (reach cp sent ls) = cp.
Proof. unfold reach. rewrite run_cap. reflexivity. Qed.

Lemma bounded cp sent ls : let s := reach cp sent ls in
  length (queue s) <= cp
  /\ length (queue s) + length (hand s) + length (losth s) + outst s <= cp + 1.
Proof.
  cbv zeta. pose proof (inv_bounded _ _ (reachable_inv cp sent ls)) as H.
  fold (reach cp sent ls) in H. rewrite reach_cap in H. exact H.
Qed.

Lemma single_pull cp sent ls : let s := reach cp sent ls in
  outst s <= 1 /\ (forall e, pump s = PAwaitPut e -> outst s = 0 /\ length (queue s) = cp).
Proof.
  cbv zeta. pose proof (inv_single_pull _ _ (reachable_inv cp sent ls)) as H.
  fold (reach cp sent ls) in H. rewrite reach_cap in H. exact H.
Qed.

Lemma fifo_lossless cp sent ls : let s := reach cp sent ls in
  map fst (consumed s) ++ queue s ++ hand s ++ losth s ++ remaining s = sent
  /\ Forall (fun p => snd p = true) (consumed s)
  /\ (pump_cancel (pump s) = false -> losth s = []).
Proof. apply (inv_fifo _ _ (reachable_inv cp sent ls)). Qed.

Lemma no_lost_wakeup cp sent ls ld m q : let s := reach cp sent ls in
  recv s = RAwaitPop ld -> queue s = m :: q ->
  ld = true /\ recv_runnable s = true
  /\ exists s', step true LRecvRun s = Some s' /\ log s' = log s ++ [(KRecv, res_of m)]
                /\ queue s' = q /\ consumed s' = consumed s ++ [(m, true)].
Proof.
  cbv zeta. intros Hr Hq. pose proof (reachable_inv cp sent ls) as H. fold (reach cp sent ls) in H.
  assert (Hne : queue (reach cp sent ls) <> []) by (rewrite Hq; discriminate).
  destruct (inv_no_lost_wakeup _ _ _ H Hr Hne) as [A B]. repeat split; auto.
  apply (inv_recv_delivers_head _ _ _ _ _ H Hr Hq).
Qed.

Lemma wakeup_progress cp sent ls e : let s := reach cp sent ls in
  cp <> 0 -> recv s = RAwaitPop false -> hand s = [e] ->
  exists s', step true LPump s = Some s' /\ recv s' = RAwaitPop true /\ queue s' = [e].
Proof.
  cbv zeta. intros Hc Hr Hh. pose proof (reachable_inv cp sent ls) as H. fold (reach cp sent ls) in H.
  apply (inv_wakeup_progress _ _ _ H); auto. rewrite reach_cap. exact Hc.
Qed.

Lemma sender_prompt cp sent ls : let s := reach cp sent ls in
  (forall c s', pump s = PHave (Disc c) -> step true LPump s = Some s' ->
                flag s' = true /\ dcode s' = code_of c /\ is_closed s' = true)
  /\ (forall n, is_closed s = true -> exists c, log (send_op n s) = log s ++ [(KSend, EDisc c)])
  /\ (flag s = true -> outst s = 0 /\ step true LServer s = None).
Proof.
  cbv zeta. pose proof (reachable_inv cp sent ls) as H. fold (reach cp sent ls) in H.
  split; [|split].
  - intros c s' Hp Hs. destruct (pump_sets_flag _ _ _ Hp Hs) as [A B]. repeat split; auto.
    unfold is_closed. rewrite A. destruct (wst s'); reflexivity.
  - intros n Hc. apply (inv_sender_prompt _ _ n H Hc).
  - intro Hf. apply (inv_after_disconnect_no_pull _ _ H Hf).
Qed.

Lemma close_stops_pump cp sent ls l s' : let s := reach cp sent ls in
  (l = LCloseCall \/ l = LCloseRun) -> step true l s = Some s' -> ctl s' = CIdle ->
  (exists r, log s' = log s ++ [(KClose, r)])
  /\ forall ls', let s'' := run true ls' s' in
       ptask s'' = false /\ (pump s'' = PNone \/ pump_finished (pump s'') = true).
Proof.
  cbv zeta. intros Hl Hs Hc. pose proof (reachable_inv cp sent ls) as H. fold (reach cp sent ls) in H.
  destruct (close_completes _ _ _ _ H Hl Hs Hc) as [Hp [_ Hlog]]. split; [exact Hlog|].
  assert (H' : Inv sent s') by (eapply step_inv; eauto).
  intro ls'. clear Hs Hc Hlog. revert s' H' Hp. induction ls' as [|l' tl IH]; intros s' H' Hp; cbn.
  - split; [assumption | eapply inv_stopped; eauto].
  - destruct (step true l' s') eqn:E.
    + apply IH; [eapply step_inv; eauto | eapply ptask_stable; eauto].
    + apply IH; assumption.
Qed.

Lemma passthrough sent ls : let s := reach 0 sent ls in
  pump s = PNone /\ queue s = [] /\ flag s = false /\ ptask s = false.
Proof.
  cbv zeta. pose proof (reachable_inv 0 sent ls) as H. fold (reach 0 sent ls) in H.
  apply (inv_passthrough _ _ H). apply reach_cap.
Qed.

(* the code as found: close() racing with receive() while the pump is parked on a full queue *)
Definition race_sent : list ev := [Msg 1; Msg 2; Msg 3].
Definition race_labels : list label :=
  [LPump; LServer; LPump; LServer; LPump; LCloseCall; LRecvCall].

Lemma put_waiter_race_refuted_before_fix :
  exists cp sent ls,
    In (KRecv, EInvalidState) (log (run false ls (init cp sent)))
    /\ oracle cp sent (trace_of false ls (init cp sent)) <> []
    /\ ~ In (KRecv, EInvalidState) (log (run true ls (init cp sent)))
    /\ log (run true ls (init cp sent)) = [(KRecv, VMsg 1)].
Proof.
  exists 1, race_sent, race_labels.
  assert (E1 : log (run false race_labels (init 1 race_sent)) = [(KRecv, EInvalidState)])
    by (vm_compute; reflexivity).
  assert (E2 : log (run true race_labels (init 1 race_sent)) = [(KRecv, VMsg 1)])
    by (vm_compute; reflexivity).
  rewrite E1, E2. split; [left; reflexivity|]. split; [vm_compute; discriminate|].
  split; [|reflexivity]. intros [X|[]]. discriminate.
Qed.

(* a close() that rejects its argument has no effect on the receiver at all *)
Lemma rejected_close_is_noop s s' :
  step true LCloseBad s = Some s' ->
  s' = logr KClose EValueErr s /\ pump s' = pump s /\ ptask s' = ptask s /\ queue s' = queue s
  /\ outst s' = outst s.
Proof.
  cbn. destruct (ctl s); [|discriminate]. intro H. injection H as <-. repeat split; reflexivity.
Qed.
