(* C01 — a converter with bounds vetoes everything outside them (for every bound, zero included). *)
From Coq Require Import ZArith NArith List Bool Lia.
From Falcon.lib Require Import PyStr.
From Falcon.C01 Require Import Model.
Import ListNotations.
Open Scope Z_scope.

Theorem int_convert_bounds nd mn mx s z :
  int_convert nd mn mx s = Some z ->
  (forall m, mn = Some m -> m <= z) /\ (forall m, mx = Some m -> z <= m) /\
  (forall n, nd = Some n -> Z.of_nat (length s) = n).
Proof.
  unfold int_convert. intro H.
  destruct (match nd with Some n => negb (Z.of_nat (length s) =? n) | None => false end) eqn:E1; [discriminate|].
  destruct (strip_changes s); [discriminate|].
  destruct (int_of_str s) as [v|]; [|discriminate].
  destruct (match mn with Some m => v <? m | None => false end) eqn:E2; [discriminate|].
  destruct (match mx with Some m => m <? v | None => false end) eqn:E3; [discriminate|].
  injection H as <-. repeat split.
  - intros m ->. apply Z.ltb_ge in E2. exact E2.
  - intros m ->. apply Z.ltb_ge in E3. exact E3.
  - intros n ->. apply negb_false_iff, Z.eqb_eq in E1. exact E1.
Qed.

Theorem float_convert_bounds mn mx fin tbl s v :
  float_convert mn mx fin tbl s = Some v ->
  exists x, tbl_get tbl s = Some x /\ v = VOther (f_repr x) /\
            (fin = true -> f_finite x = true) /\
            (forall b, mn = Some b -> f_lt x b = false) /\ (forall b, mx = Some b -> f_gt x b = false).
Proof.
  unfold float_convert. intro H. destruct (strip_changes s); [discriminate|].
  destruct (tbl_get tbl s) as [x|]; [|discriminate]. exists x.
  destruct (fin && negb (f_finite x)) eqn:E1; [discriminate|].
  destruct (match mn with Some b => f_lt x b | None => false end) eqn:E2; [discriminate|].
  destruct (match mx with Some b => f_gt x b | None => false end) eqn:E3; [discriminate|].
  injection H as <-. split; [reflexivity|]. split; [reflexivity|]. repeat split.
  - intros ->. simpl in E1. apply negb_false_iff in E1. exact E1.
  - intros b ->. exact E2.
  - intros b ->. exact E3.
Qed.

(* on a finite value the two comparisons are the order of the rationals *)
Lemma f_lt_num n d r b : f_lt (FNum n d r) b = (n * snd b <? fst b * d).
Proof. reflexivity. Qed.
Lemma f_gt_num n d r b : f_gt (FNum n d r) b = (fst b * d <? n * snd b).
Proof. reflexivity. Qed.
