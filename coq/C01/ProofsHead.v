(* C01 — the construct(s) generated for one node implement the spec's bind_node. *)
From Coq Require Import ZArith NArith List Bool Lia Arith.
From Falcon.lib Require Import PyStr.
From Falcon.C01 Require Import Model Spec ProofsBase ProofsGen.
Import ListNotations.
Close Scope N_scope.
Open Scope nat_scope.

Lemma kind_simple ps f : kind_of ps = KSimple f -> ps = [PF f].
Proof.
  unfold kind_of. destruct ps as [|[c|f0] [|p ps']]; try (destruct (fields _); discriminate).
  intro H. injection H as ->. reflexivity.
Qed.

Lemma kind_complex_fields ps : kind_of ps = KComplex -> fields ps <> [].
Proof.
  unfold kind_of. destruct ps as [|[c|f0] [|p ps']]; try discriminate;
    destruct (fields _) eqn:E; try discriminate; intros _ H; discriminate.
Qed.

Lemma kind_lit_class ps : class_of ps = 0 -> kind_of ps = KLit.
Proof. unfold class_of. destruct (kind_of ps); try discriminate. reflexivity. Qed.

Lemma exec1_VarFromMatch T uid e :
  exec1 T (VarFromMatch uid) e =
  match e_match e with Some g => Fall (with_dm e uid (Some g)) | None => Crash end.
Proof. reflexivity. Qed.
Lemma exec1_VarFromPrefetched T uid e :
  exec1 T (VarFromPrefetched uid) e =
  match e_groups e with Some g => Fall (with_dg e uid (Some g)) | None => Crash end.
Proof. reflexivity. Qed.
Lemma exec1_PrefetchGroups T e :
  exec1 T PrefetchGroups e =
  match e_match e with Some g => Fall (with_groups e (Some g)) | None => Crash end.
Proof. reflexivity. Qed.
Lemma exec1_SetFragPath T i e :
  exec1 T (SetFragPath i) e =
  match nth_error (e_path e) i with
  | Some s => Fall (with_frag e (Some (FStr s)))
  | None => Crash
  end.
Proof. reflexivity. Qed.
Lemma exec1_SetFragRest T i e :
  exec1 T (SetFragRest i) e = Fall (with_frag e (Some (FSegs (skipn i (e_path e))))).
Proof. reflexivity. Qed.

Section Head.
Variable cinst : str -> option str -> cres.
Variable cmulti : str -> bool.

Lemma node_head_correct T n t stack level ns wrap stack' t1 consume fs e ps seg rest' b :
  node_head cinst cmulti n t stack level ns = (wrap, stack', t1, consume, fs) ->
  ext t1 T -> node_ok cinst cmulti n = true ->
  skipn level (e_path e) = seg :: rest' ->
  stack_run stack e (e_params e) = Some ps -> uids_le (length stack) stack ->
  uids_le (length stack') stack' /\ length stack <= length stack' /\
  (consume = true -> children n = []) /\
  match bind_node cinst cmulti (parse_seg (raw n)) (raw n) seg rest' ps with
  | Some (ps', sw) =>
    sw = consume /\
    exists e1, agree (length stack) e e1 /\ stack_run stack' e1 (e_params e1) = Some ps' /\
               execs T (wrap b) e = execs T b e1
  | None => exists e', agree (length stack) e e' /\ execs T (wrap b) e = Fall e'
  end.
Proof.
  intros H Hext Hok Hskip Hrun Hu.
  destruct (skipn_cons_nth _ _ _ _ Hskip) as (Hnth & Hskip' & Hlen).
  unfold node_ok in Hok. apply andb_true_iff in Hok as [Hok _].
  apply andb_true_iff in Hok as [Hok Hcmp].
  apply andb_true_iff in Hok as [Hcok Hnd].
  unfold node_head in H. unfold bind_node.
  set (pcs := parse_seg (raw n)) in *.
  destruct (kind_of pcs) as [| |f] eqn:K.
  - (* literal *)
    injection H as <- <- <- <- <-. split; [exact Hu|]. split; [lia|]. split; [discriminate|].
    rewrite execs_single, exec1_IfLit, Hnth.
    destruct (str_eqb seg (raw n)).
    + split; [reflexivity|]. exists e. split; [apply agree_refl|]. split; [exact Hrun | reflexivity].
    + exists e. split; [apply agree_refl | reflexivity].
  - (* multi-field *)
    pose proof (kind_complex_fields _ K) as Hf.
    destruct (convmap pcs) as [|c0 cm] eqn:CM.
    + injection H as <- <- <- <- <-.
      assert (HU : uids_le (length (stack ++ [SetParamsDict false (S (length stack))]))
                           (stack ++ [SetParamsDict false (S (length stack))])).
      { rewrite app_length. simpl. replace (length stack + 1) with (S (length stack)) by lia.
        apply uids_le_snoc; [exact Hu | simpl; lia]. }
      split; [exact HU|]. split; [rewrite app_length; lia|]. split; [discriminate|].
      rewrite execs_single, exec1_IfPat, (ext_pat _ _ _ Hext), Hnth.
      destruct (match_pieces pcs seg) as [g|] eqn:M.
      * simpl bind_convs. unfold num_fields.
        destruct (fields pcs) as [|f0 fs0] eqn:F; [contradiction|]. simpl length.
        change (0 <? S (length fs0)) with true. cbv iota.
        split; [reflexivity|].
        set (em := with_match e (Some g)).
        exists (with_dm em (S (length stack)) (Some g)). split; [|split].
        -- eapply agree_trans; [apply agree_with_match | apply agree_with_dm; lia].
        -- rewrite stack_run_app.
           rewrite (stack_run_agree (length stack) _ e);
             [| eapply agree_trans; [apply agree_with_match | apply agree_with_dm; lia] | exact Hu].
           change (e_params (with_dm em (S (length stack)) (Some g))) with (e_params e).
           rewrite Hrun. simpl. rewrite upd_same. reflexivity.
        -- rewrite execs_cons, exec1_VarFromMatch. reflexivity.
      * exists (with_match e None). split; [apply agree_with_match | reflexivity].
    + destruct (conv_chain cinst cmulti (c0 :: cm) stack (add_pat t pcs)) as [[w stack1] t1'] eqn:CC.
      assert (Hext1 : ext t1' T /\ t1 = t1').
      { destruct (_ <? _); injection H as _ _ <- _ _; split; auto. }
      destruct Hext1 as [Hext1 ->].
      assert (Hpat : nth_error (t_pats T) (length (t_pats t)) = Some pcs).
      { eapply ext_pat. eapply ext_trans; [eapply conv_chain_ext; exact CC | exact Hext1]. }
      assert (Hcons : consume = false) by (destruct (_ <? _); injection H as _ _ <- _; reflexivity).
      subst consume.
      destruct (match_pieces pcs seg) as [g|] eqn:M.
      * set (em := with_groups (with_match e (Some g)) (Some g)).
        assert (Hagm : agree (length stack) e em).
        { eapply agree_trans; [apply agree_with_match | apply agree_with_groups]. }
        assert (Hkeys := match_pieces_keys _ _ _ M).
        assert (Hchain := fun bb => conv_chain_correct cinst cmulti T (e_params e) bb (c0 :: cm) stack
                            (add_pat t pcs) w stack1 t1' em g ps CC Hext1 Hcok eq_refl).
        assert (Hin : forall x, In x (c0 :: cm) -> In (fst (fst x)) (map fst g)).
        { intros x Hx. rewrite Hkeys. apply convmap_of_incl. unfold convmap in CM. rewrite CM. exact Hx. }
        assert (Hnd' : NoDup (map (fun x : str * str * option str => fst (fst x)) (c0 :: cm))).
        { rewrite <- CM. apply convmap_of_nodup. apply nodupb_NoDup. exact Hnd. }
        assert (Hrun' : stack_run stack em (e_params e) = Some ps).
        { rewrite (stack_run_agree _ _ _ _ Hagm Hu). exact Hrun. }
        destruct (length (c0 :: cm) <? num_fields pcs) eqn:LT.
        -- injection H as <- <- _.
           destruct (Hchain (VarFromPrefetched (S (length stack1)) :: b) Hin Hnd' Hrun' Hu) as (L & U & Hm).
           split; [rewrite app_length; simpl; replace (length stack1 + 1) with (S (length stack1)) by lia;
                   apply uids_le_snoc; [exact U | simpl; lia]|].
           split; [rewrite app_length; lia|]. split; [discriminate|].
           cbv beta. rewrite execs_single, exec1_IfPat, Hpat, Hnth, M.
           rewrite execs_cons, exec1_PrefetchGroups. change (e_match (with_match e (Some g))) with (Some g).
           fold em.
           destruct (bind_convs cinst (c0 :: cm) g ps) as [[g' ps1]|].
           ++ destruct Hm as (e1 & A1 & G1 & R1 & X1). split; [reflexivity|].
              exists (with_dg e1 (S (length stack1)) (Some g')). split; [|split].
              ** eapply agree_trans; [exact Hagm|]. eapply agree_trans; [exact A1|].
                 apply agree_with_dg. lia.
              ** rewrite stack_run_app.
                 rewrite (stack_run_agree (length stack1) _ e1); [|apply agree_with_dg; lia | exact U].
                 change (e_params (with_dg e1 (S (length stack1)) (Some g'))) with (e_params e1).
                 destruct A1 as (_ & -> & _). change (e_params em) with (e_params e). rewrite R1.
                 simpl. rewrite upd_same. reflexivity.
              ** unfold em in X1. rewrite X1, execs_cons, exec1_VarFromPrefetched, G1. reflexivity.
           ++ destruct Hm as (e' & A1 & X1). exists e'. split; [eapply agree_trans; [exact Hagm | exact A1] | exact X1].
        -- injection H as <- <- _.
           destruct (Hchain b Hin Hnd' Hrun' Hu) as (L & U & Hm).
           split; [exact U|]. split; [lia|]. split; [discriminate|].
           cbv beta. rewrite execs_single, exec1_IfPat, Hpat, Hnth, M.
           rewrite execs_cons, exec1_PrefetchGroups. change (e_match (with_match e (Some g))) with (Some g).
           fold em.
           destruct (bind_convs cinst (c0 :: cm) g ps) as [[g' ps1]|].
           ++ destruct Hm as (e1 & A1 & G1 & R1 & X1). split; [reflexivity|].
              exists e1. split; [eapply agree_trans; [exact Hagm | exact A1]|]. split; [|exact X1].
              destruct A1 as (_ & -> & _). exact R1.
           ++ destruct Hm as (e' & A1 & X1). exists e'. split; [eapply agree_trans; [exact Hagm | exact A1] | exact X1].
      * (* the pattern does not match *)
        assert (Hw : exists bb, wrap b = [IfPat level (length (t_pats t)) bb]).
        { destruct (_ <? _); injection H as <- _ _; eauto. }
        assert (HL : uids_le (length stack') stack' /\ length stack <= length stack').
        { destruct (conv_chain_stack cinst cmulti _ _ _ _ _ _ CC Hu) as (L & U).
          destruct (_ <? _); injection H as _ <- _.
          - split; [rewrite app_length; simpl; replace (length stack1 + 1) with (S (length stack1)) by lia;
                    apply uids_le_snoc; [exact U | simpl; lia] | rewrite app_length; lia].
          - split; [exact U | lia]. }
        destruct HL as [HL1 HL2]. split; [exact HL1|]. split; [exact HL2|]. split; [discriminate|].
        destruct Hw as (bb & ->).
        cbv beta. rewrite execs_single, exec1_IfPat, Hpat, Hnth, M.
        exists (with_match e None). split; [apply agree_with_match | reflexivity].
  - (* single field *)
    pose proof (kind_simple _ _ K) as Hp. rewrite Hp in *.
    unfold convmap in *. simpl fields in *. simpl convmap_of in *.
    set (ta := if Nat.eqb ns 1 then t else t_fail t) in *.
    destruct (f_cname f) as [[|c cn]|] eqn:FC.
    + (* {name:} cannot be in a validated tree, but is a plain field as far as the node goes *)
      injection H as <- <- <- <- <-.
      split; [rewrite app_length; simpl; replace (length stack + 1) with (S (length stack)) by lia;
              apply uids_le_snoc; [exact Hu | exact I]|].
      split; [rewrite app_length; lia|]. split; [discriminate|].
      split; [reflexivity|]. exists e. split; [apply agree_refl|]. split; [|reflexivity].
      rewrite stack_run_app, Hrun. simpl. rewrite Hnth. reflexivity.
    + simpl in Hcok. apply andb_true_iff in Hcok as [Hc1 _]. simpl in Hc1.
      destruct (cinst (c :: cn) (f_arg f)) as [| |cv] eqn:CI; try discriminate.
      injection H as <- <- <- <- <-.
      set (uid := S (length stack)).
      split; [rewrite app_length; simpl; replace (length stack + 1) with (S (length stack)) by lia;
              apply uids_le_snoc; [exact Hu | simpl; lia]|].
      split; [rewrite app_length; lia|].
      split.
      { intro Hm. unfold has_cmp, convmap in Hcmp. simpl in Hcmp. rewrite FC in Hcmp. simpl in Hcmp.
        rewrite Hm in Hcmp. simpl in Hcmp.
        destruct (children n); [reflexivity | discriminate]. }
      assert (Hc : nth_error (t_convs T) (length (t_convs ta)) = Some cv).
      { eapply ext_conv; eauto. }
      set (fr := if cmulti (c :: cn) then FSegs (seg :: rest') else FStr seg).
      assert (Hfrag : exists ef, agree (length stack) e ef /\ e_frag ef = Some fr /\
                 forall bb, execs T [if cmulti (c :: cn) then SetFragRest level else SetFragPath level;
                                     IfConv uid (length (t_convs ta)) bb] e
                            = exec1 T (IfConv uid (length (t_convs ta)) bb) ef).
      { unfold fr. destruct (cmulti (c :: cn)).
        - exists (with_frag e (Some (FSegs (skipn level (e_path e))))). split; [apply agree_with_frag|].
          split; [simpl; rewrite Hskip; reflexivity|].
          intro bb. rewrite execs_cons, exec1_SetFragRest, execs_single. reflexivity.
        - exists (with_frag e (Some (FStr seg))). split; [apply agree_with_frag|].
          split; [reflexivity|].
          intro bb. rewrite execs_cons, exec1_SetFragPath, Hnth, execs_single. reflexivity. }
      destruct Hfrag as (ef & Aef & Fef & Xef). cbv beta. rewrite Xef, exec1_IfConv, Hc, Fef.
      destruct (conv_apply cv fr) as [x|].
      * split; [reflexivity|]. exists (with_fv ef uid (Some x)).
        assert (Hag : agree (length stack) e (with_fv ef uid (Some x))).
        { eapply agree_trans; [exact Aef | apply agree_with_fv; unfold uid; lia]. }
        split; [exact Hag|]. split; [|reflexivity].
        rewrite stack_run_app. rewrite (stack_run_agree _ _ _ _ Hag Hu).
        destruct Hag as (_ & -> & _). rewrite Hrun. simpl. rewrite upd_same. reflexivity.
      * exists (with_fv ef uid None). split; [|reflexivity].
        eapply agree_trans; [exact Aef | apply agree_with_fv; unfold uid; lia].
    + injection H as <- <- <- <- <-.
      split; [rewrite app_length; simpl; replace (length stack + 1) with (S (length stack)) by lia;
              apply uids_le_snoc; [exact Hu | exact I]|].
      split; [rewrite app_length; lia|]. split; [discriminate|].
      split; [reflexivity|]. exists e. split; [apply agree_refl|]. split; [|reflexivity].
      rewrite stack_run_app, Hrun. simpl. rewrite Hnth. reflexivity.
Qed.

End Head.
