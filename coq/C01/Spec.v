(* C01 — the reference object: a plain depth-first walk of the template tree, the
   well-formedness invariant of trees built by add_route, and the boolean oracles the
   harness evaluates on the implementation's observations. *)
From Coq Require Import ZArith NArith List Bool Lia.
From Falcon.lib Require Import PyStr.
From Falcon.gen Require Import ConstsC01.
From Falcon.C01 Require Import Model.
Import ListNotations.
Open Scope N_scope.

Section Spec.
Variable cinst : str -> option str -> cres.
Variable cmulti : str -> bool.

(* converter fields of a multi-field segment, in field order: each takes its group out of
   the match and may veto; the converted values are bound in that order *)
Fixpoint bind_convs (cm : list (str * str * option str)) (g : groups) (ps : params)
  : option (groups * params) :=
  match cm with
  | [] => Some (g, ps)
  | (fname, cname, arg) :: tl =>
    match gpop g fname, cinst cname arg with
    | Some (v, g'), COk c =>
      match conv_apply c (FStr v) with
      | Some x => bind_convs tl g' (pset ps fname x)
      | None => None
      end
    | _, _ => None
    end
  end.

(* does the node's own segment accept [seg] (with [rest] behind it)?  Some (ps', swallow):
   the bindings extended by this node's fields; swallow = a path converter took the rest *)
Definition bind_node (pcs : list piece) (nraw : str) (seg : str) (rest : list str) (ps : params)
  : option (params * bool) :=
  match kind_of pcs with
  | KLit => if str_eqb seg nraw then Some (ps, false) else None
  | KComplex =>
    match match_pieces pcs seg with
    | None => None
    | Some g =>
      match bind_convs (convmap pcs) g ps with
      | None => None
      | Some (g', ps') =>
        Some (if (length (convmap pcs) <? num_fields pcs)%nat then pupdate ps' g' else ps', false)
      end
    end
  | KSimple f =>
    match convmap pcs with
    | [] => Some (pset ps (f_name f) (VStr seg), false)
    | (_, cname, arg) :: _ =>
      match cinst cname arg with
      | COk c =>
        let fr := if cmulti cname then FSegs (seg :: rest) else FStr seg in
        match conv_apply c fr with
        | Some x => Some (pset ps (f_name f) x, cmulti cname)
        | None => None
        end
      | _ => None
      end
    end
  end.

(* [dfs_n n cls path ps]: try node [n] (only if it is of sort class [cls]) on [path] with the
   bindings [ps] made by its ancestors.  Children are walked in three passes: literal,
   multi-field, single-field; insertion order within a class. *)
Fixpoint dfs_n (n : node) (cls : nat) (path : list str) (ps : params) {struct n}
  : option (N * params) :=
  match n with
  | Node nraw nres ch =>
    match path with
    | [] => None
    | seg :: rest =>
      let pcs := parse_seg nraw in
      if negb (Nat.eqb (class_of pcs) cls) then None else
      match bind_node pcs nraw seg rest ps with
      | None => None
      | Some (ps', swallow) =>
        if swallow then match nres with Some r => Some (r, ps') | None => None end
        else
          match rest with
          | [] => match nres with Some r => Some (r, ps') | None => None end
          | _ :: _ =>
            let pass := fun c =>
              (fix go (l : list node) : option (N * params) :=
                 match l with
                 | [] => None
                 | m :: tl => match dfs_n m c rest ps' with Some r => Some r | None => go tl end
                 end) ch in
            match pass 0%nat with
            | Some r => Some r
            | None => match pass 1%nat with Some r => Some r | None => pass 2%nat end
            end
          end
      end
    end
  end.

Fixpoint dfs_pass (cls : nat) (l : list node) (path : list str) (ps : params) : option (N * params) :=
  match l with
  | [] => None
  | m :: tl => match dfs_n m cls path ps with Some r => Some r | None => dfs_pass cls tl path ps end
  end.

Definition dfs_level (l : list node) (path : list str) (ps : params) : option (N * params) :=
  match dfs_pass 0 l path ps with
  | Some r => Some r
  | None => match dfs_pass 1 l path ps with Some r => Some r | None => dfs_pass 2 l path ps end
  end.

(* the reference lookup *)
Definition dfs (roots : list node) (uri : str) : option (N * params) :=
  dfs_level roots (segs_of uri) [].

(* ---- well-formedness of a route tree (what add_route maintains) *)
Fixpoint nodupb (l : list str) : bool :=
  match l with [] => true | x :: tl => negb (mem x tl) && nodupb tl end.

Definition convs_ok (cm : list (str * str * option str)) : bool :=
  forallb (fun e => match cinst (snd (fst e)) (snd e) with COk _ => true | _ => false end) cm.

(* one node: its converters instantiate; field names are distinct; a field that swallows
   the rest of the path only on a childless single-field node; field names can be written
   between quotes in the generated source *)
Definition node_ok (n : node) : bool :=
  let pcs := parse_seg (raw n) in
  convs_ok (convmap pcs)
  && nodupb (map f_name (fields pcs))
  && (negb (has_cmp cmulti pcs)
      || (is_simple pcs && match children n with [] => true | _ => false end))
  && forallb name_plain (map f_name (fields pcs)).

Fixpoint wf_n (n : node) : bool :=
  match n with
  | Node r x ch =>
    node_ok (Node r x ch)
    && nodupb (map raw ch)
    && (count_simple ch <=? 1)%nat
    && (fix all (l : list node) : bool := match l with [] => true | m :: tl => wf_n m && all tl end) ch
  end.

Definition wf (roots : list node) : bool :=
  nodupb (map raw roots) && (count_simple roots <=? 1)%nat && forallb wf_n roots.

End Spec.

(* ---- oracles evaluated by the harness on what the implementation returned *)
Definition value_eqb (a b : value) : bool :=
  match a, b with
  | VStr x, VStr y => str_eqb x y
  | VInt x, VInt y => Z.eqb x y
  | VOther x, VOther y => str_eqb x y
  | _, _ => false
  end.

Fixpoint pget (ps : params) (k : str) : option value :=
  match ps with
  | [] => None
  | (k', v) :: tl => if str_eqb k k' then Some v else pget tl k
  end.

Definition params_sub (a b : params) : bool :=
  forallb (fun kv => match pget b (fst kv) with Some v => value_eqb v (snd kv) | None => false end) a.
Fixpoint params_same (a b : params) : bool :=
  match a, b with
  | [], [] => true
  | (k, v) :: a', (k', v') :: b' => str_eqb k k' && value_eqb v v' && params_same a' b'
  | _, _ => false
  end.
(* equality of two dicts: the same association list, or mutual inclusion *)
Definition params_eqb (a b : params) : bool :=
  params_same a b || (params_sub a b && params_sub b a).

Definition result_eqb (a b : option (N * params)) : bool :=
  match a, b with
  | None, None => true
  | Some (r1, p1), Some (r2, p2) => N.eqb r1 r2 && params_eqb p1 p2
  | _, _ => false
  end.

(* the lookup clause: the implementation's answer [obs] for [uri] on the tree [roots] is the
   answer of the depth-first walk *)
Definition find_oracle cinst cmulti (roots : list node) (uri : str) (obs : option (N * params)) : bool :=
  result_eqb obs (dfs cinst cmulti roots uri).
