(* C01 — a well-formed tree compiles: no assert of _generate_ast trips, every converter
   instantiates, and every name / literal pasted into the generated source is well-quoted. *)
From Coq Require Import ZArith NArith List Bool Lia Arith.
From Falcon.lib Require Import PyStr.
From Falcon.C01 Require Import Model Spec ProofsBase ProofsGen ProofsHead ProofsCorrect ProofsWf.
Import ListNotations.
Close Scope N_scope.
Open Scope nat_scope.

Lemma src_all_eq q b :
  (fix all (l : list cx) : bool := match l with [] => true | c :: tl => src_ok1 q c && all tl end) b
  = src_ok q b.
Proof. induction b as [|c b IH]; simpl; [reflexivity|]. rewrite IH. reflexivity. Qed.

Lemma src_IfLen q g n b : src_ok1 q (IfLen g n b) = src_ok q b.
Proof. simpl. apply src_all_eq. Qed.
Lemma src_IfLit b i l : src_ok1 true (IfLit i l b) = src_ok true b.
Proof. simpl. apply src_all_eq. Qed.
Lemma src_IfPat q i p b : src_ok1 q (IfPat i p b) = src_ok q b.
Proof. simpl. apply src_all_eq. Qed.
Lemma src_IfConv q u c b : src_ok1 q (IfConv u c b) = src_ok q b.
Proof. simpl. apply src_all_eq. Qed.

Lemma src_app q a b : src_ok q (a ++ b) = src_ok q a && src_ok q b.
Proof. apply forallb_app. Qed.
Lemma src_cons q c l : src_ok q (c :: l) = src_ok1 q c && src_ok q l.
Proof. reflexivity. Qed.

Section Compiles.
Variable cinst : str -> option str -> cres.
Variable cmulti : str -> bool.
Notation wf := (wf cinst cmulti).
Notation wf_n := (wf_n cinst cmulti).

Lemma add_conv_ok t cn arg c : cinst cn arg = COk c -> t_ok (add_conv cinst t cn arg) = t_ok t.
Proof. intro H. unfold add_conv. rewrite H. reflexivity. Qed.

Lemma conv_chain_good cm : forall stack t w s1 t1,
  conv_chain cinst cmulti cm stack t = (w, s1, t1) ->
  t_ok t = true -> convs_ok cinst cm = true ->
  existsb (fun e => cmulti (snd (fst e))) cm = false ->
  forallb name_plain (map (fun e => fst (fst e)) cm) = true ->
  src_ok true stack = true ->
  t_ok t1 = true /\ src_ok true s1 = true /\ forall b, src_ok true b = true -> src_ok true (w b) = true.
Proof.
  induction cm as [|[[fname cname] arg] cm IH]; intros stack t w s1 t1 H Hok Hc Hm Hp Hs; simpl in H.
  - injection H as <- <- <-. auto.
  - destruct (conv_chain cinst cmulti cm _ _) as [[w' s'] t'] eqn:E. injection H as <- <- <-.
    simpl in Hc, Hm, Hp. apply andb_true_iff in Hc as [Hc1 Hc]. apply orb_false_iff in Hm as [Hm1 Hm].
    apply andb_true_iff in Hp as [Hp1 Hp]. simpl in Hm1. rewrite Hm1 in E.
    destruct (cinst cname arg) as [| |c] eqn:CI; try discriminate.
    destruct (IH _ _ _ _ _ E) as (A & B & C); auto.
    + rewrite (add_conv_ok _ _ _ _ CI). exact Hok.
    + rewrite src_app, Hs. simpl. rewrite Hp1. reflexivity.
    + split; [exact A|]. split; [exact B|]. intros b Hb.
      rewrite src_cons. simpl src_ok1 at 1. rewrite Hp1. rewrite src_cons, src_IfConv, (C b Hb). reflexivity.
Qed.

Lemma convmap_names_plain fs :
  forallb name_plain (map f_name fs) = true ->
  forallb name_plain (map (fun e : str * str * option str => fst (fst e)) (convmap_of fs)) = true.
Proof.
  induction fs as [|f fs IH]; simpl; intro H; [reflexivity|]. apply andb_true_iff in H as [H1 H2].
  destruct (f_cname f) as [[|c cn]|]; simpl; auto. rewrite H1. auto.
Qed.

Lemma node_head_good n t stack level ns wrap stack' t1 consume fs :
  node_head cinst cmulti n t stack level ns = (wrap, stack', t1, consume, fs) ->
  node_ok cinst cmulti n = true -> t_ok t = true -> src_ok true stack = true ->
  (node_class n = 2 -> ns = 1) ->
  t_ok t1 = true /\ src_ok true stack' = true /\
  (forall b, src_ok true b = true -> src_ok true (wrap b) = true) /\
  (consume = true -> children n = []).
Proof.
  intros H Hok Ht Hs Hns.
  unfold node_ok in Hok. apply andb_true_iff in Hok as [Hok Hpl].
  apply andb_true_iff in Hok as [Hok Hcmp]. apply andb_true_iff in Hok as [Hcok Hnd].
  unfold node_head in H. unfold node_class, class_of in Hns.
  set (pcs := parse_seg (raw n)) in *.
  destruct (kind_of pcs) as [| |f] eqn:K.
  - injection H as <- <- <- <- <-. repeat split; auto; try discriminate.
    intros b Hb. rewrite src_cons, src_IfLit, Hb. reflexivity.
  - assert (Hnc : has_cmp cmulti pcs = false).
    { destruct (has_cmp cmulti pcs); [|reflexivity]. simpl in Hcmp. unfold is_simple in Hcmp.
      rewrite K in Hcmp. discriminate. }
    destruct (convmap pcs) as [|c0 cm] eqn:CM.
    + injection H as <- <- <- <- <-. split; [exact Ht|]. split; [rewrite src_app, Hs; reflexivity|].
      split; [|discriminate]. intros b Hb. rewrite src_cons, src_IfPat, src_cons, Hb. reflexivity.
    + destruct (conv_chain cinst cmulti (c0 :: cm) stack (add_pat t pcs)) as [[w s1] t1'] eqn:CC.
      destruct (conv_chain_good _ _ _ _ _ _ CC) as (A & B & C); auto.
      * unfold has_cmp in Hnc. rewrite CM in Hnc. exact Hnc.
      * rewrite <- CM. apply convmap_names_plain. exact Hpl.
      * destruct (_ <? _); injection H as <- <- <- <- <-.
        -- split; [exact A|]. split; [rewrite src_app, B; reflexivity|]. split; [|discriminate].
           intros b Hb. rewrite src_cons, src_IfPat, src_cons. simpl src_ok1 at 1.
           rewrite C; [reflexivity|]. rewrite src_cons, Hb. reflexivity.
        -- split; [exact A|]. split; [exact B|]. split; [|discriminate].
           intros b Hb. rewrite src_cons, src_IfPat, src_cons. simpl src_ok1 at 1.
           rewrite (C b Hb). reflexivity.
  - pose proof (kind_simple _ _ K) as Hp. rewrite Hp in *.
    rewrite (Hns eq_refl) in H. simpl Nat.eqb in H. cbv iota in H.
    unfold convmap in *. simpl fields in *. simpl convmap_of in *.
    simpl in Hpl. rewrite andb_true_r in Hpl.
    destruct (f_cname f) as [[|c cn]|] eqn:FC.
    + injection H as <- <- <- <- <-. split; [exact Ht|].
      split; [rewrite src_app, Hs; simpl; rewrite Hpl; reflexivity|]. split; [auto | discriminate].
    + simpl in Hcok. apply andb_true_iff in Hcok as [Hc1 _]. simpl in Hc1.
      destruct (cinst (c :: cn) (f_arg f)) as [| |cv] eqn:CI; try discriminate.
      injection H as <- <- <- <- <-. split; [rewrite (add_conv_ok _ _ _ _ CI); exact Ht|].
      split; [rewrite src_app, Hs; simpl; rewrite Hpl; reflexivity|]. split.
      * intros b Hb. rewrite src_cons, src_cons, src_IfConv, Hb.
        destruct (cmulti (c :: cn)); reflexivity.
      * intro Hm. unfold has_cmp, convmap in Hcmp. simpl in Hcmp. rewrite FC in Hcmp. simpl in Hcmp.
        rewrite Hm in Hcmp. simpl in Hcmp. destruct (children n); [reflexivity | discriminate].
    + injection H as <- <- <- <- <-. split; [exact Ht|].
      split; [rewrite src_app, Hs; simpl; rewrite Hpl; reflexivity|]. split; [auto | discriminate].
Qed.

Definition rec_good (k : nat)
           (rec : list node -> tables -> list cx -> nat -> bool -> list cx * tables) : Prop :=
  forall nodes t stack level fast code t',
    rec nodes t stack level fast = (code, t') -> height_l nodes < k -> wf nodes = true ->
    t_ok t = true -> src_ok true stack = true -> t_ok t' = true /\ src_ok true code = true.

Lemma node_tail_good nres stack' level ridx fast consume :
  src_ok true stack' = true -> src_ok true (node_tail nres stack' level ridx fast consume) = true.
Proof.
  intro H. unfold node_tail. destruct nres; [|destruct fast; reflexivity].
  destruct consume.
  - rewrite src_app, H. reflexivity.
  - rewrite src_cons, src_IfLen, src_app, H. destruct fast; reflexivity.
Qed.

Lemma gen_node_good k n t stack level fast ns c t4 fs :
  rec_good k (gen_level cinst cmulti k) ->
  gen_node_with cinst cmulti (gen_level cinst cmulti k) n t stack level fast ns = (c, t4, fs) ->
  height_l (children n) < k -> wf_n n = true -> t_ok t = true -> src_ok true stack = true ->
  (node_class n = 2 -> ns = 1) ->
  t_ok t4 = true /\ src_ok true c = true.
Proof.
  intros Hrec H Hh Hwf Ht Hs Hns. destruct (wf_n_inv cinst cmulti n Hwf) as [Hok Hwfc].
  unfold gen_node_with in H.
  destruct (node_head cinst cmulti n t stack level ns) as [[[[wrap stack'] t1] consume] fs'] eqn:NH.
  destruct (node_head_good _ _ _ _ _ _ _ _ _ _ NH Hok Ht Hs Hns) as (A & B & C & D).
  match type of H with context [gen_level cinst cmulti k ?a ?b ?c ?d ?e] =>
    destruct (gen_level cinst cmulti k a b c d e) as [cc t4'] eqn:GL end.
  injection H as <- <- _.
  assert (Ht3 : t_ok (if consume && match children n with [] => false | _ :: _ => true end
                      then t_fail (match res n with Some r => add_rv t1 r | None => t1 end)
                      else match res n with Some r => add_rv t1 r | None => t1 end) = true).
  { destruct consume; [rewrite (D eq_refl)|]; simpl; destruct (res n); exact A. }
  destruct (Hrec _ _ _ _ _ _ _ GL Hh Hwfc Ht3 B) as (E & F).
  split; [exact E|]. apply C. rewrite src_app, F. apply node_tail_good. exact B.
Qed.

Lemma gen_sibs_good k l : forall t stack level fast ns c t' f,
  rec_good k (gen_level cinst cmulti k) ->
  gen_sibs cinst cmulti (gen_level cinst cmulti k) l t stack level fast ns = (c, t', f) ->
  (forall n, In n l -> height_l (children n) < k) -> forallb wf_n l = true ->
  t_ok t = true -> src_ok true stack = true ->
  (forall n, In n l -> node_class n = 2 -> ns = 1) ->
  t_ok t' = true /\ src_ok true c = true.
Proof.
  induction l as [|n l IH]; intros t stack level fast ns c t' f Hrec H Hh Hwf Ht Hs Hns; simpl in H.
  - injection H as <- <- _. auto.
  - destruct (gen_node_with cinst cmulti _ n t stack level fast ns) as [[c1 t1] f1] eqn:E1.
    destruct (gen_sibs cinst cmulti _ l t1 stack level fast ns) as [[c2 t2] f2] eqn:E2.
    injection H as <- <- _. simpl in Hwf. apply andb_true_iff in Hwf as [Hw1 Hw2].
    destruct (gen_node_good _ _ _ _ _ _ _ _ _ _ Hrec E1 (Hh n (or_introl eq_refl)) Hw1 Ht Hs
                (Hns n (or_introl eq_refl))) as (A & B).
    destruct (IH _ _ _ _ _ _ _ _ Hrec E2 (fun m Hm => Hh m (or_intror Hm)) Hw2 A Hs
                 (fun m Hm => Hns m (or_intror Hm))) as (C & D).
    split; [exact C|]. rewrite src_app, B, D. reflexivity.
Qed.

(* ---- the number of single-field siblings survives the sort *)
Lemma filter_disjoint {A} (p q : A -> bool) l :
  (forall x, q x = true -> p x = false) -> filter p (filter q l) = [].
Proof.
  intro H. induction l as [|x l IH]; simpl; [reflexivity|].
  destruct (q x) eqn:Q; [|exact IH]. simpl. rewrite (H x Q). exact IH.
Qed.
Lemma filter_idem {A} (p : A -> bool) l : filter p (filter p l) = filter p l.
Proof.
  induction l as [|x l IH]; simpl; [reflexivity|].
  destruct (p x) eqn:P; [|exact IH]. simpl. rewrite P, IH. reflexivity.
Qed.

Lemma count_simple_sort3 l : count_simple (sort3 l) = count_simple l.
Proof.
  unfold count_simple, sort3. rewrite !filter_app.
  rewrite (filter_disjoint _ (fun n => Nat.eqb (node_class n) 0)),
          (filter_disjoint _ (fun n => Nat.eqb (node_class n) 1)), filter_idem; [reflexivity| |];
    intros x Hx; apply Nat.eqb_eq in Hx; rewrite Hx; reflexivity.
Qed.

Lemma count_simple_in l n : In n l -> node_class n = 2 -> 1 <= count_simple l.
Proof.
  intros Hin Hc. unfold count_simple.
  assert (H : In n (filter (fun n => Nat.eqb (node_class n) 2) l)).
  { apply filter_In. split; [exact Hin | rewrite Hc; reflexivity]. }
  destruct (filter _ l); [contradiction | simpl; lia].
Qed.

Lemma level_good fuel : rec_good fuel (gen_level cinst cmulti fuel).
Proof.
  induction fuel as [|k IH]; intros nodes t stack level fast code t' H Hh Hwf Ht Hs; [lia|].
  simpl in H. destruct nodes as [|n0 nodes0]; [injection H as <- <-; auto|].
  set (nodes := n0 :: nodes0) in *. set (sorted := sort3 nodes) in *.
  destruct (gen_sibs cinst cmulti _ sorted t stack level _ _) as [[body t2] found] eqn:GS.
  injection H as <- <-.
  unfold Spec.wf in Hwf. apply andb_true_iff in Hwf as [Hwf Hall]. apply andb_true_iff in Hwf as [_ Hcnt].
  destruct (gen_sibs_good k sorted _ _ _ _ _ _ _ _ IH GS) as (A & B); auto.
  - intros n Hn. eapply Nat.lt_le_trans; [apply (height_children n nodes); apply sort3_in; exact Hn|].
    apply Nat.lt_succ_r. exact Hh.
  - apply sort3_forallb. exact Hall.
  - intros n Hn Hc. pose proof (count_simple_in _ _ Hn Hc) as H1.
    unfold sorted in *. rewrite count_simple_sort3 in *. apply Nat.leb_le in Hcnt. lia.
  - split; [exact A|]. rewrite src_cons, src_IfLen, src_app, B.
    destruct (negb found && _); reflexivity.
Qed.

Theorem wf_compiles roots :
  wf roots = true ->
  t_ok (snd (compile cinst cmulti roots)) = true /\ src_ok true (fst (compile cinst cmulti roots)) = true.
Proof.
  intro Hwf. unfold compile.
  destruct (gen_level cinst cmulti (S (height_l roots)) roots tables0 [] 0 true) as [code T] eqn:G.
  exact (level_good _ _ _ _ _ _ _ _ G (Nat.lt_succ_diag_r _) Hwf eq_refl eq_refl).
Qed.

End Compiles.
