(* C01 — compiler correctness: running the generated finder = the depth-first walk. *)
From Coq Require Import ZArith NArith List Bool Lia Arith.
From Falcon.lib Require Import PyStr.
From Falcon.C01 Require Import Model Spec ProofsBase ProofsGen ProofsHead.
Import ListNotations.
Close Scope N_scope.
Open Scope nat_scope.

Section Correct.
Variable cinst : str -> option str -> cres.
Variable cmulti : str -> bool.
Notation dfs_n := (dfs_n cinst cmulti).
Notation dfs_pass := (dfs_pass cinst cmulti).
Notation dfs_level := (dfs_level cinst cmulti).
Notation bind_node := (bind_node cinst cmulti).
Notation gen_level := (gen_level cinst cmulti).
Notation gen_sibs := (gen_sibs cinst cmulti).
Notation gen_node_with := (gen_node_with cinst cmulti).
Notation wf := (wf cinst cmulti).
Notation wf_n := (wf_n cinst cmulti).
Notation node_ok := (node_ok cinst cmulti).

(* ---- unfolding the walk *)
Lemma pass_eq c rest ps' : forall ch,
  (fix go (l : list node) : option (N * params) :=
     match l with
     | [] => None
     | m :: tl => match dfs_n m c rest ps' with Some r => Some r | None => go tl end
     end) ch = dfs_pass c ch rest ps'.
Proof. induction ch as [|m ch IH]; simpl; [reflexivity|]. rewrite IH. reflexivity. Qed.

Lemma dfs_n_nil n cls ps : dfs_n n cls [] ps = None.
Proof. destruct n; reflexivity. Qed.

Lemma dfs_n_cons n cls seg rest ps :
  dfs_n n cls (seg :: rest) ps =
  if negb (Nat.eqb (node_class n) cls) then None else
  match bind_node (parse_seg (raw n)) (raw n) seg rest ps with
  | None => None
  | Some (ps', sw) =>
    if sw then match res n with Some r => Some (r, ps') | None => None end
    else match rest with
         | [] => match res n with Some r => Some (r, ps') | None => None end
         | _ :: _ => dfs_level (children n) rest ps'
         end
  end.
Proof.
  destruct n as [r x ch]. unfold node_class. simpl raw. simpl res. simpl children.
  simpl Spec.dfs_n. destruct (negb _); [reflexivity|].
  destruct (bind_node _ _ _ _ _) as [[ps' sw]|]; [|reflexivity].
  destruct sw; [reflexivity|]. destruct rest; [reflexivity|].
  rewrite !pass_eq. reflexivity.
Qed.

Lemma dfs_pass_nil cls l ps : dfs_pass cls l [] ps = None.
Proof. induction l; simpl; [reflexivity|]. rewrite dfs_n_nil. assumption. Qed.

Lemma dfs_level_nil l ps : dfs_level l [] ps = None.
Proof. unfold Spec.dfs_level. rewrite !dfs_pass_nil. reflexivity. Qed.

Fixpoint dfs_seq (l : list node) (path : list str) (ps : params) : option (N * params) :=
  match l with
  | [] => None
  | m :: tl => match dfs_n m (node_class m) path ps with
               | Some r => Some r
               | None => dfs_seq tl path ps
               end
  end.

Lemma dfs_seq_app a b path ps :
  dfs_seq (a ++ b) path ps =
  match dfs_seq a path ps with Some r => Some r | None => dfs_seq b path ps end.
Proof.
  induction a as [|m a IH]; simpl; [reflexivity|].
  destruct (dfs_n m _ path ps); [reflexivity | exact IH].
Qed.

Lemma dfs_pass_filter cls l path ps :
  dfs_pass cls l path ps = dfs_seq (filter (fun n => Nat.eqb (node_class n) cls) l) path ps.
Proof.
  induction l as [|m l IH]; simpl; [reflexivity|].
  destruct (Nat.eqb (node_class m) cls) eqn:E.
  - apply Nat.eqb_eq in E. subst cls. simpl. destruct (dfs_n m _ path ps); [reflexivity | exact IH].
  - replace (dfs_n m cls path ps) with (@None (N * params)); [exact IH|].
    destruct path as [|seg rest]; [rewrite dfs_n_nil; reflexivity|].
    rewrite dfs_n_cons, E. reflexivity.
Qed.

Lemma dfs_level_seq l path ps : dfs_level l path ps = dfs_seq (sort3 l) path ps.
Proof.
  unfold Spec.dfs_level, sort3. rewrite !dfs_seq_app, !dfs_pass_filter. reflexivity.
Qed.

(* ---- well-formedness, unpacked *)
Lemma wf_all_forallb ch :
  (fix all (l : list node) : bool := match l with [] => true | m :: tl => wf_n m && all tl end) ch
  = forallb wf_n ch.
Proof. induction ch as [|m ch IH]; simpl; [reflexivity|]. rewrite IH. reflexivity. Qed.

Lemma wf_n_inv n : wf_n n = true -> node_ok n = true /\ wf (children n) = true.
Proof.
  destruct n as [r x ch]. simpl Spec.wf_n. rewrite wf_all_forallb. intro H.
  apply andb_true_iff in H as [H H4]. apply andb_true_iff in H as [H H3].
  apply andb_true_iff in H as [H1 H2]. split; [exact H1|].
  unfold Spec.wf. simpl children. rewrite H2, H3, H4. reflexivity.
Qed.

Lemma height_children n l : In n l -> height_l (children n) < height_l l.
Proof.
  induction l as [|m l IH]; simpl; [contradiction|]. intros [->|H].
  - destruct n as [r x ch]. simpl children. change (height (Node r x ch)) with (S (height_l ch)). lia.
  - specialize (IH H). lia.
Qed.

(* ---- what a generated level must do *)
Definition level_spec (T : tables) (code : list cx) (nodes : list node) (stack : list cx)
           (level : nat) (fast : bool) (e : env) (ps : params) : Prop :=
  match dfs_level nodes (skipn level (e_path e)) ps with
  | Some r => execs T code e = Ret (Some r)
  | None => (exists e', execs T code e = Fall e' /\ agree (length stack) e e') \/
            (fast = true /\ level < length (e_path e) /\ execs T code e = Ret None)
  end.

Definition rec_ok (T : tables) (k : nat)
           (rec : list node -> tables -> list cx -> nat -> bool -> list cx * tables) : Prop :=
  forall nodes t stack level fast code t' e ps,
    rec nodes t stack level fast = (code, t') -> height_l nodes < k -> wf nodes = true ->
    ext t' T -> stack_run stack e (e_params e) = Some ps -> uids_le (length stack) stack ->
    level_spec T code nodes stack level fast e ps.

Lemma bind_lit pcs nraw seg rest ps x :
  class_of pcs = 0 -> bind_node pcs nraw seg rest ps = Some x -> seg = nraw.
Proof.
  intros H. apply kind_lit_class in H. unfold Spec.bind_node. rewrite H.
  destruct (str_eqb seg nraw) eqn:E; [|discriminate]. intros _. apply str_eqb_eq. exact E.
Qed.

Lemma skipn_len_eq {A} (l : list A) n x r : skipn n l = x :: r -> length l = n + S (length r).
Proof.
  intro H. pose proof (skipn_length n l) as L. rewrite H in L. simpl in L. lia.
Qed.

(* ---- one node, given that the children level is correct *)
Lemma node_correct T k n t stack level fast ns c t4 fs e ps seg rest' kont :
  rec_ok T k (gen_level k) ->
  gen_node_with (gen_level k) n t stack level fast ns = (c, t4, fs) ->
  height_l (children n) < k -> wf_n n = true -> ext t4 T ->
  skipn level (e_path e) = seg :: rest' ->
  stack_run stack e (e_params e) = Some ps -> uids_le (length stack) stack ->
  match dfs_n n (node_class n) (seg :: rest') ps with
  | Some r => execs T (c ++ kont) e = Ret (Some r)
  | None => (exists e', agree (length stack) e e' /\ execs T (c ++ kont) e = execs T kont e')
            \/ (fast = true /\ execs T (c ++ kont) e = Ret None /\ (node_class n = 0 -> seg = raw n))
  end.
Proof.
  intros Hrec H Hh Hwf Hext Hskip Hrun Hu.
  destruct (wf_n_inv _ Hwf) as [Hok Hwfc].
  unfold Model.gen_node_with in H.
  destruct (node_head cinst cmulti n t stack level ns) as [[[[wrap stack'] t1] consume] fs'] eqn:NH.
  set (ridx := length (t_rvs t1)) in *.
  set (t2 := match res n with Some r => add_rv t1 r | None => t1 end) in *.
  set (t3 := if consume && match children n with [] => false | _ :: _ => true end then t_fail t2 else t2) in *.
  destruct (gen_level k (children n) t3 stack' (S level) fast) as [cc t4'] eqn:GL.
  injection H as <- <- <-.
  pose proof (gen_level_ext cinst cmulti k (children n) t3 stack' (S level) fast) as E34.
  rewrite GL in E34. simpl in E34.
  assert (E23 : ext t2 t3) by (unfold t3; destruct (_ && _); [apply ext_fail | apply ext_refl]).
  assert (E12 : ext t1 t2) by (unfold t2; destruct (res n); [apply ext_add_rv | apply ext_refl]).
  assert (Hext1 : ext t1 T).
  { eapply ext_trans; [exact E12|]. eapply ext_trans; [exact E23|]. eapply ext_trans; eauto. }
  set (tail := node_tail (res n) stack' level ridx fast consume).
  destruct (node_head_correct cinst cmulti T n t stack level ns wrap stack' t1 consume fs' e ps seg rest'
              (cc ++ tail) NH Hext1 Hok Hskip Hrun Hu) as (Hu' & Hlen' & Hcons & Hm).
  destruct (skipn_cons_nth _ _ _ _ Hskip) as (Hnth & Hskip' & Hlt).
  pose proof (skipn_len_eq _ _ _ _ Hskip) as Hpl.
  rewrite dfs_n_cons, Nat.eqb_refl. cbv [negb]. cbv iota.
  rewrite execs_app.
  destruct (bind_node (parse_seg (raw n)) (raw n) seg rest' ps) as [[ps' sw]|] eqn:BN.
  2:{ destruct Hm as (e' & A & X). rewrite X. left. exists e'. split; [exact A | reflexivity]. }
  destruct Hm as (-> & e1 & A1 & R1 & X1). rewrite X1.
  assert (Hrv : forall r, res n = Some r -> nth_error (t_rvs T) ridx = Some r).
  { intros r Hr. unfold ridx. eapply ext_rv. unfold t2 in *. rewrite Hr in *.
    eapply ext_trans; [exact E23|]. eapply ext_trans; eauto. }
  assert (Hret : forall e2 r, res n = Some r -> agree (length stack') e1 e2 ->
             execs T (stack' ++ [RetVal ridx]) e2 = Ret (Some (r, ps'))).
  { intros e2 r Hr A2. rewrite (stack_exec' T stack' e2 ps').
    - simpl. rewrite (Hrv r Hr). reflexivity.
    - rewrite (stack_run_agree _ _ _ _ A2 Hu'). destruct A2 as (_ & -> & _). exact R1. }
  assert (Hlit : node_class n = 0 -> seg = raw n).
  { intro Hc. eapply bind_lit; [exact Hc | exact BN]. }
  destruct consume.
  - (* a path converter swallowed the rest *)
    rewrite (Hcons eq_refl) in GL.
    assert (cc = []) by (destruct k; simpl in GL; injection GL as <- _; reflexivity). subst cc.
    simpl app. unfold tail, node_tail.
    destruct (res n) as [r|] eqn:Hr.
    + rewrite (Hret e1 r eq_refl (agree_refl _ _)). reflexivity.
    + destruct fast.
      * right. split; [reflexivity|]. split; [reflexivity | exact Hlit].
      * left. exists e1. split; [exact A1 | reflexivity].
  - (* children, then the node's own resource *)
    assert (Hpath1 : e_path e1 = e_path e) by (destruct A1 as (P & _); exact P).
    assert (IH := Hrec (children n) t3 stack' (S level) fast cc t4' e1 ps' GL Hh Hwfc Hext R1 Hu').
    unfold level_spec in IH. rewrite Hpath1, Hskip' in IH.
    rewrite execs_app.
    destruct rest' as [|s2 rest2].
    + (* the path ends here *)
      rewrite dfs_level_nil in IH.
      assert (Hfall : exists e2, execs T cc e1 = Fall e2 /\ agree (length stack') e1 e2).
      { destruct IH as [IH | (_ & Hl & _)]; [exact IH|]. simpl in Hpl. lia. }
      destruct Hfall as (e2 & -> & A2).
      assert (A02 : agree (length stack) e e2).
      { eapply agree_trans; [exact A1|]. eapply agree_mono; [exact Hlen' | exact A2]. }
      unfold tail, node_tail. destruct (res n) as [r|] eqn:Hr.
      * rewrite execs_cons, exec1_IfLen.
        assert (Hl2 : length (e_path e2) = S level).
        { destruct A2 as (-> & _). rewrite Hpath1. simpl in Hpl. lia. }
        rewrite Hl2, Nat.eqb_refl. rewrite (Hret e2 r eq_refl A2). reflexivity.
      * destruct fast.
        -- right. split; [reflexivity|]. split; [reflexivity | exact Hlit].
        -- left. exists e2. split; [exact A02 | reflexivity].
    + (* more segments follow *)
      destruct (dfs_level (children n) (s2 :: rest2) ps') as [r|].
      * rewrite IH. reflexivity.
      * destruct IH as [(e2 & -> & A2) | (Hf & _ & ->)].
        -- assert (A02 : agree (length stack) e e2).
           { eapply agree_trans; [exact A1|]. eapply agree_mono; [exact Hlen' | exact A2]. }
           assert (Hl2 : Nat.eqb (length (e_path e2)) (S level) = false).
           { destruct A2 as (-> & _). rewrite Hpath1. apply Nat.eqb_neq. simpl in Hpl. lia. }
           unfold tail, node_tail. destruct (res n) as [r|].
           ++ rewrite execs_cons, exec1_IfLen, Hl2. destruct fast.
              ** right. split; [reflexivity|]. split; [reflexivity | exact Hlit].
              ** left. exists e2. split; [exact A02 | reflexivity].
           ++ destruct fast.
              ** right. split; [reflexivity|]. split; [reflexivity | exact Hlit].
              ** left. exists e2. split; [exact A02 | reflexivity].
        -- right. split; [exact Hf|]. split; [reflexivity | exact Hlit].
Qed.

(* ---- the siblings of one level *)
Definition lit_node (n : node) : Prop := node_class n = 0.

Lemma lit_no_match n seg rest ps :
  lit_node n -> seg <> raw n -> dfs_n n (node_class n) (seg :: rest) ps = None.
Proof.
  intros Hl Hne. rewrite dfs_n_cons, Nat.eqb_refl. cbv [negb]. cbv iota.
  destruct (bind_node _ _ _ _ _) as [x|] eqn:B; [|reflexivity].
  exfalso. apply Hne. eapply bind_lit; eauto.
Qed.

Lemma sibs_correct T k l : forall t stack level fast ns c t' f e ps seg rest' kont,
  rec_ok T k (gen_level k) ->
  gen_sibs (gen_level k) l t stack level fast ns = (c, t', f) ->
  (forall n, In n l -> height_l (children n) < k) ->
  forallb wf_n l = true -> NoDup (map raw l) ->
  (fast = true -> length l <= 1 \/ Forall lit_node l) ->
  ext t' T ->
  skipn level (e_path e) = seg :: rest' ->
  stack_run stack e (e_params e) = Some ps -> uids_le (length stack) stack ->
  match dfs_seq l (seg :: rest') ps with
  | Some r => execs T (c ++ kont) e = Ret (Some r)
  | None => (exists e', agree (length stack) e e' /\ execs T (c ++ kont) e = execs T kont e')
            \/ (fast = true /\ execs T (c ++ kont) e = Ret None)
  end.
Proof.
  induction l as [|n l IH]; intros t stack level fast ns c t' f e ps seg rest' kont
                                   Hrec H Hh Hwf Hnd HF Hext Hskip Hrun Hu.
  - simpl in H. injection H as <- _ _. simpl. left. exists e. split; [apply agree_refl | reflexivity].
  - simpl in H.
    destruct (gen_node_with (gen_level k) n t stack level fast ns) as [[c1 t1] f1] eqn:E1.
    destruct (gen_sibs (gen_level k) l t1 stack level fast ns) as [[c2 t2] f2] eqn:E2.
    injection H as <- <- _.
    simpl in Hwf. apply andb_true_iff in Hwf as [Hwfn Hwfl].
    inversion Hnd as [|? ? Hn1 Hnd']; subst.
    assert (E2x : ext t1 t2) by (eapply gen_sibs_ext; [apply gen_level_ext | exact E2]).
    pose proof (node_correct T k n t stack level fast ns c1 t1 f1 e ps seg rest' (c2 ++ kont) Hrec E1
                  (Hh n (or_introl eq_refl)) Hwfn (ext_trans _ _ _ E2x Hext) Hskip Hrun Hu) as HN.
    rewrite <- app_assoc. simpl dfs_seq.
    destruct (dfs_n n (node_class n) (seg :: rest') ps) as [r|]; [exact HN|].
    destruct HN as [(e' & A & X) | (Hf & X & Hlit)].
    + rewrite X.
      assert (HF' : fast = true -> length l <= 1 \/ Forall lit_node l).
      { intro Hf. destruct (HF Hf) as [Hl|Hl]; [left; simpl in Hl; lia | right; inversion Hl; assumption]. }
      assert (Hskip2 : skipn level (e_path e') = seg :: rest') by (destruct A as (-> & _); exact Hskip).
      assert (Hrun2 : stack_run stack e' (e_params e') = Some ps).
      { rewrite (stack_run_agree _ _ _ _ A Hu). destruct A as (_ & -> & _). exact Hrun. }
      pose proof (IH t1 stack level fast ns c2 t2 f2 e' ps seg rest' kont Hrec E2
                     (fun m Hm => Hh m (or_intror Hm)) Hwfl Hnd' HF' Hext Hskip2 Hrun2 Hu) as HI.
      destruct (dfs_seq l (seg :: rest') ps) as [r|]; [exact HI|].
      destruct HI as [(e2 & A2 & X2) | (Hf & X2)].
      * left. exists e2. split; [eapply agree_trans; eauto | exact X2].
      * right. split; assumption.
    + (* fast: the node matched and returned None; no later sibling can match *)
      assert (Hrest : dfs_seq l (seg :: rest') ps = None).
      { destruct (HF Hf) as [Hl|Hl].
        - destruct l; [reflexivity | simpl in Hl; lia].
        - inversion Hl as [|? ? Hln Hll]; subst. specialize (Hlit Hln). subst seg.
          clear - Hn1 Hll. induction l as [|m l IHl]; [reflexivity|].
          inversion Hll; subst. simpl.
          rewrite lit_no_match; [apply IHl; [|assumption]|assumption|].
          + intro Hin. apply Hn1. right. exact Hin.
          + intro Heq. apply Hn1. left. symmetry. exact Heq. }
      rewrite Hrest. right. split; assumption.
Qed.

(* ---- sort3 keeps the sibling invariants *)
Lemma NoDup_map_filter {A B} (f : A -> B) p (l : list A) :
  NoDup (map f l) -> NoDup (map f (filter p l)).
Proof.
  induction l as [|x l IH]; simpl; intro H; [constructor|].
  inversion H as [|? ? Hn Hd]; subst. destruct (p x); simpl; [|auto].
  constructor; [|auto]. intro Hin. apply Hn. apply in_map_iff in Hin as (y & Hy & Hin).
  apply filter_In in Hin as [Hin _]. apply in_map_iff. eauto.
Qed.

Lemma NoDup_app_intro {A} (a b : list A) :
  NoDup a -> NoDup b -> (forall x, In x a -> In x b -> False) -> NoDup (a ++ b).
Proof.
  induction a as [|x a IH]; simpl; intros Ha Hb Hd; [exact Hb|].
  inversion Ha; subst. constructor.
  - intro Hin. apply in_app_or in Hin as [Hin|Hin]; [contradiction | eapply Hd; eauto].
  - apply IH; auto. intros y Hy1 Hy2. eapply Hd; eauto.
Qed.

Lemma in_raw_class c l x :
  In x (map raw (filter (fun n => Nat.eqb (node_class n) c) l)) -> class_of (parse_seg x) = c.
Proof.
  intro H. apply in_map_iff in H as (n & <- & Hn). apply filter_In in Hn as [_ Hn].
  apply Nat.eqb_eq in Hn. exact Hn.
Qed.

Lemma sort3_nodup l : NoDup (map raw l) -> NoDup (map raw (sort3 l)).
Proof.
  intro H. unfold sort3. rewrite !map_app.
  apply NoDup_app_intro; [apply NoDup_map_filter; exact H | apply NoDup_app_intro |].
  - apply NoDup_map_filter; exact H.
  - apply NoDup_map_filter; exact H.
  - intros x H1 H2. apply in_raw_class in H1, H2. congruence.
  - intros x H1 H2. apply in_raw_class in H1. apply in_app_or in H2 as [H2|H2];
      apply in_raw_class in H2; congruence.
Qed.

Lemma sort3_in l n : In n (sort3 l) -> In n l.
Proof.
  unfold sort3. intro H. apply in_app_or in H as [H|H]; [|apply in_app_or in H as [H|H]];
    apply filter_In in H as [H _]; exact H.
Qed.

Lemma sort3_forallb p l : forallb p l = true -> forallb p (sort3 l) = true.
Proof.
  intro H. apply forallb_forall. intros x Hx. apply sort3_in in Hx.
  rewrite forallb_forall in H. auto.
Qed.

Lemma level_fast_inv fast l :
  level_fast fast l = true -> fast = true /\ (length l <= 1 \/ Forall lit_node l).
Proof.
  unfold level_fast. destruct fast; [|discriminate]. intro H. split; [reflexivity|].
  destruct (1 <? length l) eqn:E; [|left; apply Nat.ltb_ge in E; exact E].
  right. apply negb_true_iff in H. apply Forall_forall. intros x Hx.
  destruct (Nat.eqb (node_class x) 0) eqn:C; [apply Nat.eqb_eq in C; exact C|].
  exfalso. assert (existsb (fun n => negb (Nat.eqb (node_class n) 0)) l = true).
  { apply existsb_exists. exists x. split; [exact Hx | rewrite C; reflexivity]. }
  congruence.
Qed.

(* ---- a level *)
Lemma level_correct T fuel : rec_ok T fuel (gen_level fuel).
Proof.
  induction fuel as [|k IH]; intros nodes t stack level fast code t' e ps H Hh Hwf Hext Hrun Hu.
  - lia.
  - simpl in H. destruct nodes as [|n0 nodes0].
    + injection H as <- _. unfold level_spec. simpl dfs_level.
      replace (dfs_level [] (skipn level (e_path e)) ps) with (@None (N * params))
        by (unfold Spec.dfs_level; reflexivity).
      left. exists e. split; [reflexivity | apply agree_refl].
    + set (nodes := n0 :: nodes0) in *.
      set (sorted := sort3 nodes) in *.
      set (fast' := level_fast fast sorted) in *.
      destruct (gen_sibs (gen_level k) sorted t stack level fast' (count_simple sorted))
        as [[body t2] found] eqn:GS.
      injection H as <- <-.
      unfold level_spec. rewrite execs_single, exec1_IfLen.
      destruct (skipn level (e_path e)) as [|seg rest'] eqn:Hskip.
      * rewrite dfs_level_nil. apply skipn_nil_len in Hskip.
        replace (level <? length (e_path e)) with false by (symmetry; apply Nat.ltb_ge; exact Hskip).
        left. exists e. split; [reflexivity | apply agree_refl].
      * destruct (skipn_cons_nth _ _ _ _ Hskip) as (_ & _ & Hlt).
        replace (level <? length (e_path e)) with true by (symmetry; apply Nat.ltb_lt; exact Hlt).
        unfold Spec.wf in Hwf. apply andb_true_iff in Hwf as [Hwf Hall].
        apply andb_true_iff in Hwf as [Hnd _].
        pose proof (sibs_correct T k sorted t stack level fast' (count_simple sorted) body t2 found e ps seg rest'
                      (if negb found && fast' then [RetNone] else []) IH GS) as HS.
        rewrite dfs_level_seq. fold sorted.
        assert (HS' := HS
                  (fun n Hn => Nat.lt_le_trans _ _ _ (height_children n nodes (sort3_in _ _ Hn))
                                               (proj1 (Nat.lt_succ_r _ _) Hh))
                  (sort3_forallb _ _ Hall)
                  (sort3_nodup _ (nodupb_NoDup _ Hnd))
                  (fun Hf => proj2 (level_fast_inv _ _ Hf))
                  Hext Hskip Hrun Hu).
        clear HS.
        destruct (dfs_seq sorted (seg :: rest') ps) as [r|]; [exact HS'|].
        destruct HS' as [(e' & A & X) | (Hf & X)].
        -- rewrite X. destruct (negb found && fast') eqn:B.
           ++ right. apply andb_true_iff in B as [_ B]. unfold fast' in B.
              apply level_fast_inv in B as [B _]. split; [exact B|]. split; [exact Hlt | reflexivity].
           ++ left. exists e'. split; [reflexivity | exact A].
        -- right. unfold fast' in Hf. apply level_fast_inv in Hf as [Hf _].
           split; [exact Hf|]. split; [exact Hlt | exact X].
Qed.

(* ---- the whole finder *)
Theorem compile_exec roots path :
  wf roots = true ->
  let f := compile cinst cmulti roots in
  match execs (snd f) (fst f) (env0 path) with
  | Fall _ => dfs_level roots path [] = None
  | Ret r => r = dfs_level roots path []
  | Crash => False
  end.
Proof.
  intros Hwf f. unfold f, compile.
  destruct (gen_level (S (height_l roots)) roots tables0 [] 0 true) as [code T] eqn:G.
  pose proof (level_correct T (S (height_l roots)) roots tables0 [] 0 true code T (env0 path) []
                G (Nat.lt_succ_diag_r _) Hwf (ext_refl T) eq_refl (Forall_nil _)) as H.
  unfold level_spec in H. simpl skipn in H. simpl fst. simpl snd.
  change (e_path (env0 path)) with path in H.
  destruct (dfs_level roots path []) as [r|].
  - rewrite H. reflexivity.
  - destruct H as [(e' & -> & _) | (_ & _ & ->)]; reflexivity.
Qed.

End Correct.
