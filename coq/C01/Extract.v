From Coq Require Import ZArith NArith List Bool.
From Coq Require Import ExtrOcamlBasic.
From Falcon.lib Require Import Wire PyStr.
From Falcon.gen Require Import ConstsC01.
From Falcon.C01 Require Import Model Spec.
Import ListNotations.
Open Scope Z_scope.

(* ---- the converter table of the router, sent with every history *)
Definition d_optZ (v : val) : option Z := dopt dZ v.
Definition d_rat (v : val) : option (Z * Z) :=
  match v with L [n; d] => Some (dZ n, dZ d) | _ => None end.
(* float() oracle entry: [s; [0; num; den; repr]] | [s; [1; neg; repr]] | [s; [2; repr]] *)
Definition d_fparse (v : val) : fparse :=
  match v with
  | L [I 0; n; d; r] => FNum (dZ n) (dZ d) (dstr r)
  | L [I 1; neg; r] => FInf (dbool neg) (dstr r)
  | L [I _; r] => FNan (dstr r)
  | _ => FNan []
  end.
Definition d_value0 (v : val) : value :=
  match v with
  | L [I 1; I z] => VInt z
  | L [I 2; s] => VOther (dstr s)
  | L [I _; s] => VStr (dstr s)
  | _ => VStr []
  end.
Definition d_cres (v : val) : cres :=
  match v with
  | L (I 1 :: _) => CFail
  | L [I 2; nd; mn; mx] => COk (CInt (d_optZ nd) (d_optZ mn) (d_optZ mx))
  | L (I 3 :: _) => COk CPath
  | L [I 4; mn; mx; fin; tbl] =>
    COk (CFloat (d_rat mn) (d_rat mx) (dbool fin)
                (dlist (fun e => (dstr (nth_val 0 e), d_fparse (nth_val 1 e))) tbl))
  | L [I 5; tbl] => COk (COpaque (dlist (fun e => (dstr (nth_val 0 e), d_value0 (nth_val 1 e))) tbl))
  | _ => CUnknown
  end.
Definition opt_str_eqb (a b : option str) : bool :=
  match a, b with
  | None, None => true
  | Some x, Some y => str_eqb x y
  | _, _ => false
  end.
Definition ctab := list (str * option str * cres).
Definition d_ctab (v : val) : ctab :=
  dlist (fun e => (dstr (nth_val 0 e), dopt dstr (nth_val 1 e), d_cres (nth_val 2 e))) v.
Fixpoint tab_cinst (t : ctab) (cn : str) (arg : option str) : cres :=
  match t with
  | [] => CUnknown
  | (c, a, r) :: tl => if str_eqb cn c && opt_str_eqb arg a then r else tab_cinst tl cn arg
  end.
Definition tab_multi (l : list str) (cn : str) : bool := mem cn l.

(* ---- encoders *)
Definition v_field (f : fieldm) : val :=
  L [I 1; vstr (f_name f); vopt vstr (f_cname f); vopt vstr (f_arg f)].
Definition v_piece (p : piece) : val :=
  match p with PC c => L [I 0; vN c] | PF f => v_field f end.
Definition v_groups (g : groups) : val := vlist (vpair vstr vstr) g.
Definition v_value (x : value) : val :=
  match x with VStr s => L [I 0; vstr s] | VInt z => L [I 1; I z] | VOther s => L [I 2; vstr s] end.
Definition v_params (p : params) : val := vlist (vpair vstr v_value) p.
Definition v_result (r : option (N * params)) : val :=
  match r with None => L [] | Some (rid, p) => L [vN rid; v_params p] end.
Definition v_outcome (o : outcome) : val :=
  match o with
  | Ret r => L [I 0; v_result r]
  | Fall _ => L [I 1]
  | Crash => L [I 2]
  end.
Definition err_code (e : err) : Z :=
  match e with
  | EWhitespace => 1 | EIdent => 2 | EDup => 3 | EMissingConv => 4 | EUnknownConv => 5
  | ECannotInst => 6 | ENoChildren => 7 | EConflict => 8 | EComplexMulti => 9 | EBadResponders => 10
  end.
Definition v_ires (r : ires) : val := match r with IOk => I 0 | IErr e => I (err_code e) end.

Fixpoint v_cx (c : cx) : val :=
  let vl := fix vl (l : list cx) : list val :=
    match l with [] => [] | c :: tl => v_cx c :: vl tl end in
  match c with
  | IfLen gt n b => L [I 0; vbool gt; vnat n; L (vl b)]
  | IfLit i s b => L [I 1; vnat i; vstr s; L (vl b)]
  | IfPat i p b => L [I 2; vnat i; vnat p; L (vl b)]
  | IfConv u c b => L [I 3; vnat u; vnat c; L (vl b)]
  | SetFragField s => L [I 4; vstr s]
  | SetFragPath i => L [I 5; vnat i]
  | SetFragRest i => L [I 6; vnat i]
  | VarFromMatch u => L [I 7; vnat u]
  | VarFromPrefetched u => L [I 8; vnat u]
  | PrefetchGroups => L [I 9]
  | RetNone => L [I 10]
  | RetVal i => L [I 11; vnat i]
  | SetParamPath s i => L [I 12; vstr s; vnat i]
  | SetParamValue s u => L [I 13; vstr s; vnat u]
  | SetParamsDict pre u => L [I 14; vbool pre; vnat u]
  end.

Fixpoint v_node (n : node) : val :=
  match n with
  | Node r x ch => L [vstr r; vopt vN x; L ((fix vl (l : list node) : list val :=
                                               match l with [] => [] | m :: tl => v_node m :: vl tl end) ch)]
  end.

Definition d_value (v : val) : value :=
  match v with
  | L [I 1; I z] => VInt z
  | L [I 2; s] => VOther (dstr s)
  | L [I _; s] => VStr (dstr s)
  | _ => VStr []
  end.
Definition d_result (v : val) : option (N * params) :=
  match v with
  | L [rid; ps] => Some (dN rid, dlist (fun p => (dstr (nth_val 0 p), d_value (nth_val 1 p))) ps)
  | _ => None
  end.

(* ---- a history of router operations *)
Section Hist.
Variable ci : str -> option str -> cres.
Variable cm : str -> bool.

Definition do_op (r : router) (op : val) : router * val :=
  match op with
  | L [I 0; tpl; rid; comp] =>
    let '(r', x) := router_add ci cm ident_strict insert_atomic r (dstr tpl) (dN rid) (dbool comp) true in
    (r', L [I 0; v_ires x])
  | L [I 0; tpl; rid; comp; rok] =>
    let '(r', x) := router_add ci cm ident_strict insert_atomic r (dstr tpl) (dN rid) (dbool comp) (dbool rok) in
    (r', L [I 0; v_ires x])
  | L [I 1; uri] =>
    let '(r', o) := router_find ci cm literal_src_quoted r (dstr uri) in
    (r', L [I 1; v_outcome o; v_result (dfs ci cm (r_roots r) (dstr uri))])
  | L [I 2] =>
    let f := compile ci cm (r_roots r) in
    (r, L [I 2; vlist v_cx (fst f);
           L [vlist vN (t_rvs (snd f)); vnat (length (t_pats (snd f))); vnat (length (t_convs (snd f)));
              vbool (t_ok (snd f))];
           vlist v_node (r_roots r); vbool (wf ci cm (r_roots r));
           vbool (t_ok (snd f) && src_ok literal_src_quoted (fst f))])
  | L [I 3; uri; obs] =>
    (r, L [I 3; vbool (find_oracle ci cm (r_roots r) (dstr uri) (d_result obs))])
  | _ => (r, L [I (-1)])
  end.

Fixpoint do_ops (r : router) (ops : list val) : list val :=
  match ops with
  | [] => []
  | op :: tl => let '(r', o) := do_op r op in o :: do_ops r' tl
  end.
End Hist.

(* ops: 0 parse_seg; 1 match_pieces; 2 int_convert; 3 history; 4 float_convert *)
Definition run (v : val) : val :=
  match v with
  | L [I 0; s] => L [I 0; vlist v_piece (parse_seg (dstr s))]
  | L [I 1; rw; s] => L [I 1; vopt v_groups (match_pieces (parse_seg (dstr rw)) (dstr s))]
  | L [I 2; nd; mn; mx; s] =>
    L [I 2; vopt I (int_convert (d_optZ nd) (d_optZ mn) (d_optZ mx) (dstr s))]
  | L [I 4; mn; mx; fin; tbl; L ss] =>
    let t := dlist (fun e => (dstr (nth_val 0 e), d_fparse (nth_val 1 e))) tbl in
    L [I 4; L (map (fun s => vopt v_value (float_convert (d_rat mn) (d_rat mx) (dbool fin) t (dstr s))) ss)]
  | L [I 3; ct; ml; L ops] =>
    L (do_ops (tab_cinst (d_ctab ct)) (tab_multi (dlist dstr ml)) router0 ops)
  | _ => L [I (-1)]
  end.

Extraction "C01/model.ml" run.
