From Falcon.C01 Require Import Model Spec.
