(* C01 — property theorems only.  Each is closed by [exact] of a lemma from the Proofs*.v
   files and followed by Print Assumptions.

   Everything is parametric in the router's converter table:
     cinst cname argstr = outcome of eval('Klass(argstr)')   (unknown / raises / instance)
     cmulti cname       = CONSUME_MULTIPLE_SEGMENTS of the class
   and is stated about the definitions that are extracted and run against falcon:
   add_route / insert, compile (= _generate_ast), execs (meaning of the generated Python),
   run_finder, router_add / router_find, and the reference walk dfs. *)
From Coq Require Import ZArith NArith List Bool.
From Falcon.lib Require Import PyStr.
From Falcon.gen Require Import ConstsC01.
From Falcon.C01 Require Import Model Spec ProofsBase ProofsGen ProofsHead ProofsCorrect ProofsWf ProofsCompiles ProofsRouter ProofsConv.
Import ListNotations.

(* Compiler correctness: for every well-formed tree and every path, running the generated
   finder (the _Cx* program produced by _generate_ast, under the semantics [execs]) never
   raises, and returns exactly what the depth-first walk returns: the same route, with exactly
   the fields bound on the way to it (nothing from abandoned branches: the walk's bindings
   are the ones made on the successful branch only). *)
Theorem C01_compile_correct : forall cinst cmulti roots path,
  wf cinst cmulti roots = true ->
  let f := compile cinst cmulti roots in
  match execs (snd f) (fst f) (env0 path) with
  | Fall _ => dfs_level cinst cmulti roots path [] = None
  | Ret r => r = dfs_level cinst cmulti roots path []
  | Crash => False
  end.
Proof. exact compile_exec. Qed.
Print Assumptions C01_compile_correct.

(* add_route keeps the tree well-formed (sibling segments distinct, at most one single-field
   sibling, converters instantiate, field names distinct and quotable, a path converter only
   on a childless single-field node) ... *)
Theorem C01_add_route_wf : forall cinst cmulti atomic roots tpl rid roots',
  wf cinst cmulti roots = true ->
  add_route cinst cmulti true atomic roots tpl rid = (roots', IOk) ->
  wf cinst cmulti roots' = true.
Proof. exact add_route_wf. Qed.
Print Assumptions C01_add_route_wf.

(* ... hence every tree reachable by any history of add_route calls (accepted or rejected,
   any compile flags, interleaved lookups) is well-formed. *)
Theorem C01_reachable_wf : forall cinst cmulti ops,
  wf cinst cmulti (tree_of cinst cmulti ops) = true.
Proof. exact reachable_wf. Qed.
Print Assumptions C01_reachable_wf.

(* A call that is rejected — because of the template, or because the resource's responders are of
   the wrong kind for the router ([rok] = false: TypeError, checked before anything is touched) —
   leaves the tree exactly as it was ... *)
Theorem C01_add_route_reject_unchanged : forall cinst cmulti rok roots tpl rid roots' e,
  add_cur cinst cmulti rok roots tpl rid = (roots', IErr e) -> roots' = roots.
Proof. exact reject_unchanged. Qed.
Print Assumptions C01_add_route_reject_unchanged.

(* ... so deleting the rejected call from a history changes nothing that comes later. *)
Theorem C01_rejected_call_invisible : forall cinst cmulti ops1 ops2 tpl rid comp rok e,
  snd (add_cur cinst cmulti rok (tree_of cinst cmulti ops1) tpl rid) = IErr e ->
  tree_of cinst cmulti (ops1 ++ OAdd tpl rid comp rok :: ops2) = tree_of cinst cmulti (ops1 ++ ops2).
Proof. exact rejected_call_invisible. Qed.
Print Assumptions C01_rejected_call_invisible.

(* The insertion of the code as found (node appended before its subtree is validated) leaves
   residue: refuted, and the residue changes later lookups. *)
Theorem C01_add_route_reject_unchanged_refuted_before_fix :
  exists roots tpl rid roots' e,
    add_route ex_cinst ex_multi true false roots tpl rid = (roots', IErr e) /\ roots' <> roots.
Proof. exact reject_unchanged_refuted_before_fix. Qed.
Print Assumptions C01_add_route_reject_unchanged_refuted_before_fix.

Theorem C01_rejected_call_visible_before_fix :
  let r1 := fst (add_route ex_cinst ex_multi true false [] tpl_bad 0%N) in
  snd (add_route ex_cinst ex_multi true false r1 tpl_next 1%N) = IErr EConflict /\
  dfs ex_cinst ex_multi (fst (add_route ex_cinst ex_multi true false r1 tpl_next 1%N)) uri_q_foo = None /\
  snd (add_route ex_cinst ex_multi true false [] tpl_next 1%N) = IOk /\
  dfs ex_cinst ex_multi (fst (add_route ex_cinst ex_multi true false [] tpl_next 1%N)) uri_q_foo
  = Some (1%N, [([122%N], VStr [113%N])]).
Proof. exact rejected_call_visible_before_fix. Qed.
Print Assumptions C01_rejected_call_visible_before_fix.

(* Laziness is invisible: after any interleaving of add_route(compile in {True, False}) and
   find, a lookup runs the compilation of the *current* tree. *)
Theorem C01_lazy_compile_transparent : forall cinst cmulti ops uri,
  snd (router_find cinst cmulti literal_src_quoted (run_ops cinst cmulti router0 ops) uri)
  = run_finder literal_src_quoted (compile cinst cmulti (tree_of cinst cmulti ops)) (segs_of uri).
Proof. exact lazy_compile_transparent. Qed.
Print Assumptions C01_lazy_compile_transparent.

(* A well-formed tree compiles: none of the asserts of _generate_ast trips, every converter
   instantiates, and every literal / field name survives the quoting of the generated source. *)
Theorem C01_wf_compiles : forall cinst cmulti roots,
  wf cinst cmulti roots = true ->
  t_ok (snd (compile cinst cmulti roots)) = true /\
  src_ok true (fst (compile cinst cmulti roots)) = true.
Proof. exact wf_compiles. Qed.
Print Assumptions C01_wf_compiles.

(* The full lookup statement: for every history of add_route calls (accepted and rejected,
   with and without the compile flag, interleaved with lookups) and every request path,
   router.find returns — never raises — the depth-first walk's answer on the tree of the
   accepted templates. *)
Theorem C01_find_spec : forall cinst cmulti ops uri,
  snd (router_find cinst cmulti literal_src_quoted (run_ops cinst cmulti router0 ops) uri)
  = Ret (dfs cinst cmulti (tree_of cinst cmulti ops) uri).
Proof. exact find_spec_full. Qed.
Print Assumptions C01_find_spec.

(* Lookups never fail with an internal error. *)
Theorem C01_find_no_crash : forall cinst cmulti ops uri,
  snd (router_find cinst cmulti literal_src_quoted (run_ops cinst cmulti router0 ops) uri) <> Crash.
Proof. exact find_no_crash. Qed.
Print Assumptions C01_find_no_crash.

(* The source text: literals are emitted with repr() and identifiers are matched with \Z
   (both regenerated from the staged sources; these two break when the code is reverted). *)
Theorem C01_literal_source_sound : literal_src_quoted = true /\ ident_strict = true /\ insert_atomic = true.
Proof. repeat split; reflexivity. Qed.
Print Assumptions C01_literal_source_sound.

Theorem C01_literal_source_refuted_before_fix :
  exists tpl path,
    let roots := fst (add_route ex_cinst ex_multi true true [] tpl 0%N) in
    snd (add_route ex_cinst ex_multi true true [] tpl 0%N) = IOk /\
    run_finder false (compile ex_cinst ex_multi roots) path = Crash.
Proof. exact literal_source_refuted_before_fix. Qed.
Print Assumptions C01_literal_source_refuted_before_fix.

Theorem C01_identifier_newline_refuted_before_fix :
  exists tpl path,
    let roots := fst (add_route ex_cinst ex_multi false true [] tpl 0%N) in
    snd (add_route ex_cinst ex_multi false true [] tpl 0%N) = IOk /\
    run_finder true (compile ex_cinst ex_multi roots) path = Crash.
Proof. exact identifier_newline_refuted_before_fix. Qed.
Print Assumptions C01_identifier_newline_refuted_before_fix.

(* Converters veto: an int / float converter with bounds lets nothing outside them through —
   for every bound, zero included (a converted value exists only within [min, max], with the
   required digit count / finiteness). *)
Theorem C01_int_bounds_veto : forall nd mn mx s z,
  int_convert nd mn mx s = Some z ->
  (forall m, mn = Some m -> (m <= z)%Z) /\ (forall m, mx = Some m -> (z <= m)%Z) /\
  (forall n, nd = Some n -> Z.of_nat (length s) = n).
Proof. exact int_convert_bounds. Qed.
Print Assumptions C01_int_bounds_veto.

Theorem C01_float_bounds_veto : forall mn mx fin tbl s v,
  float_convert mn mx fin tbl s = Some v ->
  exists x, tbl_get tbl s = Some x /\ v = VOther (f_repr x) /\
            (fin = true -> f_finite x = true) /\
            (forall b, mn = Some b -> f_lt x b = false) /\ (forall b, mx = Some b -> f_gt x b = false).
Proof. exact float_convert_bounds. Qed.
Print Assumptions C01_float_bounds_veto.

(* The groups of a segment-pattern match are exactly the pattern's fields (so that the
   generated groups.pop(name) cannot raise). *)
Theorem C01_match_groups_are_fields : forall ps s g,
  match_pieces ps s = Some g -> map fst g = map f_name (fields ps).
Proof. exact match_pieces_keys. Qed.
Print Assumptions C01_match_groups_are_fields.

(* The oracle the harness applies to the implementation's answers accepts the model's. *)
Theorem C01_oracle_sound : forall cinst cmulti ops uri,
  exists r,
    snd (router_find cinst cmulti literal_src_quoted (run_ops cinst cmulti router0 ops) uri) = Ret r /\
    find_oracle cinst cmulti (tree_of cinst cmulti ops) uri r = true.
Proof. exact oracle_sound. Qed.
Print Assumptions C01_oracle_sound.

(* Non-vacuity: a well-formed tree with a literal, a converter field with a child, a
   multi-field segment and a path-swallowing leaf; its finder compiles; precedence, veto +
   backtracking into the path converter. *)
Example C01_premises_satisfiable :
  wf ex_cinst ex_multi ex_tree = true /\ compiles_ok ex_cinst ex_multi ex_tree = true /\
  dfs ex_cinst ex_multi ex_tree [47; 97; 47; 49; 50; 47; 98]%N = Some (0%N, [([120%N], VInt 12)]) /\
  dfs ex_cinst ex_multi ex_tree [47; 97; 47; 113; 46; 106]%N = Some (1%N, [([121%N], VStr [113%N])]) /\
  dfs ex_cinst ex_multi ex_tree [47; 97; 47; 49; 47; 99]%N
  = Some (3%N, [([112%N], VStr [97; 47; 49; 47; 99]%N)]).
Proof. exact ex_tree_ok. Qed.
