(* C01 — basic lemmas: execution of blocks, the delayed params_stack, environments that
   agree on what a stack reads, growth of the side tables. *)
From Coq Require Import ZArith NArith List Bool Lia Arith.
From Falcon.lib Require Import PyStr.
From Falcon.C01 Require Import Model Spec.
Import ListNotations.
Close Scope N_scope.
Open Scope nat_scope.

(* ---- blocks *)
Lemma execs_app T a b e :
  execs T (a ++ b) e = match execs T a e with Fall e' => execs T b e' | o => o end.
Proof.
  revert e; induction a as [|c a IH]; intro e; simpl; [reflexivity|].
  destruct (exec1 T c e); auto.
Qed.

Lemma exec1_IfLen T gt n body e :
  exec1 T (IfLen gt n body) e =
  if (if gt then (n <? length (e_path e))%nat else Nat.eqb (length (e_path e)) n)
  then execs T body e else Fall e.
Proof. reflexivity. Qed.

Lemma exec1_IfLit T i lit body e :
  exec1 T (IfLit i lit body) e =
  match nth_error (e_path e) i with
  | None => Crash
  | Some s => if str_eqb s lit then execs T body e else Fall e
  end.
Proof. reflexivity. Qed.

Lemma exec1_IfPat T i pidx body e :
  exec1 T (IfPat i pidx body) e =
  match nth_error (t_pats T) pidx, nth_error (e_path e) i with
  | Some p, Some s =>
    match match_pieces p s with
    | Some g => execs T body (with_match e (Some g))
    | None => Fall (with_match e None)
    end
  | _, _ => Crash
  end.
Proof. reflexivity. Qed.

Lemma exec1_IfConv T uid cidx body e :
  exec1 T (IfConv uid cidx body) e =
  match nth_error (t_convs T) cidx, e_frag e with
  | Some c, Some f =>
    match conv_apply c f with
    | Some v => execs T body (with_fv e uid (Some v))
    | None => Fall (with_fv e uid None)
    end
  | _, _ => Crash
  end.
Proof. reflexivity. Qed.

(* ---- the delayed parameter assignments *)
Fixpoint stack_run (stack : list cx) (e : env) (ps : params) : option params :=
  match stack with
  | [] => Some ps
  | SetParamPath name i :: tl =>
    match nth_error (e_path e) i with
    | Some s => stack_run tl e (pset ps name (VStr s))
    | None => None
    end
  | SetParamValue name uid :: tl =>
    match e_fv e uid with
    | Some v => stack_run tl e (pset ps name v)
    | None => None
    end
  | SetParamsDict pre uid :: tl =>
    match (if pre then e_dg e uid else e_dm e uid) with
    | Some g => stack_run tl e (pupdate ps g)
    | None => None
    end
  | _ => None
  end.

Lemma stack_run_app s1 s2 e p :
  stack_run (s1 ++ s2) e p =
  match stack_run s1 e p with Some p' => stack_run s2 e p' | None => None end.
Proof.
  revert p; induction s1 as [|c s1 IH]; intro p; simpl; [reflexivity|].
  destruct c; try reflexivity.
  - destruct (nth_error (e_path e) i); auto.
  - destruct (e_fv e uid); auto.
  - destruct (if pre then e_dg e uid else e_dm e uid); auto.
Qed.

Lemma stack_exec T stack : forall e p ps rest,
  stack_run stack e p = Some ps ->
  execs T (stack ++ rest) (with_params e p) = execs T rest (with_params e ps).
Proof.
  induction stack as [|c stack IH]; intros e p ps rest H; simpl in H.
  - injection H as <-. reflexivity.
  - destruct c; try discriminate; simpl.
    + change (e_path (with_params e p)) with (e_path e).
      destruct (nth_error (e_path e) i); [|discriminate]. apply (IH e _ _ _ H).
    + change (e_fv (with_params e p) uid) with (e_fv e uid).
      destruct (e_fv e uid); [|discriminate]. apply (IH e _ _ _ H).
    + change (e_dg (with_params e p) uid) with (e_dg e uid).
      change (e_dm (with_params e p) uid) with (e_dm e uid).
      destruct (if pre then e_dg e uid else e_dm e uid); [|discriminate]. apply (IH e _ _ _ H).
Qed.

Lemma with_params_id e : with_params e (e_params e) = e.
Proof. destruct e; reflexivity. Qed.

Lemma stack_exec' T stack e ps rest :
  stack_run stack e (e_params e) = Some ps ->
  execs T (stack ++ rest) e = execs T rest (with_params e ps).
Proof.
  intro H. rewrite <- (with_params_id e) at 1. apply stack_exec. exact H.
Qed.

(* every entry is a parameter assignment whose unique index is at most n *)
Definition stk_entry (n : nat) (c : cx) : Prop :=
  match c with
  | SetParamPath _ _ => True
  | SetParamValue _ u => u <= n
  | SetParamsDict _ u => u <= n
  | _ => False
  end.
Definition uids_le (n : nat) (stack : list cx) : Prop := Forall (stk_entry n) stack.

Lemma uids_le_mono n m stack : n <= m -> uids_le n stack -> uids_le m stack.
Proof.
  intros Hnm H. eapply Forall_impl; [|exact H]. intros c Hc. destruct c; simpl in *; auto; lia.
Qed.

Lemma uids_le_snoc n stack c :
  uids_le n stack -> stk_entry (S n) c -> uids_le (S n) (stack ++ [c]).
Proof.
  intros H Hc. apply Forall_app. split.
  - eapply uids_le_mono; [|exact H]. lia.
  - constructor; [exact Hc | constructor].
Qed.

(* e' differs from e only in locals a stack of height n never reads *)
Definition agree (n : nat) (e e' : env) : Prop :=
  e_path e' = e_path e /\ e_params e' = e_params e /\
  forall k, k <= n -> e_fv e' k = e_fv e k /\ e_dm e' k = e_dm e k /\ e_dg e' k = e_dg e k.

Lemma agree_refl n e : agree n e e.
Proof. repeat split; reflexivity. Qed.

Lemma agree_trans n e1 e2 e3 : agree n e1 e2 -> agree n e2 e3 -> agree n e1 e3.
Proof.
  intros (P1 & Q1 & R1) (P2 & Q2 & R2). repeat split; try congruence;
    destruct (R1 k H) as (A1 & B1 & C1); destruct (R2 k H) as (A2 & B2 & C2); congruence.
Qed.

Lemma agree_mono n m e e' : n <= m -> agree m e e' -> agree n e e'.
Proof.
  intros Hnm (P & Q & R). repeat split; auto; apply R; lia.
Qed.

Lemma stack_run_agree n stack e e' :
  agree n e e' -> uids_le n stack -> forall p, stack_run stack e' p = stack_run stack e p.
Proof.
  intros (P & Q & R) H. induction H as [|c stack Hc H IH]; intro p; simpl; [reflexivity|].
  destruct c; simpl in Hc; try contradiction.
  - rewrite P. destruct (nth_error (e_path e) i); auto.
  - destruct (R uid Hc) as (A & _ & _). rewrite A. destruct (e_fv e uid); auto.
  - destruct (R uid Hc) as (_ & B & C). rewrite B, C.
    destruct (if pre then e_dg e uid else e_dm e uid); auto.
Qed.

Lemma agree_with_match n e m : agree n e (with_match e m).
Proof. repeat split; reflexivity. Qed.
Lemma agree_with_groups n e m : agree n e (with_groups e m).
Proof. repeat split; reflexivity. Qed.
Lemma agree_with_frag n e m : agree n e (with_frag e m).
Proof. repeat split; reflexivity. Qed.
Lemma agree_with_frag_groups n e f g : agree n e (with_frag_groups e f g).
Proof. repeat split; reflexivity. Qed.

Lemma upd_other {A} (f : nat -> option A) k v j : j <> k -> upd f k v j = f j.
Proof. intro H. unfold upd. destruct (Nat.eqb_spec j k); [contradiction | reflexivity]. Qed.
Lemma upd_same {A} (f : nat -> option A) k v : upd f k v k = v.
Proof. unfold upd. rewrite Nat.eqb_refl. reflexivity. Qed.

Lemma agree_with_fv n e k v : n < k -> agree n e (with_fv e k v).
Proof.
  intro H. repeat split; try reflexivity. simpl. apply upd_other. lia.
Qed.
Lemma agree_with_dm n e k v : n < k -> agree n e (with_dm e k v).
Proof.
  intro H. repeat split; try reflexivity. simpl. apply upd_other. lia.
Qed.
Lemma agree_with_dg n e k v : n < k -> agree n e (with_dg e k v).
Proof.
  intro H. repeat split; try reflexivity. simpl. apply upd_other. lia.
Qed.

(* ---- the side tables only grow *)
Definition ext (a b : tables) : Prop :=
  (exists x, t_rvs b = t_rvs a ++ x) /\ (exists y, t_pats b = t_pats a ++ y)
  /\ (exists z, t_convs b = t_convs a ++ z).

Lemma ext_refl a : ext a a.
Proof. repeat split; exists []; rewrite app_nil_r; reflexivity. Qed.

Lemma ext_trans a b c : ext a b -> ext b c -> ext a c.
Proof.
  intros ((x1 & X1) & (y1 & Y1) & (z1 & Z1)) ((x2 & X2) & (y2 & Y2) & (z2 & Z2)).
  repeat split; eexists.
  - rewrite X2, X1, <- app_assoc. reflexivity.
  - rewrite Y2, Y1, <- app_assoc. reflexivity.
  - rewrite Z2, Z1, <- app_assoc. reflexivity.
Qed.

Lemma ext_fail a : ext a (t_fail a).
Proof. repeat split; exists []; simpl; rewrite app_nil_r; reflexivity. Qed.
Lemma ext_add_rv a r : ext a (add_rv a r).
Proof. repeat split; simpl; eexists; try reflexivity; rewrite app_nil_r; reflexivity. Qed.
Lemma ext_add_pat a p : ext a (add_pat a p).
Proof. repeat split; simpl; eexists; try reflexivity; rewrite app_nil_r; reflexivity. Qed.
Lemma ext_add_conv ci a cn arg : ext a (add_conv ci a cn arg).
Proof.
  unfold add_conv. destruct (ci cn arg); repeat split; simpl; eexists; try reflexivity;
    rewrite app_nil_r; reflexivity.
Qed.

Lemma nth_error_mid {A} (l : list A) x r : nth_error (l ++ x :: r) (length l) = Some x.
Proof. rewrite nth_error_app2 by lia. rewrite Nat.sub_diag. reflexivity. Qed.

Lemma ext_rv a r T : ext (add_rv a r) T -> nth_error (t_rvs T) (length (t_rvs a)) = Some r.
Proof.
  intros ((x & X) & _). rewrite X. simpl. rewrite <- app_assoc. apply nth_error_mid.
Qed.
Lemma ext_pat a p T : ext (add_pat a p) T -> nth_error (t_pats T) (length (t_pats a)) = Some p.
Proof.
  intros (_ & (x & X) & _). rewrite X. simpl. rewrite <- app_assoc. apply nth_error_mid.
Qed.
Lemma ext_conv ci a cn arg c T :
  ci cn arg = COk c -> ext (add_conv ci a cn arg) T ->
  nth_error (t_convs T) (length (t_convs a)) = Some c.
Proof.
  intros H (_ & _ & (x & X)). rewrite X. unfold add_conv. rewrite H. simpl.
  rewrite <- app_assoc. apply nth_error_mid.
Qed.

(* ---- path bookkeeping *)
Lemma skipn_cons_nth {A} (l : list A) n x r :
  skipn n l = x :: r -> nth_error l n = Some x /\ skipn (S n) l = r /\ n < length l.
Proof.
  revert l; induction n as [|n IH]; intros l H.
  - destruct l; simpl in H; [discriminate|]. injection H as -> ->. simpl. repeat split; lia.
  - destruct l as [|y l]; simpl in H; [discriminate|]. destruct (IH l H) as (A1 & A2 & A3).
    simpl. repeat split; auto. lia.
Qed.

Lemma skipn_nil_len {A} (l : list A) n : skipn n l = [] -> length l <= n.
Proof.
  revert l; induction n as [|n IH]; intros l H.
  - destruct l; simpl in *; [lia | discriminate].
  - destruct l; simpl in *; [lia|]. specialize (IH l H). lia.
Qed.

Lemma skipn_all_len {A} (l : list A) n : length l <= n -> skipn n l = [].
Proof. intro H. apply skipn_all2. exact H. Qed.
