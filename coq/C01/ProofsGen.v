(* C01 — the generator: tables only grow; the node-local constructs implement bind_node. *)
From Coq Require Import ZArith NArith List Bool Lia Arith.
From Falcon.lib Require Import PyStr.
From Falcon.C01 Require Import Model Spec ProofsBase.
Import ListNotations.
Close Scope N_scope.
Open Scope nat_scope.

Lemma execs_single T c e : execs T [c] e = exec1 T c e.
Proof. simpl. destruct (exec1 T c e); reflexivity. Qed.

Lemma execs_cons T c l e :
  execs T (c :: l) e = match exec1 T c e with Fall e' => execs T l e' | o => o end.
Proof. reflexivity. Qed.

Lemma exec1_SetFragField T name e :
  exec1 T (SetFragField name) e =
  match e_groups e with
  | Some g => match gpop g name with
              | Some (v, g') => Fall (with_frag_groups e (Some (FStr v)) (Some g'))
              | None => Crash
              end
  | None => Crash
  end.
Proof. reflexivity. Qed.

(* ---- groups *)
Lemma gpop_some g k : In k (map fst g) -> exists v g', gpop g k = Some (v, g').
Proof.
  induction g as [|[k' v'] g IH]; simpl; [contradiction|]. intro H.
  destruct (str_eqb k k') eqn:E; [eauto|].
  destruct H as [H|H]; [subst; rewrite str_eqb_refl in E; discriminate|].
  destruct (IH H) as (v & g' & ->). eauto.
Qed.

Lemma gpop_keep g k v g' k' :
  gpop g k = Some (v, g') -> k' <> k -> In k' (map fst g) -> In k' (map fst g').
Proof.
  revert g'; induction g as [|[k0 v0] g IH]; intros g' H Hne Hin; simpl in *; [discriminate|].
  destruct (str_eqb k k0) eqn:E.
  - injection H as <- <-. apply str_eqb_eq in E. subst. destruct Hin; [congruence | assumption].
  - destruct (gpop g k) as [[x tl']|] eqn:G; [|discriminate]. injection H as <- <-.
    simpl. destruct Hin as [Hin|Hin]; [left; exact Hin | right; eapply IH; eauto].
Qed.

Lemma nodupb_NoDup l : nodupb l = true -> NoDup l.
Proof.
  induction l as [|x l IH]; simpl; intro H; [constructor|].
  apply andb_true_iff in H as [H1 H2]. constructor; [|auto].
  intro Hin. apply mem_In in Hin. rewrite Hin in H1. discriminate.
Qed.

Lemma convmap_of_incl fs x : In x (convmap_of fs) -> In (fst (fst x)) (map f_name fs).
Proof.
  induction fs as [|f fs IH]; simpl; [contradiction|].
  destruct (f_cname f) as [[|c cn]|]; simpl; intro H; auto.
  destruct H as [<-|H]; simpl; auto.
Qed.

Lemma convmap_of_nodup fs :
  NoDup (map f_name fs) -> NoDup (map (fun x => fst (fst x)) (convmap_of fs)).
Proof.
  induction fs as [|f fs IH]; simpl; intro H; [constructor|].
  inversion H as [|? ? Hn Hd]; subst.
  destruct (f_cname f) as [[|c cn]|]; simpl; auto.
  constructor; [|auto]. intro Hin. apply Hn.
  apply in_map_iff in Hin as (x & Hx & Hin). apply convmap_of_incl in Hin. simpl in Hx. congruence.
Qed.

(* the groups of a successful match are exactly the fields of the pattern, in order *)
Lemma match_pieces_keys ps : forall s g,
  match_pieces ps s = Some g -> map fst g = map f_name (fields ps).
Proof.
  induction ps as [|p ps IH]; intros s g H.
  - simpl in H. destruct s as [|c [|d s]]; try discriminate.
    + injection H as <-. reflexivity.
    + destruct (N.eqb c 10); [injection H as <-; reflexivity | discriminate].
  - destruct p as [c|f].
    + simpl in H. destruct s as [|d s]; [discriminate|]. destruct (N.eqb d c); [|discriminate].
      simpl. eapply IH; eauto.
    + simpl in H. simpl fields. simpl map.
      set (take := fix take (acc s : str) {struct s} : option groups :=
             match s with
             | [] => None
             | d :: s' =>
               if N.eqb d 10 then None
               else match take (d :: acc) s' with
                    | Some g => Some g
                    | None => match match_pieces ps s' with
                              | Some g => Some ((f_name f, rev (d :: acc)) :: g)
                              | None => None
                              end
                    end
             end) in *.
      assert (Hgen : forall s acc g, take acc s = Some g -> map fst g = f_name f :: map f_name (fields ps)).
      { clear H s g. induction s as [|d s IHs]; intros acc g H; simpl in H; [discriminate|].
        destruct (N.eqb d 10); [discriminate|].
        destruct (take (d :: acc) s) eqn:E.
        - injection H as <-. eapply IHs; eauto.
        - destruct (match_pieces ps s) eqn:M; [|discriminate]. injection H as <-.
          simpl. f_equal. eapply IH; eauto. }
      eapply Hgen; eauto.
Qed.

Section Gen.
Variable cinst : str -> option str -> cres.
Variable cmulti : str -> bool.
Notation conv_chain := (conv_chain cinst cmulti).
Notation node_head := (node_head cinst cmulti).
Notation gen_node_with := (gen_node_with cinst cmulti).
Notation gen_sibs := (gen_sibs cinst cmulti).
Notation gen_level := (gen_level cinst cmulti).
Notation bind_convs := (bind_convs cinst).
Notation bind_node := (bind_node cinst cmulti).

(* ---- the tables only grow *)
Lemma conv_chain_ext cm : forall stack t w s1 t1,
  conv_chain cm stack t = (w, s1, t1) -> ext t t1.
Proof.
  induction cm as [|[[fname cname] arg] cm IH]; intros stack t w s1 t1 H; simpl in H.
  - injection H as _ _ <-. apply ext_refl.
  - destruct (conv_chain cm _ _) as [[w' s'] t'] eqn:E. injection H as _ _ <-.
    apply IH in E. eapply ext_trans; [|exact E].
    eapply ext_trans; [|apply ext_add_conv]. destruct (cmulti cname); [apply ext_fail | apply ext_refl].
Qed.

Lemma node_head_ext n t stack level ns wrap stack' t1 consume fs :
  node_head n t stack level ns = (wrap, stack', t1, consume, fs) -> ext t t1.
Proof.
  unfold Model.node_head. intro H.
  destruct (kind_of (parse_seg (raw n))) as [| |f].
  - injection H as _ _ <- _ _. apply ext_refl.
  - destruct (convmap (parse_seg (raw n))) as [|c0 cm] eqn:CM.
    + injection H as _ _ <- _ _. apply ext_add_pat.
    + destruct (conv_chain (c0 :: cm) stack _) as [[w s1] t1'] eqn:E.
      apply conv_chain_ext in E.
      destruct (_ <? _); injection H as _ _ <- _ _;
        (eapply ext_trans; [apply ext_add_pat | exact E]).
  - destruct (convmap (parse_seg (raw n))) as [|[[fname cname] arg] cm].
    + injection H as _ _ <- _ _. destruct (Nat.eqb ns 1); [apply ext_refl | apply ext_fail].
    + injection H as _ _ <- _ _. eapply ext_trans; [|apply ext_add_conv].
      destruct (Nat.eqb ns 1); [apply ext_refl | apply ext_fail].
Qed.

Definition rec_ext (rec : list node -> tables -> list cx -> nat -> bool -> list cx * tables) :=
  forall l t s lv f, ext t (snd (rec l t s lv f)).

Lemma gen_node_ext rec n t stack level fast ns c t4 fs :
  rec_ext rec -> gen_node_with rec n t stack level fast ns = (c, t4, fs) -> ext t t4.
Proof.
  intros Hrec H. unfold Model.gen_node_with in H.
  destruct (node_head n t stack level ns) as [[[[wrap stack'] t1] consume] fs'] eqn:NH.
  apply node_head_ext in NH.
  match type of H with context [rec ?a ?b ?c ?d ?e] =>
    pose proof (Hrec a b c d e) as HR; destruct (rec a b c d e) as [cc t4'] end.
  injection H as _ <- _. simpl in HR.
  eapply ext_trans; [exact NH|]. eapply ext_trans; [|exact HR].
  eapply ext_trans; [|destruct (_ && _); [apply ext_fail | apply ext_refl]].
  destruct (res n); [apply ext_add_rv | apply ext_refl].
Qed.

Lemma gen_sibs_ext rec l : forall t stack level fast ns c t' f,
  rec_ext rec -> gen_sibs rec l t stack level fast ns = (c, t', f) -> ext t t'.
Proof.
  induction l as [|n l IH]; intros t stack level fast ns c t' f Hrec H; simpl in H.
  - injection H as _ <- _. apply ext_refl.
  - destruct (gen_node_with rec n t stack level fast ns) as [[c1 t1] f1] eqn:E1.
    destruct (gen_sibs rec l t1 stack level fast ns) as [[c2 t2] f2] eqn:E2.
    injection H as _ <- _. eapply ext_trans; [eapply gen_node_ext; eauto | eapply IH; eauto].
Qed.

Lemma gen_level_ext fuel : rec_ext (gen_level fuel).
Proof.
  induction fuel as [|k IH]; intros l t s lv f; simpl.
  - apply ext_fail.
  - destruct l as [|n l]; [apply ext_refl|].
    destruct (gen_sibs (gen_level k) _ t s lv _ _) as [[body t'] found] eqn:E.
    simpl. eapply gen_sibs_ext; eauto.
Qed.

Lemma conv_chain_stack cm : forall stack t w s1 t1,
  conv_chain cm stack t = (w, s1, t1) -> uids_le (length stack) stack ->
  length s1 = length stack + length cm /\ uids_le (length s1) s1.
Proof.
  induction cm as [|[[f c] a] cm IHc]; intros stack t w s1 t1 E Hu; simpl in E.
  - injection E as _ <- _. split; [simpl; lia | exact Hu].
  - destruct (conv_chain cm _ _) as [[w2 s2] t2] eqn:E2. injection E as _ <- _.
    apply IHc in E2.
    + rewrite app_length in E2. simpl in *. destruct E2. split; [lia | assumption].
    + rewrite app_length. simpl. replace (length stack + 1) with (S (length stack)) by lia.
      apply uids_le_snoc; [exact Hu | simpl; lia].
Qed.

(* ---- the converter chain of a multi-field segment implements bind_convs *)
Lemma conv_chain_correct T p0 b cm : forall stack t w stack1 t1 e g ps,
  conv_chain cm stack t = (w, stack1, t1) ->
  ext t1 T ->
  convs_ok cinst cm = true ->
  e_groups e = Some g ->
  (forall x, In x cm -> In (fst (fst x)) (map fst g)) ->
  NoDup (map (fun x => fst (fst x)) cm) ->
  stack_run stack e p0 = Some ps -> uids_le (length stack) stack ->
  length stack1 = length stack + length cm /\ uids_le (length stack1) stack1 /\
  match bind_convs cm g ps with
  | Some (g', ps1) =>
    exists e1, agree (length stack) e e1 /\ e_groups e1 = Some g' /\
               stack_run stack1 e1 p0 = Some ps1 /\ execs T (w b) e = execs T b e1
  | None => exists e', agree (length stack) e e' /\ execs T (w b) e = Fall e'
  end.
Proof.
  induction cm as [|[[fname cname] arg] cm IH]; intros stack t w stack1 t1 e g ps H Hext Hok Hg Hin Hnd Hrun Hu.
  - simpl in H. injection H as <- <- <-. simpl. repeat split; [lia | exact Hu |].
    exists e. split; [apply agree_refl|]. split; [exact Hg|]. split; [exact Hrun | reflexivity].
  - simpl in H. destruct (conv_chain cm _ _) as [[w' s'] t'] eqn:E. injection H as <- <- <-.
    simpl in Hok. apply andb_true_iff in Hok as [Hok1 Hok]. simpl in Hok1.
    destruct (cinst cname arg) as [| |c] eqn:CI; try discriminate.
    inversion Hnd as [|? ? Hn1 Hnd']; subst.
    destruct (gpop_some g fname) as (v & g' & GP); [apply (Hin (fname, cname, arg)); left; reflexivity|].
    pose proof (conv_chain_ext _ _ _ _ _ _ E) as Hext'.
    set (t0 := if cmulti cname then t_fail t else t) in *.
    assert (Hc : nth_error (t_convs T) (length (t_convs t0)) = Some c).
    { eapply ext_conv; [exact CI|]. eapply ext_trans; eauto. }
    set (uid := S (length stack)) in *.
    set (ea := with_frag_groups e (Some (FStr v)) (Some g')).
    assert (Hstep : forall bb, execs T [SetFragField fname; IfConv uid (length (t_convs t0)) bb] e =
              match conv_apply c (FStr v) with
              | Some x => execs T bb (with_fv ea uid (Some x))
              | None => Fall (with_fv ea uid None)
              end).
    { intro bb. rewrite execs_cons, exec1_SetFragField, Hg, GP. fold ea.
      rewrite execs_single, exec1_IfConv, Hc. reflexivity. }
    simpl bind_convs. rewrite GP, CI.
    destruct (conv_apply c (FStr v)) as [x|] eqn:CA.
    + set (eb := with_fv ea uid (Some x)).
      assert (Hag : agree (length stack) e eb).
      { eapply agree_trans; [apply agree_with_frag_groups | apply agree_with_fv; unfold uid; lia]. }
      specialize (IH (stack ++ [SetParamValue fname uid]) (add_conv cinst t0 cname arg) w' s' t' eb g'
                     (pset ps fname x) E Hext Hok).
      destruct IH as (L & U & IHm).
      * reflexivity.
      * intros y Hy. eapply gpop_keep; [exact GP | | apply Hin; right; exact Hy].
        intro Heq. apply Hn1. apply in_map_iff. exists y. split; [exact Heq | exact Hy].
      * exact Hnd'.
      * rewrite stack_run_app. rewrite (stack_run_agree _ _ _ _ Hag Hu), Hrun. simpl.
        unfold eb. simpl. rewrite upd_same. reflexivity.
      * rewrite app_length. simpl. replace (length stack + 1) with (S (length stack)) by lia.
        apply uids_le_snoc; [exact Hu | simpl; unfold uid; lia].
      * rewrite app_length in L, IHm. simpl in L, IHm.
        split; [simpl; lia|]. split; [exact U|].
        destruct (bind_convs cm g' (pset ps fname x)) as [[g'' ps1]|].
        -- destruct IHm as (e1 & A1 & G1 & R1 & X1). exists e1. split; [|split; [exact G1|split; [exact R1|]]].
           ++ eapply agree_trans; [exact Hag|]. eapply agree_mono; [|exact A1]. lia.
           ++ cbv beta; rewrite Hstep. fold eb. exact X1.
        -- destruct IHm as (e' & A1 & X1). exists e'. split.
           ++ eapply agree_trans; [exact Hag|]. eapply agree_mono; [|exact A1]. lia.
           ++ cbv beta; rewrite Hstep. fold eb. exact X1.
    + (* veto *)
      assert (L : length s' = length (stack ++ [SetParamValue fname uid]) + length cm /\
                  uids_le (length s') s').
      { eapply conv_chain_stack; [exact E|].
        rewrite app_length. simpl. replace (length stack + 1) with (S (length stack)) by lia.
        apply uids_le_snoc; [exact Hu | simpl; unfold uid; lia]. }
      destruct L as [L U]. rewrite app_length in L. simpl in L.
      split; [simpl; lia|]. split; [exact U|].
      exists (with_fv ea uid None). split.
      * eapply agree_trans; [apply agree_with_frag_groups | apply agree_with_fv; unfold uid; lia].
      * cbv beta; rewrite Hstep. reflexivity.
Qed.

End Gen.
