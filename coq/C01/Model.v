(* C01 — executable model of falcon/routing/compiled.py (CompiledRouter) and the parts of
   converters.py it relies on.  Strings are lists of code points.  Definitions only.

   Layout:  1 templates (_FIELD_PATTERN scanner, CompiledRouterNode.__init__)
            2 validation (_validate_template_segment, whitespace test)
            3 converters (IntConverter / PathConverter, instantiation as an oracle)
            4 the route tree and add_route/insert (with the in-place mutation order)
            5 segment patterns (the regex built for a complex segment)
            6 the _Cx* AST, the generator _generate_ast, and the meaning of the
              generated Python (exec)
            7 the router object: lazy compilation, find *)
From Coq Require Import ZArith NArith List Bool Lia.
From Falcon.lib Require Import PyStr.
From Falcon.gen Require Import ConstsC01.
Import ListNotations.
Open Scope N_scope.

(* ------------------------------------------------------------------ 1. templates *)

(* one match of _FIELD_PATTERN: fname, cname (None: no ':' part), argstr (None: no '(..)') *)
Record fieldm := { f_name : str; f_cname : option str; f_arg : option str }.

(* a template segment = literal characters and field expressions, left to right *)
Inductive piece := PC (c : N) | PF (f : fieldm).

Fixpoint take_until (stop : N -> bool) (s : str) : str * str :=
  match s with
  | [] => ([], [])
  | c :: tl => if stop c then ([], s)
               else let '(a, b) := take_until stop tl in (c :: a, b)
  end.

Fixpoint unsnoc (s : str) : option (str * N) :=
  match s with
  | [] => None
  | [c] => Some ([], c)
  | c :: tl => match unsnoc tl with Some (a, l) => Some (c :: a, l) | None => None end
  end.

(* the text after a '{' : {fname}  {fname:cname}  {fname:cname(argstr)} ; the regex never
   succeeds by backtracking into a shorter fname/cname/argstr (their classes exclude the
   character that must follow), so one left-to-right scan decides *)
Definition scan_field (s : str) : option (fieldm * str) :=
  let '(fname, r1) := take_until (fun c => (c =? 125) || (c =? 58)) s in
  match r1 with
  | [] => None
  | c :: r1' =>
    if c =? 125 then Some ({| f_name := fname; f_cname := None; f_arg := None |}, r1')
    else
      let '(cname, r2) := take_until (fun c => (c =? 125) || (c =? 40)) r1' in
      match r2 with
      | [] => None
      | d :: r2' =>
        if d =? 125 then Some ({| f_name := fname; f_cname := Some cname; f_arg := None |}, r2')
        else
          let '(argraw, r3) := take_until (fun c => c =? 125) r2' in
          match r3 with
          | [] => None
          | _ :: r3' =>
            match unsnoc argraw with
            | Some (arg, l) =>
              if l =? 41 then Some ({| f_name := fname; f_cname := Some cname; f_arg := Some arg |}, r3')
              else None
            | None => None
            end
          end
      end
  end.

(* _FIELD_PATTERN.finditer: non-overlapping matches, leftmost first *)
Fixpoint parse_pieces (fuel : nat) (s : str) : list piece :=
  match fuel with
  | O => []
  | S k =>
    match s with
    | [] => []
    | c :: tl =>
      if c =? 123 then
        match scan_field tl with
        | Some (f, rest) => PF f :: parse_pieces k rest
        | None => PC c :: parse_pieces k tl
        end
      else PC c :: parse_pieces k tl
    end
  end.

Definition parse_seg (s : str) : list piece := parse_pieces (length s) s.

Fixpoint fields (ps : list piece) : list fieldm :=
  match ps with
  | [] => []
  | PC _ :: tl => fields tl
  | PF f :: tl => f :: fields tl
  end.

Definition nonempty_opt (o : option str) : bool :=
  match o with Some (_ :: _) => true | _ => false end.

(* var_converter_map: fields whose cname is non-empty, as (fname, cname, argstr) *)
Fixpoint convmap_of (fs : list fieldm) : list (str * str * option str) :=
  match fs with
  | [] => []
  | f :: tl =>
    match f_cname f with
    | Some (c :: cn) => (f_name f, c :: cn, f_arg f) :: convmap_of tl
    | _ => convmap_of tl
    end
  end.
Definition convmap (ps : list piece) := convmap_of (fields ps).
Definition num_fields (ps : list piece) : nat := length (fields ps).

(* is_var / is_complex: 0 literal, 1 complex, 2 simple = the sort key of _generate_ast *)
Inductive kind := KLit | KComplex | KSimple (f : fieldm).
Definition kind_of (ps : list piece) : kind :=
  match ps with
  | [PF f] => KSimple f
  | _ => match fields ps with [] => KLit | _ => KComplex end
  end.
Definition class_of (ps : list piece) : nat :=
  match kind_of ps with KLit => 0%nat | KComplex => 1%nat | KSimple _ => 2%nat end.

(* _FIELD_PATTERN.sub('v', raw_segment) *)
Definition shape (ps : list piece) : str :=
  map (fun p => match p with PC c => c | PF _ => 118 end) ps.

(* ------------------------------------------------------------------ 2. validation *)

Inductive err :=
| EWhitespace | EIdent | EDup | EMissingConv | EUnknownConv | ECannotInst
| ENoChildren | EConflict | EComplexMulti
| EBadResponders.   (* TypeError: coroutine responders on a WSGI router / plain ones on an ASGI router *)
Inductive ires := IOk | IErr (e : err).

Definition is_alpha_ (c : N) : bool :=
  ((65 <=? c) && (c <=? 90)) || ((97 <=? c) && (c <=? 122)) || (c =? 95).
Definition is_alnum_ (c : N) : bool := is_alpha_ c || isdigit c.

(* _IDENTIFIER_PATTERN.match(name): '[A-Za-z_][A-Za-z0-9_]*' then '$' (which also matches
   before one trailing newline) or, when [strict], '\Z' *)
Fixpoint ident_tail (strict : bool) (s : str) : bool :=
  match s with
  | [] => true
  | [c] => is_alnum_ c || (negb strict && (c =? 10))
  | c :: tl => is_alnum_ c && ident_tail strict tl
  end.
Definition ident_ok (strict : bool) (s : str) : bool :=
  match s with
  | [] => false
  | c :: tl => is_alpha_ c && ident_tail strict tl
  end.

(* ------------------------------------------------------------------ 3. converters *)

(* VOther: the canonical text of a value the model does not compute itself (float, UUID,
   datetime), as supplied by the converter oracle *)
Inductive value := VStr (s : str) | VInt (z : Z) | VOther (s : str).
Inductive frag := FStr (s : str) | FSegs (l : list str).

(* float(value) as an oracle: an exact rational (den > 0), an infinity, or nan; with repr() *)
Inductive fparse := FNum (num den : Z) (repr : str) | FInf (neg : bool) (repr : str) | FNan (repr : str).

(* a converter instance, as far as its convert() is modelled *)
Inductive convspec :=
| CInt (nd mn mx : option Z)      (* IntConverter(num_digits, min, max) *)
| CPath                           (* PathConverter *)
| CFloat (mn mx : option (Z * Z)) (finite : bool) (tbl : list (str * fparse))
                                  (* FloatConverter(min, max, finite): bounds as exact rationals;
                                     [tbl] is the graph of float() on the strings that can occur
                                     (absent = ValueError) *)
| COpaque (tbl : list (str * value)).
                                  (* any other converter (uuid, dt, custom): the graph of its
                                     convert() on the strings that can occur (absent = None) *)

(* eval('Klass(argstr)') : unknown name / raises / instance *)
Inductive cres := CUnknown | CFail | COk (c : convspec).

(* int(value) on the documented ASCII grammar: [+-]? digit ('_'? digit)*  *)
Fixpoint digits_val (acc : Z) (prev_digit : bool) (s : str) : option Z :=
  match s with
  | [] => if prev_digit then Some acc else None
  | c :: tl =>
    if isdigit c then digits_val (acc * 10 + Z.of_N (c - 48)) true tl
    else if (c =? 95) && prev_digit then digits_val acc false tl
    else None
  end.
Definition int_of_str (s : str) : option Z :=
  match s with
  | c :: tl =>
    if c =? 45 then option_map Z.opp (digits_val 0 false tl)
    else if c =? 43 then digits_val 0 false tl
    else digits_val 0 false s
  | [] => None
  end.

Definition is_ws (c : N) : bool := char_in c ws_strip.
Definition strip_changes (s : str) : bool :=
  match s with
  | [] => false
  | c :: _ => is_ws c || match unsnoc s with Some (_, l) => is_ws l | None => false end
  end.

Definition int_convert (nd mn mx : option Z) (s : str) : option Z :=
  if match nd with Some n => negb (Z.eqb (Z.of_nat (length s)) n) | None => false end then None
  else if strip_changes s then None
  else match int_of_str s with
       | None => None
       | Some z =>
         if match mn with Some m => Z.ltb z m | None => false end then None
         else if match mx with Some m => Z.ltb m z | None => false end then None
         else Some z
       end.

Fixpoint tbl_get {A} (t : list (str * A)) (k : str) : option A :=
  match t with
  | [] => None
  | (k', v) :: tl => if str_eqb k k' then Some v else tbl_get tl k
  end.

(* value < bound / value > bound as Python compares floats (nan compares false) *)
Definition f_lt (x : fparse) (b : Z * Z) : bool :=
  match x with
  | FNum n d _ => Z.ltb (n * snd b) (fst b * d)
  | FInf neg _ => neg
  | FNan _ => false
  end.
Definition f_gt (x : fparse) (b : Z * Z) : bool :=
  match x with
  | FNum n d _ => Z.ltb (fst b * d) (n * snd b)
  | FInf neg _ => negb neg
  | FNan _ => false
  end.
Definition f_repr (x : fparse) : str :=
  match x with FNum _ _ r => r | FInf _ r => r | FNan r => r end.
Definition f_finite (x : fparse) : bool := match x with FNum _ _ _ => true | _ => false end.

(* FloatConverter.convert *)
Definition float_convert (mn mx : option (Z * Z)) (finite : bool) (tbl : list (str * fparse)) (s : str)
  : option value :=
  if strip_changes s then None
  else match tbl_get tbl s with
       | None => None                                            (* float() raised ValueError *)
       | Some x =>
         if finite && negb (f_finite x) then None
         else if match mn with Some b => f_lt x b | None => false end then None
         else if match mx with Some b => f_gt x b | None => false end then None
         else Some (VOther (f_repr x))
       end.

(* '/'.join(x): of a list of segments, or (str argument) of its characters *)
Definition conv_apply (c : convspec) (f : frag) : option value :=
  match c, f with
  | CInt nd mn mx, FStr s => option_map VInt (int_convert nd mn mx s)
  | CInt _ _ _, FSegs _ => None                      (* unreachable for well-formed trees *)
  | CPath, FSegs l => Some (VStr (join_chr 47 l))
  | CPath, FStr s => Some (VStr (join_chr 47 (map (fun c => [c]) s)))
  | CFloat mn mx fin tbl, FStr s => float_convert mn mx fin tbl s
  | CFloat _ _ _ _, FSegs _ => None
  | COpaque tbl, FStr s => tbl_get tbl s
  | COpaque _, FSegs _ => None
  end.

(* ------------------------------------------------------------------ 4. the tree *)

Inductive node := Node (raw : str) (res : option N) (children : list node).
Definition raw (n : node) := match n with Node r _ _ => r end.
Definition res (n : node) := match n with Node _ r _ => r end.
Definition children (n : node) := match n with Node _ _ c => c end.

Definition params := list (str * value).
Fixpoint pset (ps : params) (k : str) (v : value) : params :=
  match ps with
  | [] => [(k, v)]
  | (k', v') :: tl => if str_eqb k k' then (k', v) :: tl else (k', v') :: pset tl k v
  end.

Definition groups := list (str * str).
Fixpoint gpop (g : groups) (k : str) : option (str * groups) :=
  match g with
  | [] => None
  | (k', v) :: tl =>
    if str_eqb k k' then Some (v, tl)
    else match gpop tl k with Some (x, tl') => Some (x, (k', v) :: tl') | None => None end
  end.
Fixpoint pupdate (ps : params) (g : groups) : params :=
  match g with
  | [] => ps
  | (k, v) :: tl => pupdate (pset ps k (VStr v)) tl
  end.

Section Router.
(* the converter table of the router (router.options.converters), fixed over a history:
   [cinst cname argstr] = outcome of `_instantiate_converter`, [cmulti cname] =
   CONSUME_MULTIPLE_SEGMENTS of the class registered under that name *)
Variable cinst : str -> option str -> cres.
Variable cmulti : str -> bool.

(* _validate_template_segment over the fields of one segment; [used] is used_names *)
Fixpoint validate_fields (strict : bool) (fs : list fieldm) (used : list str) : ires * list str :=
  match fs with
  | [] => (IOk, used)
  | f :: tl =>
    if negb (ident_ok strict (f_name f)) || mem (f_name f) kwlist then (IErr EIdent, used)
    else if mem (f_name f) used then (IErr EDup, used)
    else
      let used' := f_name f :: used in
      match f_cname f with
      | Some [] => (IErr EMissingConv, used')
      | Some cn =>
        match cinst cn (f_arg f) with
        | CUnknown => (IErr EUnknownConv, used')
        | CFail => (IErr ECannotInst, used')
        | COk _ => validate_fields strict tl used'
        end
      | None => validate_fields strict tl used'
      end
  end.

Fixpoint validate_segs (strict : bool) (segs : list str) (used : list str) : ires :=
  match segs with
  | [] => IOk
  | s :: tl =>
    match validate_fields strict (fields (parse_seg s)) used with
    | (IOk, used') => validate_segs strict tl used'
    | (IErr e, _) => IErr e
    end
  end.

(* re.search(r'\s', _FIELD_PATTERN.sub('{FIELD}', uri_template)) *)
Definition has_ws (tpl : str) : bool :=
  existsb (fun p => match p with PC c => char_in c ws_re | PF _ => false end) (parse_seg tpl).

(* find_cmp_converter: first field whose converter class consumes multiple segments *)
Definition has_cmp (ps : list piece) : bool :=
  existsb (fun e => cmulti (snd (fst e))) (convmap ps).

Definition is_simple (ps : list piece) : bool :=
  match kind_of ps with KSimple _ => true | _ => false end.
Definition is_complex (ps : list piece) : bool :=
  match kind_of ps with KComplex => true | _ => false end.

(* node.conflicts_with(segment), for node.raw_segment <> segment *)
Definition conflicts (nraw seg : str) : bool :=
  let a := parse_seg nraw in
  let b := parse_seg seg in
  if is_complex a then is_complex b && str_eqb (shape a) (shape b)
  else if is_simple a then is_simple b
  else false.

(* the nested function `insert` of add_route.  [segs] = path[path_index:].  The result list
   is what `nodes` holds afterwards — also when the call raises: with [atomic = false]
   (the code before the repair) a new node is appended before its subtree is built and
   only the single `nodes.remove(new_node)` of the source is undone. *)
Fixpoint insert (atomic : bool) (rid : N) (segs : list str) : list node -> list node * ires :=
  match segs with
  | [] => fun nodes => (nodes, IOk)            (* str.split never returns [] *)
  | seg :: rest =>
    let ins_rest := insert atomic rid rest in
    fix scan (nodes : list node) : list node * ires :=
      match nodes with
      | n :: tl =>
        if str_eqb seg (raw n) then
          match rest with
          | [] => (Node (raw n) (Some rid) (children n) :: tl, IOk)
          | _ :: _ =>
            if has_cmp (parse_seg (raw n)) then (nodes, IErr ENoChildren)
            else let '(ch, r) := ins_rest (children n) in
                 (Node (raw n) (res n) ch :: tl, r)
          end
        else if conflicts (raw n) seg then (nodes, IErr EConflict)
        else let '(tl', r) := scan tl in (n :: tl', r)
      | [] =>
        let ps := parse_seg seg in
        if is_complex ps && has_cmp ps then ([], IErr EComplexMulti)
        else
          match rest with
          | [] => ([Node seg (Some rid) []], IOk)
          | _ :: _ =>
            if has_cmp ps then ([], IErr ENoChildren)
            else
              let '(ch, r) := ins_rest [] in
              match r with
              | IOk => ([Node seg None ch], IOk)
              | IErr e => if atomic then ([], IErr e) else ([Node seg None ch], IErr e)
              end
          end
      end
  end.

Definition segs_of (uri : str) : list str := split_chr 47 (lstrip_set [47] uri).

Definition add_route (strict atomic : bool) (roots : list node) (tpl : str) (rid : N)
  : list node * ires :=
  if has_ws tpl then (roots, IErr EWhitespace)
  else
    let segs := segs_of tpl in
    match validate_segs strict segs [] with
    | IErr e => (roots, IErr e)
    | IOk => insert atomic rid segs roots
    end.

(* ------------------------------------------------------------------ 5. segment patterns *)

(* re.compile('^' + escaped literals and '(?P<name>.+)' groups + '$').match(s).groupdict():
   greedy with backtracking (longest first), '.' is any character but LF, '$' matches at
   the end or before one trailing LF.  Literal characters are matched verbatim (the
   source escapes . ( ) [ ] ? $ * + ^ | ; a backslash in a complex segment is outside
   the modelled domain). *)
Fixpoint match_pieces (ps : list piece) (s : str) {struct ps} : option groups :=
  match ps with
  | [] =>
    match s with
    | [] => Some []
    | [c] => if c =? 10 then Some [] else None
    | _ => None
    end
  | PC c :: tl =>
    match s with
    | d :: s' => if d =? c then match_pieces tl s' else None
    | [] => None
    end
  | PF f :: tl =>
    (fix take (acc : str) (s : str) {struct s} : option groups :=
       match s with
       | [] => None
       | d :: s' =>
         if d =? 10 then None
         else match take (d :: acc) s' with
              | Some g => Some g
              | None =>
                match match_pieces tl s' with
                | Some g => Some ((f_name f, rev (d :: acc)) :: g)
                | None => None
                end
              end
       end) [] s
  end.

(* ------------------------------------------------------------------ 6. AST, generator, exec *)

Inductive cx :=
| IfLen (gt : bool) (n : nat) (body : list cx)     (* if path_len > n / == n *)
| IfLit (i : nat) (lit : str) (body : list cx)     (* if path[i] == 'lit' *)
| IfPat (i : nat) (pidx : nat) (body : list cx)    (* match = patterns[pidx].match(path[i]); if match is not None *)
| IfConv (uid : nat) (cidx : nat) (body : list cx) (* field_value_uid = converters[cidx].convert(fragment); if ... is not None *)
| SetFragField (name : str)                        (* fragment = groups.pop('name') *)
| SetFragPath (i : nat)                            (* fragment = path[i] *)
| SetFragRest (i : nat)                            (* fragment = path[i:] *)
| VarFromMatch (uid : nat)                         (* dict_match_uid = match.groupdict() *)
| VarFromPrefetched (uid : nat)                    (* dict_groups_uid = groups *)
| PrefetchGroups                                   (* groups = match.groupdict() *)
| RetNone
| RetVal (idx : nat)                               (* return return_values[idx] *)
| SetParamPath (name : str) (i : nat)              (* params['name'] = path[i] *)
| SetParamValue (name : str) (uid : nat)           (* params['name'] = field_value_uid *)
| SetParamsDict (pre : bool) (uid : nat).          (* params.update(dict_groups_uid / dict_match_uid) *)

(* side tables filled by _compile; [t_ok = false]: an assert / a converter instantiation
   inside _generate_ast failed (every find() of that router then raises) *)
Record tables := { t_rvs : list N; t_pats : list (list piece); t_convs : list convspec;
                   t_ok : bool }.
Definition tables0 : tables := {| t_rvs := []; t_pats := []; t_convs := []; t_ok := true |}.
Definition t_fail (t : tables) : tables :=
  {| t_rvs := t_rvs t; t_pats := t_pats t; t_convs := t_convs t; t_ok := false |}.
Definition add_rv (t : tables) (r : N) : tables :=
  {| t_rvs := t_rvs t ++ [r]; t_pats := t_pats t; t_convs := t_convs t; t_ok := t_ok t |}.
Definition add_pat (t : tables) (p : list piece) : tables :=
  {| t_rvs := t_rvs t; t_pats := t_pats t ++ [p]; t_convs := t_convs t; t_ok := t_ok t |}.
(* converter_idx = len(self._converters); self._converters.append(instantiate(...)) *)
Definition add_conv (t : tables) (cname : str) (arg : option str) : tables :=
  match cinst cname arg with
  | COk c => {| t_rvs := t_rvs t; t_pats := t_pats t; t_convs := t_convs t ++ [c]; t_ok := t_ok t |}
  | _ => {| t_rvs := t_rvs t; t_pats := t_pats t; t_convs := t_convs t ++ [CPath]; t_ok := false |}
  end.

(* sorted(nodes, key=is_var + (is_var and not is_complex)) — stable *)
Definition node_class (n : node) : nat := class_of (parse_seg (raw n)).
Definition sort3 (nodes : list node) : list node :=
  filter (fun n => Nat.eqb (node_class n) 0) nodes
  ++ filter (fun n => Nat.eqb (node_class n) 1) nodes
  ++ filter (fun n => Nat.eqb (node_class n) 2) nodes.

(* _generate_conversion_ast: nested converter ifs for a complex node; returns the function
   that places the rest of the node's code in the innermost if, the new params_stack and
   tables *)
Fixpoint conv_chain (cm : list (str * str * option str)) (stack : list cx) (t : tables)
  : (list cx -> list cx) * list cx * tables :=
  match cm with
  | [] => (fun b => b, stack, t)
  | (fname, cname, arg) :: tl =>
    let t0 := if cmulti cname then t_fail t else t in      (* assert not consumes_multiple *)
    let cidx := length (t_convs t0) in
    let t1 := add_conv t0 cname arg in
    let uid := S (length stack) in
    let '(w, stack2, t2) := conv_chain tl (stack ++ [SetParamValue fname uid]) t1 in
    (fun b => [SetFragField fname; IfConv uid cidx (w b)], stack2, t2)
  end.

(* the part of the `for node in nodes` loop body that depends on the node's kind: the
   construct(s) that test the segment ([wrap] places the rest of the node's code inside
   the innermost `if`), the extended params_stack, the tables, consume_multiple_segments
   and whether this is the simple-variable node.  [nsimple] = number of simple-variable
   nodes among the siblings *)
Definition node_head (n : node) (t : tables) (stack : list cx) (level : nat) (nsimple : nat)
  : (list cx -> list cx) * list cx * tables * bool * bool :=
  let ps := parse_seg (raw n) in
  let cm := convmap ps in
  match kind_of ps with
  | KLit => (fun b : list cx => [IfLit level (raw n) b], stack, t, false, false)
  | KComplex =>
    let pidx := length (t_pats t) in
    let t0 := add_pat t ps in
    match cm with
    | [] =>
      let uid := S (length stack) in
      (fun b => [IfPat level pidx (VarFromMatch uid :: b)],
       stack ++ [SetParamsDict false uid], t0, false, false)
    | _ :: _ =>
      let '(w, stack1, t1) := conv_chain cm stack t0 in
      if (length cm <? num_fields ps)%nat then
        let uid := S (length stack1) in
        (fun b => [IfPat level pidx (PrefetchGroups :: w (VarFromPrefetched uid :: b))],
         stack1 ++ [SetParamsDict true uid], t1, false, false)
      else
        (fun b => [IfPat level pidx (PrefetchGroups :: w b)], stack1, t1, false, false)
    end
  | KSimple f =>
    let ta := if Nat.eqb nsimple 1 then t else t_fail t in   (* assert len(_found_nodes) == 1 *)
    match cm with
    | [] => (fun b => b, stack ++ [SetParamPath (f_name f) level], ta, false, true)
    | (fname, cname, arg) :: _ =>
      let cidx := length (t_convs ta) in
      let t1 := add_conv ta cname arg in
      let multi := cmulti cname in
      let uid := S (length stack) in
      (fun b => [if multi then SetFragRest level else SetFragPath level; IfConv uid cidx b],
       stack ++ [SetParamValue (f_name f) uid], t1, multi, true)
    end
  end.

(* the code that follows the children of a node *)
Definition node_tail (nres : option N) (stack' : list cx) (level ridx : nat) (fast consume : bool)
  : list cx :=
  match nres with
  | None => if fast then [RetNone] else []
  | Some _ =>
    if consume then stack' ++ [RetVal ridx]
    else IfLen false (S level) (stack' ++ [RetVal ridx]) :: (if fast then [RetNone] else [])
  end.

(* the body of the `for node in nodes` loop of _generate_ast; [rec] generates the children
   level *)
Definition gen_node_with
    (rec : list node -> tables -> list cx -> nat -> bool -> list cx * tables)
    (n : node) (t : tables) (stack : list cx) (level : nat) (fast : bool) (nsimple : nat)
  : list cx * tables * bool :=
  let '(wrap, stack', t1, consume, fs) := node_head n t stack level nsimple in
  let ridx := length (t_rvs t1) in
  let t2 := match res n with Some r => add_rv t1 r | None => t1 end in
  let t3 := if consume && match children n with [] => false | _ => true end
            then t_fail t2 else t2 in                          (* assert not (consume and children) *)
  let '(cc, t4) := rec (children n) t3 stack' (S level) fast in
  (wrap (cc ++ node_tail (res n) stack' level ridx fast consume), t4, fs).

Fixpoint gen_sibs (rec : list node -> tables -> list cx -> nat -> bool -> list cx * tables)
         (l : list node) (t : tables) (stack : list cx) (level : nat) (fast : bool) (nsimple : nat)
  : list cx * tables * bool :=
  match l with
  | [] => ([], t, false)
  | n :: tl =>
    let '(c1, t1, f1) := gen_node_with rec n t stack level fast nsimple in
    let '(c2, t2, f2) := gen_sibs rec tl t1 stack level fast nsimple in
    (c1 ++ c2, t2, f1 || f2)
  end.

Definition count_simple (nodes : list node) : nat :=
  length (filter (fun n => Nat.eqb (node_class n) 2) nodes).

Definition level_fast (fast : bool) (sorted : list node) : bool :=
  if fast
  then (if (1 <? length sorted)%nat
        then negb (existsb (fun n => negb (Nat.eqb (node_class n) 0)) sorted)
        else true)
  else false.

(* _generate_ast.  Fuel = height of the forest + 1 (running out of fuel marks the tables
   not-ok; excluded by the theorems) *)
Fixpoint gen_level (fuel : nat) (nodes : list node) (t : tables) (stack : list cx)
         (level : nat) (fast : bool) : list cx * tables :=
  match fuel with
  | O => ([], t_fail t)
  | S k =>
    match nodes with
    | [] => ([], t)
    | _ :: _ =>
      let sorted := sort3 nodes in
      let fast' := level_fast fast sorted in
      let '(body, t', found) :=
        gen_sibs (gen_level k) sorted t stack level fast' (count_simple sorted) in
      ([IfLen true level (body ++ (if negb found && fast' then [RetNone] else []))], t')
    end
  end.

Fixpoint height (n : node) : nat :=
  match n with Node _ _ ch => S (fold_right (fun c a => Nat.max (height c) a) 0%nat ch) end.
Definition height_l (l : list node) : nat := fold_right (fun c a => Nat.max (height c) a) 0%nat l.

(* _compile *)
Definition compile (roots : list node) : list cx * tables :=
  gen_level (S (height_l roots)) roots tables0 [] 0 true.

End Router.

(* ---- meaning of the generated Python *)
Record env := { e_path : list str; e_params : params;
                e_match : option groups; e_groups : option groups; e_frag : option frag;
                e_fv : nat -> option value;      (* field_value_<uid> *)
                e_dm : nat -> option groups;     (* dict_match_<uid> *)
                e_dg : nat -> option groups }.   (* dict_groups_<uid> *)

Definition env0 (path : list str) : env :=
  {| e_path := path; e_params := []; e_match := None; e_groups := None; e_frag := None;
     e_fv := fun _ => None; e_dm := fun _ => None; e_dg := fun _ => None |}.

Definition upd {A} (f : nat -> option A) (k : nat) (v : option A) : nat -> option A :=
  fun j => if Nat.eqb j k then v else f j.

Definition with_params (e : env) (p : params) : env :=
  {| e_path := e_path e; e_params := p; e_match := e_match e; e_groups := e_groups e;
     e_frag := e_frag e; e_fv := e_fv e; e_dm := e_dm e; e_dg := e_dg e |}.
Definition with_match (e : env) (m : option groups) : env :=
  {| e_path := e_path e; e_params := e_params e; e_match := m; e_groups := e_groups e;
     e_frag := e_frag e; e_fv := e_fv e; e_dm := e_dm e; e_dg := e_dg e |}.
Definition with_groups (e : env) (g : option groups) : env :=
  {| e_path := e_path e; e_params := e_params e; e_match := e_match e; e_groups := g;
     e_frag := e_frag e; e_fv := e_fv e; e_dm := e_dm e; e_dg := e_dg e |}.
Definition with_frag (e : env) (f : option frag) : env :=
  {| e_path := e_path e; e_params := e_params e; e_match := e_match e; e_groups := e_groups e;
     e_frag := f; e_fv := e_fv e; e_dm := e_dm e; e_dg := e_dg e |}.
Definition with_frag_groups (e : env) (f : option frag) (g : option groups) : env :=
  {| e_path := e_path e; e_params := e_params e; e_match := e_match e; e_groups := g;
     e_frag := f; e_fv := e_fv e; e_dm := e_dm e; e_dg := e_dg e |}.
Definition with_fv (e : env) (k : nat) (v : option value) : env :=
  {| e_path := e_path e; e_params := e_params e; e_match := e_match e; e_groups := e_groups e;
     e_frag := e_frag e; e_fv := upd (e_fv e) k v; e_dm := e_dm e; e_dg := e_dg e |}.
Definition with_dm (e : env) (k : nat) (v : option groups) : env :=
  {| e_path := e_path e; e_params := e_params e; e_match := e_match e; e_groups := e_groups e;
     e_frag := e_frag e; e_fv := e_fv e; e_dm := upd (e_dm e) k v; e_dg := e_dg e |}.
Definition with_dg (e : env) (k : nat) (v : option groups) : env :=
  {| e_path := e_path e; e_params := e_params e; e_match := e_match e; e_groups := e_groups e;
     e_frag := e_frag e; e_fv := e_fv e; e_dm := e_dm e; e_dg := upd (e_dg e) k v |}.

(* Fall: control reaches the end of the block;  Ret: a `return` (None or
   return_values[idx] together with the params dict as it is then);  Crash: the Python
   would raise (IndexError, KeyError, NameError/AttributeError on an unassigned local) *)
Inductive outcome := Fall (e : env) | Ret (r : option (N * params)) | Crash.

Section Exec.
Variable T : tables.

Fixpoint exec1 (c : cx) (e : env) {struct c} : outcome :=
  let execs := fix execs (l : list cx) (e : env) {struct l} : outcome :=
    match l with
    | [] => Fall e
    | c :: tl => match exec1 c e with Fall e' => execs tl e' | o => o end
    end in
  match c with
  | IfLen gt n body =>
    if (if gt then (n <? length (e_path e))%nat else Nat.eqb (length (e_path e)) n)
    then execs body e else Fall e
  | IfLit i lit body =>
    match nth_error (e_path e) i with
    | None => Crash
    | Some s => if str_eqb s lit then execs body e else Fall e
    end
  | IfPat i pidx body =>
    match nth_error (t_pats T) pidx, nth_error (e_path e) i with
    | Some p, Some s =>
      match match_pieces p s with
      | Some g => execs body (with_match e (Some g))
      | None => Fall (with_match e None)
      end
    | _, _ => Crash
    end
  | IfConv uid cidx body =>
    match nth_error (t_convs T) cidx, e_frag e with
    | Some c, Some f =>
      match conv_apply c f with
      | Some v => execs body (with_fv e uid (Some v))
      | None => Fall (with_fv e uid None)
      end
    | _, _ => Crash
    end
  | SetFragField name =>
    match e_groups e with
    | Some g => match gpop g name with
                | Some (v, g') => Fall (with_frag_groups e (Some (FStr v)) (Some g'))
                | None => Crash
                end
    | None => Crash
    end
  | SetFragPath i =>
    match nth_error (e_path e) i with
    | Some s => Fall (with_frag e (Some (FStr s)))
    | None => Crash
    end
  | SetFragRest i => Fall (with_frag e (Some (FSegs (skipn i (e_path e)))))
  | VarFromMatch uid =>
    match e_match e with Some g => Fall (with_dm e uid (Some g)) | None => Crash end
  | VarFromPrefetched uid =>
    match e_groups e with Some g => Fall (with_dg e uid (Some g)) | None => Crash end
  | PrefetchGroups =>
    match e_match e with Some g => Fall (with_groups e (Some g)) | None => Crash end
  | RetNone => Ret None
  | RetVal idx =>
    match nth_error (t_rvs T) idx with
    | Some r => Ret (Some (r, e_params e))
    | None => Crash
    end
  | SetParamPath name i =>
    match nth_error (e_path e) i with
    | Some s => Fall (with_params e (pset (e_params e) name (VStr s)))
    | None => Crash
    end
  | SetParamValue name uid =>
    match e_fv e uid with
    | Some v => Fall (with_params e (pset (e_params e) name v))
    | None => Crash
    end
  | SetParamsDict pre uid =>
    match (if pre then e_dg e uid else e_dm e uid) with
    | Some g => Fall (with_params e (pupdate (e_params e) g))
    | None => Crash
    end
  end.

Fixpoint execs (l : list cx) (e : env) {struct l} : outcome :=
  match l with
  | [] => Fall e
  | c :: tl => match exec1 c e with Fall e' => execs tl e' | o => o end
  end.
End Exec.

(* characters that the generated source cannot carry inside '...' unless it is written
   with repr(): quote and backslash (newline etc. cannot occur in an accepted template) *)
Definition lit_plain (s : str) : bool :=
  forallb (fun c => negb ((c =? 39) || (c =? 92))) s.

Definition name_plain (s : str) : bool :=
  forallb (fun c => negb ((c =? 39) || (c =? 92) || (c =? 10))) s.

Fixpoint src_ok1 (quoted : bool) (c : cx) {struct c} : bool :=
  let all := fix all (l : list cx) : bool :=
    match l with [] => true | c :: tl => src_ok1 quoted c && all tl end in
  match c with
  | IfLen _ _ b => all b
  | IfLit _ lit b => (quoted || lit_plain lit) && all b
  | IfPat _ _ b => all b
  | IfConv _ _ b => all b
  | SetFragField name => name_plain name
  | SetParamPath name _ => name_plain name
  | SetParamValue name _ => name_plain name
  | _ => true
  end.
Definition src_ok (quoted : bool) (l : list cx) : bool := forallb (src_ok1 quoted) l.

(* the compiled `find` function: the generated body followed by `return None`.  The source
   text is compiled by Python first: a literal or a field name that breaks the quoting
   makes that raise. *)
Definition run_finder (quoted : bool) (f : list cx * tables) (path : list str) : outcome :=
  if negb (t_ok (snd f)) then Crash
  else if negb (src_ok quoted (fst f)) then Crash
  else match execs (snd f) (fst f) (env0 path) with
       | Fall _ => Ret None
       | o => o
       end.

(* ------------------------------------------------------------------ 7. the router object *)
Section RouterObj.
Variable cinst : str -> option str -> cres.
Variable cmulti : str -> bool.

(* _find is either _compile_and_find (None) or a compiled finder with its tables *)
Record router := { r_roots : list node; r_finder : option (list cx * tables) }.
Definition router0 : router := {| r_roots := []; r_finder := None |}.

(* CompiledRouter.add_route as a whole: the method map is built and its responders are checked
   against the router's kind (_require_coroutine_responders / _require_non_coroutine_responders)
   BEFORE the template is looked at; [rok] = the resource's responders are of the right kind *)
Definition add_route_r (strict atomic rok : bool) (roots : list node) (tpl : str) (rid : N)
  : list node * ires :=
  if rok then add_route cinst cmulti strict atomic roots tpl rid else (roots, IErr EBadResponders).

Definition router_add (strict atomic : bool) (r : router) (tpl : str) (rid : N) (comp rok : bool)
  : router * ires :=
  let '(roots', x) := add_route_r strict atomic rok (r_roots r) tpl rid in
  match x with
  | IOk => ({| r_roots := roots';
               r_finder := if comp then Some (compile cinst cmulti roots') else None |}, IOk)
  | IErr e => ({| r_roots := roots'; r_finder := r_finder r |}, IErr e)   (* raised before _find is reset *)
  end.

Definition router_find (quoted : bool) (r : router) (uri : str) : router * outcome :=
  let f := match r_finder r with Some f => f | None => compile cinst cmulti (r_roots r) end in
  ({| r_roots := r_roots r; r_finder := Some f |}, run_finder quoted f (segs_of uri)).

End RouterObj.
