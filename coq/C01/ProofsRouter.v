(* C01 — the router object over arbitrary histories: laziness is invisible, the tree stays
   well-formed, lookups equal the depth-first walk, the harness oracle accepts the model. *)
From Coq Require Import ZArith NArith List Bool Lia Arith.
From Falcon.lib Require Import PyStr.
From Falcon.gen Require Import ConstsC01.
From Falcon.C01 Require Import Model Spec ProofsBase ProofsGen ProofsHead ProofsCorrect ProofsWf ProofsCompiles.
Import ListNotations.
Close Scope N_scope.
Open Scope nat_scope.

(* [rok]: the resource's responders are of the kind the router requires *)
Inductive op := OAdd (tpl : str) (rid : N) (comp rok : bool) | OFind (uri : str).

Section RouterThms.
Variable cinst : str -> option str -> cres.
Variable cmulti : str -> bool.
Notation wf := (wf cinst cmulti).
Notation compile := (compile cinst cmulti).
Notation dfs := (dfs cinst cmulti).

(* the code as it is now: strict identifiers, atomic insertion, quoted literals — the three
   flags are regenerated from the staged sources (ConstsC01) *)
Definition add_cur (rok : bool) := add_route_r cinst cmulti ident_strict insert_atomic rok.
Definition step (r : router) (o : op) : router :=
  match o with
  | OAdd t i c k => fst (router_add cinst cmulti ident_strict insert_atomic r t i c k)
  | OFind u => fst (router_find cinst cmulti literal_src_quoted r u)
  end.
Definition run_ops (r : router) (ops : list op) : router := fold_left step ops r.

(* the tree a history builds: only the add_route calls matter *)
Definition tree_step (roots : list node) (o : op) : list node :=
  match o with
  | OAdd t i _ k => fst (add_cur k roots t i)
  | OFind _ => roots
  end.
Definition tree_of (ops : list op) : list node := fold_left tree_step ops [].

Lemma step_roots r o : r_roots (step r o) = tree_step (r_roots r) o.
Proof.
  destruct o as [t i c k|u]; simpl; [|reflexivity].
  unfold router_add, add_cur. destruct (add_route_r _ _ _ _ _ _ _ _) as [roots' [|e]]; reflexivity.
Qed.

Lemma run_ops_roots ops : forall r, r_roots (run_ops r ops) = fold_left tree_step ops (r_roots r).
Proof.
  induction ops as [|o ops IH]; intro r; simpl; [reflexivity|]. rewrite IH, step_roots. reflexivity.
Qed.

(* _find is _compile_and_find or the compilation of the current tree *)
Definition finder_ok (r : router) : Prop :=
  r_finder r = None \/ r_finder r = Some (compile (r_roots r)).

Lemma atomic_now : insert_atomic = true. Proof. reflexivity. Qed.
Lemma strict_now : ident_strict = true. Proof. reflexivity. Qed.
Lemma quoted_now : literal_src_quoted = true. Proof. reflexivity. Qed.

Lemma add_route_r_reject strict rok roots tpl rid roots' e :
  add_route_r cinst cmulti strict insert_atomic rok roots tpl rid = (roots', IErr e) -> roots' = roots.
Proof.
  unfold add_route_r. destruct rok; [|intro H; injection H as <- _; reflexivity].
  rewrite atomic_now. apply add_route_reject_unchanged.
Qed.

Lemma step_finder_ok r o : finder_ok r -> finder_ok (step r o).
Proof.
  intro H. destruct o as [t i c k|u]; simpl.
  - unfold router_add. destruct (add_route_r _ _ _ _ _ _ _ _) as [roots' [|e]] eqn:A; simpl.
    + destruct c; [right | left]; reflexivity.
    + apply add_route_r_reject in A. subst roots'. destruct r; exact H.
  - right. simpl. destruct H as [-> | ->]; reflexivity.
Qed.

Lemma run_ops_finder_ok ops : forall r, finder_ok r -> finder_ok (run_ops r ops).
Proof.
  induction ops as [|o ops IH]; intros r H; simpl; [exact H|]. apply IH, step_finder_ok, H.
Qed.

Theorem lazy_compile_transparent ops uri :
  snd (router_find cinst cmulti literal_src_quoted (run_ops router0 ops) uri)
  = run_finder literal_src_quoted (compile (tree_of ops)) (segs_of uri).
Proof.
  pose proof (run_ops_finder_ok ops router0 (or_introl eq_refl)) as H.
  pose proof (run_ops_roots ops router0) as R. simpl in R. fold (tree_of ops) in R.
  unfold router_find. simpl. destruct H as [-> | ->]; rewrite R; reflexivity.
Qed.

Theorem reachable_wf ops : wf (tree_of ops) = true.
Proof.
  unfold tree_of. assert (H : wf [] = true) by reflexivity. revert H. generalize (@nil node).
  induction ops as [|o ops IH]; intros roots H; simpl; [exact H|]. apply IH.
  destruct o as [t i c k|u]; simpl; [|exact H].
  unfold add_cur. destruct (add_route_r _ _ _ _ _ _ _ _) as [roots' [|e]] eqn:A; simpl.
  - unfold add_route_r in A. destruct k; [|discriminate]. rewrite strict_now in A. eapply add_route_wf; eauto.
  - apply add_route_r_reject in A. subst. exact H.
Qed.

Theorem reject_unchanged rok roots tpl rid roots' e :
  add_cur rok roots tpl rid = (roots', IErr e) -> roots' = roots.
Proof. unfold add_cur. apply add_route_r_reject. Qed.

(* the generated program compiled without tripping an assert and its source is well-quoted *)
Definition compiles_ok (roots : list node) : bool :=
  t_ok (snd (compile roots)) && src_ok literal_src_quoted (fst (compile roots)).

Theorem run_finder_spec roots path :
  wf roots = true -> compiles_ok roots = true ->
  run_finder literal_src_quoted (compile roots) path = Ret (dfs_level cinst cmulti roots path []).
Proof.
  intros Hwf Hc. unfold compiles_ok in Hc. apply andb_true_iff in Hc as [H1 H2].
  unfold run_finder. rewrite H1, H2. simpl.
  pose proof (compile_exec cinst cmulti roots path Hwf) as H. simpl in H.
  destruct (execs _ _ _) as [e'|r|].
  - rewrite H. reflexivity.
  - rewrite H. reflexivity.
  - contradiction.
Qed.

Theorem find_spec ops uri :
  compiles_ok (tree_of ops) = true ->
  snd (router_find cinst cmulti literal_src_quoted (run_ops router0 ops) uri)
  = Ret (dfs (tree_of ops) uri).
Proof.
  intro Hc. rewrite lazy_compile_transparent. apply run_finder_spec; [apply reachable_wf | exact Hc].
Qed.

Lemma compiles_ok_wf roots : wf roots = true -> compiles_ok roots = true.
Proof.
  intro H. unfold compiles_ok. rewrite quoted_now.
  destruct (wf_compiles cinst cmulti roots H) as [A B]. rewrite A, B. reflexivity.
Qed.

Theorem find_spec_full ops uri :
  snd (router_find cinst cmulti literal_src_quoted (run_ops router0 ops) uri)
  = Ret (dfs (tree_of ops) uri).
Proof. apply find_spec. apply compiles_ok_wf. apply reachable_wf. Qed.

Theorem find_no_crash ops uri :
  snd (router_find cinst cmulti literal_src_quoted (run_ops router0 ops) uri) <> Crash.
Proof. rewrite find_spec_full. discriminate. Qed.

(* a rejected template changes no later lookup: the history with the rejected call removed
   builds the same tree *)
Theorem rejected_call_invisible ops1 ops2 tpl rid comp rok e :
  snd (add_cur rok (tree_of ops1) tpl rid) = IErr e ->
  tree_of (ops1 ++ OAdd tpl rid comp rok :: ops2) = tree_of (ops1 ++ ops2).
Proof.
  intro H. unfold tree_of. rewrite !fold_left_app. simpl. f_equal.
  fold (tree_of ops1). destruct (add_cur rok (tree_of ops1) tpl rid) as [roots' r] eqn:A.
  simpl in H. subst r. simpl. eapply reject_unchanged; eauto.
Qed.

End RouterThms.

(* ---- the oracle accepts the model's own answer *)
Lemma value_eqb_refl v : value_eqb v v = true.
Proof. destruct v; simpl; [apply str_eqb_refl | apply Z.eqb_refl | apply str_eqb_refl]. Qed.

Lemma params_same_refl p : params_same p p = true.
Proof.
  induction p as [|[k v] p IH]; simpl; [reflexivity|].
  rewrite str_eqb_refl, value_eqb_refl, IH. reflexivity.
Qed.

Lemma result_eqb_refl r : result_eqb r r = true.
Proof.
  destruct r as [[rid p]|]; simpl; [|reflexivity].
  rewrite N.eqb_refl. unfold params_eqb. rewrite params_same_refl. reflexivity.
Qed.

Theorem oracle_sound cinst cmulti ops uri :
  exists r,
    snd (router_find cinst cmulti literal_src_quoted (run_ops cinst cmulti router0 ops) uri) = Ret r /\
    find_oracle cinst cmulti (tree_of cinst cmulti ops) uri r = true.
Proof.
  exists (dfs cinst cmulti (tree_of cinst cmulti ops) uri). split; [apply find_spec_full|].
  unfold find_oracle. apply result_eqb_refl.
Qed.

Open Scope N_scope.
(* ---- the defects of the code as found, as witnesses about the un-repaired variants *)
Definition ex_cinst (cn : str) (arg : option str) : cres :=
  if str_eqb cn [112; 97; 116; 104] then COk CPath            (* "path" *)
  else if str_eqb cn [105; 110; 116] then COk (CInt None None None)   (* "int" *)
  else CUnknown.
Definition ex_multi (cn : str) : bool := str_eqb cn [112; 97; 116; 104].

(* "/{y}/{x:path}/b" *)
Definition tpl_bad : str :=
  [47; 123; 121; 125; 47; 123; 120; 58; 112; 97; 116; 104; 125; 47; 98].
(* "/{z}/foo" *)
Definition tpl_next : str := [47; 123; 122; 125; 47; 102; 111; 111].
(* "/q/foo" *)
Definition uri_q_foo : str := [47; 113; 47; 102; 111; 111].

Theorem reject_unchanged_refuted_before_fix :
  exists roots tpl rid roots' e,
    add_route ex_cinst ex_multi true false roots tpl rid = (roots', IErr e) /\ roots' <> roots.
Proof.
  exists [], tpl_bad, 0%N. eexists. eexists. split; [vm_compute; reflexivity | discriminate].
Qed.

(* ... and the consequence for later lookups: without the rejected call "/{z}/foo" is accepted
   and "/q/foo" resolves; after it, it does not *)
Theorem rejected_call_visible_before_fix :
  let r1 := fst (add_route ex_cinst ex_multi true false [] tpl_bad 0%N) in
  snd (add_route ex_cinst ex_multi true false r1 tpl_next 1%N) = IErr EConflict /\
  dfs ex_cinst ex_multi (fst (add_route ex_cinst ex_multi true false r1 tpl_next 1%N)) uri_q_foo = None /\
  snd (add_route ex_cinst ex_multi true false [] tpl_next 1%N) = IOk /\
  dfs ex_cinst ex_multi (fst (add_route ex_cinst ex_multi true false [] tpl_next 1%N)) uri_q_foo
  = Some (1%N, [([122], VStr [113])]).
Proof. vm_compute. repeat split; reflexivity. Qed.

(* "/it's": the unquoted literal breaks the generated source; every lookup raises *)
Theorem literal_source_refuted_before_fix :
  exists tpl path,
    let roots := fst (add_route ex_cinst ex_multi true true [] tpl 0%N) in
    snd (add_route ex_cinst ex_multi true true [] tpl 0%N) = IOk /\
    run_finder false (Model.compile ex_cinst ex_multi roots) path = Crash.
Proof.
  exists [47; 105; 116; 39; 115], [[120]]. vm_compute. split; reflexivity.
Qed.

(* "/{a\n}": '$' in the identifier pattern accepts the trailing newline; the field name then
   breaks the generated source *)
Theorem identifier_newline_refuted_before_fix :
  exists tpl path,
    let roots := fst (add_route ex_cinst ex_multi false true [] tpl 0%N) in
    snd (add_route ex_cinst ex_multi false true [] tpl 0%N) = IOk /\
    run_finder true (Model.compile ex_cinst ex_multi roots) path = Crash.
Proof.
  exists [47; 123; 97; 10; 125], [[120]]. vm_compute. split; reflexivity.
Qed.

(* non-vacuity: a well-formed tree with all node kinds, on which the finder compiles *)
Definition ex_tree : list node :=
  fold_left (fun roots ti => fst (add_route ex_cinst ex_multi true true roots (fst ti) (snd ti)))
    [([47; 97; 47; 123; 120; 58; 105; 110; 116; 125; 47; 98], 0%N);     (* /a/{x:int}/b *)
     ([47; 97; 47; 123; 121; 125; 46; 106], 1%N);                        (* /a/{y}.j *)
     ([47; 97; 47; 108], 2%N);                                           (* /a/l *)
     ([47; 123; 112; 58; 112; 97; 116; 104; 125], 3%N)]                  (* /{p:path} *)
    [].

Example ex_tree_ok :
  wf ex_cinst ex_multi ex_tree = true /\ compiles_ok ex_cinst ex_multi ex_tree = true /\
  dfs ex_cinst ex_multi ex_tree [47; 97; 47; 49; 50; 47; 98] = Some (0%N, [([120], VInt 12)]) /\
  dfs ex_cinst ex_multi ex_tree [47; 97; 47; 113; 46; 106] = Some (1%N, [([121], VStr [113])]) /\
  dfs ex_cinst ex_multi ex_tree [47; 97; 47; 49; 47; 99] = Some (3%N, [([112], VStr [97; 47; 49; 47; 99])]).
Proof. vm_compute. repeat split; reflexivity. Qed.
