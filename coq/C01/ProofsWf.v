(* C01 — add_route keeps the tree well-formed; a rejected template leaves it unchanged. *)
From Coq Require Import ZArith NArith List Bool Lia Arith.
From Falcon.lib Require Import PyStr.
From Falcon.gen Require Import ConstsC01.
From Falcon.C01 Require Import Model Spec ProofsBase ProofsGen ProofsHead ProofsCorrect.
Import ListNotations.
Close Scope N_scope.
Open Scope nat_scope.

(* an identifier (strict pattern) has no quote, backslash or newline *)
Lemma alnum_plain c : is_alnum_ c = true -> negb (N.eqb c 39 || N.eqb c 92 || N.eqb c 10) = true.
Proof.
  unfold is_alnum_, is_alpha_, isdigit. intro H.
  destruct (N.eqb_spec c 39) as [->|]; [discriminate|].
  destruct (N.eqb_spec c 92) as [->|]; [discriminate|].
  destruct (N.eqb_spec c 10) as [->|]; [discriminate|]. reflexivity.
Qed.

Lemma ident_tail_plain s : ident_tail true s = true -> name_plain s = true.
Proof.
  induction s as [|c s IH]; [reflexivity|]. intro H.
  destruct s as [|d s'].
  - simpl in H. rewrite orb_false_r in H. simpl. rewrite (alnum_plain c H). reflexivity.
  - change (ident_tail true (c :: d :: s')) with (is_alnum_ c && ident_tail true (d :: s')) in H.
    apply andb_true_iff in H as [H1 H2]. change (name_plain (c :: d :: s')) with
      (negb (N.eqb c 39 || N.eqb c 92 || N.eqb c 10) && name_plain (d :: s')).
    rewrite (alnum_plain c H1), (IH H2). reflexivity.
Qed.

Lemma ident_plain s : ident_ok true s = true -> name_plain s = true.
Proof.
  destruct s as [|c s]; [discriminate|]. simpl ident_ok. intro H.
  apply andb_true_iff in H as [H1 H2].
  change (name_plain (c :: s)) with (negb (N.eqb c 39 || N.eqb c 92 || N.eqb c 10) && name_plain s).
  rewrite (ident_tail_plain s H2). rewrite alnum_plain; [reflexivity|].
  unfold is_alnum_. rewrite H1. reflexivity.
Qed.

#[local] Opaque kwlist.

Section Wf.
Variable cinst : str -> option str -> cres.
Variable cmulti : str -> bool.
Notation wf := (wf cinst cmulti).
Notation wf_n := (wf_n cinst cmulti).
Notation node_ok := (node_ok cinst cmulti).
Notation insert := (insert cmulti).

(* what validation establishes for one segment *)
Definition seg_ok (seg : str) : bool :=
  let pcs := parse_seg seg in
  convs_ok cinst (convmap pcs) && nodupb (map f_name (fields pcs))
  && forallb name_plain (map f_name (fields pcs)).

Lemma validate_fields_ok fs : forall used used',
  validate_fields cinst true fs used = (IOk, used') ->
  (forall x, In x used -> In x used') /\
  (forall f, In f fs -> ~ In (f_name f) used) /\
  (forall f, In f fs -> In (f_name f) used') /\
  convs_ok cinst (convmap_of fs) = true /\ nodupb (map f_name fs) = true /\
  forallb name_plain (map f_name fs) = true.
Proof.
  induction fs as [|f fs IH]; intros used used' H; simpl in H.
  - injection H as <-. repeat split; auto; intros ? [].
  - destruct (negb (ident_ok true (f_name f)) || mem (f_name f) kwlist) eqn:E1; [discriminate|].
    apply orb_false_iff in E1 as [E1 _]. apply negb_false_iff in E1.
    destruct (mem (f_name f) used) eqn:E2; [discriminate|].
    assert (Hnin : ~ In (f_name f) used) by (intro Hin; apply mem_In in Hin; congruence).
    assert (Hgo : forall (Hv : validate_fields cinst true fs (f_name f :: used) = (IOk, used')),
               (forall x, In x used -> In x used') /\
               (forall g, In g (f :: fs) -> ~ In (f_name g) used) /\
               (forall g, In g (f :: fs) -> In (f_name g) used') /\
               convs_ok cinst (convmap_of fs) = true /\ nodupb (map f_name (f :: fs)) = true /\
               forallb name_plain (map f_name (f :: fs)) = true).
    { intro Hv. destruct (IH _ _ Hv) as (A & B & C & D & F & G). split; [|split; [|split; [|split; [|split]]]].
      - intros x Hx. apply A. right. exact Hx.
      - intros g [<-|Hg]; [exact Hnin|]. intro Hin. apply (B g Hg). right. exact Hin.
      - intros g [<-|Hg]; [apply A; left; reflexivity | apply C; exact Hg].
      - exact D.
      - simpl. rewrite F, andb_true_r. apply negb_true_iff.
        destruct (mem (f_name f) (map f_name fs)) eqn:M; [|reflexivity].
        apply mem_In in M. apply in_map_iff in M as (g & Hg1 & Hg2).
        exfalso. apply (B g Hg2). left. symmetry. exact Hg1.
      - simpl. rewrite G, (ident_plain _ E1). reflexivity. }
    simpl convmap_of.
    destruct (f_cname f) as [[|c cn]|].
    + discriminate.
    + destruct (cinst (c :: cn) (f_arg f)) eqn:CI; try discriminate.
      destruct (Hgo H) as (A & B & C & D & F & G). repeat split; auto.
      simpl. rewrite CI, D. reflexivity.
    + destruct (Hgo H) as (A & B & C & D & F & G). repeat split; auto.
Qed.

Lemma validate_segs_ok segs : forall used,
  validate_segs cinst true segs used = IOk -> forallb seg_ok segs = true.
Proof.
  induction segs as [|s segs IH]; intros used H; simpl in H; [reflexivity|].
  destruct (validate_fields cinst true (fields (parse_seg s)) used) as [[|e] used'] eqn:V; [|discriminate].
  destruct (validate_fields_ok _ _ _ V) as (_ & _ & _ & D & F & G).
  simpl. rewrite (IH _ H), andb_true_r. unfold seg_ok, convmap. rewrite D, F, G. reflexivity.
Qed.

(* ---- wf, repacked *)
Lemma wf_n_intro n : node_ok n = true -> wf (children n) = true -> wf_n n = true.
Proof.
  destruct n as [r x ch]. simpl Spec.wf_n. rewrite wf_all_forallb. intros H1 H2.
  unfold Spec.wf in H2. simpl children in H2.
  apply andb_true_iff in H2 as [H2 H4]. apply andb_true_iff in H2 as [H2 H3].
  rewrite H1, H2, H3, H4. reflexivity.
Qed.

Lemma node_ok_res r x y ch : node_ok (Node r x ch) = node_ok (Node r y ch).
Proof. reflexivity. Qed.

Lemma count_simple_raws l l' : map raw l = map raw l' -> count_simple l = count_simple l'.
Proof.
  revert l'; induction l as [|n l IH]; intros [|n' l'] H; try discriminate; [reflexivity|].
  simpl in H. injection H as H1 H2. specialize (IH _ H2). unfold count_simple in *. simpl.
  assert (Hc : node_class n = node_class n') by (unfold node_class; rewrite H1; reflexivity).
  rewrite Hc. destruct (Nat.eqb (node_class n') 2); simpl; rewrite IH; reflexivity.
Qed.

Lemma count_simple_app l n :
  count_simple (l ++ [n]) = count_simple l + (if Nat.eqb (node_class n) 2 then 1 else 0).
Proof.
  unfold count_simple. rewrite filter_app, app_length. simpl.
  destruct (Nat.eqb (node_class n) 2); reflexivity.
Qed.

Lemma is_simple_class pcs : is_simple pcs = Nat.eqb (class_of pcs) 2.
Proof. unfold is_simple, class_of. destruct (kind_of pcs); reflexivity. Qed.

Lemma nodupb_snoc l x : nodupb l = true -> ~ In x l -> nodupb (l ++ [x]) = true.
Proof.
  induction l as [|y l IH]; simpl; intros H Hn; [reflexivity|].
  apply andb_true_iff in H as [H1 H2]. rewrite IH; auto. rewrite andb_true_r.
  apply negb_true_iff. apply negb_true_iff in H1.
  destruct (mem y (l ++ [x])) eqn:M; [|reflexivity]. apply mem_In in M.
  apply in_app_or in M as [M|[M|[]]].
  - apply mem_In in M. congruence.
  - subst. exfalso. apply Hn. left. reflexivity.
Qed.

(* the new node of a validated segment *)
Lemma new_node_ok seg x ch :
  seg_ok seg = true ->
  (has_cmp cmulti (parse_seg seg) = true -> is_simple (parse_seg seg) = true /\ ch = []) ->
  node_ok (Node seg x ch) = true.
Proof.
  unfold seg_ok, Spec.node_ok. simpl raw. simpl children. intros H Hc.
  apply andb_true_iff in H as [H H3]. apply andb_true_iff in H as [H1 H2].
  rewrite H1, H2, H3. simpl. rewrite andb_true_r.
  destruct (has_cmp cmulti (parse_seg seg)); [|reflexivity].
  destruct (Hc eq_refl) as [-> ->]. reflexivity.
Qed.

Lemma kind_lit_fields ps : kind_of ps = KLit -> fields ps = [].
Proof.
  unfold kind_of. destruct ps as [|[c|f0] [|p ps']]; try discriminate;
    destruct (fields _) eqn:E; try discriminate; intros _; reflexivity.
Qed.

Lemma cmp_not_complex_simple pcs :
  has_cmp cmulti pcs = true -> is_complex pcs = false -> is_simple pcs = true.
Proof.
  unfold has_cmp, convmap, is_complex, is_simple. destruct (kind_of pcs) eqn:K; auto; try discriminate.
  rewrite (kind_lit_fields _ K). discriminate.
Qed.

(* ---- insert *)
Definition outcome_shape (seg : str) (nodes nodes' : list node) : Prop :=
  map raw nodes' = map raw nodes \/
  (map raw nodes' = map raw nodes ++ [seg] /\ ~ In seg (map raw nodes) /\
   (is_simple (parse_seg seg) = true -> count_simple nodes = 0)).

Lemma insert_wf atomic rid segs : forall nodes nodes',
  forallb seg_ok segs = true -> wf nodes = true ->
  insert atomic rid segs nodes = (nodes', IOk) -> wf nodes' = true.
Proof.
  induction segs as [|seg rest IH]; intros nodes nodes' Hsegs Hwf H.
  - simpl in H. injection H as <-. exact Hwf.
  - simpl in Hsegs. apply andb_true_iff in Hsegs as [Hseg Hrest].
    simpl in H.
    set (scan := fix scan (nodes : list node) : list node * ires :=
      match nodes with
      | n :: tl =>
        if str_eqb seg (raw n) then
          match rest with
          | [] => (Node (raw n) (Some rid) (children n) :: tl, IOk)
          | _ :: _ =>
            if has_cmp cmulti (parse_seg (raw n)) then (nodes, IErr ENoChildren)
            else let '(ch, r) := insert atomic rid rest (children n) in
                 (Node (raw n) (res n) ch :: tl, r)
          end
        else if conflicts (raw n) seg then (nodes, IErr EConflict)
        else let '(tl', r) := scan tl in (n :: tl', r)
      | [] =>
        let ps := parse_seg seg in
        if is_complex ps && has_cmp cmulti ps then ([], IErr EComplexMulti)
        else
          match rest with
          | [] => ([Node seg (Some rid) []], IOk)
          | _ :: _ =>
            if has_cmp cmulti ps then ([], IErr ENoChildren)
            else
              let '(ch, r) := insert atomic rid rest [] in
              match r with
              | IOk => ([Node seg None ch], IOk)
              | IErr e => if atomic then ([], IErr e) else ([Node seg None ch], IErr e)
              end
          end
      end) in *.
    assert (Hscan : forall l l', scan l = (l', IOk) -> forallb wf_n l = true ->
              forallb wf_n l' = true /\ outcome_shape seg l l').
    { induction l as [|n l IHl]; intros l' Hs Hall.
      - simpl in Hs.
        destruct (is_complex (parse_seg seg) && has_cmp cmulti (parse_seg seg)) eqn:CC; [discriminate|].
        assert (Hshape : forall m, raw m = seg -> outcome_shape seg [] [m]).
        { intros m Hm. right. simpl. rewrite Hm. split; [reflexivity|]. split; [intros []|]. reflexivity. }
        destruct rest as [|s2 rest2].
        + injection Hs as <-. split; [|apply Hshape; reflexivity].
          cbn [forallb]. rewrite andb_true_r. apply wf_n_intro; [|reflexivity].
          apply new_node_ok; [exact Hseg|]. intro Hc. split; [|reflexivity].
          apply cmp_not_complex_simple; [exact Hc|]. rewrite Hc, andb_true_r in CC. exact CC.
        + destruct (has_cmp cmulti (parse_seg seg)) eqn:HC; [discriminate|].
          destruct (insert atomic rid (s2 :: rest2) []) as [ch r] eqn:I.
          destruct r as [|er]; [|destruct atomic; discriminate].
          injection Hs as <-. split; [|apply Hshape; reflexivity].
          cbn [forallb]. rewrite andb_true_r. apply wf_n_intro.
          * apply new_node_ok; [exact Hseg|]. rewrite HC. discriminate.
          * simpl children. eapply IH; [exact Hrest | | exact I]. reflexivity.
      - simpl in Hs. simpl in Hall. apply andb_true_iff in Hall as [Hn Hl].
        destruct (wf_n_inv cinst cmulti n Hn) as [Hnok Hnch].
        destruct (str_eqb seg (raw n)) eqn:EQ.
        + destruct rest as [|s2 rest2].
          * injection Hs as <-. split; [|left; reflexivity].
            cbn [forallb]. rewrite Hl, andb_true_r. apply wf_n_intro; [|exact Hnch].
            destruct n; exact Hnok.
          * destruct (has_cmp cmulti (parse_seg (raw n))) eqn:HC; [discriminate|].
            destruct (insert atomic rid (s2 :: rest2) (children n)) as [ch r] eqn:I.
            injection Hs as <- ->. split; [|left; reflexivity].
            cbn [forallb]. rewrite Hl, andb_true_r. apply wf_n_intro.
            -- unfold Spec.node_ok in *. simpl raw in *. rewrite HC in *. simpl in *.
               rewrite !andb_true_r in *. exact Hnok.
            -- simpl children. eapply IH; [exact Hrest | exact Hnch | exact I].
        + destruct (conflicts (raw n) seg) eqn:CF; [discriminate|].
          destruct (scan l) as [tl' r] eqn:SC. injection Hs as <- ->.
          destruct (IHl tl' eq_refl Hl) as [Hall' Hsh].
          split; [simpl; rewrite Hn, Hall'; reflexivity|].
          destruct Hsh as [Hsh | (Hsh & Hnin & Hcs)].
          * left. simpl. rewrite Hsh. reflexivity.
          * right. split; [simpl; rewrite Hsh; reflexivity|]. split.
            -- intros [Hin|Hin]; [|contradiction]. rewrite Hin, str_eqb_refl in EQ. discriminate.
            -- intro Hs. specialize (Hcs Hs). unfold count_simple in *. simpl.
               unfold conflicts in CF. rewrite Hs in CF.
               destruct (is_complex (parse_seg (raw n))) eqn:IC.
               ++ unfold node_class. unfold is_complex, class_of in *.
                  destruct (kind_of (parse_seg (raw n))); try discriminate. simpl. exact Hcs.
               ++ destruct (is_simple (parse_seg (raw n))) eqn:IS; [discriminate|].
                  unfold node_class. rewrite <- is_simple_class, IS. exact Hcs. }
    unfold Spec.wf in Hwf. apply andb_true_iff in Hwf as [Hwf Hall].
    apply andb_true_iff in Hwf as [Hnd Hcnt].
    destruct (Hscan nodes nodes' H Hall) as [Hall' Hsh].
    unfold Spec.wf. rewrite Hall', andb_true_r.
    destruct Hsh as [Hsh | (Hsh & Hnin & Hcs)].
    + rewrite Hsh, Hnd. rewrite (count_simple_raws _ _ Hsh), Hcnt. reflexivity.
    + rewrite Hsh. rewrite nodupb_snoc; [|exact Hnd | exact Hnin]. simpl.
      assert (Hc : count_simple nodes' = count_simple (nodes ++ [Node seg None []])).
      { apply count_simple_raws. rewrite map_app. exact Hsh. }
      rewrite Hc, count_simple_app. unfold node_class. simpl raw. rewrite <- is_simple_class.
      destruct (is_simple (parse_seg seg)) eqn:IS.
      * rewrite (Hcs eq_refl). reflexivity.
      * apply Nat.leb_le in Hcnt. apply Nat.leb_le. lia.
Qed.

Theorem add_route_wf atomic roots tpl rid roots' :
  wf roots = true ->
  add_route cinst cmulti true atomic roots tpl rid = (roots', IOk) -> wf roots' = true.
Proof.
  unfold add_route. intros Hwf H. destruct (has_ws tpl); [discriminate|].
  destruct (validate_segs cinst true (segs_of tpl) []) eqn:V; [|discriminate].
  eapply insert_wf; [eapply validate_segs_ok; exact V | exact Hwf | exact H].
Qed.

(* ---- with the atomic insertion a rejected template leaves the tree as it was *)
Lemma insert_reject_unchanged rid segs : forall nodes nodes' e,
  insert true rid segs nodes = (nodes', IErr e) -> nodes' = nodes.
Proof.
  induction segs as [|seg rest IH]; intros nodes nodes' e H.
  - simpl in H. discriminate.
  - simpl in H.
    match type of H with ?f nodes = _ => set (scan := f) in * end.
    revert nodes' H. induction nodes as [|n l IHl]; intros nodes' H.
    + unfold scan in H.
      destruct (is_complex (parse_seg seg) && has_cmp cmulti (parse_seg seg)); [injection H as <- _; reflexivity|].
      destruct rest as [|s2 rest2]; [discriminate|].
      destruct (has_cmp cmulti (parse_seg seg)); [injection H as <- _; reflexivity|].
      destruct (insert true rid (s2 :: rest2) []) as [ch r]. destruct r; [discriminate|].
      injection H as <- _. reflexivity.
    + unfold scan in H. fold scan in H.
      destruct (str_eqb seg (raw n)).
      * destruct rest as [|s2 rest2]; [discriminate|].
        destruct (has_cmp cmulti (parse_seg (raw n))); [injection H as <- _; reflexivity|].
        destruct (insert true rid (s2 :: rest2) (children n)) as [ch r] eqn:I.
        injection H as <- ->. rewrite (IH _ _ _ I). destruct n; reflexivity.
      * destruct (conflicts (raw n) seg); [injection H as <- _; reflexivity|].
        destruct (scan l) as [tl' r] eqn:SC.
        injection H as <- ->. rewrite (IHl _ eq_refl). reflexivity.
Qed.

Theorem add_route_reject_unchanged strict roots tpl rid roots' e :
  add_route cinst cmulti strict true roots tpl rid = (roots', IErr e) -> roots' = roots.
Proof.
  unfold add_route. intro H. destruct (has_ws tpl); [injection H as <- _; reflexivity|].
  destruct (validate_segs cinst strict (segs_of tpl) []); [|injection H as <- _; reflexivity].
  eapply insert_reject_unchanged; exact H.
Qed.

End Wf.
