(* C17 <-> C18.  C17 abstracts the background receiver to a sequential state (queue, the
   parked pump's event, disconnect flag) and lets the pump run only at OAdvance / when a
   receive blocks: Model.advance = "server and pump run until nothing is runnable".  This file
   justifies the abstraction against the transition system of C18 (Falcon.C18.Model), whose
   states are the real receiver's states under every interleaving:
   - [proj] maps a C18 state to the C17 receiver state;
   - sim_pull / sim_resume: from a C18 state in which the pump waits for the server (resp. was
     woken with an event in hand), there is a sequence of C18 labels (LServer / LPump only)
     after which the projection is exactly what C17's pull / advance computes, and no further
     LServer / LPump label is enabled (quiescence);
   - the facts C17 relies on (at most capacity queued + one in hand, FIFO, no pull after the
     disconnect, stopped after close) are C18 theorems, re-exported here on the projection. *)
From Coq Require Import ZArith NArith List Bool Arith Lia.
From Falcon.C18 Require Model Proofs ProofsInv ProofsMain.
From Falcon.C17 Require Import Model.
Import ListNotations.

Module M18 := Falcon.C18.Model.
Module P18 := Falcon.C18.Proofs.

Definition e2c (e : M18.ev) : cev :=
  match e with M18.Msg n => CText n false | M18.Disc c => CDisc c false end.

Definition proj_queue (s : M18.st) : list cev := map e2c (M18.queue s).
Definition proj_hand (s : M18.st) : option cev :=
  match P18.hand s with e :: _ => Some (e2c e) | [] => None end.
Definition proj_flag (s : M18.st) : option Z :=
  if M18.flag s then Some (M18.dcode s) else None.
Definition proj_client (s : M18.st) : list cev := map e2c (M18.remaining s).

Lemma code_of_or1000 c : M18.code_of c = or1000 c.
Proof. reflexivity. Qed.

Definition only_pump_labels (ls : list M18.label) : Prop :=
  Forall (fun l => l = M18.LServer \/ l = M18.LPump) ls.

Lemma opl_two ls : only_pump_labels ls -> only_pump_labels (M18.LServer :: M18.LPump :: ls).
Proof. intro H. constructor; [left; reflexivity|]. constructor; [right; reflexivity|]. exact H. Qed.

(* nothing the server or the pump could do next *)
Definition quiescent (s : M18.st) : Prop :=
  M18.step true M18.LServer s = None /\ M18.step true M18.LPump s = None.

Ltac open18 s :=
  destruct s as [cap18 queue18 popw18 putw18 flag18 dcode18 ptask18 pump18 wst18 ccode18 recv18
                       ctl18 remaining18 outst18 pulls18 sends18 consumed18 losth18 credit18 log18];
  cbn [M18.cap M18.queue M18.popw M18.putw M18.flag M18.dcode M18.ptask M18.pump M18.wst M18.ccode
       M18.recv M18.ctl M18.remaining M18.outst M18.pulls M18.sends M18.consumed M18.losth
       M18.credit M18.log] in *.

Lemma run_app f l1 l2 s : M18.run f (l1 ++ l2) s = M18.run f l2 (M18.run f l1 s).
Proof. revert s. induction l1 as [|l tl IH]; intro s; cbn; [reflexivity|]. apply IH. Qed.

(* wake_pop only touches the receiving task's bookkeeping *)
Lemma wake_pop_proj s :
  M18.queue (M18.wake_pop s) = M18.queue s /\ M18.pump (M18.wake_pop s) = M18.pump s
  /\ M18.flag (M18.wake_pop s) = M18.flag s /\ M18.dcode (M18.wake_pop s) = M18.dcode s
  /\ M18.remaining (M18.wake_pop s) = M18.remaining s /\ M18.outst (M18.wake_pop s) = M18.outst s
  /\ M18.cap (M18.wake_pop s) = M18.cap s /\ M18.putw (M18.wake_pop s) = M18.putw s.
Proof.
  unfold M18.wake_pop. destruct (M18.popw s); [|repeat split; reflexivity].
  destruct (M18.recv s); repeat split; reflexivity.
Qed.

Definition rok (s : M18.st) : Prop :=
  match M18.recv s with M18.RAwaitServer | M18.RHave _ => False | _ => True end.

Lemma pull_cons cp q e r :
  pull cp q (e :: r) =
  if (length q <? cp)%nat then
    match disc_code e with
    | Some c => (q ++ [e], None, r, Some c)
    | None => pull cp (q ++ [e]) r
    end
  else (q, Some e, r, disc_code e).
Proof. reflexivity. Qed.

(* two labels: the server hands over the next event, the pump takes it *)
Definition mk18 cap18 queue18 popw18 putw18 flag18 dcode18 ptask18 pump18 wst18 ccode18 recv18 ctl18
           rem18 outst18 pulls18 sends18 consumed18 losth18 credit18 log18 :=
  M18.mkSt cap18 queue18 popw18 putw18 flag18 dcode18 ptask18 pump18 wst18 ccode18 recv18 ctl18
           rem18 outst18 pulls18 sends18 consumed18 losth18 credit18 log18.

Lemma two_full cap18 queue18 popw18 putw18 dcode18 ptask18 wst18 ccode18 recv18 ctl18 e r pulls18
      sends18 consumed18 losth18 credit18 log18 :
  (cap18 <=? length queue18)%nat = true ->
  M18.run true [M18.LServer; M18.LPump]
    (mk18 cap18 queue18 popw18 putw18 false dcode18 ptask18 M18.PAwaitServer wst18
          ccode18 recv18 ctl18 (e :: r) 1 pulls18 sends18 consumed18 losth18 credit18 log18)
  = mk18 cap18 queue18 popw18 M18.FPending (match e with M18.Disc _ => true | _ => false end)
         (match e with M18.Disc c => M18.code_of c | _ => dcode18 end) ptask18 (M18.PAwaitPut e)
         wst18 ccode18 recv18 ctl18 r 0 pulls18 sends18 consumed18 losth18 credit18 log18.
Proof.
  intro Hleb. unfold mk18. cbn. unfold M18.step_server, M18.step_pump; cbn.
  unfold M18.put_phase, M18.note_disc; cbn. destruct e; cbn; rewrite Hleb; reflexivity.
Qed.

(* receiving task's bookkeeping after the pump's notification *)
Definition woken (popw18 : bool) (recv18 : M18.rpc) : M18.rpc :=
  if popw18 then match recv18 with M18.RAwaitPop _ => M18.RAwaitPop true | x => x end else recv18.

Lemma two_room_msg cap18 queue18 popw18 putw18 dcode18 ptask18 wst18 ccode18 recv18 ctl18 n r pulls18
      sends18 consumed18 losth18 credit18 log18 :
  (cap18 <=? length queue18)%nat = false ->
  M18.run true [M18.LServer; M18.LPump]
    (mk18 cap18 queue18 popw18 putw18 false dcode18 ptask18 M18.PAwaitServer wst18
          ccode18 recv18 ctl18 (M18.Msg n :: r) 1 pulls18 sends18 consumed18 losth18 credit18 log18)
  = mk18 cap18 (queue18 ++ [M18.Msg n]) false putw18 false dcode18 ptask18 M18.PAwaitServer
         wst18 ccode18 (woken popw18 recv18) ctl18 r 1 (S pulls18) sends18 consumed18 losth18
         credit18 log18.
Proof.
  intro Hleb. unfold mk18, woken. cbn. unfold M18.step_server, M18.step_pump; cbn.
  unfold M18.put_phase, M18.note_disc; cbn. rewrite Hleb. cbn.
  unfold M18.pump_loop, M18.wake_pop; cbn. destruct popw18; cbn; [destruct recv18|]; reflexivity.
Qed.

Lemma two_room_disc cap18 queue18 popw18 putw18 dcode18 ptask18 wst18 ccode18 recv18 ctl18 c r pulls18
      sends18 consumed18 losth18 credit18 log18 :
  (cap18 <=? length queue18)%nat = false ->
  M18.run true [M18.LServer; M18.LPump]
    (mk18 cap18 queue18 popw18 putw18 false dcode18 ptask18 M18.PAwaitServer wst18
          ccode18 recv18 ctl18 (M18.Disc c :: r) 1 pulls18 sends18 consumed18 losth18 credit18 log18)
  = mk18 cap18 (queue18 ++ [M18.Disc c]) false putw18 true (M18.code_of c) ptask18 M18.PDone
         wst18 ccode18 (woken popw18 recv18) ctl18 r 0 pulls18 sends18 consumed18 losth18
         credit18 log18.
Proof.
  intro Hleb. unfold mk18, woken. cbn. unfold M18.step_server, M18.step_pump; cbn.
  unfold M18.put_phase, M18.note_disc; cbn. rewrite Hleb. cbn.
  unfold M18.pump_loop, M18.wake_pop; cbn. destruct popw18; cbn; [destruct recv18|]; reflexivity.
Qed.

Lemma woken_rok popw18 recv18 :
  match recv18 with M18.RAwaitServer | M18.RHave _ => False | _ => True end ->
  match woken popw18 recv18 with M18.RAwaitServer | M18.RHave _ => False | _ => True end.
Proof. unfold woken. destruct popw18; [destruct recv18|]; auto. Qed.

Lemma quiescent_nopull cap18 queue18 popw18 putw18 flag18 dcode18 ptask18 pump18 wst18 ccode18 recv18
      ctl18 r pulls18 sends18 consumed18 losth18 credit18 log18 :
  M18.step_pump (mk18 cap18 queue18 popw18 putw18 flag18 dcode18 ptask18 pump18 wst18 ccode18 recv18
                      ctl18 r 0 pulls18 sends18 consumed18 losth18 credit18 log18) = None ->
  quiescent (mk18 cap18 queue18 popw18 putw18 flag18 dcode18 ptask18 pump18 wst18 ccode18 recv18
                  ctl18 r 0 pulls18 sends18 consumed18 losth18 credit18 log18).
Proof.
  intro H. split; [|exact H]. unfold mk18. cbn. unfold M18.step_server; cbn. destruct r; reflexivity.
Qed.

(* The pump waits for the server: the C18 system can run (server hands over events, pump
   steps) to a quiescent state whose projection is what C17's [pull] computes. *)
Lemma sim_pull : forall cl s,
  M18.pump s = M18.PAwaitServer -> M18.outst s = 1%nat -> M18.flag s = false ->
  M18.remaining s = cl -> rok s ->
  exists ls s', only_pump_labels ls /\ M18.run true ls s = s' /\ quiescent s'
    /\ (proj_queue s', proj_hand s', proj_client s', proj_flag s')
       = pull (M18.cap s) (proj_queue s) (map e2c cl)
    /\ M18.cap s' = M18.cap s /\ rok s'.
Proof.
  induction cl as [|e r IH]; intros s Hp Ho Hf Hr Hrok.
  - exists [], s. split; [constructor|]. split; [reflexivity|]. split.
    + unfold quiescent. cbn. unfold M18.step_server, M18.step_pump. rewrite Hr, Hp. auto.
    + cbn. unfold proj_hand, proj_client, proj_flag, P18.hand. rewrite Hp, Hr, Hf. cbn.
      unfold rok in *. destruct (M18.recv s); try destruct Hrok; repeat split; auto.
  - cbn [map]. rewrite pull_cons.
    replace (length (proj_queue s)) with (length (M18.queue s))
      by (unfold proj_queue; rewrite map_length; reflexivity).
    open18 s. subst. unfold rok in Hrok; cbn [M18.recv] in Hrok.
    fold (mk18 cap18 queue18 popw18 putw18 false dcode18 ptask18 M18.PAwaitServer wst18 ccode18 recv18
               ctl18 (e :: r) 1 pulls18 sends18 consumed18 losth18 credit18 log18).
    destruct (Nat.ltb_spec (length queue18) cap18) as [Hroom|Hfull].
    + assert (Hleb : (cap18 <=? length queue18)%nat = false) by (apply Nat.leb_gt; exact Hroom).
      destruct e as [n|c]; cbn [disc_code e2c].
      * pose proof (two_room_msg cap18 queue18 popw18 putw18 dcode18 ptask18 wst18 ccode18 recv18 ctl18
                      n r pulls18 sends18 consumed18 losth18 credit18 log18 Hleb) as T.
        match type of T with _ = ?S2 => set (s2 := S2) in * end.
        assert (R2 : rok s2) by (unfold rok, s2, mk18; cbn [M18.recv]; apply woken_rok; exact Hrok).
        destruct (IH s2 eq_refl eq_refl eq_refl eq_refl R2) as [ls [s' [Hl [Hrun [Hq [Hproj [Hcap Hrok']]]]]]].
        exists (M18.LServer :: M18.LPump :: ls), s'.
        split; [apply opl_two; exact Hl|]. split.
        { change (M18.LServer :: M18.LPump :: ls) with ([M18.LServer; M18.LPump] ++ ls).
          rewrite run_app, T. exact Hrun. }
        split; [exact Hq|]. split; [|split; [exact Hcap | exact Hrok']].
        rewrite Hproj. unfold s2, mk18, proj_queue. cbn [M18.cap M18.queue]. rewrite map_app. reflexivity.
      * pose proof (two_room_disc cap18 queue18 popw18 putw18 dcode18 ptask18 wst18 ccode18 recv18 ctl18
                      c r pulls18 sends18 consumed18 losth18 credit18 log18 Hleb) as T.
        eexists [M18.LServer; M18.LPump], _. split; [apply opl_two; constructor|].
        split; [exact T|]. split; [apply quiescent_nopull; reflexivity|].
        pose proof (woken_rok popw18 recv18 Hrok) as W.
        unfold mk18, proj_queue, proj_hand, proj_client, proj_flag, P18.hand, rok.
        cbn [M18.queue M18.pump M18.recv M18.remaining M18.flag M18.dcode M18.cap].
        rewrite map_app. destruct (woken popw18 recv18); try destruct W; repeat split; reflexivity.
    + assert (Hleb : (cap18 <=? length queue18)%nat = true) by (apply Nat.leb_le; exact Hfull).
      pose proof (two_full cap18 queue18 popw18 putw18 dcode18 ptask18 wst18 ccode18 recv18 ctl18
                    e r pulls18 sends18 consumed18 losth18 credit18 log18 Hleb) as T.
      eexists [M18.LServer; M18.LPump], _. split; [apply opl_two; constructor|].
      split; [exact T|]. split; [apply quiescent_nopull; reflexivity|].
      unfold mk18, proj_queue, proj_hand, proj_client, proj_flag, P18.hand, rok.
      cbn [M18.queue M18.pump M18.recv M18.remaining M18.flag M18.dcode M18.cap].
      destruct e; cbn [e2c disc_code]; repeat split; try reflexivity;
        destruct recv18; try destruct Hrok; exact I.
Qed.

(* ---- the whole of C17's [advance] *)

Definition proj_eq (s : M18.st) (c : cfg) (w : ws) : Prop :=
  proj_queue s = queue w /\ proj_hand s = hand w /\ proj_client s = client w
  /\ proj_flag s = flag w /\ M18.cap s = cap c.

(* one pump step from the woken state (the receiver has popped a message) *)
Lemma one_woken_full cap18 queue18 popw18 putw18 flag18 dcode18 ptask18 wst18 ccode18 recv18 ctl18 e r
      pulls18 sends18 consumed18 losth18 credit18 log18 :
  (cap18 <=? length queue18)%nat = true ->
  M18.run true [M18.LPump]
    (mk18 cap18 queue18 popw18 putw18 flag18 dcode18 ptask18 (M18.PPutWoken e) wst18
          ccode18 recv18 ctl18 r 0 pulls18 sends18 consumed18 losth18 credit18 log18)
  = mk18 cap18 queue18 popw18 M18.FPending flag18 dcode18 ptask18 (M18.PAwaitPut e)
         wst18 ccode18 recv18 ctl18 r 0 pulls18 sends18 consumed18 losth18 credit18 log18.
Proof.
  intro Hleb. unfold mk18. cbn. unfold M18.step_pump; cbn. unfold M18.put_phase; cbn.
  rewrite Hleb. reflexivity.
Qed.

Lemma one_woken_room cap18 queue18 popw18 putw18 flag18 dcode18 ptask18 wst18 ccode18 recv18 ctl18 e r
      pulls18 sends18 consumed18 losth18 credit18 log18 :
  (cap18 <=? length queue18)%nat = false ->
  M18.run true [M18.LPump]
    (mk18 cap18 queue18 popw18 putw18 flag18 dcode18 ptask18 (M18.PPutWoken e) wst18
          ccode18 recv18 ctl18 r 0 pulls18 sends18 consumed18 losth18 credit18 log18)
  = if flag18
    then mk18 cap18 (queue18 ++ [e]) false M18.FNone true dcode18 ptask18 M18.PDone
              wst18 ccode18 (woken popw18 recv18) ctl18 r 0 pulls18 sends18 consumed18 losth18
              credit18 log18
    else mk18 cap18 (queue18 ++ [e]) false M18.FNone false dcode18 ptask18 M18.PAwaitServer
              wst18 ccode18 (woken popw18 recv18) ctl18 r 1 (S pulls18) sends18 consumed18 losth18
              credit18 log18.
Proof.
  intro Hleb. unfold mk18, woken. cbn. unfold M18.step_pump; cbn. unfold M18.put_phase; cbn.
  rewrite Hleb. cbn. unfold M18.pump_loop, M18.wake_pop; cbn.
  destruct popw18; cbn; [destruct recv18|]; destruct flag18; reflexivity.
Qed.

Lemma one_start cap18 queue18 popw18 putw18 dcode18 ptask18 wst18 ccode18 recv18 ctl18 r
      pulls18 sends18 consumed18 losth18 credit18 log18 :
  M18.run true [M18.LPump]
    (mk18 cap18 queue18 popw18 putw18 false dcode18 ptask18 M18.PStart wst18
          ccode18 recv18 ctl18 r 0 pulls18 sends18 consumed18 losth18 credit18 log18)
  = mk18 cap18 queue18 popw18 putw18 false dcode18 ptask18 M18.PAwaitServer wst18
         ccode18 recv18 ctl18 r 1 (S pulls18) sends18 consumed18 losth18 credit18 log18.
Proof. reflexivity. Qed.

(* The states in which C17 looks at the receiver (the application task is running, every
   other task has run as far as it can or has just been woken), with the facts C18's
   invariant gives about them. *)
Inductive at_rest : M18.st -> Prop :=
| rest_start s : M18.pump s = M18.PStart -> M18.flag s = false -> M18.outst s = 0%nat -> at_rest s
| rest_wait s : M18.pump s = M18.PAwaitServer -> M18.flag s = false -> M18.outst s = 1%nat -> at_rest s
| rest_parked s e : M18.pump s = M18.PAwaitPut e -> M18.outst s = 0%nat ->
                    (M18.cap s <= length (M18.queue s))%nat -> at_rest s
| rest_woken s e : M18.pump s = M18.PPutWoken e -> M18.outst s = 0%nat ->
                   M18.flag s = (match e with M18.Disc _ => true | _ => false end) ->
                   at_rest s
| rest_done s : M18.pump s = M18.PDone -> M18.flag s = true -> M18.outst s = 0%nat -> at_rest s.

Theorem sim_advance s c w :
  at_rest s -> rok s -> proj_eq s c w -> pump w = true ->
  exists ls s', only_pump_labels ls /\ M18.run true ls s = s' /\ quiescent s'
                /\ proj_eq s' c (advance c w) /\ rok s'.
Proof.
  intros Hrest Hrok Hpe Hpw. unfold advance. rewrite Hpw.
  destruct Hpe as [Hq [Hh [Hc [Hf Hcap]]]].
  destruct Hrest as [s Hp Hfl Ho | s Hp Hfl Ho | s e Hp Ho Hfull | s e Hp Ho Hfl | s Hp Hfl Ho].
  - (* the pump has not run yet *)
    assert (Hh0 : hand w = None).
    { rewrite <- Hh. unfold proj_hand, P18.hand. rewrite Hp. unfold rok in Hrok.
      destruct (M18.recv s); try destruct Hrok; reflexivity. }
    assert (Hf0 : flag w = None) by (rewrite <- Hf; unfold proj_flag; rewrite Hfl; reflexivity).
    rewrite Hh0. cbn [hand]. rewrite Hh0, Hf0.
    open18 s. subst pump18 flag18 outst18. unfold rok in Hrok; cbn [M18.recv] in Hrok.
    fold (mk18 cap18 queue18 popw18 putw18 false dcode18 ptask18 M18.PStart wst18 ccode18 recv18
               ctl18 remaining18 0 pulls18 sends18 consumed18 losth18 credit18 log18).
    pose proof (one_start cap18 queue18 popw18 putw18 dcode18 ptask18 wst18 ccode18 recv18 ctl18
                  remaining18 pulls18 sends18 consumed18 losth18 credit18 log18) as T.
    match type of T with _ = ?S2 => set (s2 := S2) in * end.
    assert (R2 : rok s2) by exact Hrok.
    destruct (sim_pull remaining18 s2 eq_refl eq_refl eq_refl eq_refl R2)
      as [ls [s' [Hl [Hrun [Hqs [Hproj [Hcap' Hrok']]]]]]].
    exists (M18.LPump :: ls), s'. split; [constructor; [right; reflexivity | exact Hl]|].
    split. { change (M18.LPump :: ls) with ([M18.LPump] ++ ls). rewrite run_app, T. exact Hrun. }
    split; [exact Hqs|]. split; [|exact Hrok'].
    unfold s2, mk18 in Hproj. cbn [M18.cap M18.remaining] in Hproj.
    unfold proj_queue at 2 in Hproj. cbn [M18.queue] in Hproj.
    unfold proj_queue, proj_client in Hq, Hc. cbn [M18.queue M18.remaining] in Hq, Hc.
    rewrite <- Hq, <- Hc, <- Hcap.
    destruct (pull cap18 (map e2c queue18) (map e2c remaining18)) as [[[q h] rest] f] eqn:Ep.
    injection Hproj as A B C D. cbn. unfold proj_eq. cbn. repeat split; auto.
    unfold s2, mk18 in Hcap'. cbn [M18.cap] in Hcap'. congruence.
  - (* the pump waits for the server *)
    assert (Hh0 : hand w = None).
    { rewrite <- Hh. unfold proj_hand, P18.hand. rewrite Hp. unfold rok in Hrok.
      destruct (M18.recv s); try destruct Hrok; reflexivity. }
    assert (Hf0 : flag w = None) by (rewrite <- Hf; unfold proj_flag; rewrite Hfl; reflexivity).
    rewrite Hh0. cbn [hand]. rewrite Hh0, Hf0.
    destruct (sim_pull (M18.remaining s) s Hp Ho Hfl eq_refl Hrok)
      as [ls [s' [Hl [Hrun [Hqs [Hproj [Hcap' Hrok']]]]]]].
    exists ls, s'. split; [exact Hl|]. split; [exact Hrun|]. split; [exact Hqs|]. split; [|exact Hrok'].
    unfold proj_client in Hc. rewrite Hc, Hq, Hcap in Hproj.
    destruct (pull (cap c) (queue w) (client w)) as [[[q h] rest] f] eqn:Ep.
    injection Hproj as A B C D. unfold proj_eq. cbn. repeat split; auto. congruence.
  - (* parked on a full queue: nothing can move *)
    assert (Hh0 : hand w = Some (e2c e)).
    { rewrite <- Hh. unfold proj_hand, P18.hand. rewrite Hp. reflexivity. }
    assert (Hlt : (length (queue w) <? cap c)%nat = false).
    { apply Nat.ltb_ge. rewrite <- Hq, <- Hcap. unfold proj_queue. rewrite map_length. exact Hfull. }
    rewrite Hh0, Hlt. rewrite Hh0.
    exists [], s. split; [constructor|]. split; [reflexivity|]. split.
    + split; cbn; [unfold M18.step_server; rewrite Ho; destruct (M18.remaining s); reflexivity
                  | unfold M18.step_pump; rewrite Hp; reflexivity].
    + split; [repeat split; auto | exact Hrok].
  - (* woken after the receiver popped a message *)
    assert (Hh0 : hand w = Some (e2c e)).
    { rewrite <- Hh. unfold proj_hand, P18.hand. rewrite Hp. reflexivity. }
    rewrite Hh0.
    assert (Hlen : length (queue w) = length (M18.queue s))
      by (rewrite <- Hq; unfold proj_queue; apply map_length).
    rewrite Hlen, <- Hcap.
    open18 s. subst pump18 outst18. unfold rok in Hrok; cbn [M18.recv] in Hrok.
    fold (mk18 cap18 queue18 popw18 putw18 flag18 dcode18 ptask18 (M18.PPutWoken e) wst18 ccode18
               recv18 ctl18 remaining18 0 pulls18 sends18 consumed18 losth18 credit18 log18).
    destruct (Nat.ltb_spec (length queue18) cap18) as [Hroom|Hfull].
    + assert (Hleb : (cap18 <=? length queue18)%nat = false) by (apply Nat.leb_gt; exact Hroom).
      pose proof (one_woken_room cap18 queue18 popw18 putw18 flag18 dcode18 ptask18 wst18 ccode18
                    recv18 ctl18 e remaining18 pulls18 sends18 consumed18 losth18 credit18 log18 Hleb) as T.
      pose proof (woken_rok popw18 recv18 Hrok) as W.
      cbn [hand flag set_hand set_queue].
      unfold proj_flag in Hf. cbn [M18.flag M18.dcode] in Hf.
      destruct flag18.
      * (* the disconnect: enqueued, the pump ends *)
        rewrite <- Hf.
        eexists [M18.LPump], _. split; [constructor; [right; reflexivity | constructor]|].
        split; [exact T|]. split; [apply quiescent_nopull; reflexivity|].
        unfold proj_eq, mk18, proj_queue, proj_hand, proj_client, proj_flag, P18.hand, rok.
        cbn [M18.queue M18.pump M18.recv M18.remaining M18.flag M18.dcode M18.cap
             queue hand client flag set_hand set_queue].
        unfold proj_queue, proj_client in Hq, Hc. cbn [M18.queue M18.remaining] in Hq, Hc.
        rewrite map_app, Hq. cbn [map].
        destruct (woken popw18 recv18); try destruct W; repeat split; auto.
      * (* a message: enqueued, the pump pulls again *)
        rewrite <- Hf.
        match type of T with _ = ?S2 => set (s2 := S2) in * end.
        assert (R2 : rok s2) by (unfold rok, s2, mk18; cbn [M18.recv]; exact W).
        destruct (sim_pull remaining18 s2 eq_refl eq_refl eq_refl eq_refl R2)
          as [ls [s' [Hl [Hrun [Hqs [Hproj [Hcap' Hrok']]]]]]].
        exists (M18.LPump :: ls), s'. split; [constructor; [right; reflexivity | exact Hl]|].
        split. { change (M18.LPump :: ls) with ([M18.LPump] ++ ls). rewrite run_app, T. exact Hrun. }
        split; [exact Hqs|]. split; [|exact Hrok'].
        unfold s2, mk18 in Hproj, Hcap'. cbn [M18.cap M18.remaining] in Hproj, Hcap'.
        unfold proj_queue at 2 in Hproj. cbn [M18.queue] in Hproj.
        unfold proj_queue, proj_client in Hq, Hc. cbn [M18.queue M18.remaining] in Hq, Hc.
        rewrite map_app, Hq, Hc in Hproj. cbn [map] in Hproj. cbn [M18.cap] in Hcap.
        rewrite Hcap in Hproj.
        cbn [queue client set_hand set_queue]. rewrite Hcap.
        destruct (pull (cap c) (queue w ++ [e2c e]) (client w)) as [[[q h] rest] f] eqn:Ep.
        injection Hproj as A B C D. unfold proj_eq. cbn. repeat split; auto. congruence.
    + (* still full: parks again *)
      assert (Hleb : (cap18 <=? length queue18)%nat = true) by (apply Nat.leb_le; exact Hfull).
      assert (Hlt : (length queue18 <? cap18)%nat = false) by (apply Nat.ltb_ge; exact Hfull).
      rewrite Hh0.
      pose proof (one_woken_full cap18 queue18 popw18 putw18 flag18 dcode18 ptask18 wst18 ccode18
                    recv18 ctl18 e remaining18 pulls18 sends18 consumed18 losth18 credit18 log18 Hleb) as T.
      eexists [M18.LPump], _. split; [constructor; [right; reflexivity | constructor]|].
      split; [exact T|]. split; [apply quiescent_nopull; reflexivity|].
      split; [|exact Hrok].
      unfold proj_eq, mk18, proj_queue, proj_hand, proj_client, proj_flag, P18.hand in *.
      cbn [M18.queue M18.pump M18.recv M18.remaining M18.flag M18.dcode M18.cap] in *.
      repeat split; auto.
  - (* the pump has ended *)
    assert (Hh0 : hand w = None).
    { rewrite <- Hh. unfold proj_hand, P18.hand. rewrite Hp. unfold rok in Hrok.
      destruct (M18.recv s); try destruct Hrok; reflexivity. }
    assert (Hf0 : flag w = Some (M18.dcode s)) by (rewrite <- Hf; unfold proj_flag; rewrite Hfl; reflexivity).
    rewrite Hh0. rewrite Hh0, Hf0.
    exists [], s. split; [constructor|]. split; [reflexivity|]. split.
    + split; cbn; [unfold M18.step_server; rewrite Ho; destruct (M18.remaining s); reflexivity
                  | unfold M18.step_pump; rewrite Hp; reflexivity].
    + split; [repeat split; auto | exact Hrok].
Qed.

(* ---- the link to C18's reachable states *)
Module I18 := Falcon.C18.ProofsInv.
Module R18 := Falcon.C18.ProofsMain.

Definition rest_pc (p : M18.ppc) : Prop :=
  match p with
  | M18.PStart | M18.PAwaitServer | M18.PAwaitPut _ | M18.PPutWoken _ | M18.PDone => True
  | _ => False
  end.

Lemma inv_at_rest sent s :
  P18.Inv sent s -> M18.cap s <> 0%nat -> rest_pc (M18.pump s) -> at_rest s /\ rok s.
Proof.
  intros H Hc Hp.
  pose proof (P18.i_outst _ _ H) as Ho. pose proof (P18.i_mode _ _ H) as Hm.
  pose proof (P18.i_flag _ _ H) as Hf. pose proof (P18.i_parked _ _ H) as Hpk.
  destruct (M18.cap s =? 0)%nat eqn:Ec; [apply Nat.eqb_eq in Ec; congruence|].
  destruct Hm as [_ Hm].
  assert (Hrok : rok s) by (unfold rok; destruct (M18.recv s) as [|ld| |e0|fn]; auto; destruct fn; auto).
  split; [|exact Hrok].
  assert (Hr0 : match M18.recv s with M18.RAwaitServer => 1%nat | _ => 0%nat end = 0%nat)
    by (destruct (M18.recv s); try reflexivity; destruct Hm).
  rewrite Hr0 in Ho.
  destruct (M18.pump s) as [| | |e|e|e|fn| |] eqn:Ep; try (destruct Hp; fail); cbn in Ho.
  - apply rest_start; auto.
  - apply rest_wait; auto.
  - eapply rest_parked; eauto.
  - eapply rest_woken; eauto; rewrite Hf; destruct e; reflexivity.
  - destruct Hf as [Hf _]. apply rest_done; auto.
Qed.

(* Every C18-reachable state (any capacity >= 1, any client events, any interleaving) whose
   pump is at one of its resting points projects to a C17 receiver state, and C17's advance is
   exactly what the C18 system does when only the server and the pump run, until nothing moves;
   the state reached is again C18-reachable (so C18's invariant and theorems apply to it). *)
Theorem advance_simulated cp sent ls c w :
  cp <> 0%nat -> rest_pc (M18.pump (R18.reach cp sent ls)) ->
  proj_eq (R18.reach cp sent ls) c w -> pump w = true ->
  exists ls', only_pump_labels ls'
    /\ quiescent (R18.reach cp sent (ls ++ ls'))
    /\ proj_eq (R18.reach cp sent (ls ++ ls')) c (advance c w).
Proof.
  intros Hcp Hrest Hpe Hpw.
  pose proof (I18.reachable_inv cp sent ls) as H. fold (R18.reach cp sent ls) in H.
  assert (Hc : M18.cap (R18.reach cp sent ls) <> 0%nat) by (rewrite R18.reach_cap; exact Hcp).
  destruct (inv_at_rest _ _ H Hc Hrest) as [Har Hrok].
  destruct (sim_advance _ _ _ Har Hrok Hpe Hpw) as [ls' [s' [Hl [Hrun [Hq [Hpe' _]]]]]].
  exists ls'. split; [exact Hl|].
  assert (E : R18.reach cp sent (ls ++ ls') = s').
  { unfold R18.reach in *. rewrite run_app. exact Hrun. }
  rewrite E. auto.
Qed.

(* The bounds C17's [pull] builds in are C18 theorems about the projected state. *)
Theorem projected_bounds cp sent ls :
  let s := R18.reach cp sent ls in
  (length (proj_queue s) <= cp)%nat
  /\ (forall e, M18.pump s = M18.PAwaitPut e -> length (proj_queue s) = cp /\ M18.outst s = 0%nat)
  /\ (M18.flag s = true -> M18.outst s = 0%nat).
Proof.
  cbv zeta. unfold proj_queue. rewrite map_length.
  pose proof (R18.bounded cp sent ls) as [A _].
  pose proof (R18.single_pull cp sent ls) as [_ B].
  pose proof (R18.sender_prompt cp sent ls) as [_ [_ C]].
  split; [exact A|]. split.
  - intros e He. destruct (B e He) as [B1 B2]. auto.
  - intro Hf. apply C. exact Hf.
Qed.
