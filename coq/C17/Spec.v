(* C17 — the property as checks over what is visible from outside: the calls of the server's
   send() with their outcome, whether the server has handed over a disconnect event, the
   public state of the socket before an operation and the operation's result. *)
From Coq Require Import ZArith NArith List Bool Arith.
From Falcon.C17 Require Import Model.
Import ListNotations.
Open Scope Z_scope.

(* ---- 1. monitor of the ASGI WebSocket send side.
   [tried]: a close was attempted and failed without a signal that the connection is lost. *)
Inductive mstate := MConn (tried : bool) | MOpen (tried : bool) | MClosed | MLost.

Definition outcome (k : sfail) (m target : mstate) : mstate :=
  match k with
  | SOk => target
  | SOSError _ | SNormal | SProto => MLost      (* the server says the connection is gone *)
  | SOther | SInvalid => m
  end.

Definition mon_step (m : mstate) (a : event * sfail) : option mstate :=
  let (e, k) := a in
  match m, e with
  | MConn _, EAccept _ _ => Some (outcome k m (MOpen false))
  | MConn t, EClose _ _ => Some (outcome k (MConn true) MClosed)
  | MOpen _, EText _ _ | MOpen _, EBytes _ _ => Some (outcome k m m)
  | MOpen t, EClose _ _ => Some (outcome k (MOpen true) MClosed)
  | _, _ => None
  end.

Fixpoint mon_run (m : mstate) (tr : list (event * sfail)) : option mstate :=
  match tr with
  | [] => Some m
  | a :: tl => match mon_step m a with Some m' => mon_run m' tl | None => None end
  end.

Definition is_stuck (e : ending) : bool := match e with Stuck => true | _ => false end.

(* legal session: every send() call is legal where it happens, and when the application
   ends a close has been sent or attempted, unless the connection is lost or the server has
   already delivered the client's disconnect *)
Definition session_ok (tr : list (event * sfail)) (e : ending) (disc_handed : bool) : bool :=
  match mon_run (MConn false) tr with
  | None => false
  | Some m =>
    is_stuck e || disc_handed
    || match m with MClosed | MLost | MConn true | MOpen true => true | _ => false end
  end.

(* supported features only, and every payload field has the type the ASGI spec demands and
   does not alias a buffer the application can still change: 'text' is a str, 'bytes' is
   exactly bytes whose content is the same when send() is called and when the server reads it *)
Definition event_ok (c : cfg) (e : event) : bool :=
  match e with
  | EAccept _ true => hdrs_ok c
  | EClose _ true => reason_ok c
  | EText _ k => strish k
  | EBytes _ k => match k with KExact => true | _ => false end
  | _ => true
  end.

Definition features_ok (c : cfg) (tr : list (event * sfail)) : bool :=
  forallb (fun a => event_ok c (fst a)) tr.

(* ---- 2. (public state, operation) -> documented error *)
Inductive pub := PHandshake | PReady | PClosed.

Definition pub_of (w : ws) : pub :=
  match st w with
  | Handshake => PHandshake
  | _ => if is_closed w then PClosed else PReady
  end.

Definition valid_code (z : Z) : bool :=
  (1000 <=? z) && negb ((1004 <=? z) && (z <=? 1006)) && negb ((1015 <=? z) && (z <=? 1999)).

Definition bad_code (ca : codearg) : bool :=
  match ca with CNone => false | CNotInt => true | CInt z => negb (valid_code z) end.

Definition is_raise (r : result) (x : exc) : bool :=
  match r, x with
  | Raise XNotAllowed, XNotAllowed | Raise XValue, XValue | Raise XType, XType
  | Raise XPayload, XPayload => true
  | _, _ => false
  end.

Definition is_disc (r : result) : bool := match r with Raise (XDisc _) => true | _ => false end.

Definition is_internal (r : result) : bool :=
  match r with Raise XAssert => true | _ => false end.

(* the payload is not of the type the operation takes (send_text: a str; send_data: bytes,
   bytearray or memoryview) *)
Definition payload_bad (o : op) : bool :=
  match o with
  | OSendText (PGood _ k) => negb (strish k)
  | OSendText PBad | OSendData PBad => true
  | _ => false
  end.

(* a rejected payload: no send() call happened during the operation *)
Definition bad_payload_quiet (o : op) (sends_before sends_after : nat) : bool :=
  if payload_bad o then Nat.eqb sends_before sends_after else true.

(* true = the result is what the documentation promises for this (state, operation) *)
Definition misuse_ok (c : cfg) (p : pub) (o : op) (r : result) : bool :=
  negb (is_internal r) &&
  match o with
  | OAccept s h =>
    match p with
    | PHandshake =>
      match s, h with
      | SubBad, _ => is_raise r XValue
      | _, HNone => true
      | _, _ => if negb (hdrs_ok c) then is_raise r XNotAllowed
                else match h with HBadName => is_raise r XValue | _ => true end
      end
    | _ => is_raise r XNotAllowed                  (* already accepted / closed *)
    end
  | OClose ca _ => if bad_code ca then is_raise r XValue else true
  | OSendText p' | OSendData p' =>
    match p with
    | PHandshake => is_raise r XNotAllowed
    | PReady => if payload_bad o then is_raise r XType else true
    | PClosed => if payload_bad o then is_raise r XType || is_disc r else is_disc r
    end
  | OSendMedia _ _ =>
    match p with
    | PHandshake => is_raise r XNotAllowed
    | PReady => true
    | PClosed => is_disc r
    end
  | ORecvText | ORecvData | ORecvMedia | ORecvCancelled =>
    match p with
    | PHandshake => is_raise r XNotAllowed
    | _ => true        (* messages queued before the disconnect are still delivered *)
    end
  | ORaise _ | OAdvance => true
  end.

(* ---- 3. payloads: a receive returns the next client event, of the requested kind *)
Definition recv_ok (kind : nat) (e : cev) (r : result) : bool :=
  match kind, e, r with
  | O, CText n _, Ret (VText m) => N.eqb n m
  | O, CBin _ _, Raise XPayload => true
  | S O, CBin n _, Ret (VBytes m) => N.eqb n m
  | S O, CText _ _, Raise XPayload => true
  | S (S _), CText n _, Ret (VMedia m) => N.eqb n m
  | S (S _), CBin n _, Ret (VMedia m) => N.eqb n m
  | _, CDisc c _, Raise (XDisc z) => Z.eqb z (or1000 c)
  | _, _, _ => false
  end.

(* the events still to be delivered, in order *)
Definition stream (w : ws) : list cev :=
  queue w ++ match hand w with Some e => [e] | None => [] end ++ client w.

(* ---- 4. which close code the application wrapper uses once the responder has ended.
   cause: 0 returned, 1 unrouted, 2 no on_websocket responder, 3 HTTPError/HTTPStatus s,
   4 any other exception.  The first close the wrapper attempts carries the code of the cause;
   a further attempt (after that close failed) carries the configured error code, or the
   fallback (when the configured one is invalid, or the server rejected a close with an
   "invalid close code" error). *)
Definition expected_code (c : cfg) (fallback offset : Z) (cause : nat) (s : Z) : Z :=
  match cause with
  | O => 1000
  | S O => 404 + offset
  | S (S O) => 405 + offset
  | S (S (S O)) => s + offset
  | _ => if valid_code (err_code c) then err_code c else fallback
  end.

Definition close_codes (l : list (event * sfail)) : list Z :=
  flat_map (fun a => match fst a with EClose z _ => [z] | _ => [] end) l.

Definition wrapper_close_ok (c : cfg) (fallback offset : Z) (cause : nat) (s : Z)
           (l : list (event * sfail)) : bool :=
  match close_codes l with
  | [] => true
  | z :: tl =>
    Z.eqb z (expected_code c fallback offset cause s)
    && forallb (fun y => Z.eqb y (expected_code c fallback offset 4 0) || Z.eqb y fallback) tl
  end.

(* ---- 5. "invalid close code" fallback.  When the responder returned or failed with anything
   but an HTTP error / status (causes 0 and 4) and the server rejects a close the wrapper sends
   with an "invalid close code" error, the wrapper must try again (with the fallback code),
   unless the rejected close already carried the fallback.  (Proved of the model: C17_wrapper_retries_after_invalid_close_code.) *)
Fixpoint retry_ok (fallback : Z) (l : list (event * sfail)) : bool :=
  match l with
  | [] => true
  | (EClose z _, SInvalid) :: rest =>
    (Z.eqb z fallback || match close_codes rest with [] => false | _ => true end)
    && retry_ok fallback rest
  | _ :: rest => retry_ok fallback rest
  end.

Definition wrapper_retry_ok (fallback : Z) (cause : nat) (l : list (event * sfail)) : bool :=
  match cause with
  | O | S (S (S (S _))) => retry_ok fallback l
  | _ => true
  end.

