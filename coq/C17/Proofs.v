(* C17 — lemmas. *)
From Coq Require Import ZArith NArith List Bool Arith Lia.
From Falcon.gen Require Import ConstsC17.
From Falcon.C17 Require Import Model Spec.
Import ListNotations.
Open Scope Z_scope.

(* the constants the model and the proofs rely on (regenerated from the code on every run) *)
Lemma consts_ok :
  ws_normal_code = 1000 /\ ws_code_offset = 3000 /\ valid_code fallback_ws_error_code = true
  /\ valid_code ws_server_error_code = true.
Proof. repeat split; reflexivity. Qed.

(* ---- close codes *)
Lemma code_check_valid z : valid_code z = true -> code_check (CInt z) = inl (Some z).
Proof.
  unfold valid_code, code_check. intro H.
  apply andb_true_iff in H as [H H3]. apply andb_true_iff in H as [H1 H2].
  apply Z.leb_le in H1. destruct (z <? 1000) eqn:E; [apply Z.ltb_lt in E; lia|].
  apply negb_true_iff in H2, H3. rewrite H2, H3. reflexivity.
Qed.

Lemma code_check_invalid z : valid_code z = false -> code_check (CInt z) = inr XValue.
Proof.
  unfold valid_code, code_check. intro H.
  destruct (z <? 1000) eqn:E; [reflexivity|].
  apply Z.ltb_ge in E. apply Z.leb_le in E. rewrite E in H. cbn in H.
  destruct ((1004 <=? z) && (z <=? 1006)) eqn:A; cbn in *; [rewrite orb_true_r; reflexivity|].
  destruct ((1015 <=? z) && (z <=? 1999)) eqn:B; cbn in *; [reflexivity | discriminate].
Qed.

Lemma valid_code_spec z :
  valid_code z = true <-> (1000 <= z /\ ~ (1004 <= z <= 1006) /\ ~ (1015 <= z <= 1999)).
Proof.
  unfold valid_code. rewrite !andb_true_iff, !negb_true_iff, !andb_false_iff, !Z.leb_le, !Z.leb_gt.
  lia.
Qed.

Lemma code_check_bad ca : bad_code ca = true -> code_check ca = inr XValue.
Proof.
  destruct ca as [|z|]; unfold bad_code; try discriminate; [|reflexivity].
  intro H. apply negb_true_iff in H. apply code_check_invalid. exact H.
Qed.

Lemma code_check_good ca : bad_code ca = false -> exists co, code_check ca = inl co.
Proof.
  destruct ca as [|z|]; unfold bad_code; try discriminate; [intros _; cbn; eauto|].
  intro H. apply negb_false_iff in H. rewrite (code_check_valid _ H). eauto.
Qed.

(* ---- monitor *)
Lemma mon_run_app m tr a :
  mon_run m (tr ++ [a]) = match mon_run m tr with Some m' => mon_step m' a | None => None end.
Proof.
  revert m. induction tr as [|b tr IH]; intro m; cbn.
  - destruct (mon_step m a); reflexivity.
  - destruct (mon_step m b); [apply IH | reflexivity].
Qed.

Opaque mon_run.

Definition closedish (m : mstate) : bool :=
  match m with MClosed | MLost | MConn true | MOpen true => true | _ => false end.

Definition is_cdisc (e : cev) : bool := match e with CDisc _ _ => true | _ => false end.
Definition has_disc (l : list cev) : bool := existsb is_cdisc l.

(* the invariant tying the socket state to the monitor state *)
Definition Core (w : ws) : Prop :=
  exists m, mon_run (MConn false) (trace w) = Some m
  /\ match st w with
     | Handshake => (exists t, m = MConn t) /\ flag w = None /\ pump w = false
     | Accepted => exists t, m = MOpen t
     | Closed => closedish m = true \/ handed w = true
     end
  /\ (flag w <> None -> handed w = true)
  /\ (has_disc (queue w) = true \/ (exists c r, hand w = Some (CDisc c r)) -> handed w = true).

(* a receiver that was stopped while the socket stayed ACCEPTED: a close has been attempted
   (and failed with an unrecognised error) or the client's disconnect has been handed over *)
Definition Stop (c : cfg) (w : ws) : Prop :=
  st w = Accepted -> pump w = false -> (cap c =? 0)%nat = false ->
  handed w = true \/ mon_run (MConn false) (trace w) = Some (MOpen true).

Definition Legal (c : cfg) (w : ws) : Prop := Core w /\ Stop c w.

Lemma core_init cl fl : Core (ws0 cl fl).
Proof.
  exists (MConn false). Transparent mon_run. cbn. Opaque mon_run.
  repeat split; eauto; try congruence. intros [H|[c [r H]]]; discriminate.
Qed.

Ltac dw w := destruct w as [st0 cc q h fl pu cl fa tr hd]; cbn in *.

(* do_send with an event that is legal in the current monitor state *)
Definition fits (s : wstate) (e : event) : Prop :=
  match s, e with
  | Handshake, EAccept _ _ | Handshake, EClose _ _ => True
  | Accepted, EText _ _ | Accepted, EBytes _ _ | Accepted, EClose _ _ => True
  | _, _ => False
  end.

Lemma do_send_core e w x w' :
  Core w -> fits (st w) e -> do_send e w = (x, w') ->
  flag w' = flag w /\ handed w' = handed w /\ pump w' = pump w /\ queue w' = queue w
  /\ hand w' = hand w /\ client w' = client w /\
  match x with
  | None => st w' = st w /\ flag w = None
            /\ exists m, mon_run (MConn false) (trace w') = Some m
                /\ match e with
                   | EAccept _ _ => m = MOpen false
                   | EClose _ _ => m = MClosed
                   | _ => mon_run (MConn false) (trace w) = Some m /\ exists t, m = MOpen t
                   end
  | Some y => Core w'
              /\ (st w' = Closed
                  \/ ((y = XOther \/ y = XInvalidCode) /\ st w' = st w
                      /\ exists m, mon_run (MConn false) (trace w') = Some m
                          /\ match e with
                             | EClose _ _ => closedish m = true
                             | _ => mon_run (MConn false) (trace w) = Some m
                             end))
  end.
Proof.
  intros [m [Hm [Hst [Hfl Hdq]]]] Hfit Hs. dw w. unfold do_send in Hs; cbn in Hs.
  destruct fl as [c|]; cbn in Hs.
  - (* flag set: closed without sending *)
    injection Hs as <- <-. cbn. repeat split; auto.
    exists m. cbn. repeat split; auto. right. apply Hfl. discriminate.
  - destruct st0; cbn in Hs; try (exfalso; destruct e; exact Hfit).
    + (* Handshake *)
      destruct Hst as [[t ->] [_ Hpu]].
      destruct fa as [|k fa]; cbn in Hs;
        [|destruct k]; injection Hs as <- <-; unfold Core; cbn;
        rewrite ?mon_run_app, ?Hm; destruct e; try (exfalso; exact Hfit); cbn;
        repeat split; eauto;
        try (eexists; split; [reflexivity|]; cbn; repeat split; eauto; congruence);
        try (right; repeat split; eauto).
    + (* Accepted *)
      destruct Hst as [t ->].
      destruct fa as [|k fa]; cbn in Hs;
        [|destruct k]; injection Hs as <- <-; unfold Core; cbn;
        rewrite ?mon_run_app, ?Hm; destruct e; try (exfalso; exact Hfit); cbn;
        repeat split; eauto;
        try (eexists; split; [reflexivity|]; cbn; repeat split; eauto; congruence);
        try (right; repeat split; eauto).
Qed.
