From Coq Require Import ZArith NArith List Bool Arith Lia.
From Falcon.C17 Require Import Model Spec.
Import ListNotations.
