(* C17 — executable model of the WebSocket session logic:
   falcon/asgi/ws.py:WebSocket (accept, close, send_*, receive_*, _send, _receive,
   _require_accepted, _translate_webserver_error, closed) and
   falcon/asgi/app.py:_handle_websocket, _handle_exception (ws branch), the default
   HTTPError / HTTPStatus / WebSocketDisconnected / Exception handlers, _ws_cleanup_on_error.

   The session is sequential: one responder script (a list of operations, each either
   propagating or swallowing the exception it raises), a client script (events the server
   will hand over), and a script saying what the server's send() does on each call.
   When the background pump has had the chance to run is explicit: the operation OAdvance
   ("every framework task runs until nothing is runnable"); a receive that finds nothing
   buffered forces the same.  C18 proves what the pump can hold: capacity + 1 events.

   [fixed] selects the repaired code (fixes/C17-close-send-failure.patch: close() sends through
   _send; fixes/C17-receive-after-stopped-receiver.patch: close() validates before it stops the
   receiver, receive on a stopped receiver); fixed = false is the code as found. *)
From Coq Require Import ZArith NArith List Bool Arith.
From Falcon.gen Require Import ConstsC17.
Import ListNotations.
Open Scope Z_scope.

Inductive wstate := Handshake | Accepted | Closed.

(* the Python type of a payload / of an event field: exactly str or bytes; a subclass of it;
   bytearray; memoryview; KMutated is only ever observed, never produced by the model: the
   content of the event changed between the moment send() was called and the moment the
   server read it (the event aliases a buffer the application still owns) *)
Inductive pkind := KExact | KSub | KArray | KView | KMutated.

Definition strish (k : pkind) : bool := match k with KExact | KSub => true | _ => false end.

Record cfg := mkCfg {
  hdrs_ok : bool;        (* ASGI spec version <> 2.0 *)
  reason_ok : bool;      (* ASGI spec version >= 2.3 *)
  cap : nat;             (* ws_options.max_receive_queue *)
  err_code : Z;          (* ws_options.error_close_code *)
  media_kind : pkind     (* what the binary media handler's serialize() returns *)
}.

(* client events as the dicts the server hands over.  A websocket.receive event carries its
   payload under 'text' or 'bytes'; the unused key is either absent or present with the value
   None ([both] = true; the ASGI spec treats the two alike, some servers always send both
   keys).  A websocket.disconnect event has an optional 'code' and (spec 2.3+) may carry a
   'reason'. *)
Inductive cev := CText (n : N) (both : bool) | CBin (n : N) (both : bool)
               | CDisc (c : option Z) (reason : bool).

(* one entry of the event dict *)
Inductive entry := Absent | NoneV | Val (n : N).

Definition text_entry (e : cev) : entry :=
  match e with
  | CText n _ => Val n
  | CBin _ both => if both then NoneV else Absent
  | CDisc _ _ => Absent
  end.

Definition bytes_entry (e : cev) : entry :=
  match e with
  | CBin n _ => Val n
  | CText _ both => if both then NoneV else Absent
  | CDisc _ _ => Absent
  end.

(* `event.get(key)` and `try: event[key] except KeyError: None` agree: a missing key and a
   key whose value is None are the same thing *)
Definition get (x : entry) : option N := match x with Val n => Some n | _ => None end.

(* what the server's send() does: return, or raise
   OSError (cause text "received NNNN ..." or none), Exception("... code = 1000 (OK) ..."),
   Exception("... protocol accepted must be from the list ..."), some other exception,
   SInvalid: an exception (Exception or ValueError, any letter case) whose message contains
   "invalid close code" -- how Daphne / Autobahn reject a close code *)
Inductive sfail := SOk | SOSError (cause : option Z) | SNormal | SProto | SOther | SInvalid.

Inductive event :=
| EAccept (sub : option N) (hdrs : bool)
| EText (n : N) (k : pkind) | EBytes (n : N) (k : pkind)
| EClose (code : Z) (reason : bool).

Inductive exc :=
| XNotAllowed | XDisc (code : Z) | XPayload | XValue | XType | XOSError | XOther | XAssert
| XInvalidCode     (* the server's exception whose text mentions "invalid close code" *)
| XHTTPError (status : Z) | XHTTPStatus (status : Z) | XGeneric.

Record ws := mkWs {
  st : wstate;
  ccode : option Z;          (* _close_code *)
  queue : list cev;          (* _messages *)
  hand : option cev;         (* the event the parked pump holds *)
  flag : option Z;           (* client_disconnected (+ code) *)
  pump : bool;               (* _pump_task is not None *)
  client : list cev;         (* events the server has not handed over yet *)
  fails : list sfail;
  trace : list (event * sfail);  (* every call of the server's send(), with its outcome *)
  handed : bool              (* (ghost) the server has handed over a disconnect event *)
}.

Definition set_st v w := mkWs v (ccode w) (queue w) (hand w) (flag w) (pump w) (client w) (fails w) (trace w) (handed w).
Definition set_ccode v w := mkWs (st w) v (queue w) (hand w) (flag w) (pump w) (client w) (fails w) (trace w) (handed w).
Definition set_queue v w := mkWs (st w) (ccode w) v (hand w) (flag w) (pump w) (client w) (fails w) (trace w) (handed w).
Definition set_hand v w := mkWs (st w) (ccode w) (queue w) v (flag w) (pump w) (client w) (fails w) (trace w) (handed w).
Definition set_flag v w := mkWs (st w) (ccode w) (queue w) (hand w) v (pump w) (client w) (fails w) (trace w) (handed w).
Definition set_pump v w := mkWs (st w) (ccode w) (queue w) (hand w) (flag w) v (client w) (fails w) (trace w) (handed w).
Definition set_handed v w := mkWs (st w) (ccode w) (queue w) (hand w) (flag w) (pump w) (client w) (fails w) (trace w) v.
Definition set_client v w := mkWs (st w) (ccode w) (queue w) (hand w) (flag w) (pump w) v (fails w) (trace w) (handed w).

Definition or1000 (c : option Z) : Z := match c with Some z => z | None => 1000 end.

Definition ws0 (cl : list cev) (fl : list sfail) : ws :=
  mkWs Handshake None [] None None false cl fl [] false.

(* one call of the server's send() *)
Definition attempt (e : event) (w : ws) : sfail * ws :=
  let k := match fails w with [] => SOk | k :: _ => k end in
  (k, mkWs (st w) (ccode w) (queue w) (hand w) (flag w) (pump w) (client w) (tl (fails w))
           (trace w ++ [(e, k)]) (handed w)).

(* WebSocket.closed *)
Definition is_closed (w : ws) : bool :=
  match st w with Closed => true | _ => match flag w with Some _ => true | None => false end end.

(* WebSocket._send *)
Definition do_send (e : event) (w0 : ws) : option exc * ws :=
  let w := match flag w0 with
           | Some c => set_st Closed (set_ccode (Some c) w0)
           | None => w0
           end in
  match st w with
  | Closed => (Some (XDisc (or1000 (ccode w))), w)
  | _ =>
    let (k, w1) := attempt e w in
    match k with
    | SOk => (None, w1)
    | SOSError cause => (Some (XDisc (or1000 cause)), set_st Closed (set_ccode (Some (or1000 cause)) w1))
    | SNormal => (Some (XDisc 1000), set_st Closed (set_ccode (Some 1000) w1))
    | SProto => (Some XValue, set_st Closed w1)
    | SOther => (Some XOther, w1)
    | SInvalid => (Some XInvalidCode, w1)     (* not translated: re-raised as is *)
    end
  end.

(* _require_accepted *)
Definition require_accepted (w : ws) : option exc :=
  match st w with
  | Handshake => Some XNotAllowed
  | Closed => Some (XDisc (or1000 (ccode w)))
  | Accepted => None
  end.

(* the pump and the server run until nothing is runnable.  The pump first tries to enqueue
   the event it was parked with, then keeps pulling: an event is enqueued when the queue has
   room, otherwise the pump parks with it; the disconnect flag is set as soon as the event
   is received (even if the pump then parks); after a disconnect the pump ends. *)
Definition disc_code (e : cev) : option Z :=
  match e with CDisc c _ => Some (or1000 c) | _ => None end.

Fixpoint pull (cp : nat) (q : list cev) (cl : list cev)
  : list cev * option cev * list cev * option Z :=
  match cl with
  | [] => (q, None, [], None)
  | e :: r =>
    if (length q <? cp)%nat then
      match disc_code e with
      | Some c => (q ++ [e], None, r, Some c)
      | None => pull cp (q ++ [e]) r
      end
    else (q, Some e, r, disc_code e)
  end.

Definition advance (c : cfg) (w : ws) : ws :=
  if pump w then
    let w1 := match hand w with
              | Some e => if (length (queue w) <? cap c)%nat
                          then set_hand None (set_queue (queue w ++ [e]) w) else w
              | None => w
              end in
    match hand w1, flag w1 with
    | None, None =>
      let '(q, h, rest, f) := pull (cap c) (queue w1) (client w1) in
      set_handed (handed w1 || match f with Some _ => true | None => false end)
                 (set_flag f (set_client rest (set_hand h (set_queue q w1))))
    | _, _ => w1
    end
  else w.

Inductive subarg := SubNone | SubStr (n : N) | SubBad.
Inductive hdrarg := HNone | HGood | HBadName.
Inductive codearg := CNone | CInt (z : Z) | CNotInt.
Inductive payload := PGood (n : N) (k : pkind) | PBad.
(* RDisc: the responder raises WebSocketDisconnected(code) itself (e.g. it relays to another
   socket that went away) although its own client may still be connected *)
Inductive raisek := RHTTPError (status : Z) | RHTTPStatus (status : Z) | RGeneric | RDisc (c : option Z).

Inductive op :=
| OAccept (s : subarg) (h : hdrarg)
| OClose (c : codearg) (reason : bool)
| OSendText (p : payload) | OSendData (p : payload) | OSendMedia (bin : bool) (n : N)
| ORecvText | ORecvData | ORecvMedia
| ORaise (r : raisek)
| OAdvance
| ORecvCancelled.   (* start receive_text(), cancel it if it parks (asyncio.wait_for timeout) *)

(* value returned by an operation *)
Inductive value := VNone | VText (n : N) | VBytes (n : N) | VMedia (n : N) | VCancelled.
Inductive result := Ret (v : value) | Raise (x : exc) | Blocked.

Definition op_accept (c : cfg) (s : subarg) (h : hdrarg) (w : ws) : result * ws :=
  if is_closed w then (Raise XNotAllowed, w)
  else match st w with
  | Handshake =>
    match s with
    | SubBad => (Raise XValue, w)
    | _ =>
      let sub := match s with SubStr n => Some n | _ => None end in
      match h with
      | HNone =>
        match do_send (EAccept sub false) w with
        | (None, w1) => (Ret VNone, set_pump (negb (cap c =? 0)%nat) (set_st Accepted w1))
        | (Some x, w1) => (Raise x, w1)
        end
      | _ =>
        if negb (hdrs_ok c) then (Raise XNotAllowed, w)
        else match h with
        | HBadName => (Raise XValue, w)
        | _ =>
          match do_send (EAccept sub true) w with
          | (None, w1) => (Ret VNone, set_pump (negb (cap c =? 0)%nat) (set_st Accepted w1))
          | (Some x, w1) => (Raise x, w1)
          end
        end
      end
    end
  | _ => (Raise XNotAllowed, w)
  end.

(* close-code validation, as in close() *)
Definition code_check (ca : codearg) : option Z + exc :=
  match ca with
  | CNone => inl None
  | CNotInt => inr XValue
  | CInt z =>
    if z <? 1000 then inr XValue
    else if ((1015 <=? z) && (z <=? 1999)) || ((1004 <=? z) && (z <=? 1006)) then inr XValue
    else inl (Some z)
  end.

(* [has_reason code]: ws_options.default_close_reasons has an entry for the code (the table is
   regenerated into gen/ConstsC17.v on every run) *)
Definition op_close (fixed : bool) (has_reason : Z -> bool) (c : cfg) (ca : codearg) (reason : bool)
           (w0 : ws) : result * ws :=
  (* await self._buffered_receiver.stop(): before the validation in the code as found,
     after it in the repaired code (a rejected call then has no effect at all) *)
  let w := set_pump false (set_hand None w0) in
  match code_check ca with
  | inr x => (Raise x, if fixed then w0 else w)
  | inl co =>
    let code := or1000 co in
    if is_closed w then
      (Ret VNone, w)
    else
      let r := (reason || has_reason code) && reason_ok c in
      if fixed then
        (* await self._send(response): server errors are translated as for any other send *)
        match do_send (EClose code r) w with
        | (None, w1) => (Ret VNone, set_st Closed (set_ccode (Some code) w1))
        | (Some x, w1) => (Raise x, w1)
        end
      else
        let (k, w1) := attempt (EClose code r) w in
        match k with
        | SOk => (Ret VNone, set_st Closed (set_ccode (Some code) w1))
        | SOSError _ => (Raise XOSError, w1)
        | SInvalid => (Raise XInvalidCode, w1)
        | _ => (Raise XOther, w1)
        end
  end.

Definition op_send (e : event) (w : ws) : result * ws :=
  match do_send e w with
  | (None, w1) => (Ret VNone, w1)
  | (Some x, w1) => (Raise x, w1)
  end.

Definition op_send_text (p : payload) (w : ws) : result * ws :=
  match require_accepted w with
  | Some x => (Raise x, w)
  | None =>
    match p with
    | PBad => (Raise XType, w)
    | PGood n k => if strish k then op_send (EText n k) w        (* passed through as is *)
                   else (Raise XType, w)                         (* not a str *)
    end
  end.

Definition op_send_data (p : payload) (w : ws) : result * ws :=
  match require_accepted w with
  | Some x => (Raise x, w)
  | None =>
    match p with
    | PBad => (Raise XType, w)
    | PGood n k => op_send (EBytes n KExact) w                   (* bytes(payload): a copy *)
    end
  end.

(* send_media: as found the handler's result goes into the event as is (the handler may return
   bytes, bytearray or memoryview); repaired (fixes/C17-send-media-bytes.patch): bytes(...) *)
Definition op_send_media (fixed : bool) (c : cfg) (bin : bool) (n : N) (w : ws) : result * ws :=
  match require_accepted w with
  | Some x => (Raise x, w)
  | None =>
    op_send (if bin then EBytes n (if fixed then KExact else media_kind c) else EText n KExact) w
  end.

(* self._asgi_receive(): the next client event, or Blocked when none will ever come *)
Definition next_event (fixed : bool) (c : cfg) (w : ws) : (cev + exc + unit) * ws :=
  if (cap c =? 0)%nat then
    match client w with
    | e :: r =>
      (inl (inl e),
       set_handed (handed w || match e with CDisc _ _ => true | _ => false end) (set_client r w))
    | [] => (inr tt, w)
    end
  else if negb (pump w) then
    (* the receiver was stopped by close() although the socket is not CLOSED.
       As found: assert self._pump_task is not None.  Repaired: what is queued is delivered
       in order, then a disconnect event (with the client's code when it is known) *)
    if fixed then
      match queue w with
      | e :: r => (inl (inl e), set_queue r w)
      | [] => (inl (inl (CDisc (flag w) false)), w)
      end
    else (inl (inr XAssert), w)
  else
    let w1 := match queue w with [] => advance c w | _ => w end in
    match queue w1 with
    | e :: r => (inl (inl e), set_queue r w1)
    | [] => (inr tt, w1)
    end.

(* WebSocket._receive *)
Definition do_receive (fixed : bool) (c : cfg) (w : ws) : (cev + exc + unit) * ws :=
  match next_event fixed c w with
  | (inl (inl (CDisc co _)), w1) =>
    (inl (inr (XDisc (or1000 co))), set_st Closed (set_ccode (Some (or1000 co)) w1))
  | r => r
  end.

Definition op_recv (fixed : bool) (kind : nat) (c : cfg) (w : ws) : result * ws :=
  match require_accepted w with
  | Some x => (Raise x, w)
  | None =>
    match do_receive fixed c w with
    | (inl (inl e), w1) =>
      (match kind with
       | O =>                                   (* receive_text: event['text'], None if missing *)
         match get (text_entry e) with Some n => Ret (VText n) | None => Raise XPayload end
       | S O =>                                 (* receive_data *)
         match get (bytes_entry e) with Some n => Ret (VBytes n) | None => Raise XPayload end
       | _ =>                                   (* receive_media: text first, then bytes *)
         match get (text_entry e) with
         | Some n => Ret (VMedia n)
         | None => match get (bytes_entry e) with Some n => Ret (VMedia n) | None => Raise XPayload end
         end
       end, w1)
    | (inl (inr x), w1) => (Raise x, w1)
    | (inr _, w1) => (Blocked, w1)
    end
  end.

(* would receive_text() suspend?  In pass-through mode it waits for the server; with a running
   receiver it waits when nothing is queued; a stopped receiver (repaired code) never waits *)
Definition would_park (c : cfg) (w : ws) : bool :=
  if (cap c =? 0)%nat then true
  else if negb (pump w) then false
  else match queue w with [] => true | _ => false end.

(* a receive that is cancelled while it is parked consumes nothing and leaves no trace (C18:
   cancelling a pending receive is lossless); one that does not park is an ordinary receive *)
Definition op_recv_cancelled (fixed : bool) (c : cfg) (w : ws) : result * ws :=
  match require_accepted w with
  | Some x => (Raise x, w)
  | None => if would_park c w then (Ret VCancelled, w) else op_recv fixed 0 c w
  end.

Definition raise_exc (r : raisek) : exc :=
  match r with
  | RHTTPError s => XHTTPError s | RHTTPStatus s => XHTTPStatus s | RGeneric => XGeneric
  | RDisc c => XDisc (or1000 c)
  end.

Definition run_op (fixed : bool) (hr : Z -> bool) (c : cfg) (o : op) (w : ws) : result * ws :=
  match o with
  | OAccept s h => op_accept c s h w
  | OClose ca reason => op_close fixed hr c ca reason w
  | OSendText p => op_send_text p w
  | OSendData p => op_send_data p w
  | OSendMedia b n => op_send_media fixed c b n w
  | ORecvText => op_recv fixed 0 c w
  | ORecvData => op_recv fixed 1 c w
  | ORecvMedia => op_recv fixed 2 c w
  | ORaise r => (Raise (raise_exc r), w)
  | OAdvance => (Ret VNone, advance c w)
  | ORecvCancelled => op_recv_cancelled fixed c w
  end.

(* a scripted responder: (operation, swallow the exception?) *)
Definition script := list (op * bool).

Inductive ending := Returned | Raised (x : exc) | Stuck.

Fixpoint run_script (fixed : bool) (hr : Z -> bool) (c : cfg) (sc : script) (w : ws)
  : list result * ending * ws :=
  match sc with
  | [] => ([], Returned, w)
  | (o, catch) :: tl =>
    let (r, w1) := run_op fixed hr c o w in
    match r with
    | Raise x =>
      if catch then let '(rs, e, w2) := run_script fixed hr c tl w1 in (r :: rs, e, w2)
      else ([r], Raised x, w1)
    | Blocked => ([r], Stuck, w1)
    | Ret _ => let '(rs, e, w2) := run_script fixed hr c tl w1 in (r :: rs, e, w2)
    end
  end.

(* ------------------------------------------------------------------ the app wrapper *)

Inductive route := Routed (sc : script) | Unrouted | NoResponder.

(* `'invalid close code' in str(ex).lower()` for an exception raised by close(err_code): true
   for close()'s own validation errors ("Invalid close code. ...": the only ValueError close()
   raises once the code is an int; a ValueError with a valid code comes from the translation of
   a subprotocol rejection and has another text) and for the server's SInvalid exceptions *)
Definition mentions_invalid_code (c : cfg) (x : exc) : bool :=
  match x with
  | XInvalidCode => true
  | XValue => match code_check (CInt (err_code c)) with inr _ => true | inl _ => false end
  | _ => false
  end.

(* _ws_cleanup_on_error: the fallback code is used when close() rejected the configured code
   ("Invalid close code ..." is the only error text the handler looks for) *)
Definition cleanup (fixed : bool) (hr : Z -> bool) (c : cfg) (w : ws) : ending * ws :=
  match op_close fixed hr c (CInt (err_code c)) false w with
  | (Raise x, w1) =>
    if mentions_invalid_code c x then
      match op_close fixed hr c (CInt fallback_ws_error_code) false w1 with
      | (Raise y, w2) => (Raised y, w2)
      | (_, w2) => (Returned, w2)
      end
    else (Raised x, w1)
  | (_, w1) => (Returned, w1)
  end.

(* _handle_exception with ws: the default handlers *)
Definition handle_exception (fixed : bool) (hr : Z -> bool) (c : cfg) (x : exc) (w : ws)
  : ending * ws :=
  match x with
  | XHTTPError s | XHTTPStatus s =>
    match op_close fixed hr c (CInt (s + ws_code_offset)) false w with
    | (Raise y, w1) => (Raised y, w1)
    | (_, w1) => (Returned, w1)
    end
  | _ => cleanup fixed hr c w
  end.

(* _handle_websocket; [connect_ok] = the first event was websocket.connect *)
Definition session (fixed : bool) (hr : Z -> bool) (c : cfg) (connect_ok : bool) (mw : script)
           (rt : route) (cl : list cev) (fl : list sfail) : list result * ending * ws :=
  let w0 := ws0 cl fl in
  if negb connect_ok then
    let (k, w1) := attempt (EClose ws_server_error_code (reason_ok c)) w0 in
    ([], match k with
         | SOk => Returned | SOSError _ => Raised XOSError | SInvalid => Raised XInvalidCode
         | _ => Raised XOther
         end, w1)
  else
    let '(rs1, e1, w1) := run_script fixed hr c mw w0 in
    let '(rs, e, w2) :=
      match e1 with
      | Returned =>
        match rt with
        | Routed sc => let '(rs2, e2, w2) := run_script fixed hr c sc w1 in (rs1 ++ rs2, e2, w2)
        | Unrouted => (rs1, Raised (XHTTPError 404), w1)
        | NoResponder => (rs1, Raised (XHTTPError 405), w1)
        end
      | _ => (rs1, e1, w1)
      end in
    match e with
    | Returned =>
      match op_close fixed hr c CNone false w2 with
      | (Raise x, w3) => let (e3, w4) := handle_exception fixed hr c x w3 in (rs, e3, w4)
      | (_, w3) => (rs, Returned, w3)
      end
    | Raised x => let (e3, w3) := handle_exception fixed hr c x w2 in (rs, e3, w3)
    | Stuck => (rs, Stuck, w2)
    end.
