(* C17 — the (state, operation) -> documented error table, supported features, payloads. *)
From Coq Require Import ZArith NArith List Bool Arith Lia.
From Falcon.gen Require Import ConstsC17.
From Falcon.C17 Require Import Model Spec Proofs ProofsStop ProofsSession.
Import ListNotations.
Open Scope Z_scope.

Definition wf (w : ws) : Prop := st w = Handshake -> flag w = None.

Ltac crush :=
  repeat (cbn in *;
          match goal with
          | |- context [match ?x with _ => _ end] => is_var x; destruct x
          | |- context [if ?b then _ else _] => destruct b eqn:?
          | H : _ \/ _ |- _ => destruct H
          | H : ?x <> ?x |- _ => exfalso; apply H; reflexivity
          end); cbn in *; try reflexivity; try discriminate; try congruence.

Lemma do_send_shape e w :
  (exists w', do_send e w = (None, w'))
  \/ (exists z w', do_send e w = (Some (XDisc z), w'))
  \/ (exists w', do_send e w = (Some XValue, w'))
  \/ (exists w', do_send e w = (Some XOther, w'))
  \/ (exists w', do_send e w = (Some XInvalidCode, w')).
Proof.
  unfold do_send. destruct (flag w); cbn; [right; left; eauto|].
  destruct (st w); cbn; try (right; left; eauto; fail);
    (destruct (fails w) as [|k fa]; cbn; [left; eauto|]; destruct k; eauto 10).
Qed.

Lemma do_send_closed e w : is_closed w = true -> st w <> Handshake ->
  exists z w', do_send e w = (Some (XDisc z), w').
Proof.
  unfold is_closed, do_send. intros Hc Hs. destruct (st w) eqn:E; try congruence.
  - destruct (flag w); [|discriminate]. cbn. eauto.
  - destruct (flag w); cbn; rewrite ?E; eauto.
Qed.

Lemma op_recv_table k c w :
  is_internal (fst (op_recv true k c w)) = false
  /\ (st w = Handshake -> fst (op_recv true k c w) = Raise XNotAllowed).
Proof.
  unfold op_recv, require_accepted.
  destruct (st w) eqn:Est; [split; [reflexivity | reflexivity]| |split; [reflexivity|discriminate]].
  split; [|discriminate].
  unfold do_receive, next_event.
  destruct (cap c =? 0)%nat eqn:Ec.
  - destruct (client w) as [|e r]; [reflexivity|].
    destruct e as [n0 b0|n0 b0|co0 rr0]; try destruct b0; destruct k as [|[|k]]; reflexivity.
  - destruct (pump w) eqn:Ep; cbn.
    + destruct (queue (match queue w with [] => advance c w | _ :: _ => w end)) as [|e r];
        [reflexivity|]. destruct e as [n0 b0|n0 b0|co0 rr0]; try destruct b0; destruct k as [|[|k]]; reflexivity.
    + destruct (queue w) as [|e r]; [destruct k as [|[|k]]; reflexivity|].
      destruct e as [n0 b0|n0 b0|co0 rr0]; try destruct b0; destruct k as [|[|k]]; reflexivity.
Qed.

(* the same statement is false of the code as found: a receive on a stopped receiver fails
   an internal assertion *)
Lemma op_recv_internal_before_fix :
  exists k c w, is_internal (fst (op_recv false k c w)) = true.
Proof.
  exists 0%nat, (mkCfg true true 1 1011 KExact),
         (mkWs Accepted None [CText 5 false] None None false [] [] [] false). reflexivity.
Qed.

Theorem misuse_table hr c o w :
  wf w -> misuse_ok c (pub_of w) o (fst (run_op true hr c o w)) = true.
Proof.
  intros Hwf. destruct o.
  - (* accept *)
    unfold run_op, op_accept, pub_of, misuse_ok.
    destruct (st w) eqn:Est.
    + unfold is_closed. rewrite Est, (Hwf Est).
      destruct s; destruct h; cbn; try reflexivity;
        try (destruct (hdrs_ok c); cbn; try reflexivity);
        match goal with
        | |- context [do_send ?e w] =>
          destruct (do_send_shape e w) as [[w' ->]|[[z [w' ->]]|[[w' ->]|[[w' ->]|[w' ->]]]]]; reflexivity
        end.
    + destruct (is_closed w); reflexivity.
    + destruct (is_closed w); reflexivity.
  - (* close *)
    unfold run_op, op_close, misuse_ok.
    destruct (bad_code c0) eqn:Hb.
    + rewrite (code_check_bad _ Hb). reflexivity.
    + destruct (code_check_good _ Hb) as [co ->].
      destruct (is_closed _); [reflexivity|].
      match goal with
      | |- context [do_send ?e ?w0] =>
        destruct (do_send_shape e w0) as [[w' ->]|[[z [w' ->]]|[[w' ->]|[[w' ->]|[w' ->]]]]]; reflexivity
      end.
  - (* send_text *)
    unfold run_op, op_send_text, op_send, require_accepted, pub_of, misuse_ok, payload_bad.
    destruct (st w) eqn:Est; cbn; try reflexivity.
    + destruct (is_closed w) eqn:Ec.
      * destruct p; [|reflexivity]. destruct (strish k); cbn; [|reflexivity].
        destruct (do_send_closed (EText n k) w Ec) as [z [w' ->]]; [congruence|reflexivity].
      * destruct p; [|reflexivity]. destruct (strish k); cbn; [|reflexivity].
        destruct (do_send_shape (EText n k) w) as [[w' ->]|[[z [w' ->]]|[[w' ->]|[[w' ->]|[w' ->]]]]]; reflexivity.
    + unfold is_closed. rewrite Est. destruct p; [destruct (strish k)|]; reflexivity.
  - unfold run_op, op_send_data, op_send, require_accepted, pub_of, misuse_ok, payload_bad.
    destruct (st w) eqn:Est; cbn; try reflexivity.
    + destruct (is_closed w) eqn:Ec.
      * destruct p; [|reflexivity].
        destruct (do_send_closed (EBytes n KExact) w Ec) as [z [w' ->]]; [congruence|reflexivity].
      * destruct p; [|reflexivity].
        destruct (do_send_shape (EBytes n KExact) w) as [[w' ->]|[[z [w' ->]]|[[w' ->]|[[w' ->]|[w' ->]]]]]; reflexivity.
    + unfold is_closed. rewrite Est. destruct p; reflexivity.
  - unfold run_op, op_send_media, op_send, require_accepted, pub_of, misuse_ok.
    destruct (st w) eqn:Est; cbn; try reflexivity.
    + destruct (is_closed w) eqn:Ec.
      * destruct (do_send_closed (if bin then EBytes n KExact else EText n KExact) w Ec) as [z [w' ->]];
          [congruence|reflexivity].
      * destruct (do_send_shape (if bin then EBytes n KExact else EText n KExact) w)
          as [[w' ->]|[[z [w' ->]]|[[w' ->]|[[w' ->]|[w' ->]]]]]; reflexivity.
    + unfold is_closed. rewrite Est. reflexivity.
  - destruct (op_recv_table 0 c w) as [A B]. unfold run_op, misuse_ok, pub_of. rewrite A. cbn.
    destruct (st w) eqn:Est; [rewrite (B eq_refl); reflexivity | |]; destruct (is_closed w); reflexivity.
  - destruct (op_recv_table 1 c w) as [A B]. unfold run_op, misuse_ok, pub_of. rewrite A. cbn.
    destruct (st w) eqn:Est; [rewrite (B eq_refl); reflexivity | |]; destruct (is_closed w); reflexivity.
  - destruct (op_recv_table 2 c w) as [A B]. unfold run_op, misuse_ok, pub_of. rewrite A. cbn.
    destruct (st w) eqn:Est; [rewrite (B eq_refl); reflexivity | |]; destruct (is_closed w); reflexivity.
  - destruct r; reflexivity.
  - reflexivity.
  - (* a receive that is cancelled if it parks *)
    destruct (op_recv_table 0 c w) as [A B]. unfold run_op, op_recv_cancelled, misuse_ok, pub_of.
    destruct (st w) eqn:Est.
    + unfold require_accepted. rewrite Est. reflexivity.
    + assert (Er : require_accepted w = None) by (unfold require_accepted; rewrite Est; reflexivity).
      rewrite Er. destruct (would_park c w); [destruct (is_closed w); reflexivity|].
      rewrite A. destruct (is_closed w); reflexivity.
    + unfold require_accepted. rewrite Est. cbn. destruct (is_closed w); reflexivity.
Qed.

(* the table is false of the code as found: the finding *)
Lemma misuse_table_refuted_before_fix :
  exists c w o, wf w /\ misuse_ok c (pub_of w) o (fst (run_op false (fun _ => false) c o w)) = false.
Proof.
  exists (mkCfg true true 1 1011 KExact),
         (mkWs Accepted None [CText 5 false] None None false [] [] [] false), ORecvText.
  split; [discriminate | reflexivity].
Qed.

(* ---- accept headers / close reasons only for servers that support them *)
Definition okev (c : cfg) (a : event * sfail) : bool := event_ok c (fst a).

(* the binary media handler's result is copied (repaired code), or is exact bytes anyway *)
Definition mk_ok (f : bool) (c : cfg) : Prop := f = true \/ media_kind c = KExact.

Definition ext (c : cfg) (w w' : ws) : Prop :=
  exists l, trace w' = trace w ++ l /\ forallb (okev c) l = true.

Lemma ext_refl c w : ext c w w.
Proof. exists []. rewrite app_nil_r. auto. Qed.

Lemma ext_same c w w' : trace w' = trace w -> ext c w w'.
Proof. intro H. exists []. rewrite app_nil_r. auto. Qed.

Lemma ext_trans c w1 w2 w3 : ext c w1 w2 -> ext c w2 w3 -> ext c w1 w3.
Proof.
  intros [l1 [H1 F1]] [l2 [H2 F2]]. exists (l1 ++ l2). rewrite H2, H1, app_assoc.
  split; [reflexivity|]. rewrite forallb_app, F1, F2. reflexivity.
Qed.

Lemma attempt_ext c e w k w' : okev c (e, SOk) = true -> attempt e w = (k, w') -> ext c w w'.
Proof.
  intros Ho Ha. unfold attempt in Ha. injection Ha as <- <-. cbn.
  eexists; split; [reflexivity|]. cbn. unfold okev in *. cbn in *. rewrite Ho. reflexivity.
Qed.

Lemma do_send_ext c e w x w' : okev c (e, SOk) = true -> do_send e w = (x, w') -> ext c w w'.
Proof.
  intros Ho Hs. unfold do_send in Hs.
  set (w0 := match flag w with Some c0 => set_st Closed (set_ccode (Some c0) w) | None => w end) in *.
  assert (E0 : ext c w w0) by (subst w0; destruct (flag w); apply ext_same; reflexivity).
  destruct (st w0); try (injection Hs as <- <-; exact E0);
    (destruct (attempt e w0) as [k w1] eqn:Ea;
     pose proof (attempt_ext _ _ _ _ _ Ho Ea) as E1;
     destruct k; injection Hs as <- <-; (eapply ext_trans; [exact E0|]);
     try exact E1; (eapply ext_trans; [exact E1|]); apply ext_same; reflexivity).
Qed.

Lemma op_close_ext f hr c ca reason w r w' : op_close f hr c ca reason w = (r, w') -> ext c w w'.
Proof.
  unfold op_close. set (w0 := set_pump false (set_hand None w)).
  assert (E0 : ext c w w0) by (apply ext_same; reflexivity).
  destruct (code_check ca); [|intro H; injection H as <- <-; destruct f; [apply ext_refl | exact E0]].
  destruct (is_closed w0); [intro H; injection H as <- <-; exact E0|].
  assert (Ho : okev c (EClose (or1000 o) ((reason || hr (or1000 o)) && reason_ok c), SOk) = true).
  { unfold okev. cbn. destruct ((reason || hr (or1000 o)) && reason_ok c) eqn:E; [|reflexivity].
    apply andb_true_iff in E. tauto. }
  destruct f.
  - destruct (do_send _ w0) as [x w1] eqn:Ed. pose proof (do_send_ext _ _ _ _ _ Ho Ed) as E1.
    destruct x; intro H; injection H as <- <-; (eapply ext_trans; [exact E0|]);
      try exact E1.
    all: try (eapply ext_trans; [exact E1|]; apply ext_same; reflexivity).
  - destruct (attempt _ w0) as [k w1] eqn:Ea. pose proof (attempt_ext _ _ _ _ _ Ho Ea) as E1.
    destruct k; intro H; injection H as <- <-; (eapply ext_trans; [exact E0|]);
      try exact E1.
    all: try (eapply ext_trans; [exact E1|]; apply ext_same; reflexivity).
Qed.

Lemma run_op_ext f hr c o w r w' : mk_ok f c -> run_op f hr c o w = (r, w') -> ext c w w'.
Proof.
  intro Hmk. destruct o; cbn; intro H.
  - unfold op_accept in H.
    destruct (is_closed w); [injection H as <- <-; apply ext_refl|].
    destruct (st w); try (injection H as <- <-; apply ext_refl).
    destruct s; try (injection H as <- <-; apply ext_refl).
    all: destruct h; try (destruct (hdrs_ok c) eqn:Eh; cbn in H);
      try (injection H as <- <-; apply ext_refl).
    all: match type of H with
         | context [do_send ?e ?ww] =>
           destruct (do_send e ww) as [x w1] eqn:Ed;
           assert (Ho : okev c (e, SOk) = true) by (unfold okev; cbn; auto);
           pose proof (do_send_ext _ _ _ _ _ Ho Ed) as E1;
           destruct x; injection H as <- <-; try exact E1;
           (eapply ext_trans; [exact E1|]); apply ext_same; reflexivity
         end.
  - eapply op_close_ext; eauto.
  - unfold op_send_text in H. destruct (require_accepted w); [injection H as <- <-; apply ext_refl|].
    destruct p; [|injection H as <- <-; apply ext_refl].
    destruct (strish k) eqn:Ek; [|injection H as <- <-; apply ext_refl]. unfold op_send in H.
    destruct (do_send _ w) as [x w1] eqn:Ed.
    assert (Ho : okev c (EText n k, SOk) = true) by exact Ek.
    pose proof (do_send_ext _ _ _ _ _ Ho Ed). destruct x; injection H as <- <-; assumption.
  - unfold op_send_data in H. destruct (require_accepted w); [injection H as <- <-; apply ext_refl|].
    destruct p; [|injection H as <- <-; apply ext_refl]. unfold op_send in H.
    destruct (do_send _ w) as [x w1] eqn:Ed.
    assert (Ho : okev c (EBytes n KExact, SOk) = true) by reflexivity.
    pose proof (do_send_ext _ _ _ _ _ Ho Ed). destruct x; injection H as <- <-; assumption.
  - unfold op_send_media in H. destruct (require_accepted w); [injection H as <- <-; apply ext_refl|].
    unfold op_send in H. destruct (do_send _ w) as [x w1] eqn:Ed.
    assert (Ho : okev c (if bin then EBytes n (if f then KExact else media_kind c) else EText n KExact, SOk) = true).
    { destruct bin; [|reflexivity]. destruct Hmk as [-> | Hk]; [reflexivity|].
      rewrite Hk. destruct f; reflexivity. }
    pose proof (do_send_ext _ _ _ _ _ Ho Ed). destruct x; injection H as <- <-; assumption.
  - apply ext_same. eapply op_recv_trace; eauto.
  - apply ext_same. eapply op_recv_trace; eauto.
  - apply ext_same. eapply op_recv_trace; eauto.
  - injection H as <- <-. apply ext_refl.
  - injection H as <- <-. apply ext_same. apply advance_trace.
  - apply ext_same. apply (op_recv_cancelled_frame _ _ _ _ _ H).
Qed.

Lemma run_script_ext f hr c sc : mk_ok f c -> forall w rs e w', run_script f hr c sc w = (rs, e, w') -> ext c w w'.
Proof.
  intro Hmk.
  induction sc as [|[o catch] tl IH]; intros w rs e w' Hs; cbn in Hs.
  - injection Hs as <- <- <-. apply ext_refl.
  - destruct (run_op f hr c o w) as [r w1] eqn:Eo. pose proof (run_op_ext _ _ _ _ _ _ _ Hmk Eo) as E1.
    destruct r.
    + destruct (run_script f hr c tl w1) as [[rs2 e2] w2] eqn:Er. injection Hs as <- <- <-.
      eapply ext_trans; eauto.
    + destruct catch.
      * destruct (run_script f hr c tl w1) as [[rs2 e2] w2] eqn:Er. injection Hs as <- <- <-.
        eapply ext_trans; eauto.
      * injection Hs as <- <- <-. exact E1.
    + injection Hs as <- <- <-. exact E1.
Qed.

Lemma handle_exception_ext f hr c x w e w' : handle_exception f hr c x w = (e, w') -> ext c w w'.
Proof.
  assert (CL : forall e w', cleanup f hr c w = (e, w') -> ext c w w').
  { clear e w'. intros e w' H. unfold cleanup in H.
    destruct (op_close f hr c (CInt (err_code c)) false w) as [r w1] eqn:E1.
    pose proof (op_close_ext _ _ _ _ _ _ _ _ E1) as X1.
    destruct r; try (injection H as <- <-; exact X1).
    destruct (mentions_invalid_code c x0); [|injection H as <- <-; exact X1].
    destruct (op_close f hr c (CInt fallback_ws_error_code) false w1) as [r2 w2] eqn:E2.
    pose proof (op_close_ext _ _ _ _ _ _ _ _ E2) as X2.
    destruct r2; injection H as <- <-; eapply ext_trans; eauto. }
  unfold handle_exception. destruct x; try apply CL.
  all: destruct (op_close f hr c _ false w) as [r w1] eqn:E1;
    pose proof (op_close_ext _ _ _ _ _ _ _ _ E1) as X1;
    destruct r; intro H; injection H as <- <-; exact X1.
Qed.

Theorem features_session f hr c cok mw rt cl fl rs e w :
  mk_ok f c ->
  session f hr c cok mw rt cl fl = (rs, e, w) -> features_ok c (trace w) = true.
Proof.
  intros Hmk Hs.
  assert (X : ext c (ws0 cl fl) w).
  { unfold session in Hs. destruct (negb cok).
    - destruct (attempt _ (ws0 cl fl)) as [k w1] eqn:Ea.
      assert (Ho : okev c (EClose ws_server_error_code (reason_ok c), SOk) = true)
        by (unfold okev; cbn; destruct (reason_ok c); reflexivity).
      pose proof (attempt_ext _ _ _ _ _ Ho Ea). injection Hs as <- <- <-. assumption.
    - destruct (run_script f hr c mw (ws0 cl fl)) as [[rs1 e1] w1] eqn:E1.
      pose proof (run_script_ext _ _ _ _ Hmk _ _ _ _ E1) as X1.
      assert (TAIL : forall (rs0 : list result) e2 w2, ext c (ws0 cl fl) w2 ->
                match e2 with
                | Returned =>
                  match op_close f hr c CNone false w2 with
                  | (Raise x, w3) => let (e3, w4) := handle_exception f hr c x w3 in (rs0, e3, w4)
                  | (_, w3) => (rs0, Returned, w3)
                  end
                | Raised x => let (e3, w3) := handle_exception f hr c x w2 in (rs0, e3, w3)
                | Stuck => (rs0, Stuck, w2)
                end = (rs, e, w) -> ext c (ws0 cl fl) w).
      { clear. intros rs0 e2 w2 X2 H. destruct e2.
        - destruct (op_close f hr c CNone false w2) as [r w3] eqn:E3.
          pose proof (op_close_ext _ _ _ _ _ _ _ _ E3) as X3.
          destruct r; try (injection H as <- <- <-; eapply ext_trans; eauto).
          destruct (handle_exception f hr c x w3) as [e3 w4] eqn:E4.
          pose proof (handle_exception_ext _ _ _ _ _ _ _ E4) as X4.
          injection H as <- <- <-. eapply ext_trans; [exact X2|]. eapply ext_trans; eauto.
        - destruct (handle_exception f hr c x w2) as [e3 w3] eqn:E3.
          pose proof (handle_exception_ext _ _ _ _ _ _ _ E3) as X3.
          injection H as <- <- <-. eapply ext_trans; eauto.
        - injection H as <- <- <-. exact X2. }
      destruct e1.
      + destruct rt as [sc| |].
        * destruct (run_script f hr c sc w1) as [[rs2 e2] w2] eqn:E2.
          pose proof (run_script_ext _ _ _ _ Hmk _ _ _ _ E2) as X2.
          eapply (TAIL (rs1 ++ rs2) e2 w2); [eapply ext_trans; eauto | exact Hs].
        * eapply (TAIL rs1 (Raised (XHTTPError 404)) w1); [exact X1 | exact Hs].
        * eapply (TAIL rs1 (Raised (XHTTPError 405)) w1); [exact X1 | exact Hs].
      + eapply (TAIL rs1 (Raised x) w1); [exact X1 | exact Hs].
      + eapply (TAIL rs1 Stuck w1); [exact X1 | exact Hs]. }
  destruct X as [l [Hl Fl]]. cbn in Hl. rewrite Hl. unfold features_ok.
  clear Hl. induction l as [|a l IH]; [reflexivity|].
  cbn in Fl. apply andb_true_iff in Fl as [A B]. cbn. rewrite (IH B).
  unfold okev in A. rewrite A. reflexivity.
Qed.

(* ---- payloads arrive unchanged, in order *)
Definition opt_list {A} (o : option A) : list A := match o with Some e => [e] | None => [] end.

Lemma stream_eq w : stream w = queue w ++ opt_list (hand w) ++ client w.
Proof. reflexivity. Qed.

Lemma pull_stream cp : forall cl q q' h' rest f,
  pull cp q cl = (q', h', rest, f) -> q' ++ opt_list h' ++ rest = q ++ cl.
Proof.
  induction cl as [|e r IH]; intros q q' h' rest f Hp.
  - cbn in Hp. injection Hp as <- <- <- <-. reflexivity.
  - unfold pull in Hp; fold pull in Hp. destruct (length q <? cp)%nat.
    + destruct (disc_code e).
      * injection Hp as <- <- <- <-. cbn. rewrite <- app_assoc. reflexivity.
      * rewrite (IH _ _ _ _ _ Hp). rewrite <- app_assoc. reflexivity.
    + injection Hp as <- <- <- <-. reflexivity.
Qed.

Lemma advance_stream c w : stream (advance c w) = stream w.
Proof.
  unfold advance. destruct (pump w); [|reflexivity].
  set (w1 := match hand w with Some e => _ | None => w end).
  assert (S1 : stream w1 = stream w).
  { subst w1. destruct (hand w) as [e|] eqn:Eh; [|reflexivity].
    destruct (_ <? _)%nat; [|reflexivity].
    rewrite !stream_eq. cbn. rewrite Eh. cbn. rewrite <- app_assoc. reflexivity. }
  destruct (hand w1) eqn:Eh; [exact S1|]. destruct (flag w1); [exact S1|].
  destruct (pull _ _ _) as [[[q h] rest] f] eqn:Ep.
  rewrite <- S1. rewrite !stream_eq. cbn. rewrite (pull_stream _ _ _ _ _ _ _ Ep), Eh. reflexivity.
Qed.

(* a receive that is past the state check and gets an event: that event is the head of what
   the client sent and has not been delivered yet; the result is that event, of the
   requested kind, unchanged; everything else stays in order *)
Definition recv_value (k : nat) (e : cev) : result :=
  match k with
  | O => match get (text_entry e) with Some n => Ret (VText n) | None => Raise XPayload end
  | S O => match get (bytes_entry e) with Some n => Ret (VBytes n) | None => Raise XPayload end
  | _ => match get (text_entry e) with
         | Some n => Ret (VMedia n)
         | None => match get (bytes_entry e) with Some n => Ret (VMedia n) | None => Raise XPayload end
         end
  end.

(* whatever the shape of the event (unused key absent, or present with None) *)
Lemma recv_ok_kind k e :
  recv_ok k e (recv_value k e) = true \/ exists c r, e = CDisc c r.
Proof.
  destruct e as [n b|n b|c r]; [left|left|right; eauto];
    destruct b; destruct k as [|[|k]]; cbn; try apply N.eqb_refl; reflexivity.
Qed.

(* the receive does not have to synthesise a disconnect event: the receiver is running, or
   bypassed, or (stopped by close()) still has something queued *)
Definition receiver_has (c : cfg) (w : ws) : Prop :=
  pump w = true \/ cap c = 0%nat \/ queue w <> [].

Theorem recv_payload k c w r w' :
  require_accepted w = None -> receiver_has c w ->
  (cap c = 0%nat -> queue w = [] /\ hand w = None) ->
  op_recv true k c w = (r, w') -> r <> Blocked ->
  exists e, stream w = e :: stream w' /\ recv_ok k e r = true.
Proof.
  intros Hreq Hrx Hpt Hs Hnb. unfold op_recv in Hs. rewrite Hreq in Hs.
  assert (Hst : st w = Accepted) by (unfold require_accepted in Hreq; destruct (st w); congruence).
  unfold do_receive, next_event in Hs.
  destruct (cap c =? 0)%nat eqn:Ec.
  - apply Nat.eqb_eq in Ec. destruct (Hpt Ec) as [Hq Hh].
    destruct (client w) as [|e rest] eqn:Ecl; [injection Hs as <- <-; congruence|].
    exists e. rewrite !stream_eq, Hq, Hh, Ecl.
    destruct e as [n b|n b|co rr]; injection Hs as <- <-; cbn; rewrite ?Hq, ?Hh; cbn;
      (split; [reflexivity|]);
      try (destruct (recv_ok_kind k (CText n b)) as [A|[c0 [r0 A]]]; [exact A|discriminate]);
      try (destruct (recv_ok_kind k (CBin n b)) as [A|[c0 [r0 A]]]; [exact A|discriminate]).
    destruct k as [|[|k]]; cbn; apply Z.eqb_refl.
  - destruct (pump w) eqn:Hp; cbn in Hs.
    + set (w0 := match queue w with [] => advance c w | _ => w end) in *.
      assert (S0 : stream w0 = stream w) by (subst w0; destruct (queue w); [apply advance_stream|reflexivity]).
      destruct (queue w0) as [|e rest] eqn:Eq; [injection Hs as <- <-; congruence|].
      exists e. rewrite <- S0. rewrite (stream_eq w0), Eq.
      destruct e as [n b|n b|co rr]; injection Hs as <- <-; cbn;
        (split; [reflexivity|]);
        try (destruct (recv_ok_kind k (CText n b)) as [A|[c0 [r0 A]]]; [exact A|discriminate]);
        try (destruct (recv_ok_kind k (CBin n b)) as [A|[c0 [r0 A]]]; [exact A|discriminate]).
      destruct k as [|[|k]]; cbn; apply Z.eqb_refl.
    + destruct (queue w) as [|e rest] eqn:Eq.
      { destruct Hrx as [A|[A|A]]; [congruence | rewrite A in Ec; discriminate | congruence]. }
      exists e. rewrite (stream_eq w), Eq.
      destruct e as [n b|n b|co rr]; injection Hs as <- <-; cbn;
        (split; [reflexivity|]);
        try (destruct (recv_ok_kind k (CText n b)) as [A|[c0 [r0 A]]]; [exact A|discriminate]);
        try (destruct (recv_ok_kind k (CBin n b)) as [A|[c0 [r0 A]]]; [exact A|discriminate]).
      destruct k as [|[|k]]; cbn; apply Z.eqb_refl.
Qed.

(* every operation other than a receive and close() leaves the undelivered events alone *)
Theorem stream_frame f hr c o w r w' :
  match o with ORecvText | ORecvData | ORecvMedia | ORecvCancelled | OClose _ _ => False | _ => True end ->
  run_op f hr c o w = (r, w') -> stream w' = stream w.
Proof.
  assert (DS : forall e w x w', do_send e w = (x, w') -> stream w' = stream w).
  { clear. intros e w x w'. unfold do_send.
    destruct (flag w); cbn.
    - intro H. injection H as <- <-. reflexivity.
    - destruct (st w); cbn; try (intro H; injection H as <- <-; reflexivity);
        (destruct (fails w) as [|k fa]; cbn; [|destruct k]; intro H; injection H as <- <-; reflexivity). }
  intros Ho H. destruct o; try destruct Ho; cbn in H.
  - unfold op_accept in H.
    destruct (is_closed w); [injection H as <- <-; reflexivity|].
    destruct (st w); try (injection H as <- <-; reflexivity).
    destruct s; try (injection H as <- <-; reflexivity).
    all: destruct h; try (destruct (hdrs_ok c); cbn in H); try (injection H as <- <-; reflexivity).
    all: match type of H with
         | context [do_send ?e ?ww] =>
           destruct (do_send e ww) as [x w1] eqn:Ed; pose proof (DS _ _ _ _ Ed) as S1;
           destruct x; injection H as <- <-; exact S1
         end.
  - unfold op_send_text, op_send in H. destruct (require_accepted w); [injection H as <- <-; reflexivity|].
    destruct p; [|injection H as <- <-; reflexivity]. destruct (strish k); [|injection H as <- <-; reflexivity].
    destruct (do_send _ w) as [x w1] eqn:Ed. pose proof (DS _ _ _ _ Ed). destruct x; injection H as <- <-; assumption.
  - unfold op_send_data, op_send in H. destruct (require_accepted w); [injection H as <- <-; reflexivity|].
    destruct p; [|injection H as <- <-; reflexivity].
    destruct (do_send _ w) as [x w1] eqn:Ed. pose proof (DS _ _ _ _ Ed). destruct x; injection H as <- <-; assumption.
  - unfold op_send_media, op_send in H. destruct (require_accepted w); [injection H as <- <-; reflexivity|].
    destruct (do_send _ w) as [x w1] eqn:Ed. pose proof (DS _ _ _ _ Ed). destruct x; injection H as <- <-; assumption.
  - injection H as <- <-. reflexivity.
  - injection H as <- <-. apply advance_stream.
Qed.

(* ---- which close code the application wrapper uses *)
Definition closes (w : ws) : list event := map fst (trace w).

Lemma unrouted_3404 hr c cl :
  let '(rs, e, w) := session true hr c true [] Unrouted cl [] in
  e = Returned /\ closes w = [EClose 3404 (hr 3404 && reason_ok c)] /\ st w = Closed.
Proof. cbn. repeat split; reflexivity. Qed.

Lemma no_responder_3405 hr c cl :
  let '(rs, e, w) := session true hr c true [] NoResponder cl [] in
  e = Returned /\ closes w = [EClose 3405 (hr 3405 && reason_ok c)] /\ st w = Closed.
Proof. cbn. repeat split; reflexivity. Qed.

Lemma close_valid_fresh hr c z cl :
  valid_code z = true ->
  op_close true hr c (CInt z) false (ws0 cl []) =
  (Ret VNone,
   set_st Closed
     (set_ccode (Some z)
        (snd (attempt (EClose z (hr z && reason_ok c))
                      (set_pump false (set_hand None (ws0 cl []))))))).
Proof. intro Hv. unfold op_close. rewrite (code_check_valid _ Hv). reflexivity. Qed.

Lemma http_error_3000_plus hr c cl s :
  valid_code (s + 3000) = true ->
  let '(rs, e, w) := session true hr c true [] (Routed [(ORaise (RHTTPError s), false)]) cl [] in
  e = Returned /\ closes w = [EClose (s + 3000) (hr (s + 3000) && reason_ok c)] /\ st w = Closed.
Proof.
  intro Hv. unfold session, run_script, run_op, raise_exc, handle_exception. cbn [negb].
  change ws_code_offset with 3000. rewrite (close_valid_fresh _ _ _ _ Hv). cbn. auto.
Qed.

Lemma http_status_3000_plus hr c cl s :
  valid_code (s + 3000) = true ->
  let '(rs, e, w) := session true hr c true [] (Routed [(ORaise (RHTTPStatus s), false)]) cl [] in
  e = Returned /\ closes w = [EClose (s + 3000) (hr (s + 3000) && reason_ok c)] /\ st w = Closed.
Proof.
  intro Hv. unfold session, run_script, run_op, raise_exc, handle_exception. cbn [negb].
  change ws_code_offset with 3000. rewrite (close_valid_fresh _ _ _ _ Hv). cbn. auto.
Qed.

Lemma unexpected_error_code hr c cl :
  let '(rs, e, w) := session true hr c true [] (Routed [(ORaise RGeneric, false)]) cl [] in
  e = Returned /\ st w = Closed /\
  closes w = if valid_code (err_code c)
             then [EClose (err_code c) (hr (err_code c) && reason_ok c)]
             else [EClose 3011 (hr 3011 && reason_ok c)].
Proof.
  unfold session, run_script, run_op, raise_exc, handle_exception, cleanup. cbn [negb].
  destruct (valid_code (err_code c)) eqn:Hv.
  - rewrite (close_valid_fresh _ _ _ _ Hv). cbn. auto.
  - unfold op_close at 1. rewrite !(code_check_invalid _ Hv).
    cbn -[op_close code_check valid_code]. rewrite !(code_check_invalid _ Hv). cbn. auto.
Qed.

(* the code as found: the server raises on the final websocket.close (connection lost) and
   the framework sends a second websocket.close *)
Lemma close_retry_refuted_before_fix :
  exists hr c mw rt cl fl,
    script_ok mw /\ route_ok rt
    /\ (let '(rs, e, w) := session false hr c true mw rt cl fl in
        session_ok (trace w) e (handed w) = false
        /\ closes w = [EAccept None false; EClose 1000 true; EClose 1011 true])
    /\ (let '(rs, e, w) := session true hr c true mw rt cl fl in
        session_ok (trace w) e (handed w) = true
        /\ closes w = [EAccept None false; EClose 1000 true]).
Proof.
  exists (fun _ => true), (mkCfg true true 1 1011 KExact), [],
         (Routed [(OAccept SubNone HNone, false)]), [CDisc (Some 1001) false], [SOk; SOSError None].
  split; [constructor|]. split; [repeat constructor|].
  Transparent mon_run. split; vm_compute; auto. Opaque mon_run.
Qed.

(* the code as found puts the binary media handler's result into the event as is: with a
   handler that returns a bytearray (allowed by its documented contract) the event is not a
   legal ASGI event and aliases the handler's buffer *)
Lemma send_media_refuted_before_fix :
  exists hr c mw rt cl fl,
    (let '(rs, e, w) := session false hr c true mw rt cl fl in features_ok c (trace w) = false)
    /\ (let '(rs, e, w) := session true hr c true mw rt cl fl in features_ok c (trace w) = true).
Proof.
  exists (fun _ => true), (mkCfg true true 1 1011 KArray), [],
         (Routed [(OAccept SubNone HNone, false); (OSendMedia true 7, false)]), [CDisc None false], [].
  split; vm_compute; reflexivity.
Qed.

(* a receive cancelled while parked consumes nothing and changes nothing *)
Lemma cancelled_receive_is_noop f c w r w' :
  op_recv_cancelled f c w = (r, w') -> r = Ret VCancelled -> w' = w.
Proof.
  unfold op_recv_cancelled. destruct (require_accepted w); [intros H ->; discriminate|].
  destruct (would_park c w); [intros H _; injection H as _ <-; reflexivity|].
  intros H ->. exfalso. unfold op_recv in H. destruct (require_accepted w); [discriminate|].
  destruct (do_receive f c w) as [[[e|x]|u] w1]; try discriminate.
  destruct e as [n b|n b|co rr]; try destruct b; discriminate.
Qed.

(* a WebSocketDisconnected raised by the responder itself while its own client is connected
   (it concerns another socket): the wrapper still closes, with the error close code *)
Lemma spontaneous_disconnect_closes hr c cl co (accepted : bool) :
  let sc := (if accepted then [(OAccept SubNone HNone, false)] else []) ++ [(ORaise (RDisc co), false)] in
  let '(rs, e, w) := session true hr c true [] (Routed sc) cl [] in
  e = Returned /\ st w = Closed /\
  exists (code : Z) (r : bool), last (closes w) (EText 0%N KExact) = EClose code r
                 /\ code = (if valid_code (err_code c) then err_code c else 3011).
Proof.
  destruct accepted; cbn -[op_close code_check valid_code];
    unfold session, run_script, run_op, raise_exc, handle_exception, cleanup; cbn [negb app].
  - unfold op_accept; cbn -[op_close code_check valid_code].
    destruct (valid_code (err_code c)) eqn:Hv.
    + unfold op_close. rewrite (code_check_valid _ Hv). cbn. repeat split; eauto.
    + unfold op_close at 1. rewrite !(code_check_invalid _ Hv).
      cbn -[op_close code_check valid_code]. rewrite ?(code_check_invalid _ Hv). cbn. repeat split; eauto.
  - destruct (valid_code (err_code c)) eqn:Hv.
    + rewrite (close_valid_fresh _ _ _ _ Hv). cbn. repeat split; eauto.
    + unfold op_close at 1. rewrite !(code_check_invalid _ Hv).
      cbn -[op_close code_check valid_code]. rewrite ?(code_check_invalid _ Hv). cbn. repeat split; eauto.
Qed.

(* the shape of an incoming event (unused key absent or None; disconnect with or without a
   reason) never matters *)
Lemma event_shape_irrelevant k n b c r :
  recv_value k (CText n b) = recv_value k (CText n false)
  /\ recv_value k (CBin n b) = recv_value k (CBin n false)
  /\ disc_code (CDisc c r) = disc_code (CDisc c false).
Proof. destruct b; destruct k as [|[|k]]; repeat split; reflexivity. Qed.

Lemma op_recv_value f k c w e w1 :
  require_accepted w = None -> do_receive f c w = (inl (inl e), w1) ->
  op_recv f k c w = (recv_value k e, w1).
Proof.
  intros Hr Hd. unfold op_recv. rewrite Hr, Hd. destruct k as [|[|k]]; reflexivity.
Qed.

(* a payload of the wrong type is rejected before anything happens: TypeError in the ready
   state and no send() call, no state change *)
Lemma bad_payload_sends_nothing f hr c o w r w' :
  payload_bad o = true -> run_op f hr c o w = (r, w') -> w' = w.
Proof.
  destruct o; try discriminate; destruct p as [n k|]; cbn; try discriminate.
  - intros Hk. apply negb_true_iff in Hk. unfold op_send_text. rewrite Hk.
    destruct (require_accepted w); intro H; injection H as _ <-; reflexivity.
  - intros _. unfold op_send_text. destruct (require_accepted w); intro H; injection H as _ <-; reflexivity.
  - intros _. unfold op_send_data. destruct (require_accepted w); intro H; injection H as _ <-; reflexivity.
Qed.
