From Coq Require Import ZArith NArith List Bool Arith.
From Falcon.C17 Require Import Model Spec Proofs.
Import ListNotations.
