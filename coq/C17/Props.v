(* C17 — property theorems only.  All about Model.session / Model.run_op with fixed = true
   (close() sends through _send, fixes/C17-close-send-failure.patch), the definitions that
   are extracted and run against the implementation.  [hr] abstracts
   ws_options.default_close_reasons (has the code a default reason?). *)
From Coq Require Import ZArith NArith List Bool Arith.
From Falcon.gen Require Import ConstsC17.
From Falcon.C17 Require Import Model Spec Proofs ProofsSession ProofsTable.
Import ListNotations.
Open Scope Z_scope.

(* Legal session, for every configuration (spec version flags, queue size incl. 0, error close
   code), every middleware script, every route outcome / responder script, every client event
   list, every send-failure script, connect event present or not: every call of the server's
   send() is legal where it happens (at most one accept, data only between accept and close,
   nothing after a successful close or after the server signalled that the connection is lost)
   and when the application ends a close (or denial) has been sent or attempted unless the
   connection is lost or the server already handed over the client's disconnect.  The only
   hypothesis: raised HTTP statuses map to a valid close code (3000 + status >= 2000). *)
Theorem C17_session_legal : forall hr c connect_ok mw rt cl fl rs e w,
  script_ok mw -> route_ok rt ->
  session true hr c connect_ok mw rt cl fl = (rs, e, w) ->
  session_ok (trace w) e (handed w) = true.
Proof. exact session_legal. Qed.
Print Assumptions C17_session_legal.

(* The invariant behind it is preserved by every single operation, whatever its arguments. *)
Theorem C17_operation_preserves_legality : forall hr c o w r w',
  Legal w -> run_op true hr c o w = (r, w') -> Legal w'.
Proof. exact run_op_legal. Qed.
Print Assumptions C17_operation_preserves_legality.

(* Accept headers and close reasons are only ever sent to servers that support them
   (spec 2.1+ / 2.3+); holds for the code as found and as repaired. *)
Theorem C17_features_only_if_supported : forall f hr c connect_ok mw rt cl fl rs e w,
  session f hr c connect_ok mw rt cl fl = (rs, e, w) -> features_ok c (trace w) = true.
Proof. exact features_session. Qed.
Print Assumptions C17_features_only_if_supported.

(* (state, operation) -> documented error, all operations, all arguments, all states in which
   the background receiver has not been stopped on a socket that is still ACCEPTED.
   FULL STATEMENT (false, see C17_misuse_table_refuted_when_receiver_stopped and the known
   finding C17-receive-after-stopped-receiver-assert): the same without [receiver_ok]. *)
Theorem C17_misuse_table_partial : forall hr c o w,
  wf w -> receiver_ok c w ->
  misuse_ok c (pub_of w) o (fst (run_op true hr c o w)) = true.
Proof. exact misuse_table. Qed.
Print Assumptions C17_misuse_table_partial.

Theorem C17_misuse_table_refuted_when_receiver_stopped :
  exists c w o, wf w /\ misuse_ok c (pub_of w) o (fst (run_op true (fun _ => false) c o w)) = false.
Proof. exact misuse_table_refuted_when_receiver_stopped. Qed.
Print Assumptions C17_misuse_table_refuted_when_receiver_stopped.

(* Close codes: exactly the codes >= 1000 outside 1004-1006 and 1015-1999 are accepted; every
   other argument is a ValueError (before anything is sent). *)
Theorem C17_close_code_validation : forall z,
  (valid_code z = true <-> (1000 <= z /\ ~ (1004 <= z <= 1006) /\ ~ (1015 <= z <= 1999)))
  /\ (valid_code z = true -> code_check (CInt z) = inl (Some z))
  /\ (valid_code z = false -> code_check (CInt z) = inr XValue).
Proof.
  intro z. split; [apply valid_code_spec|]. split; [apply code_check_valid | apply code_check_invalid].
Qed.
Print Assumptions C17_close_code_validation.

(* Error -> close code: unrouted 3404, missing responder 3405, HTTPError/HTTPStatus
   3000 + status, unexpected exception the configured code (3011 when that code is invalid). *)
Theorem C17_unrouted_3404 : forall hr c cl,
  let '(rs, e, w) := session true hr c true [] Unrouted cl [] in
  e = Returned /\ closes w = [EClose 3404 (hr 3404 && reason_ok c)] /\ st w = Closed.
Proof. exact unrouted_3404. Qed.
Print Assumptions C17_unrouted_3404.

Theorem C17_no_responder_3405 : forall hr c cl,
  let '(rs, e, w) := session true hr c true [] NoResponder cl [] in
  e = Returned /\ closes w = [EClose 3405 (hr 3405 && reason_ok c)] /\ st w = Closed.
Proof. exact no_responder_3405. Qed.
Print Assumptions C17_no_responder_3405.

Theorem C17_http_error_3000_plus_status : forall hr c cl s,
  valid_code (s + 3000) = true ->
  let '(rs, e, w) := session true hr c true [] (Routed [(ORaise (RHTTPError s), false)]) cl [] in
  e = Returned /\ closes w = [EClose (s + 3000) (hr (s + 3000) && reason_ok c)] /\ st w = Closed.
Proof. exact http_error_3000_plus. Qed.
Print Assumptions C17_http_error_3000_plus_status.

Theorem C17_http_status_3000_plus_status : forall hr c cl s,
  valid_code (s + 3000) = true ->
  let '(rs, e, w) := session true hr c true [] (Routed [(ORaise (RHTTPStatus s), false)]) cl [] in
  e = Returned /\ closes w = [EClose (s + 3000) (hr (s + 3000) && reason_ok c)] /\ st w = Closed.
Proof. exact http_status_3000_plus. Qed.
Print Assumptions C17_http_status_3000_plus_status.

Theorem C17_unexpected_error_code : forall hr c cl,
  let '(rs, e, w) := session true hr c true [] (Routed [(ORaise RGeneric, false)]) cl [] in
  e = Returned /\ st w = Closed /\
  closes w = if valid_code (err_code c)
             then [EClose (err_code c) (hr (err_code c) && reason_ok c)]
             else [EClose 3011 (hr 3011 && reason_ok c)].
Proof. exact unexpected_error_code. Qed.
Print Assumptions C17_unexpected_error_code.

(* Payloads arrive unchanged, in order: a receive that gets an event gets the head of the
   undelivered client events, as the requested kind (text / binary / media; the wrong kind is
   PayloadTypeError; a disconnect is WebSocketDisconnected with the client's code), and removes
   exactly that event; no other operation (except close(), which discards the buffer) touches
   the undelivered events.  (In pass-through mode nothing is ever buffered: hypothesis.) *)
Theorem C17_payloads_in_order_unchanged : forall k c w r w',
  require_accepted w = None -> receiver_ok c w ->
  (cap c = 0%nat -> queue w = [] /\ hand w = None) ->
  op_recv k c w = (r, w') -> r <> Blocked ->
  exists e, stream w = e :: stream w' /\ recv_ok k e r = true.
Proof. exact recv_payload. Qed.
Print Assumptions C17_payloads_in_order_unchanged.

Theorem C17_other_operations_keep_stream : forall f hr c o w r w',
  match o with ORecvText | ORecvData | ORecvMedia | OClose _ _ => False | _ => True end ->
  run_op f hr c o w = (r, w') -> stream w' = stream w.
Proof. exact stream_frame. Qed.
Print Assumptions C17_other_operations_keep_stream.

(* The code as found (fixed = false): the server raises on the final websocket.close and a
   second websocket.close is sent; replayed on the implementation this was the finding
   (corpus/C17/close_send_failure.json). *)
Theorem C17_close_retry_refuted_before_fix :
  exists hr c mw rt cl fl,
    script_ok mw /\ route_ok rt
    /\ (let '(rs, e, w) := session false hr c true mw rt cl fl in
        session_ok (trace w) e (handed w) = false
        /\ closes w = [EAccept None false; EClose 1000 true; EClose 1011 true])
    /\ (let '(rs, e, w) := session true hr c true mw rt cl fl in
        session_ok (trace w) e (handed w) = true
        /\ closes w = [EAccept None false; EClose 1000 true]).
Proof. exact close_retry_refuted_before_fix. Qed.
Print Assumptions C17_close_retry_refuted_before_fix.

(* The constants the model relies on are the ones in the code (regenerated every run). *)
Theorem C17_constants : ws_normal_code = 1000 /\ ws_code_offset = 3000
  /\ valid_code fallback_ws_error_code = true /\ valid_code ws_server_error_code = true.
Proof. exact consts_ok. Qed.
Print Assumptions C17_constants.

(* Non-vacuity: a session with accept, a send, two receives (message, then the disconnect
   behind it), with a send failure in between; the hypotheses of the theorems hold. *)
Example C17_session_example :
  let c := mkCfg true true 2 1011 in
  let sc := [(OAccept (SubStr 1) HGood, false); (OSendText (PGood 7), true); (OAdvance, false);
             (ORecvText, false); (OSendText (PGood 8), true); (ORecvText, true)] in
  let '(rs, e, w) := session true (fun _ => true) c true [] (Routed sc) [CText 5; CDisc (Some 1001)] [SOk; SOther] in
  script_ok sc /\ e = Returned
  /\ rs = [Ret VNone; Raise XOther; Ret VNone; Ret (VText 5); Raise (XDisc 1001); Raise (XDisc 1001)]
  /\ closes w = [EAccept (Some 1%N) true; EText 7%N]
  /\ handed w = true.
Proof. vm_compute. repeat split; repeat constructor. Qed.

Example C17_legal_nonvacuous : Legal (ws0 [CText 1%N] [SOk]) /\ wf (ws0 [] [])
  /\ receiver_ok (mkCfg true true 0 1011) (ws0 [] []).
Proof.
  split; [apply legal_init|]. split; [intros _; reflexivity|]. right. left. reflexivity.
Qed.
