(* C17 — property theorems only.  All about Model.session / Model.run_op with fixed = true
   (fixes/C17-close-send-failure.patch: close() sends through _send;
   fixes/C17-receive-after-stopped-receiver.patch: close() validates before stopping the
   receiver, receive on a stopped receiver), the definitions that are extracted and run against
   the implementation.  [hr] abstracts
   ws_options.default_close_reasons (has the code a default reason?). *)
From Coq Require Import ZArith NArith List Bool Arith.
From Falcon.gen Require Import ConstsC17.
From Falcon.C17 Require Import Model Spec Proofs ProofsStop ProofsSession ProofsTable ProofsWrapper LinkC18.
Import ListNotations.
Open Scope Z_scope.

(* Legal session, for every configuration (spec version flags, queue size incl. 0, error close
   code), every middleware script, every route outcome / responder script, every client event
   list, every send-failure script, connect event present or not: every call of the server's
   send() is legal where it happens (at most one accept, data only between accept and close,
   nothing after a successful close or after the server signalled that the connection is lost)
   and when the application ends a close (or denial) has been sent or attempted unless the
   connection is lost or the server already handed over the client's disconnect.  The only
   hypothesis: raised HTTP statuses map to a valid close code (3000 + status >= 2000). *)
Theorem C17_session_legal : forall hr c connect_ok mw rt cl fl rs e w,
  script_ok mw -> route_ok rt ->
  session true hr c connect_ok mw rt cl fl = (rs, e, w) ->
  session_ok (trace w) e (handed w) = true.
Proof. exact session_legal. Qed.
Print Assumptions C17_session_legal.

(* The invariant behind it (Proofs.Core: socket state vs. monitor state; Proofs.Stop: a stopped
   receiver on an ACCEPTED socket means a close was attempted or the disconnect handed over)
   is preserved by every single operation, whatever its arguments. *)
Theorem C17_operation_preserves_legality : forall hr c o w r w',
  Legal c w -> run_op true hr c o w = (r, w') -> Legal c w'.
Proof. exact run_op_legal. Qed.
Print Assumptions C17_operation_preserves_legality.

(* Every send() call carries a well-formed event: accept headers and close reasons only for
   servers that support them (spec 2.1+ / 2.3+); 'text' is a str and 'bytes' is EXACTLY bytes
   -- a copy: whatever the application passed (bytes, a bytes subclass, bytearray, memoryview)
   and whatever the binary media handler returned, the event never aliases a buffer the
   application can still change (kind KMutated = "content differs between the call of send()
   and the moment the server reads it" is never produced). *)
Theorem C17_events_well_formed : forall hr c connect_ok mw rt cl fl rs e w,
  session true hr c connect_ok mw rt cl fl = (rs, e, w) -> features_ok c (trace w) = true.
Proof. intros. eapply (features_session true); eauto. left. reflexivity. Qed.
Print Assumptions C17_events_well_formed.

(* The code as found: send_media puts the handler's bytearray / memoryview into the event
   (corpus/C17/send_media_bytearray.json; fixes/C17-send-media-bytes.patch). *)
Theorem C17_send_media_refuted_before_fix :
  exists hr c mw rt cl fl,
    (let '(rs, e, w) := session false hr c true mw rt cl fl in features_ok c (trace w) = false)
    /\ (let '(rs, e, w) := session true hr c true mw rt cl fl in features_ok c (trace w) = true).
Proof. exact send_media_refuted_before_fix. Qed.
Print Assumptions C17_send_media_refuted_before_fix.

(* (state, operation) -> documented error: all operations, all arguments, all well-formed
   states, no exception: in particular a receive never fails an internal assertion. *)
Theorem C17_misuse_table : forall hr c o w,
  wf w -> misuse_ok c (pub_of w) o (fst (run_op true hr c o w)) = true.
Proof. exact misuse_table. Qed.
Print Assumptions C17_misuse_table.

(* The code as found: receive_*() on a socket whose receiver was stopped by a close() that did
   not mark it CLOSED fails `assert self._pump_task is not None` (the finding; replayed on the
   implementation: corpus/C17/receive_after_stopped_receiver.json). *)
Theorem C17_misuse_table_refuted_before_fix :
  exists c w o, wf w /\ misuse_ok c (pub_of w) o (fst (run_op false (fun _ => false) c o w)) = false.
Proof. exact misuse_table_refuted_before_fix. Qed.
Print Assumptions C17_misuse_table_refuted_before_fix.

(* Close codes: exactly the codes >= 1000 outside 1004-1006 and 1015-1999 are accepted; every
   other argument is a ValueError (before anything is sent). *)
Theorem C17_close_code_validation : forall z,
  (valid_code z = true <-> (1000 <= z /\ ~ (1004 <= z <= 1006) /\ ~ (1015 <= z <= 1999)))
  /\ (valid_code z = true -> code_check (CInt z) = inl (Some z))
  /\ (valid_code z = false -> code_check (CInt z) = inr XValue).
Proof.
  intro z. split; [apply valid_code_spec|]. split; [apply code_check_valid | apply code_check_invalid].
Qed.
Print Assumptions C17_close_code_validation.

(* Error -> close code: unrouted 3404, missing responder 3405, HTTPError/HTTPStatus
   3000 + status, unexpected exception the configured code (3011 when that code is invalid). *)
Theorem C17_unrouted_3404 : forall hr c cl,
  let '(rs, e, w) := session true hr c true [] Unrouted cl [] in
  e = Returned /\ closes w = [EClose 3404 (hr 3404 && reason_ok c)] /\ st w = Closed.
Proof. exact unrouted_3404. Qed.
Print Assumptions C17_unrouted_3404.

Theorem C17_no_responder_3405 : forall hr c cl,
  let '(rs, e, w) := session true hr c true [] NoResponder cl [] in
  e = Returned /\ closes w = [EClose 3405 (hr 3405 && reason_ok c)] /\ st w = Closed.
Proof. exact no_responder_3405. Qed.
Print Assumptions C17_no_responder_3405.

Theorem C17_http_error_3000_plus_status : forall hr c cl s,
  valid_code (s + 3000) = true ->
  let '(rs, e, w) := session true hr c true [] (Routed [(ORaise (RHTTPError s), false)]) cl [] in
  e = Returned /\ closes w = [EClose (s + 3000) (hr (s + 3000) && reason_ok c)] /\ st w = Closed.
Proof. exact http_error_3000_plus. Qed.
Print Assumptions C17_http_error_3000_plus_status.

Theorem C17_http_status_3000_plus_status : forall hr c cl s,
  valid_code (s + 3000) = true ->
  let '(rs, e, w) := session true hr c true [] (Routed [(ORaise (RHTTPStatus s), false)]) cl [] in
  e = Returned /\ closes w = [EClose (s + 3000) (hr (s + 3000) && reason_ok c)] /\ st w = Closed.
Proof. exact http_status_3000_plus. Qed.
Print Assumptions C17_http_status_3000_plus_status.

Theorem C17_unexpected_error_code : forall hr c cl,
  let '(rs, e, w) := session true hr c true [] (Routed [(ORaise RGeneric, false)]) cl [] in
  e = Returned /\ st w = Closed /\
  closes w = if valid_code (err_code c)
             then [EClose (err_code c) (hr (err_code c) && reason_ok c)]
             else [EClose 3011 (hr 3011 && reason_ok c)].
Proof. exact unexpected_error_code. Qed.
Print Assumptions C17_unexpected_error_code.

(* Payloads arrive unchanged, in order: a receive that gets an event gets the head of the
   undelivered client events, as the requested kind (text / binary / media; the wrong kind is
   PayloadTypeError; a disconnect is WebSocketDisconnected with the client's code), and removes
   exactly that event; no other operation (except close(), which discards the buffer) touches
   the undelivered events.  (In pass-through mode nothing is ever buffered: hypothesis.) *)
Theorem C17_payloads_in_order_unchanged : forall k c w r w',
  require_accepted w = None -> receiver_has c w ->
  (cap c = 0%nat -> queue w = [] /\ hand w = None) ->
  op_recv true k c w = (r, w') -> r <> Blocked ->
  exists e, stream w = e :: stream w' /\ recv_ok k e r = true.
Proof. exact recv_payload. Qed.
Print Assumptions C17_payloads_in_order_unchanged.

(* ... whatever the legal shape of the event: the unused key absent or present with None,
   a disconnect with or without 'code' / 'reason' (the payload theorem above quantifies over
   all of them; this states the normalisation explicitly). *)
Theorem C17_event_shape_irrelevant : forall k n b c r,
  recv_value k (CText n b) = recv_value k (CText n false)
  /\ recv_value k (CBin n b) = recv_value k (CBin n false)
  /\ disc_code (CDisc c r) = disc_code (CDisc c false).
Proof. exact event_shape_irrelevant. Qed.
Print Assumptions C17_event_shape_irrelevant.

Theorem C17_receive_result_is_recv_value : forall f k c w e w1,
  require_accepted w = None -> do_receive f c w = (inl (inl e), w1) ->
  op_recv f k c w = (recv_value k e, w1).
Proof. exact op_recv_value. Qed.
Print Assumptions C17_receive_result_is_recv_value.

Theorem C17_other_operations_keep_stream : forall f hr c o w r w',
  match o with ORecvText | ORecvData | ORecvMedia | ORecvCancelled | OClose _ _ => False | _ => True end ->
  run_op f hr c o w = (r, w') -> stream w' = stream w.
Proof. exact stream_frame. Qed.
Print Assumptions C17_other_operations_keep_stream.

(* The close code the application wrapper uses, for EVERY session (send failures included):
   the trace of the session is the trace at the end of the middleware / routing / responder
   followed by send() calls that the oracle Spec.wrapper_close_ok accepts for the way the
   scripts ended (1000 after a normal return, 3000 + status for HTTPError / HTTPStatus incl.
   unrouted = 404 and missing responder = 405, the configured error code or the fallback for
   anything else; a further close after a failed one always carries the error code). *)
Theorem C17_wrapper_close_code_all_sessions : forall hr c mw rt cl fl rs e w,
  session true hr c true mw rt cl fl = (rs, e, w) ->
  let '(rs0, e2, w2) := scripts_end true hr c mw rt cl fl in
  e2 <> Stuck ->
  exists l, trace w = trace w2 ++ l
            /\ wrapper_close_ok c fallback_ws_error_code 3000 (fst (cause_of e2)) (snd (cause_of e2)) l = true.
Proof. exact wrapper_close_session. Qed.
Print Assumptions C17_wrapper_close_code_all_sessions.

(* The "invalid close code" fallback, for EVERY session: when the scripts returned or failed
   with anything but an HTTP error / status, a close the wrapper sends that the server rejects
   with an "invalid close code" error is followed by another close attempt (with the fallback
   code), unless it already carried the fallback. *)
Theorem C17_wrapper_retries_after_invalid_close_code : forall hr c mw rt cl fl rs e w,
  session true hr c true mw rt cl fl = (rs, e, w) ->
  let '(rs0, e2, w2) := scripts_end true hr c mw rt cl fl in
  e2 <> Stuck ->
  exists l, trace w = trace w2 ++ l
            /\ wrapper_retry_ok fallback_ws_error_code (fst (cause_of e2)) l = true.
Proof. exact wrapper_retry_session. Qed.
Print Assumptions C17_wrapper_retries_after_invalid_close_code.

(* the harness classifies "unrouted" / "no responder" as causes 1 / 2: the same verdict as the
   HTTPError 404 / 405 the model raises for them *)
Theorem C17_wrapper_cause_unrouted : forall c f o s l,
  wrapper_close_ok c f o 1 s l = wrapper_close_ok c f o 3 404 l
  /\ wrapper_close_ok c f o 2 s l = wrapper_close_ok c f o 3 405 l.
Proof. intros. split; reflexivity. Qed.
Print Assumptions C17_wrapper_cause_unrouted.

(* C17's sequential abstraction of the background receiver is justified by C18: every state
   of C18's transition system that is reachable (any capacity >= 1, any client events, any
   interleaving) and in which the pump is at a resting point projects to a C17 receiver state,
   and Model.advance is exactly what C18's system does when only the server and the pump run
   until nothing can move; the state reached is C18-reachable again. *)
Theorem C17_advance_simulated_by_C18 : forall cp sent ls c w,
  cp <> 0%nat -> rest_pc (M18.pump (R18.reach cp sent ls)) ->
  proj_eq (R18.reach cp sent ls) c w -> pump w = true ->
  exists ls', only_pump_labels ls'
    /\ quiescent (R18.reach cp sent (ls ++ ls'))
    /\ proj_eq (R18.reach cp sent (ls ++ ls')) c (advance c w).
Proof. exact advance_simulated. Qed.
Print Assumptions C17_advance_simulated_by_C18.

(* ... and the bounds C17's pull builds in (at most capacity queued, parked only when full
   and then no pull outstanding, no pull after the disconnect) are C18's theorems. *)
Theorem C17_receiver_bounds_from_C18 : forall cp sent ls,
  let s := R18.reach cp sent ls in
  (length (proj_queue s) <= cp)%nat
  /\ (forall e, M18.pump s = M18.PAwaitPut e -> length (proj_queue s) = cp /\ M18.outst s = 0%nat)
  /\ (M18.flag s = true -> M18.outst s = 0%nat).
Proof. exact projected_bounds. Qed.
Print Assumptions C17_receiver_bounds_from_C18.

(* A receive that is cancelled while it is parked (asyncio.wait_for timeout) consumes nothing
   and changes nothing: the next receive gets the next event (C18: cancellation is lossless,
   the waiter is reset).  ORecvCancelled is an operation of every script, so session_legal, the
   misuse table and the other theorems cover sessions with cancelled receives. *)
Theorem C17_cancelled_receive_is_noop : forall f c w r w',
  op_recv_cancelled f c w = (r, w') -> r = Ret VCancelled -> w' = w.
Proof. exact cancelled_receive_is_noop. Qed.
Print Assumptions C17_cancelled_receive_is_noop.

(* A WebSocketDisconnected raised by the responder itself (ORaise (RDisc code), e.g. a relay
   whose OTHER socket went away) while its own client is still connected, before or after
   accept: the wrapper still closes the socket, with the error close code.  (session_legal
   covers every script containing such raises.) *)
Theorem C17_spontaneous_disconnect_still_closes : forall hr c cl co (accepted : bool),
  let sc := (if accepted then [(OAccept SubNone HNone, false)] else []) ++ [(ORaise (RDisc co), false)] in
  let '(rs, e, w) := session true hr c true [] (Routed sc) cl [] in
  e = Returned /\ st w = Closed /\
  exists (code : Z) (r : bool), last (closes w) (EText 0%N KExact) = EClose code r
                 /\ code = (if valid_code (err_code c) then err_code c else 3011).
Proof. exact spontaneous_disconnect_closes. Qed.
Print Assumptions C17_spontaneous_disconnect_still_closes.

(* A payload of the wrong type (send_text: anything that is not a str; send_data: anything
   that is not bytes / bytearray / memoryview -- the harness sweeps int, bool, lists, tuples,
   None, float, dict, objects with __bytes__ / __str__ ...) is rejected before anything
   happens: the misuse table demands TypeError, and no send() call is made. *)
Theorem C17_bad_payload_sends_nothing : forall f hr c o w r w',
  payload_bad o = true -> run_op f hr c o w = (r, w') -> w' = w.
Proof. exact bad_payload_sends_nothing. Qed.
Print Assumptions C17_bad_payload_sends_nothing.

(* The code as found (fixed = false): the server raises on the final websocket.close and a
   second websocket.close is sent; replayed on the implementation this was the finding
   (corpus/C17/close_send_failure.json). *)
Theorem C17_close_retry_refuted_before_fix :
  exists hr c mw rt cl fl,
    script_ok mw /\ route_ok rt
    /\ (let '(rs, e, w) := session false hr c true mw rt cl fl in
        session_ok (trace w) e (handed w) = false
        /\ closes w = [EAccept None false; EClose 1000 true; EClose 1011 true])
    /\ (let '(rs, e, w) := session true hr c true mw rt cl fl in
        session_ok (trace w) e (handed w) = true
        /\ closes w = [EAccept None false; EClose 1000 true]).
Proof. exact close_retry_refuted_before_fix. Qed.
Print Assumptions C17_close_retry_refuted_before_fix.

(* The constants the model relies on are the ones in the code (regenerated every run). *)
Theorem C17_constants : ws_normal_code = 1000 /\ ws_code_offset = 3000
  /\ valid_code fallback_ws_error_code = true /\ valid_code ws_server_error_code = true.
Proof. exact consts_ok. Qed.
Print Assumptions C17_constants.

(* Non-vacuity: a session with accept, a send, two receives (message, then the disconnect
   behind it), with a send failure in between; the hypotheses of the theorems hold. *)
Example C17_session_example :
  let c := mkCfg true true 2 1011 KExact in
  let sc := [(OAccept (SubStr 1) HGood, false); (OSendText (PGood 7 KSub), true); (OAdvance, false);
             (ORecvText, false); (OSendText (PGood 8 KExact), true); (ORecvText, true)] in
  let '(rs, e, w) := session true (fun _ => true) c true [] (Routed sc) [CText 5 true; CDisc (Some 1001) true] [SOk; SOther] in
  script_ok sc /\ e = Returned
  /\ rs = [Ret VNone; Raise XOther; Ret VNone; Ret (VText 5); Raise (XDisc 1001); Raise (XDisc 1001)]
  /\ closes w = [EAccept (Some 1%N) true; EText 7%N KSub]
  /\ handed w = true.
Proof. vm_compute. repeat split; repeat constructor. Qed.

Example C17_legal_nonvacuous : Legal (mkCfg true true 2 1011 KExact) (ws0 [CText 1%N false] [SOk]) /\ wf (ws0 [] [])
  /\ receiver_has (mkCfg true true 0 1011 KExact) (ws0 [] []).
Proof.
  split; [apply legal_init|]. split; [intros _; reflexivity|]. right. left. reflexivity.
Qed.

(* a C18 state at rest and its C17 projection: capacity 1, two messages pulled, pump parked *)
Example C17_projection_example :
  let s := R18.reach 1 [M18.Msg 1; M18.Msg 2; M18.Msg 3]
                     [M18.LPump; M18.LServer; M18.LPump; M18.LServer; M18.LPump] in
  rest_pc (M18.pump s) /\ proj_queue s = [CText 1 false] /\ proj_hand s = Some (CText 2 false)
  /\ proj_client s = [CText 3 false] /\ proj_flag s = None.
Proof. vm_compute. repeat split; reflexivity. Qed.

(* The server rejects the error close with "invalid close code" (Daphne / Autobahn style): the
   wrapper falls back to 3011; the session is legal and the close codes are the documented ones. *)
Example C17_invalid_close_code_fallback :
  let c := mkCfg true true 2 1011 KExact in
  let sc := [(OAccept SubNone HNone, false); (ORaise RGeneric, false)] in
  let '(rs, e, w) := session true (fun _ => true) c true [] (Routed sc) [CDisc None false] [SOk; SInvalid] in
  e = Returned /\ closes w = [EAccept None false; EClose 1011 true; EClose 3011 true]
  /\ session_ok (trace w) e (handed w) = true
  /\ wrapper_close_ok c fallback_ws_error_code 3000 4 0 (skipn 1 (trace w)) = true
  /\ wrapper_retry_ok fallback_ws_error_code 4 (skipn 1 (trace w)) = true.
Proof. vm_compute. repeat split; reflexivity. Qed.
