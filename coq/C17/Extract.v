From Coq Require Import ZArith NArith List Bool Arith.
From Coq Require Import ExtrOcamlBasic.
From Falcon.lib Require Import Wire.
From Falcon.gen Require Import ConstsC17.
From Falcon.C17 Require Import Model Spec.
Import ListNotations.
Open Scope Z_scope.

Definition has_reason (z : Z) : bool := existsb (Z.eqb z) close_reason_codes.

Definition d_cev (v : val) : cev :=
  match v with
  | L [I 0; n; b] => CText (dN n) (dbool b)
  | L [I 1; n; b] => CBin (dN n) (dbool b)
  | L [I 2; c; r] => CDisc (dopt dZ c) (dbool r)
  | _ => CDisc None false
  end.

Definition d_sfail (v : val) : sfail :=
  match v with
  | L [I 0] => SOk
  | L [I 1] => SOSError None
  | L [I 1; c] => SOSError (Some (dZ c))
  | L [I 2] => SNormal
  | L [I 3] => SProto
  | L [I 4] => SOther
  | _ => SInvalid
  end.

Definition d_kind (v : val) : pkind :=
  match v with I 0 => KExact | I 1 => KSub | I 2 => KArray | I 3 => KView | _ => KMutated end.
Definition v_kind (k : pkind) : val :=
  I (match k with KExact => 0 | KSub => 1 | KArray => 2 | KView => 3 | KMutated => 4 end).

Definition d_cfg (v : val) : cfg :=
  {| hdrs_ok := dbool (nth_val 0 v); reason_ok := dbool (nth_val 1 v);
     cap := dnat (nth_val 2 v); err_code := dZ (nth_val 3 v);
     media_kind := d_kind (nth_val 4 v) |}.

Definition d_sub (v : val) : subarg :=
  match v with L [I 0] => SubNone | L [I 1; n] => SubStr (dN n) | _ => SubBad end.
Definition d_hdr (v : val) : hdrarg :=
  match v with I 0 => HNone | I 1 => HGood | _ => HBadName end.
Definition d_code (v : val) : codearg :=
  match v with L [I 0] => CNone | L [I 1; z] => CInt (dZ z) | _ => CNotInt end.
Definition d_payload (v : val) : payload :=
  match v with L [I 0; n; k] => PGood (dN n) (d_kind k) | _ => PBad end.

Definition d_op (v : val) : op :=
  match v with
  | L [I 0; s; h] => OAccept (d_sub s) (d_hdr h)
  | L [I 1; c; r] => OClose (d_code c) (dbool r)
  | L [I 2; p] => OSendText (d_payload p)
  | L [I 3; p] => OSendData (d_payload p)
  | L [I 4; b; n] => OSendMedia (dbool b) (dN n)
  | L [I 5] => ORecvText
  | L [I 6] => ORecvData
  | L [I 7] => ORecvMedia
  | L [I 8; I 0; s] => ORaise (RHTTPError (dZ s))
  | L [I 8; I 1; s] => ORaise (RHTTPStatus (dZ s))
  | L [I 8; I 3; s] => ORaise (RDisc (if Z.eqb (dZ s) 0 then None else Some (dZ s)))
  | L [I 8; _; _] => ORaise RGeneric
  | L [I 10] => ORecvCancelled
  | _ => OAdvance
  end.

Definition d_script (v : val) : script :=
  dlist (fun p => (d_op (nth_val 0 p), dbool (nth_val 1 p))) v.

Definition d_route (v : val) : route :=
  match v with
  | L [I 0; sc] => Routed (d_script sc)
  | L [I 1] => Unrouted
  | _ => NoResponder
  end.

Definition v_exc (x : exc) : val :=
  match x with
  | XNotAllowed => L [I 0] | XDisc c => L [I 1; I c] | XPayload => L [I 2] | XValue => L [I 3]
  | XType => L [I 4] | XOSError => L [I 5] | XOther => L [I 6] | XAssert => L [I 7]
  | XHTTPError s => L [I 8; I s] | XHTTPStatus s => L [I 9; I s] | XGeneric => L [I 10]
  | XInvalidCode => L [I 11]
  end.

Definition d_exc (v : val) : exc :=
  match v with
  | L [I 0] => XNotAllowed | L [I 1; c] => XDisc (dZ c) | L [I 2] => XPayload | L [I 3] => XValue
  | L [I 4] => XType | L [I 5] => XOSError | L [I 6] => XOther | L [I 7] => XAssert
  | L [I 8; s] => XHTTPError (dZ s) | L [I 9; s] => XHTTPStatus (dZ s) | L [I 11] => XInvalidCode
  | _ => XGeneric
  end.

Definition v_value (x : value) : val :=
  match x with
  | VNone => L [I 0] | VText n => L [I 1; vN n] | VBytes n => L [I 2; vN n] | VMedia n => L [I 3; vN n]
  | VCancelled => L [I 4]
  end.

Definition d_value (v : val) : value :=
  match v with
  | L [I 1; n] => VText (dN n) | L [I 2; n] => VBytes (dN n) | L [I 3; n] => VMedia (dN n)
  | L [I 4] => VCancelled
  | _ => VNone
  end.

Definition v_result (r : result) : val :=
  match r with Ret x => L [I 0; v_value x] | Raise x => L [I 1; v_exc x] | Blocked => L [I 2] end.

Definition d_result (v : val) : result :=
  match v with L [I 0; x] => Ret (d_value x) | L [I 1; x] => Raise (d_exc x) | _ => Blocked end.

Definition v_ending (e : ending) : val :=
  match e with Returned => L [I 0] | Raised x => L [I 1; v_exc x] | Stuck => L [I 2] end.

Definition d_ending (v : val) : ending :=
  match v with L [I 0] => Returned | L [I 1; x] => Raised (d_exc x) | _ => Stuck end.

Definition v_event (e : event) : val :=
  match e with
  | EAccept s h => L [I 0; vopt vN s; vbool h]
  | EText n k => L [I 1; vN n; v_kind k]
  | EBytes n k => L [I 2; vN n; v_kind k]
  | EClose c r => L [I 3; I c; vbool r]
  end.

Definition d_event (v : val) : event :=
  match v with
  | L [I 0; s; h] => EAccept (dopt dN s) (dbool h)
  | L [I 1; n; k] => EText (dN n) (d_kind k)
  | L [I 2; n; k] => EBytes (dN n) (d_kind k)
  | L [I 3; c; r] => EClose (dZ c) (dbool r)
  | _ => EText 0%N KMutated
  end.

Definition v_sfail (k : sfail) : val :=
  match k with
  | SOk => L [I 0] | SOSError None => L [I 1] | SOSError (Some c) => L [I 1; I c]
  | SNormal => L [I 2] | SProto => L [I 3] | SOther => L [I 4] | SInvalid => L [I 5]
  end.

Definition v_attempt (a : event * sfail) : val := L [v_event (fst a); v_sfail (snd a)].
Definition d_attempt (v : val) : event * sfail := (d_event (nth_val 0 v), d_sfail (nth_val 1 v)).

Definition v_pub (p : pub) : val :=
  I (match p with PHandshake => 0 | PReady => 1 | PClosed => 2 end).
Definition d_pub (v : val) : pub :=
  match v with I 0 => PHandshake | I 1 => PReady | _ => PClosed end.

(* the public state before every operation of the middleware + responder scripts, as the
   model sees it (for the correspondence of ws.unaccepted / ready / closed) *)
Fixpoint pubs (fixed : bool) (c : cfg) (sc : script) (w : ws) : list val * ws :=
  match sc with
  | [] => ([], w)
  | (o, catch) :: tl =>
    let (r, w1) := run_op fixed has_reason c o w in
    match r with
    | Raise _ => if catch then let (l, w2) := pubs fixed c tl w1 in (v_pub (pub_of w) :: l, w2)
                 else ([v_pub (pub_of w)], w1)
    | Blocked => ([v_pub (pub_of w)], w1)
    | Ret _ => let (l, w2) := pubs fixed c tl w1 in (v_pub (pub_of w) :: l, w2)
    end
  end.

(* ops:
   1 [fixed; cfg; connect_ok; mw; route; client; fails] -> results, ending, trace, disc handed,
     final public state, public state before each op
   2 session oracle: [cfg; trace; ending; disc_handed] -> [session_ok; features_ok]
   3 misuse oracle: [cfg; pub; op; result] -> misuse_ok
   4 payload oracle: [kind; cev; result] -> recv_ok
   5 wrapper close-code oracle: [cfg; cause; status; trace after the scripts] *)
Definition run (v : val) : val :=
  match v with
  | L [I 1; fx; c; cok; mw; rt; cl; fl] =>
    let cf := d_cfg c in
    let '(rs, e, w) := session (dbool fx) has_reason cf (dbool cok) (d_script mw) (d_route rt)
                               (dlist d_cev cl) (dlist d_sfail fl) in
    let w0 := ws0 (dlist d_cev cl) (dlist d_sfail fl) in
    let (p1, w1) := pubs (dbool fx) cf (d_script mw) w0 in
    let '(_, e1, _) := run_script (dbool fx) has_reason cf (d_script mw) w0 in
    let p2 := match e1, d_route rt with
              | Returned, Routed sc => if dbool cok then fst (pubs (dbool fx) cf sc w1) else []
              | _, _ => []
              end in
    let p1 := if dbool cok then p1 else [] in
    L [vlist v_result rs; v_ending e; vlist v_attempt (trace w); vbool (handed w);
       v_pub (pub_of w); L (p1 ++ p2)]
  | L [I 2; c; tr; e; dh] =>
    L [vbool (session_ok (dlist d_attempt tr) (d_ending e) (dbool dh));
       vbool (features_ok (d_cfg c) (dlist d_attempt tr))]
  | L [I 3; c; p; o; r] => vbool (misuse_ok (d_cfg c) (d_pub p) (d_op o) (d_result r))
  | L [I 4; k; e; r] => vbool (recv_ok (dnat k) (d_cev e) (d_result r))
  | L [I 7; cause; tr] => vbool (wrapper_retry_ok fallback_ws_error_code (dnat cause) (dlist d_attempt tr))
  | L [I 6; o; a; b] => vbool (bad_payload_quiet (d_op o) (dnat a) (dnat b))
  | L [I 5; c; cause; s; tr] =>
    vbool (wrapper_close_ok (d_cfg c) fallback_ws_error_code 3000 (dnat cause) (dZ s)
                            (dlist d_attempt tr))
  | _ => L [I (-1)]
  end.

Extraction "C17/model.ml" run.
