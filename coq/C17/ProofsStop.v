(* C17 — frame facts (which fields an operation leaves alone) and preservation of [Stop]. *)
From Coq Require Import ZArith NArith List Bool Arith Lia.
From Falcon.gen Require Import ConstsC17.
From Falcon.C17 Require Import Model Spec Proofs.
Import ListNotations.
Open Scope Z_scope.

Definition frame (w w' : ws) : Prop :=
  trace w' = trace w /\ pump w' = pump w /\ (handed w = true -> handed w' = true)
  /\ (st w' = Accepted -> st w = Accepted).

Ltac fr := repeat split; cbn; auto; try (intros ->; reflexivity); try discriminate; try congruence.

Lemma frame_refl w : frame w w.
Proof. repeat split; auto. Qed.

Lemma frame_trans a b c : frame a b -> frame b c -> frame a c.
Proof. intros [A [B [C G]]] [D [E [F I]]]. repeat split; try congruence; auto. Qed.

Lemma advance_frame c w : frame w (advance c w).
Proof.
  unfold advance. destruct (pump w) eqn:Ep; [|apply frame_refl].
  set (w1 := match hand w with Some e => _ | None => w end).
  assert (T1 : frame w w1).
  { subst w1. destruct (hand w); [|apply frame_refl].
    destruct (_ <? _)%nat; [|apply frame_refl]. fr. }
  destruct (hand w1); [exact T1|]. destruct (flag w1); [exact T1|].
  destruct (pull _ _ _) as [[[q h] rest] f]. eapply frame_trans; [exact T1|].
  fr.
Qed.

Lemma advance_trace c w : trace (advance c w) = trace w.
Proof. apply advance_frame. Qed.

Lemma op_recv_frame f k c w r w' : op_recv f k c w = (r, w') -> frame w w'.
Proof.
  unfold op_recv. destruct (require_accepted w); [intro H; injection H as <- <-; apply frame_refl|].
  unfold do_receive, next_event.
  destruct (cap c =? 0)%nat.
  - destruct (client w) as [|e rest]; [intro H; injection H as <- <-; apply frame_refl|].
    destruct e; intro H; injection H as <- <-; fr.
  - destruct (negb (pump w)).
    + destruct f; [|intro H; injection H as <- <-; apply frame_refl].
      destruct (queue w) as [|e rest]; [intro H; injection H as <- <-; fr|].
      destruct e; intro H; injection H as <- <-; fr.
    + set (w0 := match queue w with [] => advance c w | _ => w end).
      assert (T0 : frame w w0) by (subst w0; destruct (queue w); [apply advance_frame|apply frame_refl]).
      destruct (queue w0) as [|e rest]; [intro H; injection H as <- <-; exact T0|].
      destruct e; intro H; injection H as <- <-; (eapply frame_trans; [exact T0|]); fr.
Qed.

Lemma op_recv_cancelled_frame f c w r w' : op_recv_cancelled f c w = (r, w') -> frame w w'.
Proof.
  unfold op_recv_cancelled. destruct (require_accepted w) eqn:Er.
  - intro H. injection H as <- <-. apply frame_refl.
  - destruct (would_park c w).
    + intro H. injection H as <- <-. apply frame_refl.
    + apply op_recv_frame.
Qed.

Lemma op_recv_trace f k c w r w' : op_recv f k c w = (r, w') -> trace w' = trace w.
Proof. intro H. apply (op_recv_frame _ _ _ _ _ _ H). Qed.

Lemma stop_frame c w w' : Stop c w -> frame w w' -> Stop c w'.
Proof.
  intros HS [Ht [Hp [Hh Hst]]] A B C. rewrite Ht.
  destruct (HS (Hst A) (eq_trans (eq_sym Hp) B) C) as [X|X]; auto.
Qed.

(* do_send keeps Stop when the socket stays ACCEPTED *)
Lemma do_send_stop c e w x w' :
  Core w -> Stop c w -> st w = Accepted -> match e with EText _ _ | EBytes _ _ => True | _ => False end ->
  do_send e w = (x, w') -> Stop c w'.
Proof.
  intros H HS Hst He Hs.
  assert (Hfit : fits (st w) e) by (rewrite Hst; destruct e; try destruct He; exact I).
  pose proof (do_send_core _ _ _ _ H Hfit Hs) as [Hf [Hh [Hp [Hq [Hha [Hcl Hx]]]]]].
  intros A B C. rewrite Hh.
  assert (Old : handed w = true \/ mon_run (MConn false) (trace w) = Some (MOpen true))
    by (apply HS; auto; congruence).
  destruct Old as [O|O]; [left; exact O|]. right.
  destruct x as [y|].
  - destruct Hx as [_ [Hc|[_ [_ [m [Hm Hme]]]]]]; [congruence|].
    destruct e; try destruct He; rewrite Hm; congruence.
  - destruct Hx as [_ [_ [m [Hm Hme]]]].
    destruct e; try destruct He; destruct Hme as [Hme _]; rewrite Hm; congruence.
Qed.

Lemma run_op_stop hr c o w r w' :
  Core w -> Stop c w -> run_op true hr c o w = (r, w') -> Stop c w'.
Proof.
  intros H HS Hs. destruct o; cbn in Hs.
  - (* accept: on success the receiver is running *)
    unfold op_accept in Hs.
    destruct (is_closed w) eqn:Ec; [injection Hs as <- <-; exact HS|].
    destruct (st w) eqn:Est; try (injection Hs as <- <-; exact HS).
    destruct s; try (injection Hs as <- <-; exact HS).
    all: destruct h; try (destruct (negb (hdrs_ok c)); try (injection Hs as <- <-; exact HS));
      try (injection Hs as <- <-; exact HS).
    all: match type of Hs with
         | context [do_send ?e ?ww] =>
           destruct (do_send e ww) as [x w1] eqn:Ed;
           assert (Hfit : fits (st ww) e) by (rewrite Est; exact I);
           pose proof (do_send_core _ _ _ _ H Hfit Ed) as [Hf [Hh [Hp [Hq [Hha [Hcl Hx]]]]]];
           destruct x as [y|]; injection Hs as <- <-;
           [destruct Hx as [_ [Hc|[_ [Hc _]]]]; intros A; congruence
           | intros A B C; cbn in B; rewrite C in B; discriminate]
         end.
  - (* close *)
    unfold op_close in Hs.
    set (w0 := set_pump false (set_hand None w)) in *.
    destruct (code_check c0) as [co|x]; [|injection Hs as <- <-; exact HS].
    assert (H0 : Core w0).
    { destruct H as [m [Hm [Hst [Hfl Hdq]]]]. exists m. cbn. repeat split; auto.
      - destruct (st w); auto. destruct Hst as [A [B C]]. auto.
      - intros [A|[c1 [r1 A]]]; [apply Hdq; left; exact A | discriminate]. }
    destruct (is_closed w0) eqn:Ec.
    { injection Hs as <- <-. intros A B C. left.
      unfold is_closed in Ec. rewrite A in Ec. destruct (flag w0) eqn:Ef; [|discriminate].
      destruct H0 as [m [_ [_ [Hfl _]]]]. apply Hfl. congruence. }
    destruct (do_send _ w0) as [x w1] eqn:Ed.
    assert (Hfit : fits (st w0) (EClose (or1000 co) ((reason || hr (or1000 co)) && reason_ok c))).
    { unfold is_closed in Ec. destruct (st w0); [exact I | exact I | discriminate]. }
    pose proof (do_send_core _ _ _ _ H0 Hfit Ed) as [Hf [Hh [Hp [Hq [Hha [Hcl Hx]]]]]].
    destruct x as [y|]; injection Hs as <- <-.
    + destruct Hx as [L1 [Hc|[_ [Hs1 [m [Hm Hcm]]]]]]; [intros A; congruence|].
      intros A B C. right. destruct L1 as [m1 [Hm1 [Hst1 _]]]. rewrite A in Hst1.
      destruct Hst1 as [t ->]. rewrite Hm1 in Hm. injection Hm as <-.
      destruct t; [exact Hm1 | discriminate].
    + intros A. cbn in A. discriminate.
  - unfold op_send_text in Hs. destruct (require_accepted w) eqn:Er; [injection Hs as <- <-; exact HS|].
    assert (Hst : st w = Accepted) by (unfold require_accepted in Er; destruct (st w); congruence).
    destruct p; [|injection Hs as <- <-; exact HS]. unfold op_send in Hs.
    destruct (strish k); [|injection Hs as <- <-; exact HS].
    destruct (do_send (EText n k) w) as [x w1] eqn:Ed.
    pose proof (do_send_stop c (EText n k) _ _ _ H HS Hst I Ed). destruct x; injection Hs as <- <-; assumption.
  - unfold op_send_data in Hs. destruct (require_accepted w) eqn:Er; [injection Hs as <- <-; exact HS|].
    assert (Hst : st w = Accepted) by (unfold require_accepted in Er; destruct (st w); congruence).
    destruct p; [|injection Hs as <- <-; exact HS]. unfold op_send in Hs.
    destruct (do_send (EBytes n KExact) w) as [x w1] eqn:Ed.
    pose proof (do_send_stop c (EBytes n KExact) _ _ _ H HS Hst I Ed). destruct x; injection Hs as <- <-; assumption.
  - unfold op_send_media in Hs. destruct (require_accepted w) eqn:Er; [injection Hs as <- <-; exact HS|].
    assert (Hst : st w = Accepted) by (unfold require_accepted in Er; destruct (st w); congruence).
    unfold op_send in Hs.
    destruct (do_send _ w) as [x w1] eqn:Ed.
    assert (He : match (if bin then EBytes n KExact else EText n KExact) with EText _ _ | EBytes _ _ => True | _ => False end)
      by (destruct bin; exact I).
    pose proof (do_send_stop c _ _ _ _ H HS Hst He Ed). destruct x; injection Hs as <- <-; assumption.
  - eapply stop_frame; [exact HS | eapply op_recv_frame; eauto].
  - eapply stop_frame; [exact HS | eapply op_recv_frame; eauto].
  - eapply stop_frame; [exact HS | eapply op_recv_frame; eauto].
  - injection Hs as <- <-. exact HS.
  - injection Hs as <- <-. eapply stop_frame; [exact HS | apply advance_frame].
  - eapply stop_frame; [exact HS | eapply op_recv_cancelled_frame; eauto].
Qed.
