(* C17 — the close code used by the application wrapper, for every session (send failures
   included): the oracle Spec.wrapper_close_ok accepts the model. *)
From Coq Require Import ZArith NArith List Bool Arith Lia.
From Falcon.gen Require Import ConstsC17.
From Falcon.C17 Require Import Model Spec Proofs ProofsStop ProofsSession.
Import ListNotations.
Open Scope Z_scope.

(* the session up to the end of the middleware / routing / responder *)
Definition scripts_end (fixed : bool) (hr : Z -> bool) (c : cfg) (mw : script) (rt : route)
           (cl : list cev) (fl : list sfail) : list result * ending * ws :=
  let '(rs1, e1, w1) := run_script fixed hr c mw (ws0 cl fl) in
  match e1 with
  | Returned =>
    match rt with
    | Routed sc => let '(rs2, e2, w2) := run_script fixed hr c sc w1 in (rs1 ++ rs2, e2, w2)
    | Unrouted => (rs1, Raised (XHTTPError 404), w1)
    | NoResponder => (rs1, Raised (XHTTPError 405), w1)
    end
  | _ => (rs1, e1, w1)
  end.

(* ... and what the wrapper does then *)
Definition finish (fixed : bool) (hr : Z -> bool) (c : cfg) (m : list result * ending * ws)
  : list result * ending * ws :=
  let '(rs, e, w2) := m in
  match e with
  | Returned =>
    match op_close fixed hr c CNone false w2 with
    | (Raise x, w3) => let (e3, w4) := handle_exception fixed hr c x w3 in (rs, e3, w4)
    | (_, w3) => (rs, Returned, w3)
    end
  | Raised x => let (e3, w3) := handle_exception fixed hr c x w2 in (rs, e3, w3)
  | Stuck => (rs, Stuck, w2)
  end.

Lemma session_split f hr c mw rt cl fl :
  session f hr c true mw rt cl fl = finish f hr c (scripts_end f hr c mw rt cl fl).
Proof.
  unfold session, finish, scripts_end. cbn [negb].
  destruct (run_script f hr c mw (ws0 cl fl)) as [[rs1 e1] w1].
  destruct e1; reflexivity.
Qed.

(* how the scripts ended, as the harness classifies it: 0 returned, 3 HTTPError/HTTPStatus
   (unrouted = 404, no responder = 405), 4 any other exception *)
Definition cause_of (e : ending) : nat * Z :=
  match e with
  | Returned | Stuck => (0%nat, 0)
  | Raised (XHTTPError s) | Raised (XHTTPStatus s) => (3%nat, s)
  | Raised _ => (4%nat, 0)
  end.

Definition codes_after (w w' : ws) (l : list (event * sfail)) : Prop := trace w' = trace w ++ l.

(* close() adds at most one send() call, a close event carrying the validated code; it adds
   exactly one whenever it raises anything but the validation error *)
Lemma op_close_codes hr c ca reason w r w' :
  op_close true hr c ca reason w = (r, w') ->
  exists l, codes_after w w' l
            /\ (l = [] \/ exists co rr k, code_check ca = inl co /\ l = [(EClose (or1000 co) rr, k)])
            /\ (code_check ca = inr XValue -> r = Raise XValue /\ l = [])
            /\ (forall x, r = Raise x -> l = [] -> code_check ca = inr XValue).
Proof.
  unfold op_close, codes_after. set (w0 := set_pump false (set_hand None w)).
  destruct (code_check ca) as [co|x] eqn:Ec.
  - destruct (is_closed w0) eqn:Ecl.
    + intro H. injection H as <- <-. exists []. rewrite app_nil_r. repeat split; auto; discriminate.
    + destruct (do_send _ w0) as [x w1] eqn:Ed.
      assert (T : exists k, trace w1 = trace w ++ [(EClose (or1000 co) ((reason || hr (or1000 co)) && reason_ok c), k)]).
      { unfold do_send in Ed. cbn in Ed. unfold is_closed in Ecl. cbn in Ecl.
        destruct (flag w); cbn in Ed; [destruct (st w); discriminate|].
        destruct (st w); cbn in Ed; try discriminate;
          (destruct (fails w) as [|k fa]; cbn in Ed; [|destruct k; cbn in Ed]; injection Ed as <- <-;
           eexists; reflexivity). }
      destruct T as [k T].
      intro H. destruct x; injection H as <- <-; cbn;
        eexists; (split; [exact T|]); (split; [right; eauto|]); (split; [discriminate|]);
        intros y _ Hl; discriminate.
  - intro H. injection H as <- <-. exists []. rewrite app_nil_r.
    assert (Hx : x = XValue).
    { unfold code_check in Ec. destruct ca; try discriminate.
      - repeat match type of Ec with (if ?b then _ else _) = _ => destruct b end; try discriminate;
          injection Ec as <-; reflexivity.
      - injection Ec as <-. reflexivity. }
    subst x. repeat split; auto.
Qed.

Definition expected4 (c : cfg) : Z :=
  if valid_code (err_code c) then err_code c else fallback_ws_error_code.

Definition all_codes (z : Z) (l : list (event * sfail)) : Prop :=
  Forall (fun y => y = z) (close_codes l).

Lemma close_codes_app a b : close_codes (a ++ b) = close_codes a ++ close_codes b.
Proof. unfold close_codes. apply flat_map_app. Qed.

Lemma codes_after_trans a b c l1 l2 : codes_after a b l1 -> codes_after b c l2 -> codes_after a c (l1 ++ l2).
Proof. unfold codes_after. intros -> ->. rewrite app_assoc. reflexivity. Qed.

(* one close() call with a valid code z: all its close events carry z *)
Lemma op_close_valid hr c z reason w r w' :
  valid_code z = true -> op_close true hr c (CInt z) reason w = (r, w') ->
  exists l, codes_after w w' l /\ all_codes z l /\ (length l <= 1)%nat
            /\ (forall x, r = Raise x -> l <> []).
Proof.
  intros Hv Hs. destruct (op_close_codes _ _ _ _ _ _ _ Hs) as [l [Hc [Hl [_ Hr]]]].
  rewrite (code_check_valid _ Hv) in *. exists l. split; [exact Hc|].
  destruct Hl as [->|[co [rr [k [E ->]]]]].
  - repeat split; [constructor | cbn; lia |]. intros x Hx _. specialize (Hr x Hx eq_refl). discriminate.
  - injection E as <-. repeat split; [repeat constructor | cbn; lia | discriminate].
Qed.

(* codes a later close attempt may carry: the configured error code (or the fallback when that
   one is invalid), or the fallback after the server rejected a close with "invalid close code" *)
Definition allowed (c : cfg) (l : list (event * sfail)) : Prop :=
  Forall (fun y => y = expected4 c \/ y = fallback_ws_error_code) (close_codes l).

(* the cleanup's own closes: the first carries the error code *)
Definition good4 (c : cfg) (l : list (event * sfail)) : Prop :=
  match close_codes l with
  | [] => True
  | z :: tl => z = expected4 c /\ Forall (fun y => y = expected4 c \/ y = fallback_ws_error_code) tl
  end.

Lemma good4_allowed c l : good4 c l -> allowed c l.
Proof.
  unfold good4, allowed. destruct (close_codes l); [constructor|]. intros [-> H]. constructor; auto.
Qed.

Lemma all_codes_allowed c z l :
  all_codes z l -> z = expected4 c \/ z = fallback_ws_error_code -> allowed c l.
Proof.
  unfold all_codes, allowed. intros H Hz. rewrite Forall_forall in *. intros y Hy. rewrite (H y Hy). exact Hz.
Qed.

Lemma cleanup_codes hr c w e w' :
  cleanup true hr c w = (e, w') ->
  exists l, codes_after w w' l /\ good4 c l.
Proof.
  unfold cleanup. intro Hs.
  destruct (op_close true hr c (CInt (err_code c)) false w) as [r w1] eqn:E1.
  assert (Hvf : valid_code fallback_ws_error_code = true) by reflexivity.
  destruct (valid_code (err_code c)) eqn:Hv.
  - destruct (op_close_valid _ _ _ _ _ _ _ Hv E1) as [l [Hc [Ha [Hlen Hne]]]].
    assert (E4 : expected4 c = err_code c) by (unfold expected4; rewrite Hv; reflexivity).
    assert (G1 : good4 c l).
    { unfold good4, all_codes in *. destruct (close_codes l) as [|z tl] eqn:Ecc; [exact I|].
      inversion Ha; subst. split; [congruence|].
      rewrite Forall_forall in *. intros y Hy. left. rewrite E4. apply H2. exact Hy. }
    destruct r as [v|x|]; try (injection Hs as <- <-; exists l; auto).
    destruct (mentions_invalid_code c x); [|injection Hs as <- <-; exists l; auto].
    destruct (op_close true hr c (CInt fallback_ws_error_code) false w1) as [r2 w2] eqn:E2.
    destruct (op_close_valid _ _ _ _ _ _ _ Hvf E2) as [l2 [Hc2 [Ha2 _]]].
    exists (l ++ l2). split.
    { assert (W : w' = w2) by (destruct r2; injection Hs as _ <-; reflexivity). subst w'.
      eapply codes_after_trans; eauto. }
    specialize (Hne x eq_refl).
    unfold good4. rewrite close_codes_app.
    (* l is exactly one close event *)
    destruct l as [|a l']; [congruence|]. destruct l'; [|cbn in Hlen; lia].
    unfold all_codes in Ha. destruct a as [ev k]. cbn in *.
    destruct (op_close_codes _ _ _ _ _ _ _ E1) as [l0 [Hc0 [Hl0 _]]].
    assert (l0 = [(ev, k)]) by (unfold codes_after in *; rewrite Hc in Hc0; apply app_inv_head in Hc0; auto).
    subst l0. destruct Hl0 as [X|[co [rr [k0 [Ec X]]]]]; [discriminate|]. injection X as -> ->.
    cbn. rewrite (code_check_valid _ Hv) in Ec. injection Ec as <-. cbn.
    split; [congruence|]. unfold all_codes in Ha2. rewrite Forall_forall in *.
    intros y Hy. right. apply Ha2. exact Hy.
  - destruct (op_close_codes _ _ _ _ _ _ _ E1) as [l [Hc [_ [Hx _]]]].
    destruct (Hx (code_check_invalid _ Hv)) as [-> ->].
    unfold mentions_invalid_code in Hs. rewrite (code_check_invalid _ Hv) in Hs.
    destruct (op_close true hr c (CInt fallback_ws_error_code) false w1) as [r2 w2] eqn:E2.
    destruct (op_close_valid _ _ _ _ _ _ _ Hvf E2) as [l2 [Hc2 [Ha2 _]]].
    exists l2. unfold codes_after in *. rewrite app_nil_r in Hc.
    assert (E4 : expected4 c = fallback_ws_error_code) by (unfold expected4; rewrite Hv; reflexivity).
    split; [destruct r2; injection Hs as <- <-; congruence|].
    unfold good4, all_codes in *. destruct (close_codes l2) as [|z tl]; [exact I|].
    inversion Ha2; subst. split; [congruence|]. rewrite Forall_forall in *. intros y Hy. right. auto.
Qed.

Lemma tail_ok c tl :
  Forall (fun y => y = expected4 c \/ y = fallback_ws_error_code) tl ->
  forallb (fun y => Z.eqb y (expected_code c fallback_ws_error_code 3000 4 0) || Z.eqb y fallback_ws_error_code) tl = true.
Proof.
  intro H. apply forallb_forall. intros y Hy. rewrite Forall_forall in H.
  destruct (H y Hy) as [-> | ->]; [change (expected_code c fallback_ws_error_code 3000 4 0) with (expected4 c) | ];
    rewrite Z.eqb_refl; [reflexivity | apply orb_true_r].
Qed.

Lemma code_check_int z co : code_check (CInt z) = inl co -> co = Some z.
Proof.
  unfold code_check. repeat match goal with |- (if ?b then _ else _) = _ -> _ => destruct b end;
    intro H; try discriminate; injection H as <-; reflexivity.
Qed.

Lemma handle_exception_codes hr c x w e w' :
  handle_exception true hr c x w = (e, w') ->
  exists l, codes_after w w' l
            /\ wrapper_close_ok c fallback_ws_error_code 3000 (fst (cause_of (Raised x)))
                                (snd (cause_of (Raised x))) l = true
            /\ (not_http x -> allowed c l).
Proof.
  assert (CL : forall e w', cleanup true hr c w = (e, w') ->
               exists l, codes_after w w' l
                 /\ wrapper_close_ok c fallback_ws_error_code 3000 4 0 l = true
                 /\ allowed c l).
  { clear e w'. intros e w' H. destruct (cleanup_codes _ _ _ _ _ H) as [l [Hc Hg]].
    exists l. repeat split; auto; [|apply good4_allowed; exact Hg].
    unfold wrapper_close_ok. unfold good4 in Hg. destruct (close_codes l) as [|z tl]; [reflexivity|].
    destruct Hg as [-> Ht]. change (expected_code c fallback_ws_error_code 3000 4 0) with (expected4 c).
    rewrite Z.eqb_refl. apply tail_ok. exact Ht. }
  assert (HT : forall s e w',
     (let (r, w1) := op_close true hr c (CInt (s + ws_code_offset)) false w in
      match r with Raise y => (Raised y, w1) | _ => (Returned, w1) end) = (e, w') ->
     exists l, codes_after w w' l /\ wrapper_close_ok c fallback_ws_error_code 3000 3 s l = true).
  { clear e w'. intros s e w' H.
    destruct (op_close true hr c (CInt (s + ws_code_offset)) false w) as [r w1] eqn:E1.
    destruct (op_close_codes _ _ _ _ _ _ _ E1) as [l [Hc [Hl _]]].
    assert (W : w' = w1) by (destruct r; injection H as _ <-; reflexivity). subst w'.
    exists l. split; [exact Hc|].
    destruct Hl as [->|[co [rr [k [E ->]]]]]; [reflexivity|].
    rewrite (code_check_int _ _ E). unfold wrapper_close_ok. cbn.
    change ws_code_offset with 3000. rewrite Z.eqb_refl. reflexivity. }
  unfold handle_exception. intro Hs.
  destruct x; try (destruct (CL _ _ Hs) as [l [A [B C]]]; exists l; repeat split; auto; fail).
  - destruct (HT _ _ _ Hs) as [l [A B]]. exists l. repeat split; auto. intros [].
  - destruct (HT _ _ _ Hs) as [l [A B]]. exists l. repeat split; auto. intros [].
Qed.

(* The oracle accepts every session of the model, whatever the server's send() does. *)
Theorem wrapper_close_all hr c rs e2 w2 rs' e' w' :
  finish true hr c (rs, e2, w2) = (rs', e', w') -> e2 <> Stuck ->
  exists l, codes_after w2 w' l
            /\ wrapper_close_ok c fallback_ws_error_code 3000 (fst (cause_of e2)) (snd (cause_of e2)) l = true.
Proof.
  intros Hs Hns. unfold finish in Hs. destruct e2 as [|x|]; [| |congruence].
  - destruct (op_close true hr c CNone false w2) as [r w3] eqn:E3.
    destruct (op_close_codes _ _ _ _ _ _ _ E3) as [l1 [Hc1 [Hl1 [_ Hr1]]]].
    destruct r as [v|x|].
    + injection Hs as _ _ <-. exists l1. split; [exact Hc1|].
      destruct Hl1 as [->|[co [rr [k [E ->]]]]]; [reflexivity|].
      cbn in E. injection E as <-. reflexivity.
    + destruct (handle_exception true hr c x w3) as [e3 w4] eqn:E4.
      injection Hs as _ _ <-.
      destruct (handle_exception_codes _ _ _ _ _ _ E4) as [l2 [Hc2 [_ Ha2]]].
      assert (Hx : not_http x).
      { destruct (run_op_exc true hr c (OClose CNone false) w2 x w3 E3) as [A|[r [A _]]]; [exact A|discriminate]. }
      specialize (Ha2 Hx).
      exists (l1 ++ l2). split; [eapply codes_after_trans; eauto|].
      destruct Hl1 as [->|[co [rr [k [E ->]]]]].
      * specialize (Hr1 x eq_refl eq_refl). discriminate.
      * cbn in E. injection E as <-. unfold wrapper_close_ok. cbn. apply tail_ok. exact Ha2.
    + injection Hs as _ _ <-. exists l1. split; [exact Hc1|].
      destruct Hl1 as [->|[co [rr [k [E ->]]]]]; [reflexivity|].
      cbn in E. injection E as <-. reflexivity.
  - destruct (handle_exception true hr c x w2) as [e3 w3] eqn:E3.
    injection Hs as _ _ <-.
    destruct (handle_exception_codes _ _ _ _ _ _ E3) as [l [Hc [Hw _]]].
    exists l. split; auto.
Qed.

(* ... stated on Model.session: the trace of the whole session is the trace at the end of
   the scripts followed by events the oracle accepts *)
Theorem wrapper_close_session hr c mw rt cl fl rs e w :
  session true hr c true mw rt cl fl = (rs, e, w) ->
  let '(rs0, e2, w2) := scripts_end true hr c mw rt cl fl in
  e2 <> Stuck ->
  exists l, trace w = trace w2 ++ l
            /\ wrapper_close_ok c fallback_ws_error_code 3000 (fst (cause_of e2)) (snd (cause_of e2)) l = true.
Proof.
  rewrite session_split. destruct (scripts_end true hr c mw rt cl fl) as [[rs0 e2] w2].
  intros Hs Hns. apply (wrapper_close_all _ _ _ _ _ _ _ _ Hs Hns).
Qed.

(* ---- the "invalid close code" fallback retries (Spec.wrapper_retry_ok) *)
Definition stopped (w : ws) : ws := set_pump false (set_hand None w).

(* a close() with a valid code on a socket that is not closed makes exactly one send() call;
   if the server rejects it with "invalid close code" the exception is re-raised as is and
   the socket is still open for another attempt *)
Lemma close_try hr c ca co reason w r w' :
  code_check ca = inl co -> is_closed (stopped w) = false ->
  op_close true hr c ca reason w = (r, w') ->
  exists k rr, trace w' = trace w ++ [(EClose (or1000 co) rr, k)]
    /\ (k = SInvalid -> r = Raise XInvalidCode /\ is_closed (stopped w') = false)
    /\ (r = Raise XInvalidCode -> k = SInvalid).
Proof.
  intros Ec Hcl. unfold op_close. fold (stopped w). rewrite Ec, Hcl.
  unfold do_send. unfold is_closed, stopped in Hcl. cbn in Hcl. cbn.
  destruct (flag w) eqn:Ef; [destruct (st w); discriminate|].
  destruct (st w) eqn:Es; try discriminate; cbn; rewrite ?Es, ?Ef; cbn;
    (destruct (fails w) as [|k fa]; cbn; [|destruct k; cbn]; intro H; injection H as <- <-;
     do 2 eexists; (split; [reflexivity|]); (split; [intro X; try discriminate X|intro X; try discriminate X; try reflexivity]);
     try (split; [reflexivity|]; unfold is_closed, stopped; cbn; rewrite ?Es, ?Ef; reflexivity)).
Qed.

Lemma retry_single fb z rr k : (k = SInvalid -> z = fb) -> retry_ok fb [(EClose z rr, k)] = true.
Proof. intro H. destruct k; cbn; try reflexivity. rewrite (H eq_refl), Z.eqb_refl. reflexivity. Qed.

Lemma retry_app_single fb z rr k l2 :
  (k = SInvalid -> z = fb \/ close_codes l2 <> []) -> retry_ok fb l2 = true ->
  retry_ok fb ((EClose z rr, k) :: l2) = true.
Proof.
  intros H H2. destruct k; cbn; try exact H2. rewrite H2, andb_true_r.
  destruct (H eq_refl) as [-> | Hn]; [rewrite Z.eqb_refl; reflexivity|].
  destruct (close_codes l2); [congruence | apply orb_true_r].
Qed.

Lemma stopped_closed_after_noclose hr c z w r w' :
  valid_code z = true -> op_close true hr c (CInt z) false w = (r, w') ->
  is_closed (stopped w) = true -> trace w' = trace w.
Proof.
  intros Hv Hs Hc. unfold op_close in Hs. fold (stopped w) in Hs.
  rewrite (code_check_valid _ Hv), Hc in Hs. injection Hs as _ <-. reflexivity.
Qed.

(* the cleanup retries after a rejected close, and closes at all when the socket is open *)
Lemma cleanup_retry hr c w e w' :
  cleanup true hr c w = (e, w') ->
  exists l, codes_after w w' l /\ retry_ok fallback_ws_error_code l = true
            /\ (is_closed (stopped w) = false -> close_codes l <> []).
Proof.
  unfold cleanup. intro Hs.
  destruct (op_close true hr c (CInt (err_code c)) false w) as [r w1] eqn:E1.
  assert (Hvf : valid_code fallback_ws_error_code = true) by reflexivity.
  assert (Ecf : code_check (CInt fallback_ws_error_code) = inl (Some fallback_ws_error_code))
    by (apply code_check_valid; exact Hvf).
  destruct (valid_code (err_code c)) eqn:Hv.
  - pose proof (code_check_valid _ Hv) as Ece.
    destruct (is_closed (stopped w)) eqn:Hcl.
    + (* already closed: nothing is sent, close() returns *)
      pose proof (stopped_closed_after_noclose _ _ _ _ _ _ Hv E1 Hcl) as T1.
      unfold op_close in E1. fold (stopped w) in E1. rewrite Ece, Hcl in E1. injection E1 as <- <-.
      injection Hs as <- <-. exists []. unfold codes_after. rewrite app_nil_r.
      repeat split; auto. discriminate.
    + destruct (close_try _ _ _ _ _ _ _ _ Ece Hcl E1) as [k [rr [T1 [Hk1 Hk2]]]].
      destruct r as [v|x|].
      * injection Hs as <- <-. eexists; split; [exact T1|]. split; [|intros _; discriminate].
        apply retry_single. intro X. destruct (Hk1 X) as [Y _]. discriminate.
      * destruct (mentions_invalid_code c x) eqn:Em.
        -- destruct (op_close true hr c (CInt fallback_ws_error_code) false w1) as [r2 w2] eqn:E2.
           assert (W : w' = w2) by (destruct r2; injection Hs as _ <-; reflexivity). subst w'.
           assert (Hx : x = XInvalidCode).
           { unfold mentions_invalid_code in Em. rewrite Ece in Em. destruct x; try discriminate. reflexivity. }
           subst x. destruct (Hk1 (Hk2 eq_refl)) as [_ Hcl1].
           destruct (close_try _ _ _ _ _ _ _ _ Ecf Hcl1 E2) as [k2 [rr2 [T2 _]]].
           eexists ([_] ++ [_]). split; [unfold codes_after; rewrite T2, T1, <- app_assoc; reflexivity|].
           split; [|intros _; discriminate].
           cbn [app]. apply retry_app_single.
           ++ intros _. right. discriminate.
           ++ apply retry_single. intros _. reflexivity.
        -- injection Hs as <- <-. eexists; split; [exact T1|]. split; [|intros _; discriminate].
           apply retry_single. intro X. destruct (Hk1 X) as [Y _]. injection Y as ->. discriminate.
      * injection Hs as <- <-. eexists; split; [exact T1|]. split; [|intros _; discriminate].
        apply retry_single. intro X. destruct (Hk1 X) as [Y _]. discriminate.
  - (* the configured code is invalid: close() rejects it, the fallback code is used *)
    unfold op_close in E1. rewrite (code_check_invalid _ Hv) in E1. injection E1 as <- <-.
    unfold mentions_invalid_code in Hs. rewrite (code_check_invalid _ Hv) in Hs.
    destruct (op_close true hr c (CInt fallback_ws_error_code) false w) as [r2 w2] eqn:E2.
    assert (W : w' = w2) by (destruct r2; injection Hs as _ <-; reflexivity). subst w'.
    destruct (is_closed (stopped w)) eqn:Hcl.
    + exists []. unfold codes_after. rewrite app_nil_r.
      rewrite (stopped_closed_after_noclose _ _ _ _ _ _ Hvf E2 Hcl). repeat split; auto. discriminate.
    + destruct (close_try _ _ _ _ _ _ _ _ Ecf Hcl E2) as [k2 [rr2 [T2 _]]].
      eexists; split; [exact T2|]. split; [|intros _; discriminate].
      apply retry_single. intros _. reflexivity.
Qed.

Lemma handle_exception_not_http hr c x w :
  not_http x -> handle_exception true hr c x w = cleanup true hr c w.
Proof. destruct x; cbn; intro H; try reflexivity; destruct H. Qed.

Theorem wrapper_retry_all hr c rs e2 w2 rs' e' w' :
  finish true hr c (rs, e2, w2) = (rs', e', w') -> e2 <> Stuck ->
  exists l, codes_after w2 w' l
            /\ wrapper_retry_ok fallback_ws_error_code (fst (cause_of e2)) l = true.
Proof.
  intros Hs Hns. unfold finish in Hs. destruct e2 as [|x|]; [| |congruence].
  - (* returned: close(1000), then the cleanup if that raised *)
    cbn [cause_of fst wrapper_retry_ok].
    destruct (op_close true hr c CNone false w2) as [r w3] eqn:E3.
    assert (Ec : code_check CNone = inl None) by reflexivity.
    destruct (is_closed (stopped w2)) eqn:Hcl.
    + unfold op_close in E3. fold (stopped w2) in E3. rewrite Ec, Hcl in E3. injection E3 as <- <-.
      injection Hs as _ _ <-. exists []. unfold codes_after. rewrite app_nil_r. auto.
    + destruct (close_try _ _ _ _ _ _ _ _ Ec Hcl E3) as [k [rr [T [Hk1 Hk2]]]].
      destruct r as [v|x|].
      * injection Hs as _ _ <-. eexists; split; [exact T|].
        apply retry_single. intro X. destruct (Hk1 X) as [Y _]. discriminate.
      * destruct (handle_exception true hr c x w3) as [e3 w4] eqn:E4. injection Hs as _ _ <-.
        assert (Hx : not_http x).
        { destruct (run_op_exc true hr c (OClose CNone false) w2 x w3 E3) as [A|[r0 [A _]]]; [exact A|discriminate]. }
        rewrite (handle_exception_not_http _ _ _ _ Hx) in E4.
        destruct (cleanup_retry _ _ _ _ _ E4) as [lc [Hc [Hr Hne]]].
        exists ([(EClose (or1000 None) rr, k)] ++ lc).
        split; [unfold codes_after in *; rewrite Hc, T, <- app_assoc; reflexivity|].
        cbn [app]. apply retry_app_single; [|exact Hr].
        intro X. right. apply Hne. apply (Hk1 X).
      * injection Hs as _ _ <-. eexists; split; [exact T|].
        apply retry_single. intro X. destruct (Hk1 X) as [Y _]. discriminate.
  - destruct (handle_exception true hr c x w2) as [e3 w3] eqn:E3. injection Hs as _ _ <-.
    assert (HT : not_http x \/ fst (cause_of (Raised x)) = 3%nat)
      by (destruct x; cbn; auto).
    destruct HT as [Hx|H3].
    + rewrite (handle_exception_not_http _ _ _ _ Hx) in E3.
      destruct (cleanup_retry _ _ _ _ _ E3) as [lc [Hc [Hr _]]].
      exists lc. split; [exact Hc|]. destruct x; cbn; try exact Hr; reflexivity.
    + destruct (handle_exception_codes _ _ _ _ _ _ E3) as [l [Hc _]].
      exists l. split; [exact Hc|]. rewrite H3. reflexivity.
Qed.

Theorem wrapper_retry_session hr c mw rt cl fl rs e w :
  session true hr c true mw rt cl fl = (rs, e, w) ->
  let '(rs0, e2, w2) := scripts_end true hr c mw rt cl fl in
  e2 <> Stuck ->
  exists l, trace w = trace w2 ++ l
            /\ wrapper_retry_ok fallback_ws_error_code (fst (cause_of e2)) l = true.
Proof.
  rewrite session_split. destruct (scripts_end true hr c mw rt cl fl) as [[rs0 e2] w2].
  intros Hs Hns. apply (wrapper_retry_all _ _ _ _ _ _ _ _ Hs Hns).
Qed.
