(* C17 — every operation preserves the invariant; the session is legal. *)
From Coq Require Import ZArith NArith List Bool Arith Lia.
From Falcon.gen Require Import ConstsC17.
From Falcon.C17 Require Import Model Spec Proofs ProofsStop.
Import ListNotations.
Open Scope Z_scope.

(* Core only looks at these fields *)
Lemma core_ext w w' :
  Core w -> trace w' = trace w -> st w' = st w -> flag w' = flag w -> handed w' = handed w ->
  (pump w' = pump w \/ pump w' = false) ->
  (has_disc (queue w') = true \/ (exists c r, hand w' = Some (CDisc c r)) ->
   has_disc (queue w) = true \/ (exists c r, hand w = Some (CDisc c r))) ->
  Core w'.
Proof.
  intros [m [Hm [Hst [Hfl Hdq]]]] Ht Hs Hf Hh Hp Hq. exists m.
  rewrite Ht, Hs, Hf, Hh. repeat split; auto.
  destruct (st w); auto. destruct Hst as [A [B C]]. repeat split; auto.
  destruct Hp as [->| ->]; auto.
Qed.

Lemma core_stop w : Core w -> Core (set_pump false (set_hand None w)).
Proof.
  intro H. apply (core_ext w); auto. cbn. intros [A|[c [r A]]]; [left; exact A | discriminate].
Qed.

Lemma has_disc_app a b : has_disc (a ++ b) = has_disc a || has_disc b.
Proof. apply existsb_app. Qed.

Lemma pull_cons cp q e r :
  pull cp q (e :: r) =
  if (length q <? cp)%nat then
    match disc_code e with
    | Some c => (q ++ [e], None, r, Some c)
    | None => pull cp (q ++ [e]) r
    end
  else (q, Some e, r, disc_code e).
Proof. reflexivity. Qed.

Lemma pull_spec cp : forall cl q q' h' rest f,
  pull cp q cl = (q', h', rest, f) ->
  (has_disc q' = true \/ (exists c r, h' = Some (CDisc c r)) -> has_disc q = true \/ f <> None).
Proof.
  induction cl as [|e r IH]; intros q q' h' rest f Hp.
  - cbn in Hp. injection Hp as <- <- <- <-. intros [A|[c [rr A]]]; [left; exact A | discriminate].
  - rewrite pull_cons in Hp. destruct (length q <? cp)%nat.
    + destruct e as [n|n|c]; cbn in Hp.
      * intro A. destruct (IH _ _ _ _ _ Hp A) as [B|B]; [|right; exact B].
        rewrite has_disc_app in B. cbn in B. rewrite orb_false_r in B. left. exact B.
      * intro A. destruct (IH _ _ _ _ _ Hp A) as [B|B]; [|right; exact B].
        rewrite has_disc_app in B. cbn in B. rewrite orb_false_r in B. left. exact B.
      * injection Hp as <- <- <- <-. intros _. right. discriminate.
    + injection Hp as <- <- <- <-. intros [A|[c [rr A]]]; [left; exact A|].
      injection A as ->. right. cbn. discriminate.
Qed.

Lemma advance_core c w : Core w -> Core (advance c w).
Proof.
  intros H. unfold advance. destruct (pump w) eqn:Epu; [|exact H].
  set (w1 := match hand w with
             | Some e => if (length (queue w) <? cap c)%nat
                         then set_hand None (set_queue (queue w ++ [e]) w) else w
             | None => w
             end).
  assert (H1 : Core w1 /\ pump w1 = true).
  { subst w1. destruct (hand w) as [e|] eqn:Eh; [|auto].
    destruct (length (queue w) <? cap c)%nat; [|auto].
    split; [|exact Epu].
    apply (core_ext w); auto. cbn. intros [A|[c0 [r0 A]]]; [|discriminate].
    rewrite has_disc_app in A. cbn in A. rewrite orb_false_r in A.
    apply orb_true_iff in A as [A|A]; [left; exact A|].
    right. destruct e; try discriminate. eauto. }
  clearbody w1. destruct H1 as [H1 Hp1].
  destruct (hand w1) eqn:Eh; [exact H1|]. destruct (flag w1) eqn:Ef; [exact H1|].
  destruct (pull (cap c) (queue w1) (client w1)) as [[[q h] rest] f] eqn:Ep.
  pose proof (pull_spec _ _ _ _ _ _ _ Ep) as Hps.
  destruct H1 as [m [Hm [Hst [Hfl Hdq]]]]. exists m. cbn.
  split; [exact Hm|]. split; [|split].
  - destruct (st w1); auto; [destruct Hst as [A [B C]]; congruence|].
    destruct Hst as [A|A]; [left; exact A | right; rewrite A; reflexivity].
  - intro A. destruct f; [apply orb_true_r | exfalso; apply A; reflexivity].
  - intro A. destruct (Hps A) as [B|B]; [rewrite (Hdq (or_introl B)); reflexivity|].
    destruct f; [apply orb_true_r | congruence].
Qed.

Lemma core_after_send_ok w1 w s' m :
  Core w -> flag w1 = flag w -> handed w1 = handed w -> queue w1 = queue w ->
  hand w1 = hand w -> st w1 = s' ->
  mon_run (MConn false) (trace w1) = Some m ->
  match s' with
  | Handshake => False
  | Accepted => exists t, m = MOpen t
  | Closed => closedish m = true \/ handed w = true
  end ->
  Core w1.
Proof.
  intros [m0 [_ [_ [Hfl Hdq]]]] Hf Hh Hq Hha Hs Hm Hc. exists m.
  rewrite Hs, Hf, Hh, Hq, Hha. repeat split; auto. destruct s'; auto. destruct Hc.
Qed.

Lemma op_send_core e w r w' :
  Core w -> st w = Accepted -> fits Accepted e ->
  match e with EText _ _ | EBytes _ _ => True | _ => False end ->
  op_send e w = (r, w') -> Core w'.
Proof.
  intros H Hst Hfit He Hs. unfold op_send in Hs.
  destruct (do_send e w) as [x w1] eqn:Ed.
  assert (Hfit' : fits (st w) e) by (rewrite Hst; exact Hfit).
  pose proof (do_send_core _ _ _ _ H Hfit' Ed) as [Hf [Hh [Hp [Hq [Hha [Hcl Hx]]]]]].
  destruct x as [y|]; injection Hs as <- <-.
  - destruct Hx as [L _]. exact L.
  - destruct Hx as [Hs1 [_ [m [Hm Hme]]]].
    eapply (core_after_send_ok w1 w Accepted m); eauto; [congruence|].
    destruct e; try destruct He; exact (proj2 Hme).
Qed.

Lemma core_ext2 w w' :
  Core w -> trace w' = trace w -> st w' = st w -> flag w' = flag w ->
  (handed w = true -> handed w' = true) -> pump w' = pump w ->
  (has_disc (queue w') = true \/ (exists c r, hand w' = Some (CDisc c r)) ->
   has_disc (queue w) = true \/ (exists c r, hand w = Some (CDisc c r)) \/ handed w' = true) ->
  Core w'.
Proof.
  intros [m [Hm [Hst [Hfl Hdq]]]] Ht Hs Hf Hh Hp Hq. exists m.
  rewrite Ht, Hs, Hf. repeat split; auto.
  - destruct (st w); auto.
    + destruct Hst as [A [B C]]. repeat split; auto. congruence.
    + destruct Hst as [A|A]; auto.
  - intro A. destruct (Hq A) as [B|[B|B]]; auto.
Qed.

Lemma core_closed_by_disc w co :
  Core w -> handed w = true ->
  Core (set_st Closed (set_ccode co w)).
Proof.
  intros [m [Hm [Hst [Hfl Hdq]]]] Hh. exists m. cbn. repeat split; auto.
Qed.

Lemma core_closed_by w co :
  Core w -> handed w = true \/ mon_run (MConn false) (trace w) = Some (MOpen true) ->
  Core (set_st Closed (set_ccode co w)).
Proof.
  intros [m [Hm [Hst [Hfl Hdq]]]] Hh. exists m. cbn. repeat split; auto.
  destruct Hh as [A|A]; [right; exact A|]. left. rewrite Hm in A. injection A as ->. reflexivity.
Qed.

Lemma op_recv_core k c w r w' : Core w -> Stop c w -> op_recv true k c w = (r, w') -> Core w'.
Proof.
  intros H HS Hs. unfold op_recv in Hs.
  destruct (require_accepted w) eqn:Er; [injection Hs as <- <-; exact H|].
  assert (Hst : st w = Accepted) by (unfold require_accepted in Er; destruct (st w); congruence).
  assert (L : forall x w1, do_receive true c w = (x, w1) -> Core w1).
  { clear Hs. intros x w1 Hd. unfold do_receive, next_event in Hd.
    destruct (cap c =? 0)%nat eqn:Ecap.
    - destruct (client w) as [|e rest] eqn:Ecl.
      + injection Hd as <- <-. exact H.
      + assert (H1 : Core (set_handed (handed w || match e with CDisc _ _ => true | _ => false end)
                                       (set_client rest w))).
        { apply (core_ext2 w); auto; cbn.
          - intro A. rewrite A. reflexivity.
          - intros A. destruct A as [A|A]; auto. }
        destruct e; try (injection Hd as <- <-; exact H1).
        injection Hd as <- <-. apply core_closed_by_disc; [exact H1|]. cbn. apply orb_true_r.
    - destruct (pump w) eqn:Epu; cbn in Hd.
      + set (w0 := match queue w with [] => advance c w | _ => w end) in *.
        assert (H0 : Core w0) by (subst w0; destruct (queue w); [apply advance_core|]; exact H).
        clearbody w0. destruct (queue w0) as [|e rest] eqn:Eq.
        * injection Hd as <- <-. exact H0.
        * assert (H1 : Core (set_queue rest w0)).
          { apply (core_ext2 w0); auto; cbn. intros [A|A]; [|auto].
            left. rewrite Eq. cbn. rewrite A. apply orb_true_r. }
          destruct e; try (injection Hd as <- <-; exact H1).
          injection Hd as <- <-. apply core_closed_by_disc; [exact H1|]. cbn.
          destruct H0 as [m [_ [_ [_ Hdq]]]]. apply Hdq. left. rewrite Eq. reflexivity.
      + (* stopped receiver (repaired code) *)
        destruct (queue w) as [|e rest] eqn:Eq.
        * injection Hd as <- <-. apply core_closed_by; [exact H|]. apply HS; auto.
        * assert (H1 : Core (set_queue rest w)).
          { apply (core_ext2 w); auto; cbn. intros [A|A]; [|auto].
            left. rewrite Eq. cbn. rewrite A. apply orb_true_r. }
          destruct e; try (injection Hd as <- <-; exact H1).
          injection Hd as <- <-. apply core_closed_by_disc; [exact H1|]. cbn.
          destruct H as [m [_ [_ [_ Hdq]]]]. apply Hdq. left. rewrite Eq. reflexivity. }
  destruct (do_receive true c w) as [x w1] eqn:Ed. specialize (L _ _ eq_refl).
  destruct x as [[e|x]|u]; injection Hs as <- <-; exact L.
Qed.

Lemma op_close_core hr c c0 reason w r w' :
  Core w -> op_close true hr c c0 reason w = (r, w') -> Core w'.
Proof.
  intros H Hs.
  unfold op_close in Hs. pose proof (core_stop _ H) as H0.
  set (w0 := set_pump false (set_hand None w)) in *.
  destruct (code_check c0) as [co|x]; [|injection Hs as <- <-; exact H].
  destruct (is_closed w0) eqn:Ec; [injection Hs as <- <-; exact H0|].
  destruct (do_send _ w0) as [x w1] eqn:Ed.
  assert (Hfit : fits (st w0) (EClose (or1000 co) ((reason || hr (or1000 co)) && reason_ok c))).
  { unfold is_closed in Ec. destruct (st w0); [exact I | exact I | discriminate]. }
  pose proof (do_send_core _ _ _ _ H0 Hfit Ed) as [Hf [Hh [Hp [Hq [Hha [Hcl Hx]]]]]].
  destruct x as [y|]; injection Hs as <- <-.
  + destruct Hx as [L _]. exact L.
  + destruct Hx as [Hs1 [_ [m [Hm Hme]]]].
    eapply (core_after_send_ok _ w0 Closed m); eauto. left. rewrite Hme. reflexivity.
Qed.

Lemma run_op_core hr c o w r w' : Core w -> Stop c w -> run_op true hr c o w = (r, w') -> Core w'.
Proof.
  intros H HS Hs. destruct o; cbn in Hs.
  - (* accept *)
    unfold op_accept in Hs.
    destruct (is_closed w) eqn:Ec; [injection Hs as <- <-; exact H|].
    destruct (st w) eqn:Est; try (injection Hs as <- <-; exact H).
    destruct s; try (injection Hs as <- <-; exact H).
    all: destruct h; try (destruct (negb (hdrs_ok c)); try (injection Hs as <- <-; exact H));
      try (injection Hs as <- <-; exact H).
    all: match type of Hs with
         | context [do_send ?e ?ww] =>
           destruct (do_send e ww) as [x w1] eqn:Ed;
           assert (Hfit : fits (st ww) e) by (rewrite Est; exact I);
           pose proof (do_send_core _ _ _ _ H Hfit Ed) as [Hf [Hh [Hp [Hq [Hha [Hcl Hx]]]]]];
           destruct x as [y|]; injection Hs as <- <-;
           [destruct Hx as [L _]; exact L|];
           destruct Hx as [Hs1 [_ [m [Hm Hme]]]];
           eapply (core_after_send_ok _ ww Accepted m); eauto; cbn; eauto
         end.
  - (* close *) eapply op_close_core; eauto.
  - (* send_text *)
    unfold op_send_text in Hs. destruct (require_accepted w) eqn:Er; [injection Hs as <- <-; exact H|].
    assert (Hst : st w = Accepted) by (unfold require_accepted in Er; destruct (st w); congruence).
    destruct p; [|injection Hs as <- <-; exact H].
    destruct (strish k); [|injection Hs as <- <-; exact H].
    eapply op_send_core; eauto; exact I.
  - unfold op_send_data in Hs. destruct (require_accepted w) eqn:Er; [injection Hs as <- <-; exact H|].
    assert (Hst : st w = Accepted) by (unfold require_accepted in Er; destruct (st w); congruence).
    destruct p; [|injection Hs as <- <-; exact H].
    eapply op_send_core; eauto; exact I.
  - unfold op_send_media in Hs. destruct (require_accepted w) eqn:Er; [injection Hs as <- <-; exact H|].
    assert (Hst : st w = Accepted) by (unfold require_accepted in Er; destruct (st w); congruence).
    destruct bin; eapply op_send_core; eauto; exact I.
  - eapply op_recv_core; eauto.
  - eapply op_recv_core; eauto.
  - eapply op_recv_core; eauto.
  - injection Hs as <- <-. exact H.
  - injection Hs as <- <-. apply advance_core. exact H.
  - unfold op_recv_cancelled in Hs. destruct (require_accepted w); [injection Hs as <- <-; exact H|].
    destruct (would_park c w); [injection Hs as <- <-; exact H|]. eapply op_recv_core; eauto.
Qed.

Lemma run_script_core hr c sc : forall w rs e w',
  Core w -> Stop c w -> run_script true hr c sc w = (rs, e, w') -> Core w' /\ Stop c w'.
Proof.
  induction sc as [|[o catch] tl IH]; intros w rs e w' H HS Hs; cbn in Hs.
  - injection Hs as <- <- <-. auto.
  - destruct (run_op true hr c o w) as [r w1] eqn:Eo.
    pose proof (run_op_core _ _ _ _ _ _ H HS Eo) as H1.
    pose proof (run_op_stop _ _ _ _ _ _ H HS Eo) as S1.
    destruct r.
    + destruct (run_script true hr c tl w1) as [[rs2 e2] w2] eqn:Er.
      injection Hs as <- <- <-. eapply IH; eauto.
    + destruct catch.
      * destruct (run_script true hr c tl w1) as [[rs2 e2] w2] eqn:Er.
        injection Hs as <- <- <-. eapply IH; eauto.
      * injection Hs as <- <- <-. auto.
    + injection Hs as <- <- <-. auto.
Qed.

(* a close has been sent or attempted, or the connection is lost, or the server has handed
   over the client's disconnect *)
Definition Done (w : ws) : Prop :=
  exists m, mon_run (MConn false) (trace w) = Some m /\ (closedish m = true \/ handed w = true).

Lemma core_closed_done w : Core w -> is_closed w = true -> Done w.
Proof.
  intros [m [Hm [Hst [Hfl Hdq]]]] Hc. exists m. split; [exact Hm|].
  unfold is_closed in Hc. destruct (st w); auto.
  - destruct (flag w) eqn:E; [|discriminate]. right. apply Hfl. congruence.
  - destruct (flag w) eqn:E; [|discriminate]. right. apply Hfl. congruence.
Qed.

Lemma op_close_done hr c ca reason w r w' :
  Core w -> bad_code ca = false -> op_close true hr c ca reason w = (r, w') ->
  Core w' /\ Done w'.
Proof.
  intros H Hb Hs. pose proof (op_close_core hr c ca reason w r w' H Hs) as L.
  split; [exact L|].
  unfold op_close in Hs. pose proof (core_stop _ H) as H0.
  set (w0 := set_pump false (set_hand None w)) in *.
  destruct (code_check_good _ Hb) as [co Eco]. rewrite Eco in Hs.
  destruct (is_closed w0) eqn:Ec.
  { injection Hs as <- <-. apply core_closed_done; assumption. }
  destruct (do_send _ w0) as [x w1] eqn:Ed.
  assert (Hfit : fits (st w0) (EClose (or1000 co) ((reason || hr (or1000 co)) && reason_ok c))).
  { unfold is_closed in Ec. destruct (st w0); [exact I | exact I | discriminate]. }
  pose proof (do_send_core _ _ _ _ H0 Hfit Ed) as [Hf [Hh [Hp [Hq [Hha [Hcl Hx]]]]]].
  destruct x as [y|]; injection Hs as <- <-.
  - destruct Hx as [L1 [Hc|[_ [_ [m [Hm Hcm]]]]]].
    + apply core_closed_done; [exact L1|]. unfold is_closed. rewrite Hc. reflexivity.
    + exists m. auto.
  - destruct Hx as [_ [_ [m [Hm Hmc]]]]. exists m. cbn. subst m. auto.
Qed.

Lemma done_stable_close hr c ca reason w r w' :
  Core w -> Done w -> op_close true hr c ca reason w = (r, w') -> Done w'.
Proof.
  intros H D Hs. destruct (bad_code ca) eqn:Hb.
  - unfold op_close in Hs. rewrite (code_check_bad _ Hb) in Hs. injection Hs as <- <-.
    destruct D as [m [Hm Hd]]. exists m. cbn. auto.
  - eapply op_close_done; eauto.
Qed.

(* ---- which exceptions operations raise *)
Definition not_http (x : exc) : Prop :=
  match x with XHTTPError _ | XHTTPStatus _ => False | _ => True end.

Lemma do_send_exc e w y w' : do_send e w = (Some y, w') -> not_http y.
Proof.
  unfold do_send. destruct (flag w); cbn.
  - intro H. injection H as <- <-. exact I.
  - destruct (st w); cbn; try (intro H; injection H as <- <-; exact I);
      (destruct (fails w) as [|k fa]; cbn; [|destruct k]; intro H; try discriminate;
       injection H as <- <-; exact I).
Qed.

Lemma op_send_exc e w x w' : op_send e w = (Raise x, w') -> not_http x.
Proof.
  unfold op_send. destruct (do_send e w) as [[y|] w1] eqn:E; intro H; [|discriminate].
  injection H as <- <-. eapply do_send_exc; eauto.
Qed.

Lemma require_accepted_exc w x : require_accepted w = Some x -> not_http x.
Proof. unfold require_accepted. destruct (st w); intro H; try discriminate; injection H as <-; exact I. Qed.

Lemma op_recv_exc f k c w x w' : op_recv f k c w = (Raise x, w') -> not_http x.
Proof.
  unfold op_recv. destruct (require_accepted w) eqn:E.
  - intro H. injection H as <- <-. eapply require_accepted_exc; eauto.
  - destruct (do_receive f c w) as [[[e|y]|u] w1] eqn:Ed; intro H; try discriminate.
    + destruct k as [|[|k]]; destruct e as [n b|n b|co rr]; try destruct b; cbn in H; try discriminate; injection H as <- <-; exact I.
    + injection H as <- <-. unfold do_receive, next_event in Ed.
      destruct (cap c =? 0)%nat.
      * destruct (client w) as [|e r]; [discriminate|].
        destruct e; try discriminate. injection Ed as <- <-. exact I.
      * destruct (negb (pump w)).
        -- destruct f; [|injection Ed as <- <-; exact I].
           destruct (queue w) as [|e r]; [injection Ed as <- <-; exact I|].
           destruct e; try discriminate. injection Ed as <- <-. exact I.
        -- destruct (queue _) as [|e r]; [discriminate|].
           destruct e; try discriminate. injection Ed as <- <-. exact I.
Qed.

Lemma run_op_exc f hr c o w x w' :
  run_op f hr c o w = (Raise x, w') ->
  not_http x \/ exists r, o = ORaise r /\ x = raise_exc r.
Proof.
  destruct o; cbn; intro H.
  - left. unfold op_accept in H.
    repeat match type of H with
           | (if ?b then _ else _) = _ => destruct b
           | match ?t with _ => _ end = _ => destruct t eqn:?
           end; try discriminate; try (injection H as <- <-; try exact I);
      try (eapply do_send_exc; eauto).
  - left. unfold op_close in H. destruct (code_check c0) as [co|y] eqn:Ec.
    + destruct (is_closed _); [discriminate|]. destruct f.
      * destruct (do_send _ _) as [[y|] w1] eqn:E; [|discriminate]. injection H as <- <-.
        eapply do_send_exc; eauto.
      * destruct (attempt _ _) as [k w1]. destruct k; try discriminate; injection H as <- <-; exact I.
    + injection H as <- <-. unfold code_check in Ec. destruct c0; try discriminate.
      * repeat match type of Ec with (if ?b then _ else _) = _ => destruct b end;
          try discriminate; injection Ec as <-; exact I.
      * injection Ec as <-. exact I.
  - left. unfold op_send_text in H. destruct (require_accepted w) eqn:E.
    + injection H as <- <-. eapply require_accepted_exc; eauto.
    + destruct p; [|injection H as <- <-; exact I].
      destruct (strish k); [eapply op_send_exc; eauto | injection H as <- <-; exact I].
  - left. unfold op_send_data in H. destruct (require_accepted w) eqn:E.
    + injection H as <- <-. eapply require_accepted_exc; eauto.
    + destruct p; [eapply op_send_exc; eauto | injection H as <- <-; exact I].
  - left. unfold op_send_media in H. destruct (require_accepted w) eqn:E.
    + injection H as <- <-. eapply require_accepted_exc; eauto.
    + eapply op_send_exc; eauto.
  - left. eapply op_recv_exc; eauto.
  - left. eapply op_recv_exc; eauto.
  - left. eapply op_recv_exc; eauto.
  - right. injection H as <- <-. eauto.
  - discriminate.
  - left. unfold op_recv_cancelled in H. destruct (require_accepted w) eqn:E.
    + injection H as <- <-. eapply require_accepted_exc; eauto.
    + destruct (would_park c w); [discriminate|]. eapply op_recv_exc; eauto.
Qed.

Definition status_ok (s : Z) : Prop := valid_code (s + ws_code_offset) = true.

Definition op_ok (o : op) : Prop :=
  match o with
  | ORaise (RHTTPError s) | ORaise (RHTTPStatus s) => status_ok s
  | _ => True
  end.

Definition script_ok (sc : script) : Prop := Forall (fun p => op_ok (fst p)) sc.

Definition raises_ok (x : exc) : Prop :=
  match x with XHTTPError s | XHTTPStatus s => status_ok s | _ => True end.

Lemma run_script_raises f hr c sc : forall w rs x w',
  script_ok sc -> run_script f hr c sc w = (rs, Raised x, w') -> raises_ok x.
Proof.
  induction sc as [|[o catch] tl IH]; intros w rs x w' Hok Hs; cbn in Hs; [discriminate|].
  inversion Hok as [|? ? Ho Htl]; subst. cbn in Ho.
  destruct (run_op f hr c o w) as [r w1] eqn:Eo.
  destruct r.
  - destruct (run_script f hr c tl w1) as [[rs2 e2] w2] eqn:Er.
    injection Hs as <- -> <-. eapply IH; eauto.
  - destruct catch.
    + destruct (run_script f hr c tl w1) as [[rs2 e2] w2] eqn:Er.
      injection Hs as <- -> <-. eapply IH; eauto.
    + injection Hs as <- <- <-.
      destruct (run_op_exc _ _ _ _ _ _ _ Eo) as [A|[r [-> ->]]].
      * destruct x0; try exact I; destruct A.
      * destruct r; cbn; try exact I; exact Ho.
  - discriminate.
Qed.

Lemma handle_exception_done hr c x w e w' :
  Core w -> raises_ok x -> handle_exception true hr c x w = (e, w') -> Core w' /\ Done w'.
Proof.
  intros H Hr Hs. unfold handle_exception in Hs.
  assert (CL : forall e w', cleanup true hr c w = (e, w') -> Core w' /\ Done w').
  { clear Hs Hr e w'. intros e w' Hs. unfold cleanup in Hs.
    destruct (op_close true hr c (CInt (err_code c)) false w) as [r w1] eqn:E1.
    assert (Hb2 : bad_code (CInt fallback_ws_error_code) = false) by reflexivity.
    destruct (bad_code (CInt (err_code c))) eqn:Hb.
    - unfold op_close in E1. rewrite (code_check_bad _ Hb) in E1. injection E1 as <- <-.
      unfold mentions_invalid_code in Hs. rewrite (code_check_bad _ Hb) in Hs.
      destruct (op_close true hr c (CInt fallback_ws_error_code) false w) as [r2 w2] eqn:E2.
      pose proof (op_close_done _ _ _ _ _ _ _ H Hb2 E2) as D.
      destruct r2; injection Hs as <- <-; exact D.
    - pose proof (op_close_done _ _ _ _ _ _ _ H Hb E1) as D.
      destruct r as [v|x1|]; try (injection Hs as <- <-; exact D).
      destruct (mentions_invalid_code c x1); [|injection Hs as <- <-; exact D].
      destruct (op_close true hr c (CInt fallback_ws_error_code) false w1) as [r2 w2] eqn:E2.
      pose proof (op_close_done _ _ _ _ _ _ _ (proj1 D) Hb2 E2) as D2.
      destruct r2; injection Hs as <- <-; exact D2. }
  destruct x as [|code| | | | | | | |status|status|]; try (eapply CL; exact Hs).
  - destruct (op_close true hr c (CInt (status + ws_code_offset)) false w) as [r w1] eqn:E1.
    assert (Hb : bad_code (CInt (status + ws_code_offset)) = false)
      by (cbn in Hr; unfold status_ok in Hr; cbn; rewrite Hr; reflexivity).
    pose proof (op_close_done _ _ _ _ _ _ _ H Hb E1) as D.
    destruct r; injection Hs as <- <-; exact D.
  - destruct (op_close true hr c (CInt (status + ws_code_offset)) false w) as [r w1] eqn:E1.
    assert (Hb : bad_code (CInt (status + ws_code_offset)) = false)
      by (cbn in Hr; unfold status_ok in Hr; cbn; rewrite Hr; reflexivity).
    pose proof (op_close_done _ _ _ _ _ _ _ H Hb E1) as D.
    destruct r; injection Hs as <- <-; exact D.
Qed.


Definition route_ok (rt : route) : Prop :=
  match rt with Routed sc => script_ok sc | _ => True end.

Lemma done_session_ok w e : Done w -> session_ok (trace w) e (handed w) = true.
Proof.
  intros [m [Hm Hd]]. unfold session_ok. rewrite Hm.
  destruct Hd as [A|A].
  - unfold closedish in A. destruct m as [[|]|[|]| |]; try discriminate; apply orb_true_r.
  - rewrite A. rewrite orb_true_r. reflexivity.
Qed.

Lemma core_stuck_ok w : Core w -> session_ok (trace w) Stuck (handed w) = true.
Proof. intros [m [Hm _]]. unfold session_ok. rewrite Hm. reflexivity. Qed.

Transparent mon_run.
Lemma connect_fail_ok k r e : session_ok [(EClose ws_server_error_code r, k)] e false = true.
Proof. destruct k; unfold session_ok; cbn; rewrite ?orb_true_r; reflexivity. Qed.
Opaque mon_run.

Lemma session_tail hr c (rs : list result) e2 w2 (rs' : list result) e' w' :
  Core w2 -> (forall x, e2 = Raised x -> raises_ok x) ->
  match e2 with
  | Returned =>
    match op_close true hr c CNone false w2 with
    | (Raise x, w3) => let (e3, w4) := handle_exception true hr c x w3 in (rs, e3, w4)
    | (_, w3) => (rs, Returned, w3)
    end
  | Raised x => let (e3, w3) := handle_exception true hr c x w2 in (rs, e3, w3)
  | Stuck => (rs, Stuck, w2)
  end = (rs', e', w') ->
  session_ok (trace w') e' (handed w') = true.
Proof.
  intros L2 Hr2 Hs. destruct e2.
  - destruct (op_close true hr c CNone false w2) as [r w3] eqn:E3.
    assert (Hb : bad_code CNone = false) by reflexivity.
    pose proof (op_close_done _ _ _ _ _ _ _ L2 Hb E3) as [L3 D3].
    destruct r.
    + injection Hs as <- <- <-. apply done_session_ok. exact D3.
    + destruct (handle_exception true hr c x w3) as [e3 w4] eqn:E4.
      injection Hs as <- <- <-.
      assert (Hx : raises_ok x).
      { destruct (run_op_exc true hr c (OClose CNone false) w2 x w3 E3) as [A|[r [A _]]]; [|discriminate].
        destruct x; try exact I; destruct A. }
      destruct (handle_exception_done _ _ _ _ _ _ L3 Hx E4) as [_ D4].
      apply done_session_ok. exact D4.
    + injection Hs as <- <- <-. apply done_session_ok. exact D3.
  - destruct (handle_exception true hr c x w2) as [e3 w3] eqn:E3.
    injection Hs as <- <- <-.
    destruct (handle_exception_done _ _ _ _ _ _ L2 (Hr2 _ eq_refl) E3) as [_ D3].
    apply done_session_ok. exact D3.
  - injection Hs as <- <- <-. apply core_stuck_ok. exact L2.
Qed.

Theorem session_legal hr c cok mw rt cl fl rs e w :
  script_ok mw -> route_ok rt ->
  session true hr c cok mw rt cl fl = (rs, e, w) ->
  session_ok (trace w) e (handed w) = true.
Proof.
  intros Hmw Hrt Hs. unfold session in Hs.
  destruct (negb cok).
  { unfold attempt, ws0 in Hs. cbn in Hs.
    destruct fl as [|k fl]; cbn in Hs; injection Hs as <- <- <-; cbn; apply connect_fail_ok. }
  destruct (run_script true hr c mw (ws0 cl fl)) as [[rs1 e1] w1] eqn:E1.
  assert (S0 : Stop c (ws0 cl fl)) by (intro A; discriminate).
  pose proof (run_script_core _ _ _ _ _ _ _ (core_init cl fl) S0 E1) as [L1 S1].
  destruct e1.
  - destruct rt as [sc| |].
    + destruct (run_script true hr c sc w1) as [[rs2 e2] w2] eqn:E2.
      eapply (session_tail hr c (rs1 ++ rs2) e2 w2); [| |exact Hs].
      * eapply run_script_core; eauto.
      * intros x ->. eapply run_script_raises; eauto.
    + eapply (session_tail hr c rs1 (Raised (XHTTPError 404)) w1); [exact L1| |exact Hs].
      intros x Hx. injection Hx as <-. reflexivity.
    + eapply (session_tail hr c rs1 (Raised (XHTTPError 405)) w1); [exact L1| |exact Hs].
      intros x Hx. injection Hx as <-. reflexivity.
  - eapply (session_tail hr c rs1 (Raised x) w1); [exact L1| |exact Hs].
    intros y Hy. injection Hy as <-. eapply run_script_raises; eauto.
  - eapply (session_tail hr c rs1 Stuck w1); [exact L1| |exact Hs]. discriminate.
Qed.

Lemma legal_init c cl fl : Legal c (ws0 cl fl).
Proof. split; [apply core_init | intro A; discriminate]. Qed.

Theorem run_op_legal hr c o w r w' : Legal c w -> run_op true hr c o w = (r, w') -> Legal c w'.
Proof.
  intros [H HS] Hs. split; [eapply run_op_core; eauto | eapply run_op_stop; eauto].
Qed.
