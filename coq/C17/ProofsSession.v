(* C17 — every operation preserves the invariant; the session is legal. *)
From Coq Require Import ZArith NArith List Bool Arith Lia.
From Falcon.gen Require Import ConstsC17.
From Falcon.C17 Require Import Model Spec Proofs.
Import ListNotations.
Open Scope Z_scope.

(* Legal only looks at these fields *)
Lemma legal_ext w w' :
  Legal w -> trace w' = trace w -> st w' = st w -> flag w' = flag w -> handed w' = handed w ->
  (pump w' = pump w \/ pump w' = false) ->
  (has_disc (queue w') = true \/ (exists c, hand w' = Some (CDisc c)) ->
   has_disc (queue w) = true \/ (exists c, hand w = Some (CDisc c))) ->
  Legal w'.
Proof.
  intros [m [Hm [Hst [Hfl Hdq]]]] Ht Hs Hf Hh Hp Hq. exists m.
  rewrite Ht, Hs, Hf, Hh. repeat split; auto.
  destruct (st w); auto. destruct Hst as [A [B C]]. repeat split; auto.
  destruct Hp as [->| ->]; auto.
Qed.

Lemma legal_stop w : Legal w -> Legal (set_pump false (set_hand None w)).
Proof.
  intro H. apply (legal_ext w); auto. cbn. intros [A|[c A]]; [left; exact A | discriminate].
Qed.

Lemma has_disc_app a b : has_disc (a ++ b) = has_disc a || has_disc b.
Proof. apply existsb_app. Qed.

Lemma pull_cons cp q e r :
  pull cp q (e :: r) =
  if (length q <? cp)%nat then
    match disc_code e with
    | Some c => (q ++ [e], None, r, Some c)
    | None => pull cp (q ++ [e]) r
    end
  else (q, Some e, r, disc_code e).
Proof. reflexivity. Qed.

Lemma pull_spec cp : forall cl q q' h' rest f,
  pull cp q cl = (q', h', rest, f) ->
  (has_disc q' = true \/ (exists c, h' = Some (CDisc c)) -> has_disc q = true \/ f <> None).
Proof.
  induction cl as [|e r IH]; intros q q' h' rest f Hp.
  - cbn in Hp. injection Hp as <- <- <- <-. intros [A|[c A]]; [left; exact A | discriminate].
  - rewrite pull_cons in Hp. destruct (length q <? cp)%nat.
    + destruct e as [n|n|c]; cbn in Hp.
      * intro A. destruct (IH _ _ _ _ _ Hp A) as [B|B]; [|right; exact B].
        rewrite has_disc_app in B. cbn in B. rewrite orb_false_r in B. left. exact B.
      * intro A. destruct (IH _ _ _ _ _ Hp A) as [B|B]; [|right; exact B].
        rewrite has_disc_app in B. cbn in B. rewrite orb_false_r in B. left. exact B.
      * injection Hp as <- <- <- <-. intros _. right. discriminate.
    + injection Hp as <- <- <- <-. intros [A|[c A]]; [left; exact A|].
      injection A as ->. right. cbn. discriminate.
Qed.

Lemma advance_legal c w : Legal w -> Legal (advance c w).
Proof.
  intros H. unfold advance. destruct (pump w) eqn:Epu; [|exact H].
  set (w1 := match hand w with
             | Some e => if (length (queue w) <? cap c)%nat
                         then set_hand None (set_queue (queue w ++ [e]) w) else w
             | None => w
             end).
  assert (H1 : Legal w1 /\ pump w1 = true).
  { subst w1. destruct (hand w) as [e|] eqn:Eh; [|auto].
    destruct (length (queue w) <? cap c)%nat; [|auto].
    split; [|exact Epu].
    apply (legal_ext w); auto. cbn. intros [A|[c0 A]]; [|discriminate].
    rewrite has_disc_app in A. cbn in A. rewrite orb_false_r in A.
    apply orb_true_iff in A as [A|A]; [left; exact A|].
    right. destruct e; try discriminate. eauto. }
  clearbody w1. destruct H1 as [H1 Hp1].
  destruct (hand w1) eqn:Eh; [exact H1|]. destruct (flag w1) eqn:Ef; [exact H1|].
  destruct (pull (cap c) (queue w1) (client w1)) as [[[q h] rest] f] eqn:Ep.
  pose proof (pull_spec _ _ _ _ _ _ _ Ep) as Hps.
  destruct H1 as [m [Hm [Hst [Hfl Hdq]]]]. exists m. cbn.
  split; [exact Hm|]. split; [|split].
  - destruct (st w1); auto; [destruct Hst as [A [B C]]; congruence|].
    destruct Hst as [A|A]; [left; exact A | right; rewrite A; reflexivity].
  - intro A. destruct f; [apply orb_true_r | exfalso; apply A; reflexivity].
  - intro A. destruct (Hps A) as [B|B]; [rewrite (Hdq (or_introl B)); reflexivity|].
    destruct f; [apply orb_true_r | congruence].
Qed.

Lemma legal_after_send_ok w1 w s' m :
  Legal w -> flag w1 = flag w -> handed w1 = handed w -> queue w1 = queue w ->
  hand w1 = hand w -> st w1 = s' ->
  mon_run (MConn false) (trace w1) = Some m ->
  match s' with
  | Handshake => False
  | Accepted => exists t, m = MOpen t
  | Closed => closedish m = true \/ handed w = true
  end ->
  Legal w1.
Proof.
  intros [m0 [_ [_ [Hfl Hdq]]]] Hf Hh Hq Hha Hs Hm Hc. exists m.
  rewrite Hs, Hf, Hh, Hq, Hha. repeat split; auto. destruct s'; auto. destruct Hc.
Qed.

Lemma op_send_legal e w r w' :
  Legal w -> st w = Accepted -> fits Accepted e ->
  match e with EText _ | EBytes _ => True | _ => False end ->
  op_send e w = (r, w') -> Legal w'.
Proof.
  intros H Hst Hfit He Hs. unfold op_send in Hs.
  destruct (do_send e w) as [x w1] eqn:Ed.
  assert (Hfit' : fits (st w) e) by (rewrite Hst; exact Hfit).
  pose proof (do_send_legal _ _ _ _ H Hfit' Ed) as [Hf [Hh [Hp [Hq [Hha [Hcl Hx]]]]]].
  destruct x as [y|]; injection Hs as <- <-.
  - destruct Hx as [L _]. exact L.
  - destruct Hx as [Hs1 [_ [m [Hm Hme]]]].
    eapply (legal_after_send_ok w1 w Accepted m); eauto; [congruence|].
    destruct e; try destruct He; exact Hme.
Qed.

Lemma legal_ext2 w w' :
  Legal w -> trace w' = trace w -> st w' = st w -> flag w' = flag w ->
  (handed w = true -> handed w' = true) -> pump w' = pump w ->
  (has_disc (queue w') = true \/ (exists c, hand w' = Some (CDisc c)) ->
   has_disc (queue w) = true \/ (exists c, hand w = Some (CDisc c)) \/ handed w' = true) ->
  Legal w'.
Proof.
  intros [m [Hm [Hst [Hfl Hdq]]]] Ht Hs Hf Hh Hp Hq. exists m.
  rewrite Ht, Hs, Hf. repeat split; auto.
  - destruct (st w); auto.
    + destruct Hst as [A [B C]]. repeat split; auto. congruence.
    + destruct Hst as [A|A]; auto.
  - intro A. destruct (Hq A) as [B|[B|B]]; auto.
Qed.

Lemma legal_closed_by_disc w co :
  Legal w -> handed w = true ->
  Legal (set_st Closed (set_ccode co w)).
Proof.
  intros [m [Hm [Hst [Hfl Hdq]]]] Hh. exists m. cbn. repeat split; auto.
Qed.

Lemma op_recv_legal k c w r w' : Legal w -> op_recv k c w = (r, w') -> Legal w'.
Proof.
  intros H Hs. unfold op_recv in Hs.
  destruct (require_accepted w) eqn:Er; [injection Hs as <- <-; exact H|].
  assert (L : forall x w1, do_receive c w = (x, w1) -> Legal w1).
  { clear Hs. intros x w1 Hd. unfold do_receive, next_event in Hd.
    destruct (cap c =? 0)%nat.
    - destruct (client w) as [|e rest] eqn:Ecl.
      + injection Hd as <- <-. exact H.
      + assert (H1 : Legal (set_handed (handed w || match e with CDisc _ => true | _ => false end)
                                       (set_client rest w))).
        { apply (legal_ext2 w); auto; cbn.
          - intro A. rewrite A. reflexivity.
          - intros A. destruct A as [A|A]; auto. }
        destruct e; try (injection Hd as <- <-; exact H1).
        injection Hd as <- <-. apply legal_closed_by_disc; [exact H1|]. cbn. apply orb_true_r.
    - destruct (negb (pump w)); [injection Hd as <- <-; exact H|].
      set (w0 := match queue w with [] => advance c w | _ => w end) in *.
      assert (H0 : Legal w0) by (subst w0; destruct (queue w); [apply advance_legal|]; exact H).
      clearbody w0. destruct (queue w0) as [|e rest] eqn:Eq.
      + injection Hd as <- <-. exact H0.
      + assert (H1 : Legal (set_queue rest w0)).
        { apply (legal_ext2 w0); auto; cbn. intros [A|A]; [|auto].
          left. rewrite Eq. cbn. rewrite A. apply orb_true_r. }
        destruct e; try (injection Hd as <- <-; exact H1).
        injection Hd as <- <-. apply legal_closed_by_disc; [exact H1|]. cbn.
        destruct H0 as [m [_ [_ [_ Hdq]]]]. apply Hdq. left. rewrite Eq. reflexivity. }
  destruct (do_receive c w) as [x w1] eqn:Ed. specialize (L _ _ eq_refl).
  destruct x as [[e|x]|u]; injection Hs as <- <-; exact L.
Qed.

Lemma run_op_legal hr c o w r w' : Legal w -> run_op true hr c o w = (r, w') -> Legal w'.
Proof.
  intros H Hs. destruct o; cbn in Hs.
  - (* accept *)
    unfold op_accept in Hs.
    destruct (is_closed w) eqn:Ec; [injection Hs as <- <-; exact H|].
    destruct (st w) eqn:Est; try (injection Hs as <- <-; exact H).
    destruct s; try (injection Hs as <- <-; exact H).
    all: destruct h; try (destruct (negb (hdrs_ok c)); try (injection Hs as <- <-; exact H));
      try (injection Hs as <- <-; exact H).
    all: match type of Hs with
         | context [do_send ?e ?ww] =>
           destruct (do_send e ww) as [x w1] eqn:Ed;
           assert (Hfit : fits (st ww) e) by (rewrite Est; exact I);
           pose proof (do_send_legal _ _ _ _ H Hfit Ed) as [Hf [Hh [Hp [Hq [Hha [Hcl Hx]]]]]];
           destruct x as [y|]; injection Hs as <- <-;
           [destruct Hx as [L _]; exact L|];
           destruct Hx as [Hs1 [_ [m [Hm Hme]]]];
           eapply (legal_after_send_ok _ ww Accepted m); eauto; cbn; eauto
         end.
  - (* close *)
    unfold op_close in Hs. pose proof (legal_stop _ H) as H0.
    set (w0 := set_pump false (set_hand None w)) in *.
    destruct (code_check c0) as [co|x]; [|injection Hs as <- <-; exact H0].
    destruct (is_closed w0) eqn:Ec; [injection Hs as <- <-; exact H0|].
    destruct (do_send _ w0) as [x w1] eqn:Ed.
    assert (Hfit : fits (st w0) (EClose (or1000 co) ((reason || hr (or1000 co)) && reason_ok c))).
    { unfold is_closed in Ec. destruct (st w0); [exact I | exact I | discriminate]. }
    pose proof (do_send_legal _ _ _ _ H0 Hfit Ed) as [Hf [Hh [Hp [Hq [Hha [Hcl Hx]]]]]].
    destruct x as [y|]; injection Hs as <- <-.
    + destruct Hx as [L _]. exact L.
    + destruct Hx as [Hs1 [_ [m [Hm Hme]]]].
      eapply (legal_after_send_ok _ w0 Closed m); eauto. left. rewrite Hme. reflexivity.
  - (* send_text *)
    unfold op_send_text in Hs. destruct (require_accepted w) eqn:Er; [injection Hs as <- <-; exact H|].
    assert (Hst : st w = Accepted) by (unfold require_accepted in Er; destruct (st w); congruence).
    destruct p; [|injection Hs as <- <-; exact H].
    eapply op_send_legal; eauto; exact I.
  - unfold op_send_data in Hs. destruct (require_accepted w) eqn:Er; [injection Hs as <- <-; exact H|].
    assert (Hst : st w = Accepted) by (unfold require_accepted in Er; destruct (st w); congruence).
    destruct p; [|injection Hs as <- <-; exact H].
    eapply op_send_legal; eauto; exact I.
  - unfold op_send_media in Hs. destruct (require_accepted w) eqn:Er; [injection Hs as <- <-; exact H|].
    assert (Hst : st w = Accepted) by (unfold require_accepted in Er; destruct (st w); congruence).
    destruct bin; eapply op_send_legal; eauto; exact I.
  - eapply op_recv_legal; eauto.
  - eapply op_recv_legal; eauto.
  - eapply op_recv_legal; eauto.
  - injection Hs as <- <-. exact H.
  - injection Hs as <- <-. apply advance_legal. exact H.
Qed.
