(* C13 — the time at which a part's metadata is read does not matter: with one dictionary per
   yielded part, every read returns the view of the part's own headers. *)
From Coq Require Import ZArith NArith List Bool Arith Lia.
From Falcon.lib Require Import PyStr.
From Falcon.C14 Require Import Spec.
From Falcon.C13 Require Import Model ModelPart SpecPart ModelHeap.
Import ListNotations.
Local Open Scope nat_scope.

Lemma set_nth_length st a h : length (set_nth st a h) = length st.
Proof. revert a; induction st as [|x st IH]; intros [|a]; simpl; auto. Qed.

Lemma nth_set_nth_same st a h : a < length st -> nth a (set_nth st a h) [] = h.
Proof.
  revert a; induction st as [|x st IH]; intros [|a] H; simpl in *; try lia; auto.
  apply IH. lia.
Qed.

Lemma nth_set_nth_other st a b h : a <> b -> nth b (set_nth st a h) [] = nth b st [].
Proof.
  revert a b; induction st as [|x st IH]; intros [|a] [|b] H; simpl; auto; try congruence.
Qed.

Lemma set_nth_app_last st x h : set_nth (st ++ [x]) (length st) h = st ++ [h].
Proof. induction st as [|y st IH]; simpl; [reflexivity|]. rewrite IH. reflexivity. Qed.

(* the unshared run only ever appends: earlier dictionaries are never touched again *)
Lemma heap_run_spec : forall ps st r stf,
  heap_run false st ps = (r, stf) ->
  stf = st ++ map po_headers ps /\
  r = map (fun i => (length st + i, st ++ firstn (S i) (map po_headers ps))) (seq 0 (length ps)).
Proof.
  induction ps as [|o ps IH]; intros st r stf H; simpl in H.
  - inversion H; subst. simpl. rewrite app_nil_r. auto.
  - unfold alloc in H. rewrite set_nth_app_last in H.
    destruct (heap_run false (st ++ [po_headers o]) ps) as [r' stf'] eqn:E.
    inversion H; subst. apply IH in E as [E1 E2]. split.
    + rewrite E1. rewrite <- app_assoc. reflexivity.
    + simpl. f_equal; [rewrite Nat.add_0_r; reflexivity|].
      rewrite E2. rewrite <- seq_shift, map_map. apply map_ext. intro i.
      rewrite app_length. simpl. f_equal; [lia|]. rewrite <- app_assoc. reflexivity.
Qed.

Lemma nth_firstn_lt {A} (l : list A) i n d : i < n -> nth i (firstn n l) d = nth i l d.
Proof.
  revert i n; induction l as [|x l IH]; intros [|i] [|n] H; simpl; try lia; auto.
  apply IH. lia.
Qed.

Lemma reads_own : forall ps st times stf,
  stf = st ++ map po_headers ps ->
  reads (map (fun i => (length st + i, st ++ firstn (S i) (map po_headers ps))) (seq 0 (length ps)))
        (st ++ map po_headers ps) times
  = own_views ps times.
Proof.
  induction ps as [|o ps IH]; intros st times stf Hstf; [reflexivity|].
  assert (Hnow : forall x, read_meta (st ++ po_headers o :: x) (length st + 0) = view_of (po_headers o)).
  { intro x. unfold read_meta. rewrite Nat.add_0_r. rewrite app_nth2 by lia.
    rewrite Nat.sub_diag. reflexivity. }
  simpl length. simpl seq. rewrite map_cons. simpl firstn. simpl map at 2 3.
  cbn [reads own_views]. rewrite !Hnow.
  f_equal; try (destruct (hd MBefore times); reflexivity).
  specialize (IH (st ++ [po_headers o]) (List.tl times) _ eq_refl).
  rewrite <- IH. rewrite <- seq_shift, map_map.
  replace (st ++ map po_headers (o :: ps)) with ((st ++ [po_headers o]) ++ map po_headers ps)
    by (simpl; rewrite <- app_assoc; reflexivity).
  f_equal. apply map_ext. intro i. rewrite app_length. simpl.
  f_equal; [lia|]. rewrite <- app_assoc. reflexivity.
  rewrite <- app_assoc. reflexivity.
Qed.

Theorem metadata_read_time_independent : forall ps times,
  metadata_views false ps times = own_views ps times.
Proof.
  intros ps times. unfold metadata_views.
  destruct (heap_run false [] ps) as [r stf] eqn:E.
  apply heap_run_spec in E as [E1 E2]. subst. simpl.
  apply (reads_own ps [] times _ eq_refl).
Qed.

(* with ONE dictionary shared by all parts of an iteration (cleared and refilled per part) a
   late read reports a later part's values: the theorem above is not vacuous *)
Definition h_a : headers := [(s_content_type, [97]%N)].
Definition h_b : headers := [(s_content_type, [98]%N)].

Lemma late_read_wrong_if_shared :
  exists ps times, metadata_views true ps times <> own_views ps times.
Proof.
  exists [ {| po_headers := h_a; po_data := None |}; {| po_headers := h_b; po_data := None |} ],
         [MEnd; MEnd].
  vm_compute. discriminate.
Qed.
