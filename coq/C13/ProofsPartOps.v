(* C13 — properties of the BodyPart state machine (ModelPartOps): get_data()/get_media() caches,
   handler invocation accounting, get_text() round trip for the text charsets. *)
From Coq Require Import ZArith NArith List Bool Arith Lia.
From Falcon.lib Require Import PyStr Utf8.
From Falcon.gen Require Import ConstsC11.
Require Falcon.C11.Model.
From Falcon.C14 Require Import Spec.
From Falcon.C13 Require Import Model ModelPart ModelPartOps ProofsPart.
Import ListNotations.
Local Open Scope nat_scope.

Module C11 := Falcon.C11.Model.

(* ------------------------------------------------------------------ 3. _media is set once *)
Lemma get_media_cached hd hok h s k : s_media s = Some k -> get_media hd hok h s = (PMedia k, s).
Proof. intro H. unfold get_media. rewrite H. reflexivity. Qed.

Lemma get_media_result hd hok h s r s' : get_media hd hok h s = (r, s') ->
  forall k, r = PMedia k -> s_media s' = Some k.
Proof.
  unfold get_media. intros H k ->. destruct (s_media s) as [k0|] eqn:Em.
  - injection H as <- <-. exact Em.
  - destruct (content_type h) as [ct| |]; try discriminate H.
    destruct (C11.resolve_uncached C11.cfg0 hd (Some ct, s_text_plain, true)) as [hid| | |];
      try discriminate H.
    destruct (hok (s_calls s)) eqn:Eok; [|discriminate H].
    injection H as <- <-. reflexivity.
Qed.

Lemma prun_media_cached max_buffer dc hd hok h s k : s_media s = Some k ->
  forall ops, Forall (fun o => o = PGetMedia) ops ->
  prun max_buffer dc hd hok h s ops = (map (fun _ => PMedia k) ops, s).
Proof.
  intros Hm ops Hops. induction Hops as [|o ops Ho _ IH]; [reflexivity|].
  subst o. cbn [prun pstep map]. rewrite (get_media_cached hd hok h s k Hm). rewrite IH.
  reflexivity.
Qed.

Theorem part_media_parsed_once : forall max_buffer dc hd hok h s r s',
  get_media hd hok h s = (r, s') ->
  forall k, r = PMedia k ->
    s_media s' = Some k /\
    forall ops, Forall (fun o => o = PGetMedia) ops ->
      prun max_buffer dc hd hok h s' ops = (map (fun _ => PMedia k) ops, s').
Proof.
  intros max_buffer dc hd hok h s r s' H k Hr.
  pose proof (get_media_result hd hok h s r s' H k Hr) as Hm. split; [exact Hm|].
  apply prun_media_cached. exact Hm.
Qed.

(* ------------------------------------------------------------------ 5. _data is read once *)
Theorem part_data_read_once : forall max_buffer s r s',
  get_data max_buffer s = (r, s') ->
  s_data s' <> None /\
  forall r2 s2, get_data max_buffer s' = (r2, s2) ->
    s2 = s' /\ exists d, r2 = PBytes d /\ s_data s' = Some d.
Proof.
  intros max_buffer s r s' H.
  assert (Hd : exists d, s_data s' = Some d).
  { unfold get_data in H. destruct (s_data s) as [d|] eqn:Ed.
    - injection H as _ <-. exists d. exact Ed.
    - destruct (S max_buffer <=? length (firstn (S max_buffer) (s_rest s)));
        injection H as _ <-; eexists; reflexivity. }
  destruct Hd as [d Hd]. split; [rewrite Hd; discriminate|].
  intros r2 s2 H2. unfold get_data in H2. rewrite Hd in H2. injection H2 as <- <-.
  split; [reflexivity|]. exists d. split; [reflexivity | exact Hd].
Qed.

(* the quirk: after 'body part is too large' the truncated max_buffer + 1 bytes are cached
   and handed out by the next get_data() *)
Example part_data_too_large_then_cached :
  prun 2 s_utf8_default [] (fun _ => true) [] (pinit [1; 2; 3; 4; 5]%N) [PGetData; PGetData]
  = ([PTooLarge; PBytes [1; 2; 3]%N],
     {| s_rest := [4; 5]%N; s_data := Some [1; 2; 3]%N; s_media := None; s_calls := 0;
        s_log := [] |}).
Proof. vm_compute. reflexivity. Qed.

(* ------------------------------------------------------------------ 4. handler invocations *)
Definition same_media (s s1 : pstate) : Prop :=
  s_media s1 = s_media s /\ s_calls s1 = s_calls s /\ s_log s1 = s_log s.

Lemma get_data_frame max_buffer s : same_media s (snd (get_data max_buffer s)).
Proof.
  unfold get_data, same_media. destruct (s_data s); [cbn [snd]; auto|].
  destruct (S max_buffer <=? length (firstn (S max_buffer) (s_rest s))); cbn [snd s_media s_calls s_log];
    auto.
Qed.

Lemma get_text_state max_buffer dc h s :
  snd (get_text max_buffer dc h s) = s
  \/ snd (get_text max_buffer dc h s) = snd (get_data max_buffer s).
Proof.
  unfold get_text. destruct (content_type h) as [ct| |]; [|left; reflexivity|left; reflexivity].
  destruct (parse_header ct) as [mt ps].
  destruct (negb (str_eqb mt s_text_plain)); [left; reflexivity|].
  right. destruct (get_data max_buffer s) as [r s1]. cbn [snd].
  destruct r; try reflexivity.
  destruct (lookup_codec _); [|reflexivity]. destruct (decode_with _ _); reflexivity.
Qed.

Lemma get_text_frame max_buffer dc h s : same_media s (snd (get_text max_buffer dc h s)).
Proof.
  destruct (get_text_state max_buffer dc h s) as [E|E]; rewrite E.
  - unfold same_media. auto.
  - apply get_data_frame.
Qed.

Definition step_inv (s s1 : pstate) : Prop :=
  s_calls s <= s_calls s1
  /\ (s_media s <> None -> s_calls s1 = s_calls s /\ s_media s1 <> None)
  /\ length (s_log s1) = length (s_log s) + (s_calls s1 - s_calls s).

Lemma same_media_inv s s1 : same_media s s1 -> step_inv s s1.
Proof.
  intros (Hm & Hc & Hl). unfold step_inv. rewrite Hm, Hc, Hl. repeat split; auto; lia.
Qed.

Lemma get_media_inv hd hok h s : step_inv s (snd (get_media hd hok h s)).
Proof.
  assert (Hrefl : step_inv s s) by (apply same_media_inv; unfold same_media; auto).
  unfold get_media. destruct (s_media s) as [k0|] eqn:Em; [exact Hrefl|].
  destruct (content_type h) as [ct| |]; [|exact Hrefl|exact Hrefl].
  destruct (C11.resolve_uncached C11.cfg0 hd (Some ct, s_text_plain, true)) as [hid| | |];
    try exact Hrefl.
  cbn [snd]. unfold step_inv. cbn [s_calls s_media s_log]. rewrite Em.
  repeat split; try lia; try congruence.
  rewrite app_length. cbn [length]. lia.
Qed.

Lemma pstep_inv max_buffer dc hd hok h s o :
  step_inv s (snd (pstep max_buffer dc hd hok h s o)).
Proof.
  destruct o as [size| | |]; cbn [pstep].
  - destruct (sp_read size (s_rest s)) as [out r]. cbn [snd]. apply same_media_inv.
    unfold same_media. cbn. auto.
  - apply same_media_inv, get_data_frame.
  - apply same_media_inv, get_text_frame.
  - apply get_media_inv.
Qed.

Lemma step_inv_trans s s1 s2 : step_inv s s1 -> step_inv s1 s2 -> step_inv s s2.
Proof.
  intros (A1 & A2 & A3) (B1 & B2 & B3). unfold step_inv. repeat split.
  - lia.
  - destruct (A2 H) as [E1 N1]. destruct (B2 N1) as [E2 _]. lia.
  - destruct (A2 H) as [_ N1]. destruct (B2 N1) as [_ N2]. exact N2.
  - lia.
Qed.

Lemma prun_inv max_buffer dc hd hok h : forall ops s,
  step_inv s (snd (prun max_buffer dc hd hok h s ops)).
Proof.
  induction ops as [|o ops IH]; intro s.
  - cbn [prun snd]. apply same_media_inv. unfold same_media. auto.
  - cbn [prun]. pose proof (pstep_inv max_buffer dc hd hok h s o) as H1.
    destruct (pstep max_buffer dc hd hok h s o) as [r s1]. cbn [snd] in H1.
    specialize (IH s1). destruct (prun max_buffer dc hd hok h s1 ops) as [rs s2].
    cbn [snd] in *. exact (step_inv_trans s s1 s2 H1 IH).
Qed.

Theorem part_media_invocations : forall max_buffer dc hd hok h ops s rs s',
  prun max_buffer dc hd hok h s ops = (rs, s') ->
  s_calls s <= s_calls s'
  /\ (s_media s <> None -> s_calls s' = s_calls s)
  /\ length (s_log s') = length (s_log s) + (s_calls s' - s_calls s).
Proof.
  intros max_buffer dc hd hok h ops s rs s' H.
  pose proof (prun_inv max_buffer dc hd hok h ops s) as Hi. rewrite H in Hi. cbn [snd] in Hi.
  destruct Hi as (A1 & A2 & A3). repeat split; [exact A1 | | exact A3].
  intro Hm. exact (proj1 (A2 Hm)).
Qed.

(* a handler is invoked exactly by a get_media() that finds _media unset and resolves *)
Lemma get_media_invokes hd hok h s :
  s_calls (snd (get_media hd hok h s)) = S (s_calls s) <->
  (s_media s = None /\ exists ct hid, content_type h = AOk ct /\
     C11.resolve_uncached C11.cfg0 hd (Some ct, s_text_plain, true) = C11.RHandler hid).
Proof.
  unfold get_media. destruct (s_media s) as [k0|] eqn:Em.
  - cbn [snd]. split; [lia | intros [E _]; discriminate E].
  - destruct (content_type h) as [ct| |].
    + destruct (C11.resolve_uncached C11.cfg0 hd (Some ct, s_text_plain, true)) as [hid| | |] eqn:Er;
        cbn [snd s_calls]; split; try lia;
        try (intros [_ (ct' & hid' & Ec & Er')]; injection Ec as <-; rewrite Er in Er';
             discriminate Er').
      intros _. split; [reflexivity|]. exists ct, hid. split; [reflexivity | exact Er].
    + cbn [snd]. split; [lia | intros [_ (ct' & hid' & Ec & _)]; discriminate Ec].
    + cbn [snd]. split; [lia | intros [_ (ct' & hid' & Ec & _)]; discriminate Ec].
Qed.

(* ------------------------------------------------------------------ 1. get_text round trip *)
Definition charset_of (name : option str) : str :=
  match name with Some n => n | None => s_utf8_default end.

Definition text_case (name : option str) (cd : codec) : Prop :=
  (name = None /\ cd = CUtf8) \/ (exists n, name = Some n /\ In (n, cd) text_charsets).

Lemma text_ctype_facts name cd : text_case name cd ->
  ascii_decode (text_ctype name) = Some (text_ctype name)
  /\ parse_header (text_ctype name)
     = (s_text_plain, match name with Some n => [(s_charset, n)] | None => [] end)
  /\ lookup_codec (charset_of name) = Some cd.
Proof.
  intros [[-> ->] | (n & -> & Hin)].
  - vm_compute. repeat split; reflexivity.
  - unfold text_charsets in Hin. cbn [In] in Hin.
    repeat (destruct Hin as [Hin|Hin];
            [injection Hin as <- <-; vm_compute; repeat split; reflexivity|]).
    destruct Hin.
Qed.

Lemma decode_encode_with cd t : encodable cd t = true -> decode_with cd (encode_with cd t) = Some t.
Proof.
  destruct cd; cbn [encodable decode_with encode_with]; intro H.
  - apply utf8_decode_encode. exact H.
  - reflexivity.
  - unfold ascii_decode. rewrite H. reflexivity.
Qed.

Lemma get_data_init max_buffer content : length content <= max_buffer ->
  get_data max_buffer (pinit content)
  = (PBytes content,
     {| s_rest := []; s_data := Some content; s_media := None; s_calls := 0; s_log := [] |}).
Proof.
  intro H. unfold get_data, pinit. cbn [s_data s_rest s_media s_calls s_log].
  rewrite firstn_all2 by lia. rewrite skipn_all2 by lia.
  replace (S max_buffer <=? length content) with false by (symmetry; apply Nat.leb_gt; lia).
  reflexivity.
Qed.

Lemma content_type_single ct : ascii_decode ct = Some ct ->
  content_type [(s_content_type, ct)] = AOk ct.
Proof.
  intro H. unfold content_type. cbn [hget].
  replace (str_eqb s_content_type s_content_type) with true by reflexivity. rewrite H. reflexivity.
Qed.

Lemma content_type_after_cd v ct : ascii_decode ct = Some ct ->
  content_type [(s_content_disposition, v); (s_content_type, ct)] = AOk ct.
Proof.
  intro H. unfold content_type. cbn [hget].
  replace (str_eqb s_content_type s_content_disposition) with false by reflexivity.
  replace (str_eqb s_content_type s_content_type) with true by reflexivity. rewrite H. reflexivity.
Qed.

(* get_text on a fresh part whose content type is the reference text type *)
Lemma get_text_roundtrip_gen max_buffer h name cd t :
  content_type h = AOk (text_ctype name) -> text_case name cd ->
  encodable cd t = true -> length (encode_with cd t) <= max_buffer ->
  get_text max_buffer s_utf8_default h (pinit (encode_with cd t))
  = (PText (Some t),
     {| s_rest := []; s_data := Some (encode_with cd t); s_media := None; s_calls := 0;
        s_log := [] |}).
Proof.
  intros Hct Hcase Henc Hlen. destruct (text_ctype_facts name cd Hcase) as (_ & Hph & Hlk).
  unfold get_text. rewrite Hct, Hph.
  replace (negb (str_eqb s_text_plain s_text_plain)) with false by reflexivity.
  rewrite (get_data_init max_buffer _ Hlen).
  assert (Ecs : forall ps, ps = match name with Some n => [(s_charset, n)] | None => [] end ->
                match pget ps s_charset with Some x => x | None => s_utf8_default end
                = charset_of name).
  { intros ps ->. destruct name; reflexivity. }
  rewrite (Ecs _ eq_refl), Hlk. rewrite (decode_encode_with cd t Henc). reflexivity.
Qed.

Theorem part_text_roundtrip : forall max_buffer name cd t,
  (name = None /\ cd = CUtf8) \/ (exists n, name = Some n /\ In (n, cd) text_charsets) ->
  encodable cd t = true -> length (encode_with cd t) <= max_buffer ->
  let h := [(s_content_type, text_ctype name)] in
  get_text max_buffer s_utf8_default h (pinit (encode_with cd t))
  = (PText (Some t),
     {| s_rest := []; s_data := Some (encode_with cd t); s_media := None; s_calls := 0;
        s_log := [] |}).
Proof.
  intros max_buffer name cd t Hcase Henc Hlen h. subst h.
  apply (get_text_roundtrip_gen max_buffer _ name cd t); try assumption.
  apply content_type_single. exact (proj1 (text_ctype_facts name cd Hcase)).
Qed.

(* the dictionary expect_headers builds for a field: content-disposition first *)
Theorem part_text_roundtrip_cd : forall max_buffer name cd t v,
  (name = None /\ cd = CUtf8) \/ (exists n, name = Some n /\ In (n, cd) text_charsets) ->
  encodable cd t = true -> length (encode_with cd t) <= max_buffer ->
  let h := [(s_content_disposition, v); (s_content_type, text_ctype name)] in
  get_text max_buffer s_utf8_default h (pinit (encode_with cd t))
  = (PText (Some t),
     {| s_rest := []; s_data := Some (encode_with cd t); s_media := None; s_calls := 0;
        s_log := [] |}).
Proof.
  intros max_buffer name cd t v Hcase Henc Hlen h. subst h.
  apply (get_text_roundtrip_gen max_buffer _ name cd t); try assumption.
  apply content_type_after_cd. exact (proj1 (text_ctype_facts name cd Hcase)).
Qed.

(* ------------------------------------------------------------------ 2. not text/plain *)
Theorem part_text_not_text_plain : forall max_buffer dc h s ct,
  content_type h = AOk ct -> fst (parse_header ct) <> s_text_plain ->
  get_text max_buffer dc h s = (PText None, s).
Proof.
  intros max_buffer dc h s ct Hct Hne. unfold get_text. rewrite Hct.
  destruct (parse_header ct) as [mt ps]. cbn [fst] in Hne.
  apply str_eqb_neq in Hne. rewrite Hne. reflexivity.
Qed.

(* ------------------------------------------------------------------ 6. a failed handler
   invocation is not remembered *)
Lemma part_failed_media_not_cached hd hok h s ct hid :
  s_media s = None -> content_type h = AOk ct ->
  C11.resolve_uncached C11.cfg0 hd (Some ct, s_text_plain, true) = C11.RHandler hid ->
  hok (s_calls s) = false ->
  get_media hd hok h s
  = (PHandlerError (s_calls s),
     {| s_rest := []; s_data := s_data s; s_media := None; s_calls := S (s_calls s);
        s_log := s_log s ++ [(hid, ct, s_rest s)] |}).
Proof.
  intros Hm Hct Hr Hok. unfold get_media. rewrite Hm, Hct, Hr, Hok. reflexivity.
Qed.

(* the second get_media() invokes the handler again, on the now empty stream *)
Example part_failed_media_twice :
  prun 10 s_utf8_default [(media_json, 0%N)] (fun _ => false) [(s_content_type, media_json)]
       (pinit [1; 2]%N) [PGetMedia; PGetMedia]
  = ([PHandlerError 0; PHandlerError 1],
     {| s_rest := []; s_data := None; s_media := None; s_calls := 2;
        s_log := [(0%N, media_json, [1; 2]%N); (0%N, media_json, [])] |}).
Proof. vm_compute. reflexivity. Qed.
