(* C13 — the reference side: an encoder of multipart/form-data bodies and, for a form given
   as a list of parts, what iterating the parsed form must yield under a consumption script
   and parse limits (no parsing involved).  [expected_run] is the boolean-checkable oracle the
   harness applies to what the real parsers returned. *)
From Coq Require Import ZArith NArith List Bool Arith Lia.
From Falcon.lib Require Import PyStr.
From Falcon.gen Require Import ConstsC13.
From Falcon.C14 Require Import Spec.
From Falcon.C13 Require Import Model.
Import ListNotations.
Local Open Scope nat_scope.

Record part := { p_headers : list (bytes * bytes); p_content : bytes }.

Definition enc_header (nv : bytes * bytes) : bytes := fst nv ++ COLON_SP ++ snd nv ++ CRLF.

Definition enc_headers (hs : list (bytes * bytes)) : bytes := concat (map enc_header hs).

Definition encode_part (b : bytes) (p : part) : bytes :=
  DASHDASH ++ b ++ CRLF ++ enc_headers (p_headers p) ++ CRLF ++ p_content p ++ CRLF.

(* preamble, parts, close delimiter, optional final CRLF, epilogue *)
Definition encode_form (ps : list part) (b pre epi : bytes) (fin : bool) : bytes :=
  pre ++ concat (map (encode_part b) ps) ++ DASHDASH ++ b ++ DASHDASH
      ++ (if fin then CRLF else []) ++ epi.

(* the header dictionary a part must present: allowed names only, lower-cased, last wins *)
Fixpoint expect_headers (hs : list (bytes * bytes)) (h : headers) : headers :=
  match hs with
  | [] => h
  | (n, v) :: tl =>
    let n' := lower n in
    if mem n' mp_ALLOWED_CONTENT_HEADERS then expect_headers tl (hset h n' v)
    else expect_headers tl h
  end.

(* length of the header block as the parser sees it (without the closing CRLF CRLF) *)
Definition block_len (p : part) : nat := length (enc_headers (p_headers p)) - 2.

Section Expected.
Variable cs : nat.

Fixpoint expected_run (c : cfg) (seen : nat) (ps : list part) (script : list action)
  : list part_obs * status :=
  match ps with
  | [] => ([], Done)
  | p :: ps' =>
    if max_headers c <? block_len p then ([], Failed EHeaders) else
    let seen' := S seen in
    if (0 <? max_count c) && (max_count c <? seen') then ([], Failed ECount) else
    let hs := expect_headers (p_headers p) [] in
    match hd ASkip script with
    | ASkip =>
      let '(r, st) := expected_run c seen' ps' (tl script) in
      ({| po_headers := hs; po_data := None |} :: r, st)
    | ARead size =>
      let '(r, st) := expected_run c seen' ps' (tl script) in
      ({| po_headers := hs; po_data := Some (firstn (lim size (p_content p)) (p_content p)) |} :: r, st)
    | AGetData =>
      if max_buffer c <? length (p_content p)
      then ([{| po_headers := hs; po_data := None |}], Failed ETooLarge)
      else let '(r, st) := expected_run c seen' ps' (tl script) in
           ({| po_headers := hs; po_data := Some (p_content p) |} :: r, st)
    | AReadUntil d size =>
      if bad_delim cs d then ([{| po_headers := hs; po_data := None |}], Crash)
      else let '(r, st) := expected_run c seen' ps' (tl script) in
           ({| po_headers := hs;
               po_data := Some (firstn (upto d size (p_content p)) (p_content p)) |} :: r, st)
    end
  end.

End Expected.

(* ---- well-formedness of the encoder's input (what a conforming client guarantees) *)

(* [d] does not occur in [x ++ d] before position |x| (so neither inside x nor straddling) *)
Definition no_early (d x : bytes) : bool :=
  match find d (x ++ d) with Some i => i =? length x | None => false end.

Definition no_crlf (x : bytes) : bool := negb (char_in 13%N x) && negb (char_in 10%N x).

Definition wf_header (nv : bytes * bytes) : bool :=
  no_crlf (fst nv) && no_crlf (snd nv) && no_early COLON_SP (fst nv)
  && (negb (str_eqb (lower (fst nv)) s_cte) || str_eqb (snd nv) s_binary).

Definition wf_part (b : bytes) (p : part) : bool :=
  match p_headers p with [] => false | _ => true end
  && forallb wf_header (p_headers p)
  && no_early (CRLF ++ DASHDASH ++ b) (p_content p).

Definition wf_form (cs : nat) (b pre : bytes) (ps : list part) : bool :=
  (1 <=? length b) && (length b + 4 <=? cs) && (4 <=? cs)
  && no_early (DASHDASH ++ b) pre
  && forallb (wf_part b) ps.

(* ---- boolean comparison of an observed run with the expected one *)
Fixpoint headers_eqb (a b : headers) : bool :=
  match a, b with
  | [], [] => true
  | (k, v) :: a', (k', v') :: b' => str_eqb k k' && str_eqb v v' && headers_eqb a' b'
  | _, _ => false
  end.

Definition optb_eqb (a b : option bytes) : bool :=
  match a, b with
  | None, None => true
  | Some x, Some y => str_eqb x y
  | _, _ => false
  end.

Fixpoint obs_eqb (a b : list part_obs) : bool :=
  match a, b with
  | [], [] => true
  | x :: a', y :: b' =>
    headers_eqb (po_headers x) (po_headers y) && optb_eqb (po_data x) (po_data y) && obs_eqb a' b'
  | _, _ => false
  end.

Definition perr_eqb (a b : perr) : bool :=
  match a, b with
  | EStructure, EStructure | EHeaders, EHeaders | ECTE, ECTE | ECount, ECount
  | ETooLarge, ETooLarge => true
  | _, _ => false
  end.

Definition status_eqb (a b : status) : bool :=
  match a, b with
  | Done, Done => true
  | Failed x, Failed y => perr_eqb x y
  | Crash, Crash => true
  | OutOfFuel, OutOfFuel => true
  | _, _ => false
  end.

(* oracle 1 (encoder-produced bodies): the observed run is the expected one *)
Definition oracle_roundtrip (cs : nat) (c : cfg) (ps : list part) (script : list action)
           (observed : list part_obs * status) : bool :=
  let '(e, st) := expected_run cs c 0 ps script in
  obs_eqb (fst observed) e && status_eqb (snd observed) st.

(* oracle 2 (any body, e.g. corrupted): only the multipart parse error, never anything else *)
Definition oracle_no_crash (observed : list part_obs * status) : bool :=
  match snd observed with Done | Failed _ => true | Crash | OutOfFuel => false end.
