(* C13 — the reference encoder at the level of FORM FIELDS: name, optional filename (plain
   quoted or RFC 5987 extended filename*=UTF-8''...), optional content type, content.
   [field_part] turns a field into the header/content part that Spec.encode_form serialises;
   [wf_field] is the exact domain the encoder can represent. *)
From Coq Require Import ZArith NArith List Bool Arith Lia.
From Falcon.lib Require Import PyStr Utf8.
From Falcon.C14 Require Import Spec.
From Falcon.C13 Require Import Model Spec ModelPart.
Import ListNotations.
Local Open Scope nat_scope.

Record field := {
  f_name : str;                           (* code points *)
  f_filename : option (bool * str);       (* (true, f): filename*=UTF-8''pct(f); (false, f): quoted filename *)
  f_ctype : option str;                   (* ASCII *)
  f_content : bytes }.

Definition s_cd_hdr : bytes :=            (* Content-Disposition *)
  [67;111;110;116;101;110;116;45;68;105;115;112;111;115;105;116;105;111;110]%N.
Definition s_ct_hdr : bytes := [67;111;110;116;101;110;116;45;84;121;112;101]%N.   (* Content-Type *)
Definition s_form_data_name : str :=      (* form-data; name=DQUOTE *)
  [102;111;114;109;45;100;97;116;97;59;32;110;97;109;101;61;34]%N.
Definition s_filename_q : str :=          (* ; filename=DQUOTE *)
  [59;32;102;105;108;101;110;97;109;101;61;34]%N.
Definition s_filename_ext : str :=        (* ; filename*=UTF-8'' *)
  [59;32;102;105;108;101;110;97;109;101;42;61;85;84;70;45;56;39;39]%N.
Definition dq : N := 34%N.

(* percent-encode every byte that is not an RFC 3986 unreserved character *)
Definition unreserved (c : N) : bool :=
  ((48 <=? c) && (c <=? 57) || (65 <=? c) && (c <=? 90) || (97 <=? c) && (c <=? 122)
   || (c =? 45) || (c =? 46) || (c =? 95) || (c =? 126))%N.
Definition hexdig (n : N) : N := (if n <? 10 then 48 + n else 55 + n)%N.
Definition pct_byte (c : N) : str :=
  if unreserved c then [c] else [37%N; hexdig (c / 16); hexdig (c mod 16)].
Definition pct_encode (b : bytes) : str := flat_map pct_byte b.

(* the Content-Disposition value, as text *)
Definition cd_value (name : str) (fn : option (bool * str)) : str :=
  s_form_data_name ++ name ++ [dq] ++
  match fn with
  | None => []
  | Some (false, f) => s_filename_q ++ f ++ [dq]
  | Some (true, f) => s_filename_ext ++ pct_encode (encode f)
  end.

Definition field_part (f : field) : part :=
  {| p_headers :=
       (s_cd_hdr, encode (cd_value (f_name f) (f_filename f)))
         :: match f_ctype f with Some ct => [(s_ct_hdr, ct)] | None => [] end;
     p_content := f_content f |}.

(* what a quoted parameter value can carry: Unicode scalar values except the double quote,
   the backslash, CR and LF *)
Definition quotable (s : str) : bool :=
  forallb (fun c => scalar c && negb (c =? 34)%N && negb (c =? 92)%N
                    && negb (c =? 13)%N && negb (c =? 10)%N) s.

Definition wf_filename (fn : option (bool * str)) : bool :=
  match fn with
  | None => true
  | Some (false, f) => quotable f
  | Some (true, f) => match f with [] => false | _ => forallb scalar f end
  end.

Definition wf_ctype (ct : option str) : bool :=
  match ct with
  | None => true
  | Some s => is_ascii s && negb (char_in 13%N s) && negb (char_in 10%N s)
  end.

(* the domain of the reference encoder *)
Definition wf_field (b : bytes) (f : field) : bool :=
  quotable (f_name f) && wf_filename (f_filename f) && wf_ctype (f_ctype f)
  && no_early (CRLF ++ DASHDASH ++ b) (f_content f).

(* what iterating the parsed form must present for a field *)
Definition field_ctype (f : field) : str :=
  match f_ctype f with Some s => s | None => s_text_plain end.
Definition field_filename (f : field) : option str :=
  match f_filename f with Some (_, s) => Some s | None => None end.

Record view := { v_ctype : ares str; v_name : ares (option str); v_filename : ares (option str) }.

Definition view_of (h : headers) : view :=
  {| v_ctype := content_type h; v_name := part_name h; v_filename := part_filename h |}.

Definition field_view (f : field) : view :=
  {| v_ctype := AOk (field_ctype f); v_name := AOk (Some (f_name f));
     v_filename := AOk (field_filename f) |}.
