(* C13 x C14 — the multipart parser running on the ASYNC buffered reader model
   (ModelReaders.aparse_loop / parse_form_async) is the parser over the flat cursor
   (Model.parse_loop / parse_form), for every way the transport chunks the body.

   The part stream is a child reader over the parent's suspended _iter_delimited generator;
   the application's action runs on the child, and the loop continues on the parent wherever
   the child's read-ahead left it (the child is abandoned, not exhausted).  The parent then
   stands somewhere between what the child consumed and the end of the part; the next
   pipe_until(delimiter) lands at the same place from anywhere in that range
   (parse_loop_skip).

   Scripts are required to be [script_ok]: stream.read_until(d, size) with a delimiter length
   outside [1, chunk_size] is NOT chunking-independent in the flat-cursor sense — the async
   reader returns b'' for size = 0 without ever starting the generator (no ValueError),
   while the cursor-level parser reports the ValueError (Crash).  See the end of the file. *)
From Coq Require Import ZArith NArith List Bool Arith Lia.
From Falcon.lib Require Import PyStr.
From Falcon.gen Require Import ConstsC13.
From Falcon.C14 Require Import Spec ModelAsync ProofsSync ProofsFind ProofsAsync ProofsAsyncUntil
  ProofsAsyncHistory.
From Falcon.C13 Require Import Model ModelReaders Spec ProofsNoCrash ProofsRoundtrip.
Import ListNotations.
Local Open Scope nat_scope.

(* ================================================================== 1. the cursor side *)
Lemma bad_delim_false_gd : forall cs d, bad_delim cs d = false -> 1 <= length d /\ length d <= cs.
Proof. intros cs d H. apply ProofsAsyncUntil.bad_delim_ok. rewrite H. reflexivity. Qed.

Lemma gd_bad_delim : forall cs d, 1 <= length d -> length d <= cs -> bad_delim cs d = false.
Proof.
  intros cs d H1 H2. unfold bad_delim. destruct (Nat.eqb_spec (length d) 0); [lia|].
  destruct (Nat.ltb_spec cs (length d)); [lia|]. reflexivity.
Qed.

Lemma cut_length : forall d r, length (cut d r) = upto d None r.
Proof.
  intros d r. rewrite cut_firstn_upto, firstn_length.
  pose proof (upto_le_length d None r). lia.
Qed.

(* from anywhere before the first delimiter, the delimiter is equally far *)
Lemma upto_skipn : forall d r t, t <= upto d None r ->
  upto d None (skipn t r) = upto d None r - t.
Proof.
  intros d r t Ht. unfold upto, lim in *. destruct (find d r) as [i|] eqn:Ef.
  - assert (Hti : t <= i) by lia.
    rewrite (find_skipn_Some_le d r i t Ef Hti). rewrite skipn_length. lia.
  - rewrite (find_skipn_None_all d r t Ef). rewrite skipn_length. reflexivity.
Qed.

Lemma tail_skipn : forall d r t, t <= upto d None r ->
  skipn (upto d None (skipn t r)) (skipn t r) = skipn (upto d None r) r.
Proof.
  intros d r t Ht. rewrite (upto_skipn d r t Ht), skipn_add. f_equal. lia.
Qed.

(* pipe_until(d, consume_delimiter=True) on the cursor *)
Lemma sp_pipe_until_eq : forall cs d X, bad_delim cs d = false ->
  sp_op cs (OPipeUntil d true) X =
  if startswith (skipn (upto d None X) X) d
  then (RBytes (firstn (upto d None X) X), skipn (length d) (skipn (upto d None X) X))
  else (RDelimErr (firstn (upto d None X) X), skipn (upto d None X) X).
Proof.
  intros cs d X Hd. cbn [sp_op]. rewrite Hd. unfold sp_until.
  destruct (startswith (skipn (upto d None X) X) d); reflexivity.
Qed.

(* GOAL 1 *)
Lemma parse_loop_skip : forall cs c fuel (d : bytes) seen script r k t,
  1 <= length d -> length d <= cs -> k <= t -> t <= length (cut d r) ->
  parse_loop cs c fuel false d seen script (skipn t r)
  = parse_loop cs c fuel false d seen script (skipn k r).
Proof.
  intros cs c fuel d seen script r k t Hd1 Hd2 Hkt Ht. rewrite cut_length in Ht.
  destruct fuel as [|f]; [reflexivity|]. cbn [parse_loop].
  pose proof (gd_bad_delim cs d Hd1 Hd2) as Hbd.
  rewrite !(sp_pipe_until_eq cs d _ Hbd).
  rewrite (tail_skipn d r t Ht), (tail_skipn d r k) by lia.
  destruct (startswith (skipn (upto d None r) r) d); reflexivity.
Qed.

(* a successful pipe_until(d, consume) consumes at least the delimiter *)
Lemma sp_pipe_until_shrinks : forall cs d X w r1, bad_delim cs d = false ->
  sp_op cs (OPipeUntil d true) X = (RBytes w, r1) -> length r1 < length X.
Proof.
  intros cs d X w r1 Hd H. rewrite (sp_pipe_until_eq cs d X Hd) in H.
  destruct (bad_delim_false_gd cs d Hd) as [Hd1 _].
  destruct (startswith (skipn (upto d None X) X) d) eqn:Es; [|discriminate].
  inversion H; subst w r1. apply startswith_length in Es.
  rewrite skipn_length in Es. rewrite !skipn_length. lia.
Qed.

Lemma sp_op_len : forall cs o v r v', async_op cs o = true -> sp_op cs o v = (r, v') ->
  length v' <= length v.
Proof.
  intros cs o v r v' Ho H. pose proof (sp_op_suffix_async cs o v r v' Ho H) as Hs.
  rewrite Hs at 1. rewrite skipn_length. lia.
Qed.

(* ================================================================== 2. the reader side *)
Section Generic.
Variable S : Type.
Variable nxt : S -> option bytes * S.
Variable sabs : S -> bytes.
Variable smeas : S -> nat.
Variable SP SD : S -> Prop.
Variable cs F B T : nat.
Hypothesis Hcs4 : 4 <= cs.
Hypothesis HBF3 : B + 3 <= F.     (* room for one delimited child *)
Hypothesis Hnxt : forall s, SP s ->
                            match nxt s with
                            | (Some c, s') => sabs s = c ++ sabs s' /\ smeas s' < smeas s /\ SP s'
                            | (None, s') => sabs s = [] /\ SP s' /\ SD s'
                            end.
Variable c : cfg.

Notation aabs := (aabs S sabs).
Notation AInv := (AInv S sabs smeas SP SD B T).

Lemma cs_pos : 0 < cs. Proof. lia. Qed.
Lemma HBF : B <= F. Proof. lia. Qed.
Lemma HBFc : B + 3 <= F. Proof. exact HBF3. Qed.

(* ---- the part stream: a child over the parent's generator, delimiter [d] *)
Section Child.
Variable d : bytes.
Hypothesis Hd1 : 1 <= length d.
Hypothesis Hd2 : length d <= cs.
Variable Rc : bytes.

Notation PS := (dgen * astate S)%type.
Notation cnxt := (child_nxt S nxt cs true F d).
Notation csabs := (cabs S sabs d).
Notation csmeas := (cmeas S smeas).
Notation cSP := (CSP S sabs smeas SP SD B T d Rc).
Notation cSD := (CSD S sabs d).
Notation CAInv := (ProofsAsync.AInv PS csabs csmeas cSP cSD (B + 3)).
Notation caabs := (ProofsAsync.aabs PS csabs).

Lemma cHnxt : forall p, cSP p ->
  match cnxt p with
  | (Some c, p') => csabs p = c ++ csabs p' /\ csmeas p' < csmeas p /\ cSP p'
  | (None, p') => csabs p = [] /\ cSP p' /\ cSD p'
  end.
Proof. exact (child_Hnxt S nxt sabs smeas SP SD cs F B T cs_pos HBF Hnxt d Hd1 Hd2 Rc). Qed.

(* what the parent's generator still has to yield is a suffix of what the child has not read *)
Lemma child_suffix : forall T' s, CAInv T' s ->
  exists j, j <= length (caabs s) /\ csabs (asrc s) = skipn j (caabs s).
Proof.
  clear Hcs4 HBF3 Hnxt Hd1 Hd2.
  intros T' s HI. destruct HI as (_ & _ & _ & _ & _ & _ & _ & _ & HSD).
  unfold ProofsAsync.aabs, pending. destruct (nph PS s) eqn:Eph.
  - exists (length (skipn (abpos s) (abuf s)) + length (nacc PS s)). split.
    + rewrite !app_length. lia.
    + rewrite app_assoc. rewrite <- app_length. rewrite skipn_app_exact. reflexivity.
  - exists (length (skipn (abpos s) (abuf s) ++ [])). split; [lia|].
    rewrite skipn_all. apply CSD_cabs. apply HSD. discriminate.
  - exists (length (skipn (abpos s) (abuf s) ++ [])). split; [lia|].
    rewrite skipn_all. apply CSD_cabs. apply HSD. discriminate.
Qed.

(* after the child has consumed [k] bytes of the part, the abandoned parent satisfies its
   invariant and stands at [t] bytes into the part, k <= t <= length of the part *)
Lemma child_after : forall W T' s k,
  Rc = skipn (upto d None W) W -> CAInv T' s -> k <= upto d None W ->
  caabs s = skipn k (firstn (upto d None W) W) ->
  AInv (snd (asrc s)) /\
  exists t, k <= t /\ t <= upto d None W /\ aabs (snd (asrc s)) = skipn t W.
Proof.
  clear Hcs4 HBF3 Hnxt Hd1 Hd2.
  intros W T' s k HR HI Hk Ha.
  destruct (child_suffix T' s HI) as (j & Hj & Hsuf).
  destruct HI as (_ & _ & _ & _ & _ & _ & _ & HSP & _).
  destruct HSP as [[HIp _] HRc]. split; [exact HIp|].
  pose proof (upto_le_length d None W) as Hle.
  set (u := upto d None W) in *.
  assert (Hlb : length (firstn u W) = u) by (rewrite firstn_length; lia).
  rewrite Ha in Hsuf, Hj. rewrite skipn_length, Hlb in Hj. rewrite skipn_add in Hsuf.
  exists (k + j). split; [lia|]. split; [lia|].
  rewrite <- (cabs_tailrest S sabs d (asrc s)). rewrite Hsuf, HRc, HR.
  rewrite <- (firstn_skipn u W) at 3. rewrite skipn_app_l by lia. reflexivity.
Qed.

End Child.

(* ---- the application's action on the part stream *)
(* what the cursor-level parser does for action [a] on the part [body = cut delim' r3],
   as (data, stop status, bytes consumed) *)
Definition spec_action (delim' : bytes) (a : action) (r3 : bytes)
  : option bytes * option status * nat :=
  let body := cut delim' r3 in
  match a with
  | ASkip => (None, None, 0)
  | ARead size => let out := fst (sp_read size body) in (Some out, None, length out)
  | AGetData =>
    let out := firstn (Datatypes.S (max_buffer c)) body in
    if Datatypes.S (max_buffer c) <=? length out then (None, Some (Failed ETooLarge), 0)
    else (Some out, None, length out)
  | AReadUntil dd size =>
    match sp_op cs (OReadUntil dd size false) body with
    | (RBytes out, _) => (Some out, None, length out)
    | _ => (None, Some Crash, 0)
    end
  end.

Definition action_ok (a : action) : Prop :=
  match a with AReadUntil dd _ => bad_delim cs dd = false | _ => True end.

Lemma async_action_spec : forall delim' a p3 od ost p4,
  1 <= length delim' -> length delim' <= cs -> action_ok a -> AInv p3 ->
  async_action S nxt cs F c delim' a p3 = (od, ost, p4) ->
  exists k, spec_action delim' a (aabs p3) = (od, ost, k) /\
    (ost = None ->
     AInv p4 /\ exists t, k <= t /\ t <= length (cut delim' (aabs p3)) /\
                          aabs p4 = skipn t (aabs p3)).
Proof.
  intros delim' a p3 od ost p4 Hd1 Hd2 Hok HI H.
  set (W := aabs p3) in *. set (u := upto delim' None W).
  set (Rc := skipn u W).
  destruct (child_init S sabs smeas SP SD B T delim' Rc p3 HI eq_refl) as [HIc Hac].
  fold W in HIc, Hac. fold u in HIc, Hac.
  assert (Hbody : cut delim' W = firstn u W) by apply cut_firstn_upto.
  assert (Hlb : length (firstn u W) = u).
  { rewrite firstn_length. pose proof (upto_le_length delim' None W). fold u in H0. lia. }
  pose proof (cHnxt delim' Hd1 Hd2 Rc) as HnC.
  unfold async_action in H. unfold spec_action. fold W. rewrite Hbody, Hlb.
  set (child := ainit (dgen * astate S) (D0, p3)) in *.
  destruct a as [|size| |dd size].
  - (* ASkip *)
    inversion H; subst od ost p4. exists 0. split; [reflexivity|]. intros _.
    split; [exact HI|]. exists 0. split; [lia|]. split; [lia|]. reflexivity.
  - (* ARead *)
    destruct (aread (dgen * astate S) (child_nxt S nxt cs true F delim') cs true F child size)
      as [out ch] eqn:Er.
    destruct (aread_spec _ _ _ _ _ _ cs F (B + 3) u cs_pos HBFc HnC child size out ch HIc Er)
      as [Hsp HIch].
    rewrite Hac in Hsp. inversion H; subst od ost p4.
    unfold sp_read in *. cbn [fst]. injection Hsp as Hout Hach.
    pose proof (lim_le size (firstn u W)) as Hlim. rewrite Hlb in Hlim.
    exists (length out). split; [rewrite Hout; reflexivity|]. intros _.
    assert (Hk : length out = lim size (firstn u W)).
    { rewrite Hout, firstn_length, Hlb. lia. }
    rewrite Hk.
    apply (child_after delim' Rc W u ch _ eq_refl HIch Hlim Hach).
  - (* AGetData *)
    remember (Datatypes.S (max_buffer c)) as m eqn:Hm. clear Hm.
    destruct (aread (dgen * astate S) (child_nxt S nxt cs true F delim') cs true F child
                    (Some m)) as [out ch] eqn:Er.
    destruct (aread_spec _ _ _ _ _ _ cs F (B + 3) u cs_pos HBFc HnC child _ out ch HIc Er)
      as [Hsp HIch].
    rewrite Hac in Hsp. unfold sp_read, lim in Hsp. injection Hsp as Hout Hach.
    assert (Hout' : out = firstn m (firstn u W)) by (rewrite Hout; apply firstn_min_len).
    rewrite <- Hout'.
    destruct (m <=? length out).
    + inversion H; subst od ost p4. exists 0. split; [reflexivity|]. intros Hx. discriminate Hx.
    + inversion H; subst od ost p4. exists (length out). split; [reflexivity|]. intros _.
      assert (Hk : length out = Nat.min m (length (firstn u W))).
      { rewrite Hout, firstn_length. lia. }
      rewrite Hk.
      assert (Hle : Nat.min m (length (firstn u W)) <= u) by lia.
      apply (child_after delim' Rc W u ch _ eq_refl HIch Hle Hach).
  - (* AReadUntil *)
    cbn [action_ok] in Hok. destruct (bad_delim_false_gd cs dd Hok) as [Hdd1 Hdd2].
    destruct (aread_until (dgen * astate S) (child_nxt S nxt cs true F delim') cs true F child
                          dd size false) as [r ch] eqn:Er.
    destruct (aread_until_spec _ _ _ _ _ _ cs F (B + 3) u cs_pos HBFc HnC child dd size false
                               r ch HIc Hdd1 Hdd2 Er) as [Hsp HIch].
    rewrite Hac in Hsp. rewrite Hsp.
    assert (Hr : exists out, r = RBytes out /\ out = firstn (upto dd size (firstn u W)) (firstn u W)
                             /\ ProofsAsync.aabs _ (cabs S sabs delim') ch
                                = skipn (upto dd size (firstn u W)) (firstn u W)).
    { cbn [sp_op] in Hsp. rewrite Hok in Hsp. unfold sp_until in Hsp.
      inversion Hsp. eexists. split; [reflexivity|]. split; reflexivity. }
    destruct Hr as (out & -> & Hout & Hach). inversion H; subst od ost p4.
    exists (length out). split; [reflexivity|]. intros _.
    pose proof (upto_le_length dd size (firstn u W)) as Hle. rewrite Hlb in Hle.
    assert (Hk : length out = upto dd size (firstn u W)).
    { rewrite Hout, firstn_length, Hlb. lia. }
    rewrite Hk.
    apply (child_after delim' Rc W u ch _ eq_refl HIch Hle Hach).
Qed.

(* ---- one iteration of the cursor-level loop, with the action factored out *)
Lemma parse_loop_S : forall f (prologue : bool) delim seen script rest,
  parse_loop cs c (Datatypes.S f) prologue delim seen script rest =
  match sp_op cs (OPipeUntil delim true) rest with
  | (RBytes _, r1) =>
    let delim' := if prologue then CRLF ++ delim else delim in
    if str_eqb (sp_peek cs (Some 2) r1) DASHDASH then ([], Done)
    else
      match sp_op cs (OReadUntil CRLF (Some 0) true) r1 with
      | (RBytes _, r2) =>
        match sp_op cs (OReadUntil CRLFCRLF (Some (max_headers c)) true) r2 with
        | (RBytes block, r3) =>
          match parse_headers block with
          | None => ([], Failed ECTE)
          | Some hs =>
            if (0 <? max_count c) && (max_count c <? Datatypes.S seen) then ([], Failed ECount) else
            match spec_action delim' (hd ASkip script) r3 with
            | (od, None, k) =>
              let '(ps, st) := parse_loop cs c f false delim' (Datatypes.S seen) (tl script)
                                          (skipn k r3) in
              ({| po_headers := hs; po_data := od |} :: ps, st)
            | (od, Some st, _) => ([{| po_headers := hs; po_data := od |}], st)
            end
          end
        | (RDelimErr _, _) => ([], Failed EHeaders)
        | _ => ([], Crash)
        end
      | (RDelimErr _, _) => ([], Failed EStructure)
      | _ => ([], Crash)
      end
  | (RDelimErr _, _) => ([], Failed EStructure)
  | _ => ([], Crash)
  end.
Proof.
  intros f prologue delim seen script rest. cbn [parse_loop].
  destruct (sp_op cs (OPipeUntil delim true) rest) as [[w|w|l|] r1]; try reflexivity.
  cbv zeta. destruct (str_eqb (sp_peek cs (Some 2) r1) DASHDASH); [reflexivity|].
  destruct (sp_op cs (OReadUntil CRLF (Some 0) true) r1) as [[w2|w2|l2|] r2]; try reflexivity.
  destruct (sp_op cs (OReadUntil CRLFCRLF (Some (max_headers c)) true) r2) as [[block|w3|l3|] r3];
    try reflexivity.
  destruct (parse_headers block) as [hs|]; [|reflexivity].
  destruct ((0 <? max_count c) && (max_count c <? Datatypes.S seen)); [reflexivity|].
  unfold spec_action. destruct (hd ASkip script) as [|size| |dd size].
  - cbn [skipn]. reflexivity.
  - unfold sp_read. cbn [fst]. reflexivity.
  - destruct (Datatypes.S (max_buffer c) <=? _); reflexivity.
  - destruct (sp_op cs (OReadUntil dd size false) _) as [[out|w4|l4|] r4]; reflexivity.
Qed.

(* GOAL 2: the parser on the async reader is the parser on the cursor *)
Theorem aparse_loop_refines : forall fuel (prologue : bool) delim seen script st,
  AInv st -> bad_delim cs delim = false ->
  (prologue = true -> bad_delim cs (CRLF ++ delim) = false) ->
  script_ok cs script = true -> length (aabs st) < fuel ->
  aparse_loop S nxt cs F c fuel prologue delim seen script st
  = parse_loop cs c fuel prologue delim seen script (aabs st).
Proof.
  induction fuel as [|f IH]; intros prologue delim seen script st HI Hbd Hbd' Hsc Hlen; [lia|].
  rewrite parse_loop_S. cbn [aparse_loop].
  destruct (bad_delim_false_gd cs delim Hbd) as [Hd1 Hd2].
  (* pipe_until(delimiter, consume) *)
  destruct (apipe_until S nxt cs true F st delim true) as [r p1] eqn:E1.
  destruct (apipe_until_spec S nxt sabs smeas SP SD cs F B T cs_pos HBF Hnxt st delim true r p1
              HI Hd1 Hd2 E1) as [Hs1 HI1].
  rewrite Hs1. destruct r as [w|w|l|]; try reflexivity.
  pose proof (sp_pipe_until_shrinks cs delim _ _ _ Hbd Hs1) as Hlen1.
  cbv zeta. set (delim' := if prologue then CRLF ++ delim else delim).
  assert (Hbdd : bad_delim cs delim' = false).
  { unfold delim'. destruct prologue; [apply Hbd'; reflexivity|exact Hbd]. }
  destruct (bad_delim_false_gd cs delim' Hbdd) as [Hdd1 Hdd2].
  (* peek(2) *)
  destruct (apeek S nxt cs F p1 (Some 2)) as [pk p1a] eqn:E2.
  destruct (apeek_spec S nxt sabs smeas SP SD cs F B T cs_pos HBF Hnxt p1 (Some 2) pk p1a HI1 E2)
    as (Hpk & Ha1a & HI1a).
  rewrite Hpk. destruct (str_eqb (sp_peek cs (Some 2) (aabs p1)) DASHDASH); [reflexivity|].
  (* read_until(CRLF, 0, consume) *)
  pose proof (bad_delim_CRLF cs Hcs4) as HbC.
  destruct (bad_delim_false_gd cs CRLF HbC) as [HC1 HC2].
  destruct (aread_until S nxt cs true F p1a CRLF (Some 0) true) as [r2 p2] eqn:E3.
  destruct (aread_until_spec S nxt sabs smeas SP SD cs F B T cs_pos HBF Hnxt p1a CRLF (Some 0) true
              r2 p2 HI1a HC1 HC2 E3) as [Hs3 HI2].
  rewrite Ha1a in Hs3. rewrite Hs3.
  assert (Hlen2 : length (aabs p2) <= length (aabs p1)).
  { eapply (sp_op_len cs (OReadUntil CRLF (Some 0) true)); [|exact Hs3].
    cbn [async_op]. rewrite HbC. reflexivity. }
  destruct r2 as [w2|w2|l2|]; try reflexivity.
  (* read_until(CRLF CRLF, max_headers, consume) *)
  pose proof (bad_delim_CRLFCRLF cs Hcs4) as HbCC.
  destruct (bad_delim_false_gd cs CRLFCRLF HbCC) as [HCC1 HCC2].
  destruct (aread_until S nxt cs true F p2 CRLFCRLF (Some (max_headers c)) true) as [r3 p3] eqn:E4.
  destruct (aread_until_spec S nxt sabs smeas SP SD cs F B T cs_pos HBF Hnxt p2 CRLFCRLF
              (Some (max_headers c)) true r3 p3 HI2 HCC1 HCC2 E4) as [Hs4 HI3].
  rewrite Hs4.
  assert (Hlen3 : length (aabs p3) <= length (aabs p2)).
  { eapply (sp_op_len cs (OReadUntil CRLFCRLF (Some (max_headers c)) true)); [|exact Hs4].
    cbn [async_op]. rewrite HbCC. reflexivity. }
  destruct r3 as [block|w3|l3|]; try reflexivity.
  destruct (parse_headers block) as [hs|]; [|reflexivity].
  destruct ((0 <? max_count c) && (max_count c <? Datatypes.S seen)); [reflexivity|].
  (* the application's action on the part stream *)
  assert (Hok : action_ok (hd ASkip script)).
  { destruct (hd ASkip script) as [|size| |dd size] eqn:Eh; try exact I.
    cbn [action_ok]. exact (script_ok_hd cs script dd size Hsc Eh). }
  destruct (async_action S nxt cs F c delim' (hd ASkip script) p3) as [[od ost] p4] eqn:Ea.
  destruct (async_action_spec delim' _ p3 od ost p4 Hdd1 Hdd2 Hok HI3 Ea) as (k & Hsa & Hpost).
  rewrite Hsa. destruct ost as [stp|]; [reflexivity|].
  destruct (Hpost eq_refl) as (HI4 & t & Hkt & Htu & Ha4).
  assert (Hlen4 : length (aabs p4) <= length (aabs p3)).
  { rewrite Ha4, skipn_length. lia. }
  rewrite (IH false delim' (Datatypes.S seen) (tl script) p4 HI4 Hbdd).
  - rewrite Ha4. rewrite (parse_loop_skip cs c f delim' _ _ (aabs p3) k t Hdd1 Hdd2 Hkt Htu).
    reflexivity.
  - intros Hx. discriminate Hx.
  - apply script_ok_tl. exact Hsc.
  - lia.
Qed.

End Generic.

(* ================================================================== 3. the top-level source *)
(* GOAL 3: for every way the transport chunks the body *)
Theorem multipart_chunking_independent_async : forall cs F c b script chunks,
  4 <= cs -> 1 <= length b -> length b + 4 <= cs -> length chunks + 6 <= F ->
  script_ok cs script = true ->
  parse_form_async cs F c b script chunks = parse_form cs c b script (concat chunks).
Proof.
  intros cs F c b script chunks Hcs Hb1 Hb2 HF Hsc. unfold parse_form_async, parse_form.
  assert (HBF3 : (F - 3) + 3 <= F) by lia.
  pose proof (ainit_AInv chunks (F - 3)) as HI0.
  change (concat chunks) with (aabs (list bytes) (@concat N) (ainit (list bytes) chunks)) at 2.
  apply (aparse_loop_refines (list bytes) chunks_next (@concat N) (@length bytes) TrueP TrueP
           cs F (F - 3) (length (concat chunks)) Hcs HBF3 (Hnxt_total _ _ _ _ chunks_next_good) c).
  - apply HI0. lia.
  - apply gd_bad_delim; unfold DASHDASH; rewrite app_length; cbn [length]; lia.
  - intros _. apply gd_bad_delim; unfold DASHDASH; rewrite !app_length; cbn; lia.
  - exact Hsc.
  - change (aabs (list bytes) (@concat N) (ainit (list bytes) chunks)) with (concat chunks). lia.
Qed.

(* GOAL 4: parsing through the async buffered reader yields exactly the encoded parts / the
   limit errors, for every chunking of an encoder-produced body *)
Corollary multipart_roundtrip_async : forall cs F c b pre epi fin ps script chunks,
  wf_form cs b pre ps = true -> concat chunks = encode_form ps b pre epi fin ->
  length chunks + 6 <= F -> script_ok cs script = true ->
  parse_form_async cs F c b script chunks = expected_run cs c 0 ps script.
Proof.
  intros cs F c b pre epi fin ps script chunks Hwf Hbody HF Hsc.
  pose proof Hwf as Hwf'. unfold wf_form in Hwf'.
  apply andb_true_iff in Hwf' as [Hwf' _]. apply andb_true_iff in Hwf' as [Hwf' _].
  apply andb_true_iff in Hwf' as [Hwf' H4]. apply andb_true_iff in Hwf' as [Hb1 Hb2].
  apply Nat.leb_le in Hb1, Hb2, H4.
  rewrite (multipart_chunking_independent_async cs F c b script chunks H4 Hb1 Hb2 HF Hsc).
  rewrite Hbody. apply roundtrip_any_script. exact Hwf.
Qed.

(* ================================================================== 4. why [script_ok] *)
(* part.stream.read_until(b'', 0): the async reader returns b'' (size <= 0 returns before the
   _iter_delimited generator, which validates the delimiter, is ever started), the
   cursor-level parser (and the sync reader) report the ValueError.  For every other size the
   two agree on a bad delimiter (both Crash); the hypothesis is only needed for size = 0. *)
Example script_ok_needed :
  let b : bytes := [88]%N in
  let p1 := {| p_headers := [([65]%N, [98]%N)]; p_content := [104; 101; 108; 108; 111]%N |} in
  let body := encode_form [p1] b [] [] false in
  let c0 := {| max_count := 0; max_headers := 100; max_buffer := 100 |} in
  let script := [AReadUntil [] (Some 0)] in
  parse_form_async 8 40 c0 b script [body] = ([{| po_headers := []; po_data := Some [] |}], Done)
  /\ parse_form 8 c0 b script body = ([{| po_headers := []; po_data := None |}], Crash).
Proof. vm_compute. split; reflexivity. Qed.
